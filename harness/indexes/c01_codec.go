//go:build verif

package indexes

import (
	"bytes"
	"errors"

	"github.com/gagliardetto/solana-go"
	"github.com/ipfs/go-cid"
	"github.com/rpcpool/yellowstone-faithful/compactindexsized"
)

func c01Cid(i int) cid.Cid {
	b := []byte{0x01, 0x71, 0x12, 0x20}
	for j := 0; j < 32; j++ {
		b = append(b, byte(0x40+7*i+j))
	}
	c, err := cid.Cast(b)
	verifAssert(err == nil, "C01.codec: harness CID does not parse")
	return c
}

// Recorder standing in for the hash index (cut; the index itself is property C04): Insert stores
// the pair, Lookup returns the value stored under an equal key.
type c01KV struct{ key, value []byte }

var c01Inserted []c01KV

func c01Model_BuilderInsert(b *compactindexsized.Builder, key []byte, value []byte) error {
	c01Inserted = append(c01Inserted, c01KV{append([]byte{}, key...), append([]byte{}, value...)})
	return nil
}

func c01Model_DBLookup(db *compactindexsized.DB, key []byte) ([]byte, error) {
	for _, kv := range c01Inserted {
		if len(kv.key) == len(key) && bytes.Equal(kv.key, key) {
			return append([]byte{}, kv.value...), nil
		}
	}
	if compactindexsized.ErrNotFound == nil {
		compactindexsized.ErrNotFound = errors.New("not found") // library global (package is not a source root)
	}
	return nil, compactindexsized.ErrNotFound
}

// C01.codec (cid → offset,size) — for every 64-bit offset and size the real writer either
// rejects the pair or hands the index a 9-byte value from which the real reader decodes exactly
// (offset, size); it rejects only pairs that do not fit 48/24 bits.
func VerifC01CodecOffsetSize() {
	c := c01Cid(0)
	off, size := verifU64("offset"), verifU64("size")
	w := &CidToOffsetAndSize_Writer{}
	err := w.Put(c, off, size)
	fits := off <= MaxUint48 && size <= MaxUint24
	if err != nil {
		verifAssert(!fits, "C01.codec: Put rejects an offset/size that fits 48/24 bits")
		verifAssert(len(c01Inserted) == 0, "C01.codec: Put reported an error but inserted a value")
		verifReach("end")
		return
	}
	verifAssert(fits, "C01.codec: Put accepts an offset/size that the 9-byte value cannot represent")
	verifAssert(len(c01Inserted) == 1, "C01.codec: Put did not insert exactly one pair")
	verifAssert(bytes.Equal(c01Inserted[0].key, c.Bytes()), "C01.codec: the index key is not the CID's bytes")
	verifAssert(len(c01Inserted[0].value) == IndexValueSize_CidToOffsetAndSize, "C01.codec: value is not 9 bytes")
	r := &CidToOffsetAndSize_Reader{}
	got, err := r.Get(c)
	verifAssert(err == nil && got != nil, "C01.codec: Get failed for a CID that was Put")
	verifAssert(got.Offset == off && got.Size == size, "C01.codec: Get returns an offset/size different from what was Put")
	_, err = r.Get(c01Cid(1))
	verifAssert(err != nil, "C01.codec: Get of a CID that was never Put succeeded")
	verifReach("end")
}

// C01.codec (OffsetAndSize.Bytes/FromBytes, used by the server's offset cache): every valid
// pair round-trips.
func VerifC01CodecOAS() {
	oas := OffsetAndSize{Offset: verifU64("offset"), Size: verifU64("size")}
	verifAssume(oas.IsValid())
	b := oas.Bytes()
	verifAssert(len(b) == IndexValueSize_CidToOffsetAndSize, "C01.codec: OffsetAndSize.Bytes is not 9 bytes")
	var back OffsetAndSize
	verifAssert(back.FromBytes(b) == nil, "C01.codec: FromBytes rejects what Bytes produced")
	verifAssert(back == oas, "C01.codec: OffsetAndSize does not round-trip")
	verifAssert(back.FromBytes(b[:8]) != nil, "C01.codec: FromBytes accepts a short value")
	// IsValid is exactly representability
	any := OffsetAndSize{Offset: verifU64("o2"), Size: verifU64("s2")}
	verifAssert(any.IsValid() == (any.Offset < 1<<48 && any.Size < 1<<24), "C01.codec: IsValid is not the 48/24-bit representability test")
	verifReach("end")
}

// C01.codec (slot → cid, sig → cid) — the real writers hand the index the 8-byte little-endian
// slot / the 64 signature bytes as key and the CID bytes as value; the real readers return the
// CID that was Put under an equal key and an error for a key never Put.
func VerifC01CodecSlotSig() {
	c := c01Cid(0)
	slot := verifU64("slot")
	sw := &SlotToCid_Writer{}
	verifAssert(sw.Put(slot, c) == nil, "C01.codec: SlotToCid Put failed")
	verifAssert(len(c01Inserted) == 1 && len(c01Inserted[0].key) == 8, "C01.codec: slot key is not 8 bytes")
	verifAssert(BtoUint64(c01Inserted[0].key) == slot, "C01.codec: slot key does not decode to the slot")
	verifAssert(len(c01Inserted[0].value) == IndexValueSize_SlotToCid, "C01.codec: CID value is not 36 bytes")
	sr := &SlotToCid_Reader{}
	got, err := sr.Get(slot)
	verifAssert(err == nil && got.Equals(c), "C01.codec: SlotToCid Get does not return the CID that was Put")
	other := verifU64("otherSlot")
	if other != slot {
		_, err = sr.Get(other)
		verifAssert(err != nil, "C01.codec: SlotToCid Get succeeded for a slot never Put")
	}
	c01Inserted = nil

	var sig solana.Signature
	copy(sig[:], verifBytes("sig", 64))
	c2 := c01Cid(1)
	gw := &SigToCid_Writer{}
	verifAssert(gw.Put(sig, c2) == nil, "C01.codec: SigToCid Put failed")
	verifAssert(len(c01Inserted) == 1 && bytes.Equal(c01Inserted[0].key, sig[:]), "C01.codec: signature key is not the 64 signature bytes")
	gr := &SigToCid_Reader{}
	if !sig.IsZero() {
		got, err = gr.Get(sig)
		verifAssert(err == nil && got.Equals(c2), "C01.codec: SigToCid Get does not return the CID that was Put")
	}
	verifReach("end")
}
