//go:build verif

package indexes

import (
	"github.com/ipfs/go-cid"
)

func VerifC01Debug() {
	c, err := cid.Decode("bafkqaaa")
	if err != nil {
		verifTrace("err", err.Error())
	}
	verifTrace("cid", c.String())
	verifReach("end")
}
