//go:build verif

package indexes

import (
	"bytes"
	"encoding/binary"
	"errors"

	"github.com/gagliardetto/solana-go"
	"github.com/ipfs/go-cid"
	"github.com/rpcpool/yellowstone-faithful/compactindexsized"
	"github.com/rpcpool/yellowstone-faithful/indexmeta"
)

// C12.indexes.open — the PUBLIC index readers end to end on a third-party file:
// OpenWithReader_SlotToCid / _SigToCid / _CidToOffsetAndSize / _PubkeyToOffsetAndSize (format
// dispatch on the magic, compactindexsized.Open or deprecated compactindex36.Open, default
// metadata validation) followed by Get, Meta, Prefetch, Close. Error or value; no panic.
//
// File: header with structure-aware metadata (each default key present / missing, kind right or
// of another index, network valid or not, epoch 8 symbolic bytes or 7), value size 36, 9 or 1,
// one bucket (NumBuckets = 1) whose header fields NumEntries / HashLen are symbolic, and E
// symbolic entry bytes; or the deprecated 32-byte header + bucket + entries; or a foreign magic.
// Cuts: xxhash (Sum64 = constant, EntryHash64 = arbitrary 64-bit value), cid.Cast and
// cid.CidFromBytes accept or reject any non-empty input.

func c12Model_cidFromBytes(data []byte) (int, cid.Cid, error) {
	if len(data) == 0 || verifChoice("cidFromBytes", 2) == 0 {
		return 0, cid.Undef, errors.New("invalid cid (model)")
	}
	return len(data), verifC12Cid(), nil
}
func c12Model_cidCast(data []byte) (cid.Cid, error) {
	if len(data) == 0 || verifChoice("cidCast", 2) == 0 {
		return cid.Undef, errors.New("invalid cid (model)")
	}
	return verifC12Cid(), nil
}

// verifC12Cid: under symgo an engine intrinsic returning a defined CID; natively cid.Undef
func verifC12Cid() cid.Cid { return cid.Cid{} }

func c12Model_xxhashSum64(b []byte) uint64                  { return 5 }
func c12Model_entryHash64(prefix uint32, key []byte) uint64 { return verifU64("entryhash") }

type verifC12File struct{ *bytes.Reader }

func (verifC12File) Close() error { return nil }

func VerifC12IndexesOpen() {
	verifAllocLimit(1 << 20)
	kinds := [][]byte{Kind_SlotToCid, Kind_SigToCid, Kind_CidToOffsetAndSize, Kind_PubkeyToOffsetAndSize}
	which := verifChoice("reader", 4)
	var file []byte
	format := verifChoice("format", 3) // 0 current, 1 deprecated (old magic), 2 foreign magic
	vsCands := []uint64{36, 9, 1}
	vs := vsCands[verifChoice("valuesize", verifParam("vsizes", len(vsCands)))]
	entries := verifParam("entries", 2)
	metaShape := 0
	switch format {
	case 0:
		meta := &indexmeta.Meta{}
		shape := verifChoice("meta", verifParam("metashapes", 6))
		metaShape = shape // 0 well-formed, 1 kind of another index, 2 kind missing, 3 invalid network, 4 short epoch, 5 network missing
		if shape != 2 {
			k := kinds[which]
			if shape == 1 {
				k = kinds[(which+1)%4]
			}
			meta.Add(indexmeta.MetadataKey_Kind, k)
		}
		el := 8
		if shape == 4 {
			el = 7
		}
		meta.Add(indexmeta.MetadataKey_Epoch, verifBytes("epoch", el))
		meta.Add(indexmeta.MetadataKey_RootCid, verifBytes("rootcid", 3))
		if shape != 5 {
			nw := []byte(NetworkMainnet)
			if shape == 3 {
				nw = []byte("othernet")
			}
			meta.Add(indexmeta.MetadataKey_Network, nw)
		}
		h := compactindexsized.Header{ValueSize: vs, NumBuckets: 1, Metadata: meta}
		file = h.Bytes()
		stride := 3 + int(vs)
		bh := compactindexsized.BucketHeader{HashDomain: verifU32("domain"), NumEntries: verifU32("numEntries"), HashLen: verifU8("hashLen"), FileOffset: uint64(len(file) + 16)}
		var hb [16]byte
		bh.Store(&hb)
		file = append(file, hb[:]...)
		file = append(file, verifBytes("entries", entries*stride)...)
	case 1:
		file = append(file, oldMagic[:]...)
		file = append(file, verifBytes("oldhdr", 24)...) // FileSize, NumBuckets, version, padding
		for i := 21; i < 32; i++ {
			verifAssume(file[i] == 0) // padding must be zero (one fork per byte otherwise)
		}
		verifAssume(binary.LittleEndian.Uint32(file[16:20]) <= 1) // 0 or 1 buckets
		var hb [16]byte
		binary.LittleEndian.PutUint32(hb[0:], verifU32("domain"))
		binary.LittleEndian.PutUint32(hb[4:], verifU32("numEntries"))
		hb[8] = verifU8("hashLen")
		hb[10] = 32 + 16 // FileOffset
		file = append(file, hb[:]...)
		file = append(file, verifBytes("entries", entries*39)...)
	case 2:
		file = append([]byte("notanidx"), verifBytes("rest", 8)...)
	}
	if verifParam("trunc", 1) == 1 && verifChoice("trunc", 2) == 1 {
		file = file[:len(file)/2]
	}
	// a current-format file is accepted only with complete, valid default metadata of the right kind
	mustFail := format == 2 || (format == 0 && metaShape != 0)
	rd := verifC12File{bytes.NewReader(file)}
	var sig solana.Signature
	sig[0] = 1
	var pk solana.PublicKey
	pk[0] = 1
	switch which {
	case 0:
		r, err := OpenWithReader_SlotToCid(rd)
		if err != nil {
			verifAssert(r == nil, "C12.indexes.open: reader returned together with an error")
			verifReach("open-error")
			break
		}
		verifAssert(!mustFail, "C12.indexes.open: a file with a foreign magic or invalid default metadata was opened")
		verifAssert(r.IsDeprecatedOldVersion() == (format == 1) && (format == 1 || r.Meta() != nil), "C12.indexes.open: wrong format dispatch")
		r.Prefetch(false)
		_, err = r.Get(verifU64("slot"))
		verifC12GetOutcome(err)
		verifAssert(r.Close() == nil, "C12.indexes.open: Close failed")
	case 1:
		r, err := OpenWithReader_SigToCid(rd)
		if err != nil {
			verifAssert(r == nil, "C12.indexes.open: reader returned together with an error")
			verifReach("open-error")
			break
		}
		verifAssert(!mustFail, "C12.indexes.open: a file with a foreign magic or invalid default metadata was opened")
		verifAssert(r.IsDeprecatedOldVersion() == (format == 1) && (format == 1 || r.Meta() != nil), "C12.indexes.open: wrong format dispatch")
		r.Prefetch(false)
		_, err = r.Get(sig)
		verifC12GetOutcome(err)
		_, err = r.Get(solana.Signature{})
		verifAssert(err != nil, "C12.indexes.open: the zero signature was looked up")
		verifAssert(r.Close() == nil, "C12.indexes.open: Close failed")
	case 2:
		r, err := OpenWithReader_CidToOffsetAndSize(rd)
		if err != nil {
			verifAssert(r == nil, "C12.indexes.open: reader returned together with an error")
			verifReach("open-error")
			break
		}
		verifAssert(!mustFail && format == 0 && r.Meta() != nil, "C12.indexes.open: a deprecated or foreign file or one with invalid default metadata was opened as cid-to-offset-and-size")
		_, err = r.Get(cid.Undef)
		verifAssert(err != nil, "C12.indexes.open: the undefined CID was looked up")
		verifReach("get-error")
		verifAssert(r.Close() == nil, "C12.indexes.open: Close failed")
	case 3:
		r, err := OpenWithReader_PubkeyToOffsetAndSize(rd)
		if err != nil {
			verifAssert(r == nil, "C12.indexes.open: reader returned together with an error")
			verifReach("open-error")
			break
		}
		verifAssert(!mustFail && format == 0 && r.Meta() != nil, "C12.indexes.open: a deprecated or foreign file or one with invalid default metadata was opened as pubkey-to-offset-and-size")
		oas, err := r.Get(pk)
		verifC12GetOutcome(err)
		if err == nil {
			verifAssert(oas != nil && oas.IsValid() && vs == 9, "C12.indexes.open: an offset-and-size was decoded from a value that is not 9 bytes wide")
		}
		verifAssert(r.Close() == nil, "C12.indexes.open: Close failed")
	}
	verifReach("end")
}

func verifC12GetOutcome(err error) {
	if err != nil {
		verifReach("get-error")
	} else {
		verifReach("get-ok")
	}
}
