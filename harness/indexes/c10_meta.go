//go:build verif

package indexes

import (
	"bytes"
	"context"
	"os"

	"github.com/ipfs/go-cid"
	"github.com/rpcpool/yellowstone-faithful/compactindexsized"
	"github.com/rpcpool/yellowstone-faithful/indexmeta"
)

// ---------------------------------------------------------------------------------------------
// C10.meta / C10.kind — identity metadata of the four compactindexsized-based index kinds.

var c10Networks = []Network{NetworkMainnet, NetworkTestnet, NetworkDevnet, Network("bogusnet")}

func c10RootBytes(i int) []byte {
	b := []byte{0x01, 0x71, 0x12, 0x20}
	for j := 0; j < 32; j++ {
		b = append(b, byte(0xA0+0x10*i+j%7))
	}
	return b
}

// c10Root returns root CID number i; i == nRoots stands for the undefined CID.
func c10Root(i, nRoots int) cid.Cid {
	if i >= nRoots {
		return cid.Undef
	}
	c, err := cid.Cast(c10RootBytes(i))
	verifAssert(err == nil, "C10.meta: harness CID")
	return c
}

var c10KindOf = [][]byte{Kind_CidToOffsetAndSize, Kind_SlotToCid, Kind_SigToCid, Kind_PubkeyToOffsetAndSize}

// c10Build runs the real writer of kind k (constructor + Seal, no entries) and returns the path of the file.
func c10Build(k int, epoch uint64, root cid.Cid, network Network, tmp, dst string) (string, error) {
	ctx := context.Background()
	switch k {
	case 0:
		w, err := NewWriter_CidToOffsetAndSize(epoch, root, network, tmp, 1)
		if err != nil {
			return "", err
		}
		if err := w.Seal(ctx, dst); err != nil {
			return "", err
		}
		return w.GetFilepath(), w.Close()
	case 1:
		w, err := NewWriter_SlotToCid(epoch, root, network, tmp, 1)
		if err != nil {
			return "", err
		}
		if err := w.Seal(ctx, dst); err != nil {
			return "", err
		}
		return w.GetFilepath(), w.Close()
	case 2:
		w, err := NewWriter_SigToCid(epoch, root, network, tmp, 1)
		if err != nil {
			return "", err
		}
		if err := w.Seal(ctx, dst); err != nil {
			return "", err
		}
		return w.GetFilepath(), w.Close()
	default:
		w, err := NewWriter_PubkeyToOffsetAndSize(epoch, root, network, tmp)
		if err != nil {
			return "", err
		}
		if err := w.Seal(ctx, dst); err != nil {
			return "", err
		}
		return w.GetFilepath(), w.Close()
	}
}

// c10Open opens path with the real reader of kind k and returns its metadata.
func c10Open(k int, path string) (*Metadata, error) {
	switch k {
	case 0:
		r, err := Open_CidToOffsetAndSize(path)
		if err != nil {
			return nil, err
		}
		return r.Meta(), nil
	case 1:
		r, err := Open_SlotToCid(path)
		if err != nil {
			return nil, err
		}
		verifAssert(!r.IsDeprecatedOldVersion(), "C10: current-format file opened as deprecated")
		return r.Meta(), nil
	case 2:
		r, err := Open_SigToCid(path)
		if err != nil {
			return nil, err
		}
		verifAssert(!r.IsDeprecatedOldVersion(), "C10: current-format file opened as deprecated")
		return r.Meta(), nil
	default:
		r, err := Open_PubkeyToOffsetAndSize(path)
		if err != nil {
			return nil, err
		}
		return r.Meta(), nil
	}
}

// VerifC10Meta: a file sealed by the real writer of kind W for (epoch, root CID, network), opened by
// the real reader of kind R: accepted iff R == W, and then epoch, root CID, network and kind are the
// build-time values. Invalid build-time identity (unknown network, undefined root CID) is refused
// by the writer.
func VerifC10Meta() {
	nRoots := verifParam("roots", 2)
	wk := verifChoice("writerKind", 4)
	rk := verifChoice("readerKind", 4)
	epoch := verifU64("epoch")
	ri, ni := 0, 0
	if wk == rk {
		ri = verifChoice("root", nRoots+1)
		ni = verifChoice("network", len(c10Networks))
	}
	root := c10Root(ri, nRoots)
	network := c10Networks[ni]

	path, err := c10Build(wk, epoch, root, network, verifTempPath("tmp"), verifTempPath("dst"))
	if ri >= nRoots || ni == 3 {
		verifAssert(err != nil, "C10.meta: writer accepts an undefined root CID / unknown network")
		verifReach("refused-at-build")
		verifReach("end")
		return
	}
	verifAssert(err == nil, "C10.meta: writer failed on valid identity")

	meta, err := c10Open(rk, path)
	if wk != rk {
		verifAssert(err != nil, "C10.meta: a file built for one role is accepted by the reader of another role")
		verifReach("refused-other-role")
		verifReach("end")
		return
	}
	verifAssert(err == nil && meta != nil, "C10.meta: reader refuses the file its own writer sealed")
	verifAssert(meta.Epoch == epoch, "C10.meta: epoch not read back unchanged")
	verifAssert(meta.RootCid.Equals(root), "C10.meta: root CID not read back unchanged")
	verifAssert(meta.Network == network, "C10.meta: network not read back unchanged")
	verifAssert(bytes.Equal(meta.IndexKind, c10KindOf[wk]), "C10.meta: kind not read back unchanged")
	verifAssert(meta.AssertEpoch(epoch) == nil && meta.AssertRootCid(root) == nil &&
		meta.AssertNetwork(network) == nil && meta.AssertIndexKind(c10KindOf[wk]) == nil, "C10.meta: Assert* helpers disagree")
	// the Assert* helpers refuse other values
	other := verifU64("otherEpoch")
	verifAssume(other != epoch)
	verifAssert(meta.AssertEpoch(other) != nil, "C10.meta: AssertEpoch accepts another epoch")
	verifAssert(meta.AssertRootCid(c10Root((ri+1)%nRoots, nRoots)) != nil || nRoots < 2, "C10.meta: AssertRootCid accepts another root")
	verifAssert(meta.AssertNetwork(c10Networks[(ni+1)%3]) != nil, "C10.meta: AssertNetwork accepts another network")
	verifReach("roundtrip")
	verifReach("end")
}

// VerifC10Kind: the four readers over a file whose header is well formed but whose metadata values
// are arbitrary: kind = arbitrary bytes of the length of any of the four kinds (or one shorter /
// longer than the reader's own), epoch = arbitrary 8 bytes. Accepted => kind bytes equal the
// reader's constant and Meta() reports the recorded epoch / root / network.
func VerifC10Kind() {
	rk := verifChoice("readerKind", 4)
	lens := []int{len(c10KindOf[0]), len(c10KindOf[1]), len(c10KindOf[2]), len(c10KindOf[3]), len(c10KindOf[rk]) - 1, len(c10KindOf[rk]) + 1}
	kl := lens[verifChoice("kindLen", len(lens))]
	kind := verifBytes("kind", kl)
	epochBytes := verifBytes("epochBytes", 8)
	ni := verifChoice("network", len(c10Networks))
	var m indexmeta.Meta
	// entry order as written by setDefaultMetadata, or kind first (order must not matter)
	kindFirst := verifChoice("kindFirst", 2) == 1
	if kindFirst {
		verifAssert(m.Add(indexmeta.MetadataKey_Kind, kind) == nil, "C10.kind: harness")
	}
	verifAssert(m.Add(indexmeta.MetadataKey_Epoch, epochBytes) == nil, "C10.kind: harness")
	verifAssert(m.Add(indexmeta.MetadataKey_RootCid, c10RootBytes(0)) == nil, "C10.kind: harness")
	verifAssert(m.Add(indexmeta.MetadataKey_Network, []byte(c10Networks[ni])) == nil, "C10.kind: harness")
	if !kindFirst {
		verifAssert(m.Add(indexmeta.MetadataKey_Kind, kind) == nil, "C10.kind: harness")
	}
	h := compactindexsized.Header{ValueSize: 9, NumBuckets: 1, Metadata: &m}
	path := verifTempPath("x.index")
	verifMemFile(path, h.Bytes())
	_, err := os.Stat(path)
	verifAssert(err == nil, "C10.kind: harness file")

	meta, err := c10Open(rk, path)
	if err != nil {
		verifReach("refused")
		verifReach("end")
		return
	}
	verifAssert(kl == len(c10KindOf[rk]), "C10.kind: reader accepts a kind value of another length")
	verifAssert(bytes.Equal(kind, c10KindOf[rk]), "C10.kind: reader accepts a file whose kind is not its own")
	verifAssert(ni != 3, "C10.kind: reader accepts an unknown network")
	var e uint64
	for i := 7; i >= 0; i-- {
		e = e<<8 | uint64(epochBytes[i])
	}
	verifAssert(meta.Epoch == e, "C10.kind: Meta().Epoch is not the recorded epoch")
	verifAssert(meta.RootCid.Equals(c10Root(0, 1)), "C10.kind: Meta().RootCid is not the recorded root CID")
	verifAssert(meta.Network == c10Networks[ni], "C10.kind: Meta().Network is not the recorded network")
	verifReach("accepted")
	verifReach("end")
}
