//go:build verif

package indexes

import (
	"errors"

	"github.com/ipfs/go-cid"
	"github.com/rpcpool/yellowstone-faithful/compactindexsized"
	"github.com/rpcpool/yellowstone-faithful/indexmeta"
)

// model of cid.Cast (cut): any input is rejected or accepted (library code outside the claim)
func c12Model_cidCast(data []byte) (cid.Cid, error) {
	if len(data) == 0 || verifChoice("cidCast", 2) == 0 {
		return cid.Undef, errors.New("invalid cid (model)")
	}
	return verifC12Cid(), nil
}

// C12.indexes.values — decoders of index values and index metadata as stored in a third-party
// file: OffsetAndSize.FromBytes / OffsetAndSizeSliceFromBytes (and through them
// BtoUint48/BtoUint24/cloneAndPad) on every length 0..20, getDefaultMetadata (and through it
// BtoUint64, cid.Cast) on metadata values of every length 0..9.
func VerifC12IndexesValues() {
	switch verifChoice("what", 3) {
	case 0:
		L := verifChoice("len", 12)
		buf := verifBytes("buf", L)
		var oas OffsetAndSize
		err := oas.FromBytes(buf)
		if L != 9 {
			verifAssert(err != nil, "C12.indexes.values: FromBytes accepted a value that is not 9 bytes long")
		} else {
			verifAssert(err == nil, "C12.indexes.values: FromBytes rejected a 9-byte value")
			var off, sz uint64
			for i := 5; i >= 0; i-- {
				off = off<<8 | uint64(buf[i])
			}
			for i := 8; i >= 6; i-- {
				sz = sz<<8 | uint64(buf[i])
			}
			verifAssert(oas.Offset == off && oas.Size == sz, "C12.indexes.values: FromBytes is not (uint48 LE, uint24 LE)")
			verifAssert(oas.IsValid(), "C12.indexes.values: decoded value out of the 48/24-bit range")
		}
	case 1:
		L := verifChoice("len", 21)
		buf := verifBytes("buf", L)
		out, err := OffsetAndSizeSliceFromBytes(buf)
		if L%9 != 0 {
			verifAssert(err != nil && out == nil, "C12.indexes.values: SliceFromBytes accepted a length that is not a multiple of 9")
		} else {
			verifAssert(err == nil && len(out) == L/9, "C12.indexes.values: SliceFromBytes returned the wrong number of values")
		}
	case 2:
		// metadata as Header.Load leaves it: arbitrary values under the four default keys
		meta := &indexmeta.Meta{}
		present := verifChoice("present", 5) // 4 = all keys present, k<4 = key k missing
		lens := [4]int{}
		keys := [4][]byte{indexmeta.MetadataKey_Kind, indexmeta.MetadataKey_Epoch, indexmeta.MetadataKey_RootCid, indexmeta.MetadataKey_Network}
		for k := 0; k < 4; k++ {
			if k == present {
				continue
			}
			lens[k] = 3
			if k == 1 {
				lens[k] = verifChoice("epochlen", 10)
			}
			if k == 2 {
				lens[k] = verifChoice("cidlen", 2) * 3
			}
			val := []byte("abc") // kind and network become Go strings: concrete
			if k == 1 || k == 2 {
				val = verifBytes("val", lens[k])
			}
			meta.KeyVals = append(meta.KeyVals, indexmeta.KV{Key: keys[k], Value: val})
		}
		db := &compactindexsized.DB{Header: &compactindexsized.Header{ValueSize: 9, NumBuckets: 1, Metadata: meta}}
		// known defect: BtoUint64 on a stored epoch shorter than 8 bytes
		verifKnownFinding("C12-indexes-epoch-short", present != 1 && present != 0 && lens[1] < 8)
		md, err := getDefaultMetadata(db)
		if err != nil {
			verifAssert(md == nil, "C12.indexes.values: getDefaultMetadata returned both metadata and an error")
			verifReach("meta-error")
		} else {
			verifAssert(present == 4 && md != nil && len(md.IndexKind) == 3 && len(md.Network) == 3, "C12.indexes.values: getDefaultMetadata accepted incomplete metadata")
			verifReach("meta-ok")
		}
	}
	verifReach("end")
}

// verifC12Cid: under symgo an engine intrinsic returning a defined CID; natively cid.Undef
func verifC12Cid() cid.Cid { return cid.Cid{} }
