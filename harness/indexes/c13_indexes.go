//go:build verif

package indexes

import (
	"errors"
	"io"

	"github.com/gagliardetto/solana-go"
	"github.com/ipfs/go-cid"
	"github.com/rpcpool/yellowstone-faithful/compactindexsized"
	"github.com/rpcpool/yellowstone-faithful/indexmeta"
)

// C13.indexes — the four current compact-index kinds through the API the server uses
// (OpenWithReader_CidToOffsetAndSize / _SlotToCid / _SigToCid / _PubkeyToOffsetAndSize and their
// Get): a well-formed index with the kind's metadata and value size, cut at a symbolic byte
// offset: open fails, or Get of a stored key returns the stored value, or fails with an error
// that is not compactindexsized.ErrNotFound.
//
// Storage model verifC13File as in compactindexsized/c13_cidx.go. Cut: xxhash (EntryHash64,
// Header.BucketHash via hook variables) = table indexed by the byte sum of the key.

type verifC13File struct {
	data []byte
	t    int64
	mmap bool
}

var verifC13ErrOffset = errors.New("mmap: invalid ReadAt offset")

func (f *verifC13File) ReadAt(p []byte, off int64) (int, error) {
	if off < 0 {
		return 0, verifC13ErrOffset
	}
	if off+int64(len(p)) <= f.t {
		copy(p, f.data[off:])
		return len(p), nil
	}
	if f.mmap && off > f.t {
		return 0, verifC13ErrOffset
	}
	avail := f.t - off
	n := int64(verifIteU64(avail > 0, uint64(avail), 0))
	for i := range p {
		if j := off + int64(i); j < int64(len(f.data)) {
			p[i] = byte(verifIteU64(int64(i) < n, uint64(f.data[j]), uint64(p[i])))
		}
	}
	return int(n), io.EOF
}

func (f *verifC13File) Close() error { return nil }

var verifC13Hash [256]uint64

func verifC13KeyID(key []byte) byte {
	var s byte
	for _, b := range key {
		s += b
	}
	return s
}

func verifC13Cid(i int) cid.Cid {
	b := []byte{0x01, 0x71, 0x12, 0x20}
	for j := 0; j < 32; j++ {
		b = append(b, byte(0x21+5*i+j))
	}
	c, err := cid.Cast(b)
	verifAssert(err == nil, "C13.indexes: harness CID does not parse")
	return c
}

// verifC13Image: header with the kind's metadata, one bucket, two entries (keys kA, kB with
// hash(kA) < hash(kB); eytzinger order of two sorted entries = [larger, smaller]).
func verifC13Image(kind []byte, valueSize int, kA, kB, vA, vB []byte) []byte {
	meta := &indexmeta.Meta{}
	meta.Add(indexmeta.MetadataKey_Epoch, Uint64tob(7))
	meta.Add(indexmeta.MetadataKey_RootCid, verifC13Cid(9).Bytes())
	meta.Add(indexmeta.MetadataKey_Network, []byte(NetworkMainnet))
	meta.Add(indexmeta.MetadataKey_Kind, kind)
	h := &compactindexsized.Header{ValueSize: uint64(valueSize), NumBuckets: 1, Metadata: meta}
	img := h.Bytes()
	const mask = uint64(1)<<24 - 1
	hA, hB := verifU64("hashA"), verifU64("hashB")
	verifAssume(hA&mask < hB&mask)
	verifAssert(verifC13KeyID(kA) != verifC13KeyID(kB), "C13.indexes: harness keys collide in the hash table model")
	verifC13Hash[verifC13KeyID(kA)], verifC13Hash[verifC13KeyID(kB)] = hA, hB
	var hb [16]byte
	bh := compactindexsized.BucketHeader{HashDomain: 3, NumEntries: 2, HashLen: 3, FileOffset: uint64(len(img) + 16)}
	bh.Store(&hb)
	img = append(img, hb[:]...)
	entry := func(hash uint64, v []byte) {
		x := hash & mask
		img = append(img, byte(x), byte(x>>8), byte(x>>16))
		img = append(img, v...)
	}
	entry(hB, vB)
	entry(hA, vA)
	return img
}

func VerifC13Indexes() {
	compactindexsized.VerifEntryHash = func(prefix uint32, key []byte) uint64 { return verifC13Hash[verifC13KeyID(key)] }
	compactindexsized.VerifBucketHash = func(key []byte) uint { return 0 }
	kind := verifChoice("kind", 4)
	which := verifChoice("key", 2)
	T64 := int64(verifU16("T"))
	mm := verifChoice("reader", 2) == 1
	cut := func(img []byte) (*verifC13File, *verifC13File) {
		verifAssume(T64 < int64(len(img)))
		return &verifC13File{data: img, t: int64(len(img))}, &verifC13File{data: img, t: T64, mmap: mm}
	}
	notFound := func(err error) bool {
		return errors.Is(err, compactindexsized.ErrNotFound) || compactindexsized.IsNotFound(err)
	}
	switch kind {
	case 0: // cid-to-offset-and-size
		keys := []cid.Cid{verifC13Cid(1), verifC13Cid(2)}
		vals := []OffsetAndSize{{Offset: verifU64("off") & MaxUint48, Size: uint64(verifU32("size")) & MaxUint24}, {Offset: 77, Size: 5}}
		img := verifC13Image(Kind_CidToOffsetAndSize, IndexValueSize_CidToOffsetAndSize, keys[0].Bytes(), keys[1].Bytes(), vals[0].Bytes(), vals[1].Bytes())
		ff, fc := cut(img)
		full, err := OpenWithReader_CidToOffsetAndSize(ff)
		verifAssert(err == nil, "C13.indexes: complete cid-to-offset-and-size index does not open")
		want, err := full.Get(keys[which])
		verifAssert(err == nil && *want == vals[which], "C13.indexes: complete index does not answer a stored CID")
		r, err := OpenWithReader_CidToOffsetAndSize(fc)
		if err != nil {
			verifReach("open-error")
			break
		}
		got, err := r.Get(keys[which])
		if err != nil {
			verifAssert(!notFound(err), "C13.indexes: truncated cid-to-offset-and-size index answers a stored CID with 'not found'")
			verifReach("get-error")
		} else {
			verifAssert(*got == *want, "C13.indexes: truncated cid-to-offset-and-size index answers with a different offset/size")
			verifReach("get-same")
		}
	case 1: // slot-to-cid
		keys := []uint64{7*432000 + 5, 7*432000 + 300}
		vals := []cid.Cid{verifC13Cid(3), verifC13Cid(4)}
		img := verifC13Image(Kind_SlotToCid, IndexValueSize_SlotToCid, Uint64tob(keys[0]), Uint64tob(keys[1]), vals[0].Bytes(), vals[1].Bytes())
		ff, fc := cut(img)
		full, err := OpenWithReader_SlotToCid(ff)
		verifAssert(err == nil, "C13.indexes: complete slot-to-cid index does not open")
		want, err := full.Get(keys[which])
		verifAssert(err == nil && want.Equals(vals[which]), "C13.indexes: complete index does not answer a stored slot")
		r, err := OpenWithReader_SlotToCid(fc)
		if err != nil {
			verifReach("open-error")
			break
		}
		got, err := r.Get(keys[which])
		if err != nil {
			verifAssert(!notFound(err), "C13.indexes: truncated slot-to-cid index answers a stored slot with 'not found'")
			verifReach("get-error")
		} else {
			verifAssert(got.Equals(want), "C13.indexes: truncated slot-to-cid index answers with a different CID")
			verifReach("get-same")
		}
	case 2: // sig-to-cid
		var sA, sB solana.Signature
		sA[0], sA[63] = 1, 9
		sB[0], sB[63] = 2, 11
		keys := []solana.Signature{sA, sB}
		vals := []cid.Cid{verifC13Cid(5), verifC13Cid(6)}
		img := verifC13Image(Kind_SigToCid, IndexValueSize_SigToCid, sA[:], sB[:], vals[0].Bytes(), vals[1].Bytes())
		ff, fc := cut(img)
		full, err := OpenWithReader_SigToCid(ff)
		verifAssert(err == nil, "C13.indexes: complete sig-to-cid index does not open")
		want, err := full.Get(keys[which])
		verifAssert(err == nil && want.Equals(vals[which]), "C13.indexes: complete index does not answer a stored signature")
		r, err := OpenWithReader_SigToCid(fc)
		if err != nil {
			verifReach("open-error")
			break
		}
		got, err := r.Get(keys[which])
		if err != nil {
			verifAssert(!notFound(err), "C13.indexes: truncated sig-to-cid index answers a stored signature with 'not found'")
			verifReach("get-error")
		} else {
			verifAssert(got.Equals(want), "C13.indexes: truncated sig-to-cid index answers with a different CID")
			verifReach("get-same")
		}
	default: // pubkey-to-offset-and-size
		var pA, pB solana.PublicKey
		pA[0], pA[31] = 1, 9
		pB[0], pB[31] = 2, 11
		keys := []solana.PublicKey{pA, pB}
		vals := []OffsetAndSize{{Offset: verifU64("off") & MaxUint48, Size: uint64(verifU32("size")) & MaxUint24}, {Offset: 77, Size: 5}}
		img := verifC13Image(Kind_PubkeyToOffsetAndSize, IndexValueSize_PubkeyToOffsetAndSize, pA[:], pB[:], vals[0].Bytes(), vals[1].Bytes())
		ff, fc := cut(img)
		full, err := OpenWithReader_PubkeyToOffsetAndSize(ff)
		verifAssert(err == nil, "C13.indexes: complete pubkey-to-offset-and-size index does not open")
		want, err := full.Get(keys[which])
		verifAssert(err == nil && *want == vals[which], "C13.indexes: complete index does not answer a stored address")
		r, err := OpenWithReader_PubkeyToOffsetAndSize(fc)
		if err != nil {
			verifReach("open-error")
			break
		}
		got, err := r.Get(keys[which])
		if err != nil {
			verifAssert(!notFound(err), "C13.indexes: truncated pubkey-to-offset-and-size index answers a stored address with 'not found'")
			verifReach("get-error")
		} else {
			verifAssert(*got == *want, "C13.indexes: truncated pubkey-to-offset-and-size index answers with a different offset/size")
			verifReach("get-same")
		}
	}
	verifReach("end")
}
