//go:build verif

package indexmeta

import "bytes"

type verifC04Pair struct{ k, v []byte }

func verifC04Clone(b []byte) []byte { return append([]byte{}, b...) }

// C04.meta — the metadata container carried in every compact-index header ("metadata of any
// allowed shape"), against an independent reference model (an ordered list of pairs):
// after EVERY sequence of `ops` operations out of Add / Replace / Remove with keys drawn from three
// one-byte keys (so every equal/distinct pattern among the keys occurs; keys are concrete because
// HasDuplicateKeys converts them to strings) and arbitrary values of 1..2 bytes,
//   - Replace succeeds iff the key is present and changes the first pair with that key only,
//     Remove deletes all pairs with the key, Add appends (duplicates allowed);
//   - the container does not alias the caller's buffers (they are overwritten after each call);
//   - KeyVals equals the reference list; Get / GetAll / Count / ReadFirst / HasDuplicateKeys for an
//     arbitrary probe key agree with the reference;
//   - MarshalBinary -> UnmarshalBinary gives the same list back (what Header.Bytes / Header.Load do).
func VerifC04Meta() {
	var m Meta
	var ref []verifC04Pair
	nops := verifParam("ops", 3)
	for step := 0; step < nops; step++ {
		k := []byte{byte('a' + verifChoice("key", 3))} // one of three one-byte keys
		v := verifBytes("v", 1+step%2)
		kc, vc := verifC04Clone(k), verifC04Clone(v)
		switch verifChoice("op", 3) {
		case 0:
			verifAssert(m.Add(k, v) == nil, "C04.meta: Add rejected a short pair")
			ref = append(ref, verifC04Pair{kc, vc})
		case 1:
			err := m.Replace(k, v)
			found := -1
			for i := range ref {
				if found < 0 && bytes.Equal(ref[i].k, kc) {
					found = i
				}
			}
			if found >= 0 {
				verifAssert(err == nil, "C04.meta: Replace failed for a present key")
				ref[found].v = vc
			} else {
				verifAssert(err != nil, "C04.meta: Replace succeeded for an absent key")
			}
		case 2:
			m.Remove(k)
			var nr []verifC04Pair
			for i := range ref {
				if !bytes.Equal(ref[i].k, kc) {
					nr = append(nr, ref[i])
				}
			}
			ref = nr
		}
		// the caller reuses its buffers
		k[0] ^= 0xff
		for i := range v {
			v[i] ^= 0xff
		}
	}
	check := func(m *Meta, what string) {
		verifAssert(len(m.KeyVals) == len(ref), "C04.meta: number of pairs differs from the reference ("+what+")")
		for i := range ref {
			verifAssert(bytes.Equal(m.KeyVals[i].Key, ref[i].k), "C04.meta: key differs from the reference ("+what+")")
			verifAssert(len(m.KeyVals[i].Value) == len(ref[i].v) && bytes.Equal(m.KeyVals[i].Value, ref[i].v), "C04.meta: value differs from the reference ("+what+")")
		}
	}
	check(&m, "after the operations")

	q := []byte{byte('a' + verifChoice("probe", 3))}
	var all [][]byte
	dup := false
	for i := range ref {
		if bytes.Equal(ref[i].k, q) {
			all = append(all, ref[i].v)
		}
		for j := 0; j < i; j++ {
			if bytes.Equal(ref[i].k, ref[j].k) {
				dup = true
			}
		}
	}
	got, ok := m.Get(q)
	verifAssert(ok == (len(all) > 0), "C04.meta: Get presence")
	if ok && len(all) > 0 {
		verifAssert(len(got) == len(all[0]) && bytes.Equal(got, all[0]), "C04.meta: Get does not return the first value of the key")
		dst := make([]byte, 4)
		n := m.ReadFirst(q, dst)
		verifAssert(n == len(all[0]) && bytes.Equal(dst[:n], all[0]), "C04.meta: ReadFirst")
	}
	verifAssert(m.Count(q) == len(all), "C04.meta: Count")
	ga := m.GetAll(q)
	verifAssert(len(ga) == len(all), "C04.meta: GetAll length")
	for i := range all {
		if i < len(ga) {
			verifAssert(len(ga[i]) == len(all[i]) && bytes.Equal(ga[i], all[i]), "C04.meta: GetAll order/content")
		}
	}
	verifAssert(m.HasDuplicateKeys() == dup, "C04.meta: HasDuplicateKeys")

	img, err := m.MarshalBinary()
	verifAssert(err == nil, "C04.meta: MarshalBinary failed")
	want := 1
	for i := range ref {
		want += 2 + len(ref[i].k) + len(ref[i].v)
	}
	verifAssert(len(img) == want, "C04.meta: serialized size")
	var back Meta
	verifAssert(back.UnmarshalBinary(img) == nil, "C04.meta: UnmarshalBinary rejects MarshalBinary's output")
	check(&back, "after the binary round trip")
	verifReach("end")
}
