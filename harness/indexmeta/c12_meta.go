//go:build verif

package indexmeta

import (
	"bytes"
	"errors"

	"github.com/ipfs/go-cid"
)

// C12.meta.decode — Meta.UnmarshalBinary (the borsh-decoder path used by compactindexsized and
// bucketteer headers) over arbitrary bytes: error, or a Meta that re-encodes to exactly the
// bytes that were consumed. No panic, no allocation above 1 KiB for an input of at most M bytes.
// Every byte is symbolic; bytes are restricted to [0,lo] ∪ [hi,255] because every length byte
// is concretised (one path per value).
func VerifC12MetaDecode() {
	M := verifParam("M", 6)
	lo := uint8(verifParam("lo", 3))
	hi := uint8(verifParam("hi", 254))
	n := verifChoice("len", M+1)
	data := verifBytes("meta", n)
	for _, b := range data {
		verifAssume(b <= lo || b >= hi)
	}
	verifAllocLimit(1024)
	var m Meta
	err := m.UnmarshalBinary(data)
	if err != nil {
		verifReach("decode-error")
		verifReach("end")
		return
	}
	if n == 0 {
		verifAssert(len(m.KeyVals) == 0, "C12.meta.decode: empty input produced pairs")
		verifReach("end")
		return
	}
	verifAssert(len(m.KeyVals) <= MaxNumKVs, "C12.meta.decode: more than MaxNumKVs pairs")
	total := 1
	for _, kv := range m.KeyVals {
		verifAssert(len(kv.Key) <= MaxKeySize && len(kv.Value) <= MaxValueSize, "C12.meta.decode: oversized key or value")
		total += 2 + len(kv.Key) + len(kv.Value)
	}
	verifAssert(total <= n, "C12.meta.decode: decoded more bytes than the input holds")
	// the decoded metadata re-encodes (Bytes panics on error) to the consumed prefix
	enc := m.Bytes()
	verifAssert(len(enc) == total && bytes.Equal(enc, data[:total]), "C12.meta.decode: decode/encode round trip differs from the input")
	// queries on the decoded value
	key := verifBytes("key", verifChoice("keylen", 2))
	v, ok := m.Get(key)
	verifAssert(ok || v == nil, "C12.meta.decode: Get returned a value without ok")
	verifAssert(m.Count(key) == len(m.GetAll(key)), "C12.meta.decode: Count and GetAll disagree")
	dst := make([]byte, 2)
	c := m.ReadFirst(key, dst)
	verifAssert(c >= 0 && c <= 2, "C12.meta.decode: ReadFirst copied more than the destination holds")
	verifReach("decode-ok")
	verifReach("end")
}

// C12.meta.limits — metadata AT the format limits (MaxNumKVs = MaxKeySize = MaxValueSize = 255,
// all stored in one byte): whatever the decoder accepts must re-encode (Meta.Bytes panics on a
// marshal error and is called on decoded metadata by manifest.readHeader) to the consumed bytes.
// Shapes: (0) pair count 253..255 with minimal pairs (empty key, empty value; the last pair has a
// symbolic 1-byte key), (1) one pair whose key and value lengths are each 253..255.
// Each shape exact, one byte short (must be an error) and with one extra byte (ignored).
func VerifC12MetaLimits() {
	verifAllocLimit(4096)
	var data []byte
	if verifChoice("shape", 2) == 0 {
		count := 253 + verifChoice("count", 3)
		data = make([]byte, 1+2*count)
		data[0] = byte(count)
		// last pair: key of 1 symbolic byte, empty value
		data[len(data)-2] = 1
		data[len(data)-1] = verifU8("lastkey")
		data = append(data, 0)
	} else {
		kl := 253 + verifChoice("keylen", 3)
		vl := 253 + verifChoice("vallen", 3)
		data = append(data, 1, byte(kl))
		key := make([]byte, kl)
		key[0] = verifU8("key0")
		data = append(data, key...)
		data = append(data, byte(vl))
		val := make([]byte, vl)
		val[vl-1] = verifU8("valN")
		data = append(data, val...)
	}
	total := len(data)
	switch verifChoice("trunc", 3) {
	case 1:
		data = data[:total-1]
	case 2:
		data = append(data, verifU8("extra"))
	}
	var m Meta
	err := m.UnmarshalBinary(data)
	if len(data) < total {
		verifAssert(err != nil, "C12.meta.limits: truncated metadata was accepted")
		verifReach("end")
		return
	}
	verifAssert(err == nil, "C12.meta.limits: metadata within the format limits was rejected")
	enc, merr := m.MarshalBinary()
	verifAssert(merr == nil, "C12.meta.limits: metadata accepted by the decoder cannot be re-encoded (Meta.Bytes would panic)")
	verifAssert(len(enc) == total && bytes.Equal(enc, data[:total]), "C12.meta.limits: decode/encode round trip differs from the input")
	_ = m.Bytes()
	verifReach("end")
}

// model of cid.CidFromBytes (cut): any input is either rejected or accepted with a length
// between 1 and len(data); the real parser is library code outside the claim.
func c12Model_cidFromBytes(data []byte) (int, cid.Cid, error) {
	if len(data) == 0 || verifChoice("cidFromBytes", 2) == 0 {
		return 0, cid.Undef, errors.New("invalid cid (model)")
	}
	return len(data), cid.Cid{}, nil
}

// C12.meta.getters — typed getters on a metadata value of every length 0..9 (symbolic bytes),
// as stored by a third-party file: GetUint64, GetCid, Get, ReadFirst.
func VerifC12MetaGetters() {
	L := verifChoice("valuelen", verifParam("maxlen", 9)+1)
	val := verifBytes("value", L)
	var m Meta
	m.KeyVals = []KV{{Key: []byte("other"), Value: []byte{1}}, {Key: append([]byte(nil), MetadataKey_Epoch...), Value: val}}
	which := verifChoice("getter", 3)
	switch which {
	case 0:
		// known defect: decodeUint64 reads 8 bytes without checking the length
		verifKnownFinding("C12-meta-uint64-short", L < 8)
		u, ok := m.GetUint64(MetadataKey_Epoch)
		// a value that AddUint64 cannot have written (length != 8) may be reported as absent
		verifAssert(ok || L != 8, "C12.meta.getters: GetUint64 did not find an 8-byte value")
		if ok {
			want := uint64(0)
			for i := 7; i >= 0; i-- {
				want = want<<8 | uint64(val[i])
			}
			verifAssert(u == want, "C12.meta.getters: GetUint64 is not the little-endian value of the first 8 bytes")
		}
		_, ok = m.GetUint64([]byte("missing"))
		verifAssert(!ok, "C12.meta.getters: GetUint64 found a missing key")
	case 1:
		_, ok := m.GetCid(MetadataKey_Epoch)
		verifAssert(!ok || L > 0, "C12.meta.getters: GetCid accepted an empty value")
		_, ok = m.GetCid([]byte("missing"))
		verifAssert(!ok, "C12.meta.getters: GetCid found a missing key")
	case 2:
		v, ok := m.Get(MetadataKey_Epoch)
		verifAssert(ok && len(v) == L, "C12.meta.getters: Get returned the wrong value")
		dst := make([]byte, 4)
		c := m.ReadFirst(MetadataKey_Epoch, dst)
		verifAssert((L >= 4 && c == 4) || (L < 4 && c == L), "C12.meta.getters: ReadFirst copied the wrong number of bytes")
	}
	verifReach("end")
}
