//go:build verif

package carreader

import (
	"bufio"
	"bytes"
	"encoding/binary"
	"errors"
	"io"

	"github.com/ipfs/go-cid"
)

// C12.car.sections — the CAR section readers over an arbitrary byte stream:
// ReadSectionLength, ReadNodeInfoWithData, ReadNodeInfoWithoutData (two sections in a row).
// Error or (cid, length, data); no panic; no allocation beyond go-car's own 32 MiB section cap.
//
// Cut: cid.CidFromReader (library) — it either fails (io.EOF on an empty reader, an invalid-CID
// error otherwise) or consumes L bytes, 1 <= L <= maxcid, and returns L.

func c12Model_cidFromReader(r io.Reader) (int, cid.Cid, error) {
	L := verifChoice("cidlen", verifParam("maxcid", 3)+1)
	if L == 0 {
		var one [1]byte
		if n, _ := r.Read(one[:]); n == 0 {
			return 0, cid.Undef, io.EOF
		}
		return 1, cid.Undef, errors.New("invalid cid (model)")
	}
	buf := make([]byte, L)
	n, err := io.ReadFull(r, buf)
	if err != nil {
		return n, cid.Undef, errors.New("invalid cid (model): short read")
	}
	// known defect: ReadNodeInfoWithData computes make([]byte, sectionLen-cidLen) unchecked
	verifKnownFinding("C12-car-section-shorter-than-cid", verifC12WithData && uint64(L) > verifC12SectionLen)
	return L, cid.Cid{}, nil
}

var (
	verifC12WithData   bool
	verifC12SectionLen uint64 // length prefix of the section being read
)

func VerifC12CarSections() {
	N := verifParam("N", 6) // bytes after the first length prefix
	const cap32 = 32 << 20
	verifAllocLimit(cap32 + 4096) // go-car's MaxAllowedSectionSize is the functions' own cap
	// first section length: every small value (symbolic single byte), or a structure-aware
	// large / malformed candidate
	var prefix []byte
	bigs := []uint64{cap32 + 1, 1 << 32, 1 << 63, 1<<64 - 1}
	k := verifChoice("lenKind", 3+len(bigs))
	var first uint64
	switch {
	case k == 0:
		b := verifU8("len")
		verifAssume(uint64(b) <= uint64(N+2))
		prefix = []byte{b}
		first = uint64(b)
	case k == 1:
		prefix = bytes.Repeat([]byte{0xff}, 11) // uvarint overflow
	case k == 2:
		prefix = nil // empty stream
	default:
		first = bigs[k-3]
		prefix = binary.AppendUvarint(nil, first)
	}
	n := 0
	if k != 2 {
		n = verifChoice("rest", N+1)
	}
	stream := append(append([]byte{}, prefix...), verifBytes("rest", n)...)
	br := bufio.NewReader(bytes.NewReader(stream))

	api := verifChoice("api", 3)
	verifC12WithData = api == 1
	verifC12SectionLen = first
	for round := 0; round < 2; round++ {
		if round == 1 {
			// the second section's length prefix comes from the arbitrary bytes: keep it a
			// single byte (multi-byte prefixes are covered by the first section)
			nxt, err := br.Peek(1)
			if err != nil {
				break
			}
			verifAssume(nxt[0] <= uint8(N+2))
			verifC12SectionLen = uint64(nxt[0])
		}
		switch api {
		case 0:
			l, ll, err := ReadSectionLength(br)
			if err != nil {
				verifAssert(l == 0 && ll == 0, "C12.car.sections: ReadSectionLength returned a length together with an error")
				verifReach("len-error")
				verifReach("end")
				return
			}
			verifAssert(l <= cap32 && ll >= 1 && ll <= 10, "C12.car.sections: section length above the cap or impossible prefix width")
			if round == 0 {
				verifAssert(l == first && ll == uint64(len(prefix)), "C12.car.sections: ReadSectionLength decoded a different length")
			}
			verifReach("len-ok")
			verifReach("end")
			return
		case 1:
			_, total, data, err := ReadNodeInfoWithData(br)
			if err != nil {
				verifAssert(total == 0 && data == nil, "C12.car.sections: ReadNodeInfoWithData returned data together with an error")
				verifReach("node-error")
				verifReach("end")
				return
			}
			verifAssert(uint64(len(data)) < total && total <= uint64(len(stream)), "C12.car.sections: node data longer than its section or section longer than the stream")
			verifReach("node-ok")
		case 2:
			_, total, err := ReadNodeInfoWithoutData(br)
			if err != nil {
				verifAssert(total == 0, "C12.car.sections: ReadNodeInfoWithoutData returned a length together with an error")
				verifReach("info-error")
				verifReach("end")
				return
			}
			verifReach("info-ok")
		}
	}
	verifReach("end")
}
