//go:build verif

package carreader

import (
	"bufio"
	"bytes"
	"encoding/binary"
	"errors"
	"io"
	"os"

	"github.com/ipfs/go-cid"
	carv1 "github.com/ipld/go-car"
)

// C13.carscan — the SEQUENTIAL CAR reader (carreader.New, CarReader.NextInfo / NextNode /
// NextNodeBytes, and ReadHeader + ReadNodeInfoWithData on a caller's bufio.Reader): the walk every
// index builder, verifier, car-split and item counter performs, stopping at errors.Is(err, io.EOF).
// A well-formed CARv1 (header + k sections) cut at EVERY byte offset T:
//   - opening fails, or
//   - the walk ends with an error that is NOT io.EOF (truncation reported), or
//   - the walk ends with io.EOF and T lies exactly on a section boundary (a well-formed shorter
//     CAR: the format has no length/count field, so this cannot be told from a complete file);
// and in every case the nodes delivered before the end are exactly the sections that are completely
// present, in order, with their CID, total length and payload. Never: a clean end inside a section
// (later nodes silently missing from the indexes built from the walk), never a node made up from
// a partial section.
//
// Cut: the header's CBOR decoder (cbor.DecodeInto, reflection) is replaced through a hook variable
// (source rewrite) by verifC13DecodeHeader (checks it is handed the header body, yields a version-1 header with one
// root). memfs model of *os.File.

var verifC13HeaderBody []byte

func init() { VerifDecodeHeader = verifC13DecodeHeader }

func verifC13DecodeHeader(real func([]byte, interface{}) error, b []byte, v interface{}) error {
	verifAssert(bytes.Equal(b, verifC13HeaderBody), "C13.carscan: the bytes handed to the header decoder are not the header body")
	ch := v.(*carv1.CarHeader)
	root, _ := cid.Cast(verifC13ScanCid(100))
	ch.Roots = []cid.Cid{root}
	ch.Version = 1
	return nil
}

func verifC13ScanCid(i int) []byte {
	b := []byte{0x01, 0x71, 0x12, 0x20}
	for j := 0; j < 32; j++ {
		b = append(b, byte(0x33+5*i+j))
	}
	return b
}

type verifC13ScanNode struct {
	cid   cid.Cid
	total uint64
	data  []byte
	end   int // file offset right after the section
}

func VerifC13CarScan() {
	// section payload lengths; 95 makes a section of 131 bytes + 2-byte length prefix
	shapes := [][]int{{3, 5}, {0, 95, 2}, {95, 1}}
	lens := shapes[verifChoice("shape", verifParam("shapes", 1))]
	verifC13HeaderBody = verifBytes("header", verifParam("hdr", 20))
	file := binary.AppendUvarint(nil, uint64(len(verifC13HeaderBody)))
	file = append(file, verifC13HeaderBody...)
	hdrEnd := len(file)
	var nodes []verifC13ScanNode
	for i, l := range lens {
		cb := verifC13ScanCid(i)
		c, err := cid.Cast(cb)
		verifAssert(err == nil, "C13.carscan: harness CID does not parse")
		d := verifBytes("data", l)
		sec := binary.AppendUvarint(nil, uint64(len(cb)+l))
		sec = append(sec, cb...)
		sec = append(sec, d...)
		file = append(file, sec...)
		nodes = append(nodes, verifC13ScanNode{cid: c, total: uint64(len(sec)), data: d, end: len(file)})
	}
	N := len(file)
	op := verifChoice("op", 4) // 0 NextInfo, 1 NextNode, 2 NextNodeBytes, 3 ReadHeader + ReadNodeInfoWithData
	T := verifChoice("T", N+1) // the first T bytes are present; T == N is the complete file
	path := verifTempPath("epoch.car")
	verifMemFile(path, file[:T])
	f, err := os.Open(path)
	verifAssert(err == nil, "C13.carscan: open")

	// number of sections completely present, and whether T is a section boundary
	complete, boundary := 0, T == hdrEnd
	for _, n := range nodes {
		if n.end <= T {
			complete++
		}
		if n.end == T {
			boundary = true
		}
	}

	var next func() (cid.Cid, uint64, []byte, bool, error) // cid, total length, payload, payload known
	if op == 3 {
		br := bufio.NewReader(f)
		if _, err := ReadHeader(br); err != nil {
			verifAssert(T < hdrEnd, "C13.carscan: ReadHeader fails although the header is complete")
			verifReach("open-error")
			verifReach("end")
			return
		}
		next = func() (cid.Cid, uint64, []byte, bool, error) {
			c, n, d, err := ReadNodeInfoWithData(br)
			return c, n, d, true, err
		}
	} else {
		cr, err := New(f)
		if err != nil {
			verifAssert(cr == nil && T < hdrEnd, "C13.carscan: New fails although the header is complete")
			verifReach("open-error")
			verifReach("end")
			return
		}
		next = func() (cid.Cid, uint64, []byte, bool, error) {
			switch op {
			case 0:
				c, n, err := cr.NextInfo()
				return c, n, nil, false, err
			case 1:
				c, n, bl, err := cr.NextNode()
				if err != nil {
					return c, n, nil, false, err
				}
				return c, n, bl.RawData(), true, nil
			default:
				c, n, d, err := cr.NextNodeBytes()
				return c, n, d, true, err
			}
		}
	}
	verifAssert(T >= hdrEnd, "C13.carscan: a CAR cut inside its header opens")

	delivered := 0
	var endErr error
	for i := 0; i <= len(nodes); i++ {
		c, n, d, hasData, err := next()
		if err != nil {
			endErr = err
			break
		}
		verifAssert(delivered < complete, "C13.carscan: the walk delivers a node whose section is not completely present")
		if delivered < len(nodes) {
			w := nodes[delivered]
			verifAssert(c.Equals(w.cid) && n == w.total, "C13.carscan: delivered node has another CID / section length")
			if hasData {
				verifAssert(bytes.Equal(d, w.data), "C13.carscan: delivered node has other payload bytes")
			}
		}
		delivered++
	}
	verifAssert(endErr != nil, "C13.carscan: the walk does not end")
	verifAssert(delivered == complete, "C13.carscan: the walk stops before a section that is completely present")
	if errors.Is(endErr, io.EOF) {
		verifAssert(boundary || T == N, "C13.carscan: a CAR cut inside a section ends the walk with a clean io.EOF (later nodes silently missing)")
		verifReach("clean-end")
	} else {
		verifAssert(!boundary && T != N, "C13.carscan: a CAR that ends on a section boundary is reported as damaged")
		verifReach("loud-error")
	}
	verifReach("end")
}
