//go:build verif

package carreader

import (
	"bytes"
	"encoding/binary"
	"errors"
	"io"
	"os"

	"github.com/ipfs/go-cid"
	carv1 "github.com/ipld/go-car"
)

// c01Cid returns the i-th concrete CIDv1 (dag-cbor, sha2-256) used by the C01 harnesses: the
// shape the CAR creator writes. Digests are concrete (strings are concrete in symgo) and distinct.
func c01Cid(i int) []byte {
	b := []byte{0x01, 0x71, 0x12, 0x20}
	for j := 0; j < 32; j++ {
		b = append(b, byte(0x40+7*i+j))
	}
	return b
}

// c01Section encodes one CARv1 section: uvarint(len(cid)+len(data)) ‖ cid ‖ data.
func c01Section(cidBytes, data []byte) []byte {
	var lb [binary.MaxVarintLen64]byte
	n := binary.PutUvarint(lb[:], uint64(len(cidBytes)+len(data)))
	out := append([]byte{}, lb[:n]...)
	out = append(out, cidBytes...)
	return append(out, data...)
}

var c01HeaderBody []byte

// model of cbor.DecodeInto (cut: reflection-driven CBOR decoder): checks that the reader handed
// over exactly the header body and produces a version-1 header with one root.
func c01Model_cborDecodeInto(b []byte, v interface{}) error {
	verifAssert(bytes.Equal(b, c01HeaderBody), "C01.section: the bytes handed to the header decoder are not the header body")
	ch := v.(*carv1.CarHeader)
	root, _ := cid.Cast(c01Cid(100))
	ch.Roots = []cid.Cid{root}
	ch.Version = 1
	return nil
}

// payload lengths: with the 36-byte CID the section-length varint is 1 byte up to 91, 2 bytes
// from 92 to 16347 and 3 bytes from 16348.
var c01DataLens = []int{91, 92, 16347, 16348, 1, 4058, 2, 90, 93, 300, 16346, 16349}

// header body lengths: varint 1 byte up to 127, 2 bytes from 128; 4093+2 bytes of header make the
// first section start on the last byte of the 4096-byte read buffer.
var c01HeaderLens = []int{59, 128, 4093, 127, 1, 200}

// C01.section — the real carreader.New and CarReader over a real bufio.Reader over a file: after
// the header, for consecutive well-formed sections every Next* call returns the section's CID, its
// exact total length (length prefix included — this is what the indexer adds to the running
// offset), exactly the payload bytes, consumes exactly the section, and the call after the last
// section reports io.EOF (the indexer's loop exit).
func VerifC01Section() {
	nl := verifParam("nlens", len(c01DataLens))
	nh := verifParam("nhdrs", len(c01HeaderLens))
	k := verifParam("sections", 2)
	hc := verifChoice("hdrlen", nh)
	c01HeaderBody = verifBytes("header", c01HeaderLens[hc])
	dsum := hc
	var lb [binary.MaxVarintLen64]byte
	file := append([]byte{}, lb[:binary.PutUvarint(lb[:], uint64(len(c01HeaderBody)))]...)
	file = append(file, c01HeaderBody...)
	var datas [][]byte
	var totals []uint64
	for i := 0; i < k; i++ {
		dc := verifChoice("datalen", nl)
		dsum += dc
		dl := c01DataLens[dc]
		d := verifBytes("data", dl)
		sec := c01Section(c01Cid(i), d)
		datas = append(datas, d)
		totals = append(totals, uint64(len(sec)))
		file = append(file, sec...)
	}
	path := verifTempPath("epoch.car")
	verifMemFile(path, file)
	f, err := os.Open(path)
	verifAssert(err == nil, "C01.section: open")
	cr, err := New(f)
	verifAssert(err == nil && cr != nil, "C01.section: carreader.New failed on a well-formed CAR")
	for i := 0; i < k; i++ {
		wantCid, err := cid.Cast(c01Cid(i))
		verifAssert(err == nil, "C01.section: harness CID does not parse")
		op := (dsum + i) % 3 // quick tier: the call used for all but the last section follows from the other choices
		if i == k-1 || verifParam("allops", 1) == 1 {
			op = verifChoice("op", 3)
		}
		switch op {
		case 0:
			c, n, bl, err := cr.NextNode()
			verifAssert(err == nil, "C01.section: NextNode failed on a well-formed section")
			verifAssert(c.Equals(wantCid), "C01.section: NextNode returned the wrong CID")
			verifAssert(n == totals[i], "C01.section: NextNode section length differs from the bytes the section occupies")
			verifAssert(bl.Cid().Equals(wantCid), "C01.section: block carries the wrong CID")
			verifAssert(bytes.Equal(bl.RawData(), datas[i]), "C01.section: NextNode payload differs from the section's bytes")
		case 1:
			c, n, d, err := cr.NextNodeBytes()
			verifAssert(err == nil, "C01.section: NextNodeBytes failed on a well-formed section")
			verifAssert(c.Equals(wantCid), "C01.section: NextNodeBytes returned the wrong CID")
			verifAssert(n == totals[i], "C01.section: NextNodeBytes section length differs from the bytes the section occupies")
			verifAssert(bytes.Equal(d, datas[i]), "C01.section: NextNodeBytes payload differs from the section's bytes")
		case 2:
			c, n, err := cr.NextInfo()
			verifAssert(err == nil, "C01.section: NextInfo failed on a well-formed section")
			verifAssert(c.Equals(wantCid), "C01.section: NextInfo returned the wrong CID")
			verifAssert(n == totals[i], "C01.section: NextInfo section length differs from the bytes the section occupies")
		}
	}
	_, _, _, err = cr.NextNode()
	verifAssert(err != nil && errors.Is(err, io.EOF), "C01.section: end of file is not reported as io.EOF")
	verifReach("end")
}

// C01.section.trunc — a CAR that ends inside its last section (after the length prefix, inside or
// right after the CID, inside the payload) is never mistaken for the regular end of the file: the
// Next* call on the damaged section fails with an error that is not io.EOF, so the indexing loop
// (which stops at errors.Is(err, io.EOF)) reports the failure instead of sealing indexes that lack
// the object. A CAR that ends exactly at a section boundary still ends with io.EOF.
func VerifC01SectionTrunc() {
	nl := verifParam("nlens", 4)
	c01HeaderBody = verifBytes("header", 59)
	var lb [binary.MaxVarintLen64]byte
	file := append([]byte{}, lb[:binary.PutUvarint(lb[:], uint64(len(c01HeaderBody)))]...)
	file = append(file, c01HeaderBody...)
	first := c01Section(c01Cid(0), verifBytes("data", 70))
	file = append(file, first...)
	dl := c01DataLens[verifChoice("datalen", nl)]
	last := c01Section(c01Cid(1), verifBytes("data", dl))
	pl := len(last) - 36 - dl // bytes of the length prefix
	// how many bytes of the last section are present
	keeps := []int{0, pl - 1, pl, pl + 1, pl + 4, pl + 35, pl + 36, pl + 36 + dl/2, len(last) - 1}
	keep := keeps[verifChoice("keep", len(keeps))]
	if keep < 0 || (keep == pl-1 && pl == 1) {
		keep = 0
	}
	file = append(file, last[:keep]...)
	path := verifTempPath("epoch.car")
	verifMemFile(path, file)
	f, err := os.Open(path)
	verifAssert(err == nil, "C01.section.trunc: open")
	cr, err := New(f)
	verifAssert(err == nil && cr != nil, "C01.section.trunc: carreader.New failed")
	_, n, _, err := cr.NextNode()
	verifAssert(err == nil && n == uint64(len(first)), "C01.section.trunc: the complete first section is not read")
	switch verifChoice("op", 3) {
	case 0:
		_, _, _, err = cr.NextNode()
	case 1:
		_, _, _, err = cr.NextNodeBytes()
	case 2:
		_, _, err = cr.NextInfo()
	}
	verifAssert(err != nil, "C01.section.trunc: reading past the end of the file succeeds")
	if keep == 0 {
		verifAssert(errors.Is(err, io.EOF), "C01.section.trunc: a CAR ending at a section boundary does not end with io.EOF")
	} else {
		verifAssert(!errors.Is(err, io.EOF), "C01.section.trunc: a CAR that ends inside a section is reported as the regular end of the file (io.EOF)")
	}
	verifReach("end")
}
