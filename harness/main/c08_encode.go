//go:build verif

package main

import (
	"errors"

	bin "github.com/gagliardetto/binary"
	"github.com/gagliardetto/solana-go"
	jsoniter "github.com/json-iterator/go"
	metalatest "github.com/rpcpool/yellowstone-faithful/parse_legacy_transaction_status_meta/v-latest"
	"github.com/rpcpool/yellowstone-faithful/third_party/solana_proto/confirmed_block"
)

// C08.encode — the part of the getBlock / getTransaction answer that the *request* steers:
// encodeTransactionResponseBasedOnWantedEncoding, encodeBytesResponseBasedOnWantedEncoding and
// compiledInstructionsToJsonParsed never panic, for every value of the client's `encoding` option
// (also ones Validate would reject), every kind of archived transaction (legacy transfer, vote,
// version-0 with address-table lookups) and every kind of decoded metadata (none, protobuf with /
// without loaded addresses and inner instructions, legacy bincode), with the jsonParsed feature
// built in or not. Self-contained: shares no harness file with the other C08 obligations.
//
// Real code: solana-go (Transaction.MarshalBinary, SetAddressTables, ResolveLookups, Program, ...),
// gagliardetto/binary, base58, encoding/base64, txstatus.FromTransaction. Cuts: jsoniter
// (Marshal = opaque bytes; toMapAny's Unmarshal = the object a JSON encoder produces for the
// protobuf meta, built below from the same struct), the zstd encoder (identity), the FFI
// instruction parser (error / object / non-object).

type verifC08EncJSON struct{ jsoniter.API }

var verifC08EncMetaJSON map[string]any

func (verifC08EncJSON) Marshal(v interface{}) ([]byte, error) { return []byte(`{"opaque":1}`), nil }

func (verifC08EncJSON) Unmarshal(data []byte, v interface{}) error {
	if p, ok := v.(*map[string]any); ok {
		*p = verifC08EncMetaJSON
		return nil
	}
	return errors.New("verifC08EncJSON.Unmarshal: target outside the model")
}

// verifC08EncMetaToJSON: what encoding/json-compatible marshalling + unmarshalling of a
// confirmed_block.TransactionStatusMeta yields for the members the code under test reads
// (`json:"inner_instructions,omitempty"`, `json:"index,omitempty"`, `json:"instructions,omitempty"`).
func verifC08EncMetaToJSON(m *confirmed_block.TransactionStatusMeta) map[string]any {
	out := map[string]any{"fee": float64(m.Fee)}
	if len(m.InnerInstructions) > 0 {
		var list []any
		for _, ii := range m.InnerInstructions {
			e := map[string]any{}
			if ii.Index != 0 {
				e["index"] = float64(ii.Index)
			}
			if len(ii.Instructions) > 0 {
				var insts []any
				for range ii.Instructions {
					insts = append(insts, map[string]any{"accounts": "AA==", "data": "CQk="})
				}
				e["instructions"] = insts
			}
			list = append(list, e)
		}
		out["inner_instructions"] = list
	}
	return out
}

var (
	verifC08EncPayer = solana.MustPublicKeyFromBase58("SysvarC1ock11111111111111111111111111111111")
	verifC08EncTable = solana.MustPublicKeyFromBase58("Stake11111111111111111111111111111111111111")
)

// transaction wire bytes: kind 0 legacy transfer, 1 legacy vote, 2 version-0 message with one
// address-table lookup (one writable, one readonly index) whose instruction uses both looked-up
// accounts, 3 version-0 message without lookups
func verifC08EncTxBytes(kind int) []byte {
	var b []byte
	b = append(b, 1) // one signature
	sig := make([]byte, 64)
	sig[0] = 7
	b = append(b, sig...)
	if kind >= 2 {
		b = append(b, 0x80) // version 0
	}
	b = append(b, 1, 0, 1) // message header
	b = append(b, 2)       // two static account keys
	prog := solana.SystemProgramID
	if kind == 1 {
		prog = solana.VoteProgramID
	}
	b = append(b, verifC08EncPayer[:]...)
	b = append(b, prog[:]...)
	b = append(b, make([]byte, 32)...) // recent blockhash
	b = append(b, 1)                   // one instruction
	b = append(b, 1)                   // program id index
	if kind == 2 {
		b = append(b, 3, 0, 2, 3) // accounts: payer + both looked-up accounts
	} else {
		b = append(b, 1, 0)
	}
	b = append(b, 2, 9, 9) // data
	switch kind {
	case 2:
		b = append(b, 1) // one lookup
		b = append(b, verifC08EncTable[:]...)
		b = append(b, 1, 5) // writable indexes: [5]
		b = append(b, 1, 2) // readonly indexes: [2]
	case 3:
		b = append(b, 0)
	}
	return b
}

func verifC08EncKey(b byte) []byte {
	k := make([]byte, 32)
	k[0] = b
	return k
}

func VerifC08Encode() {
	jsoniter.ConfigCompatibleWithStandardLibrary = verifC08EncJSON{}
	fasterJson = verifC08EncJSON{}

	encodings := []solana.EncodingType{solana.EncodingBase58, solana.EncodingBase64, solana.EncodingBase64Zstd, solana.EncodingJSON, solana.EncodingJSONParsed, "binary", ""}
	enc := encodings[verifChoice("encoding", len(encodings))]

	kind := verifChoice("tx.kind", 4)
	tx := new(solana.Transaction)
	err := tx.UnmarshalWithDecoder(bin.NewBinDecoder(verifC08EncTxBytes(kind)))
	verifAssert(err == nil, "C08.encode: harness transaction bytes do not decode")

	// decoded metadata as parseTransactionAndMetaFromNode hands it over
	var meta any
	switch verifChoice("meta", 6) {
	case 0:
		// no / unparsable metadata
	case 1:
		meta = &metalatest.TransactionStatusMeta{}
	case 2:
		meta = &confirmed_block.TransactionStatusMeta{}
	case 5:
		// protobuf metadata that lists fewer loaded addresses than the lookups use
		meta = &confirmed_block.TransactionStatusMeta{LoadedWritableAddresses: [][]byte{verifC08EncKey(0xAA)}}
	case 3:
		// loaded addresses as recorded for the version-0 transaction above (one writable, one readonly)
		m := &confirmed_block.TransactionStatusMeta{Fee: 5000}
		if kind == 2 {
			m.LoadedWritableAddresses = [][]byte{verifC08EncKey(0xAA)}
			m.LoadedReadonlyAddresses = [][]byte{verifC08EncKey(0xBB)}
		}
		meta = m
	default:
		m := &confirmed_block.TransactionStatusMeta{Fee: 5000}
		if kind == 2 {
			m.LoadedWritableAddresses = [][]byte{verifC08EncKey(0xAA)}
			m.LoadedReadonlyAddresses = [][]byte{verifC08EncKey(0xBB)}
		}
		// inner instructions: two groups (second one empty), instruction accounts within the keys
		m.InnerInstructions = []*confirmed_block.InnerInstructions{
			{Index: 0, Instructions: []*confirmed_block.InnerInstruction{
				{ProgramIdIndex: 1, Accounts: []byte{0}, Data: []byte{9, 9}},
				{ProgramIdIndex: 1, Accounts: []byte{0, 1}, Data: nil},
			}},
			{Index: 1},
		}
		meta = m
	}
	// known findings (ffi builds, encoding=jsonParsed, version-0 transaction with lookups)
	pmeta, isProto := meta.(*confirmed_block.TransactionStatusMeta)
	lookups := enc == solana.EncodingJSONParsed && kind == 2
	verifKnownFinding("C08-jsonparsed-unresolved-lookup", lookups && !isProto)
	verifKnownFinding("C08-jsonparsed-short-loaded-addresses", lookups && isProto && (len(pmeta.LoadedWritableAddresses) < 1 || len(pmeta.LoadedReadonlyAddresses) < 1))
	verifC08EncMetaJSON = nil
	if pm, ok := meta.(*confirmed_block.TransactionStatusMeta); ok {
		verifC08EncMetaJSON = verifC08EncMetaToJSON(pm)
	}

	outTx, outMeta, err := encodeTransactionResponseBasedOnWantedEncoding(enc, *tx, meta)
	_, _ = outTx, outMeta
	if err != nil {
		verifReach("rejected")
	} else {
		verifReach("encoded")
	}

	// raw bytes (rewards etc.) in the byte encodings, any length
	n := verifChoice("bytes.len", 3)
	_, _ = encodeBytesResponseBasedOnWantedEncoding(enc, make([]byte, n))
	verifReach("end")
}
