//go:build verif

package main

import "context"

// Model of FirstSuccess (first-success.go, renamed in the overlay) with the contract decided by
// C18: every job runs once; if some job succeeds the value of one successful job is returned
// (any of them: one path each), otherwise the ErrorSlice of all errors. The concurrency limit has
// no effect on the contract. The real FirstSuccess under the scheduler: C02.txSched / C18.
func FirstSuccess[T comparable](ctx context.Context, concurrency int, fns ...JobFunc[T]) (T, error) {
	var vals []T
	var errs ErrorSlice
	for _, fn := range fns {
		v, err := fn(ctx)
		if err == nil {
			vals = append(vals, v)
		} else {
			errs = append(errs, err)
		}
	}
	if len(vals) > 0 {
		return vals[verifChoice("firstSuccess", len(vals))], nil
	}
	return *new(T), errs
}
