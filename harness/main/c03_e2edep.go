//go:build verif

package main

import (
	"bytes"
	"context"

	"github.com/allegro/bigcache/v3"
	"github.com/ipfs/go-cid"
	"github.com/rpcpool/yellowstone-faithful/deprecated/compactindex"
	"github.com/rpcpool/yellowstone-faithful/deprecated/compactindex36"
	hugecache "github.com/rpcpool/yellowstone-faithful/huge-cache"
	"github.com/rpcpool/yellowstone-faithful/indexes"
)

// Full-stack setup over the DEPRECATED index formats (param "deprecated" = 1): slot-to-cid and
// sig-to-cid are compactindex36 files (detected by their magic, opened by the real
// OpenWithReader_SlotToCid / OpenWithReader_SigToCid), cid-to-offset is a compactindex file (no size:
// Epoch.FindOffsetAndSizeFromCid takes its deprecated branch and reads the section length from the
// CAR with getNodeSize). Cuts: compactindex36.DB.Lookup and compactindex.DB.Lookup through hooks, with
// the keyless-index model characterised by C03.lookup36 / C03.lookup8.

func verifC03OldIndexFile(hdr [32]byte) verifC03ReaderAt {
	return verifC03ReaderAt{bytes.NewReader(append(append([]byte{}, hdr[:]...), make([]byte, 16)...))}
}

func init() {
	verifC03DepSetup = func(f *verifC03Full, s2c, g2c, c2o *verifC03Index, car []byte, root cid.Cid) *Epoch {
		compactindex36.VerifLookup = func(db *compactindex36.DB, key []byte) ([36]byte, error) {
			ix, name := s2c, "old-slot-to-cid"
			if len(key) == 64 {
				ix, name = g2c, "old-sig-to-cid"
			}
			hit := ix.find(name, key, true)
			if hit < 0 {
				// the old-format readers report their own sentinel
				verifKnownFinding("C03-S21-old-index-notfound-sentinel", true)
				return compactindex36.Empty, compactindex36.ErrNotFound
			}
			var v [36]byte
			copy(v[:], ix.entries[hit].val)
			return v, nil
		}
		compactindex.VerifLookup = func(db *compactindex.DB, key []byte) (uint64, error) {
			hit := c2o.find("old-cid-to-offset", key, false)
			if hit < 0 {
				return 0, compactindex.ErrNotFound
			}
			var oas indexes.OffsetAndSize
			if err := oas.FromBytes(c2o.entries[hit].val); err != nil {
				panic(err)
			}
			return oas.Offset, nil // the old format stores the offset only
		}
		var h36, h8 [32]byte
		(&compactindex36.Header{FileSize: 1 << 30, NumBuckets: 1}).Store(&h36)
		(&compactindex.Header{FileSize: 1 << 30, NumBuckets: 1}).Store(&h8)
		r1, err := indexes.Deprecated_OpenWithReader_CidToOffset(verifC03OldIndexFile(h8))
		verifAssert(err == nil, "C03 setup: old cid-to-offset index does not open")
		r2, err := indexes.OpenWithReader_SlotToCid(verifC03OldIndexFile(h36))
		verifAssert(err == nil && r2.IsDeprecatedOldVersion(), "C03 setup: old slot-to-cid index does not open as old format")
		r3, err := indexes.OpenWithReader_SigToCid(verifC03OldIndexFile(h36))
		verifAssert(err == nil && r3.IsDeprecatedOldVersion(), "C03 setup: old sig-to-cid index does not open as old format")
		cache, err := hugecache.NewWithConfig(context.Background(), bigcache.Config{})
		verifAssert(err == nil, "C03 setup: cache")
		cfg := &Config{}
		cfg.Indexes.CidToOffset.URI = "file:///old-cid-to-offset.index"
		verifAssert(cfg.IsDeprecatedIndexes(), "C03 setup: config is not in deprecated-index mode")
		return &Epoch{
			epoch: 5, config: cfg, carHeaderSize: 11, rootCid: root,
			remoteCarReader:             verifC03ReaderAt{bytes.NewReader(car)},
			deprecated_cidToOffsetIndex: r1, slotToCidIndex: r2, sigToCidIndex: r3,
			allCache: cache,
		}
	}
}
