//go:build verif

package main

import "context"

func verifC09Epoch(n uint64, path string) *Epoch {
	return &Epoch{epoch: n, config: &Config{originalFilepath: path, hashOfConfigFile: path}}
}

// reader entry points that touch the epoch-set lock (query side)
var verifC09Readers = []func(m *MultiEpoch){
	func(m *MultiEpoch) { m.GetEpoch(7) },
	func(m *MultiEpoch) { m.HasEpoch(7) },
	func(m *MultiEpoch) { m.CountEpochs() },
	func(m *MultiEpoch) { m.GetEpochNumbers() },
	func(m *MultiEpoch) { m.GetMostRecentAvailableEpoch() },
	func(m *MultiEpoch) { m.GetOldestAvailableEpoch() },
	func(m *MultiEpoch) { m.GetMostRecentAvailableEpochNumber() },
	func(m *MultiEpoch) { m.getAllBucketteers() },
	func(m *MultiEpoch) { m.getGsfaReadersInEpochDescendingOrder() },
	func(m *MultiEpoch) { m.getGsfaReadersInEpochDescendingOrderForSlotRange(context.Background(), 0, 10_000_000) },
}

// writer entry points (start-up loading, --watch reloads)
var verifC09Writers = []func(m *MultiEpoch){
	func(m *MultiEpoch) { m.AddEpoch(9, verifC09Epoch(9, "nine.yml")) },
	func(m *MultiEpoch) { m.ReplaceOrAddEpoch(9, verifC09Epoch(9, "nine.yml")) },
	func(m *MultiEpoch) { m.ReplaceOrAddEpoch(5, verifC09Epoch(5, "five2.yml")) },
	func(m *MultiEpoch) { m.RemoveEpoch(5) },
	func(m *MultiEpoch) { m.RemoveEpochByConfigFilepath("five.yml") },
	func(m *MultiEpoch) { m.ReplaceEpoch(5, verifC09Epoch(5, "five2.yml")) },
	func(m *MultiEpoch) { m.AddEpoch(5, verifC09Epoch(5, "dup.yml")) }, // fails: already exists
	func(m *MultiEpoch) { m.RemoveEpoch(11) },                          // fails: not found
}

// C09.lock — one reader and one writer (optionally a second reader) under every interleaving:
// no deadlock state is reachable and every goroutine finishes.
func VerifC09Lock() {
	m := NewMultiEpoch(&Options{})
	m.epochs[5] = verifC09Epoch(5, "five.yml")
	m.epochs[7] = verifC09Epoch(7, "seven.yml")
	r := verifParam("reader", -1)
	if r < 0 {
		r = verifChoice("reader", len(verifC09Readers))
	}
	w := verifParam("writer", -1)
	if w < 0 {
		w = verifChoice("writer", len(verifC09Writers))
	}
	done := make(chan int, 4)
	go func() { verifC09Readers[r](m); done <- 1 }()
	go func() { verifC09Writers[w](m); done <- 2 }()
	n := 2
	if verifParam("second_reader", 0) == 1 {
		r2 := verifChoice("reader2", len(verifC09Readers))
		go func() { verifC09Readers[r2](m); done <- 3 }()
		n = 3
	}
	for i := 0; i < n; i++ {
		<-done
	}
	// a follow-up query on the idle server must still complete (no lock is left held)
	m.CountEpochs()
	m.AddEpoch(100, verifC09Epoch(100, "hundred.yml"))
	verifReach("end")
}

// C09.list — the epoch listing is duplicate-free and sorted newest first for every epoch set
// (symbolic epoch numbers) and every map iteration order.
func VerifC09List() {
	verifMapOrderNondet(true)
	m := NewMultiEpoch(&Options{})
	k := verifChoice("nepochs", verifParam("max_epochs", 3)+1)
	for i := 0; i < k; i++ {
		e := verifU64("epoch")
		m.epochs[e] = verifC09Epoch(e, "x.yml")
	}
	nums := m.GetEpochNumbers()
	verifAssert(len(nums) == len(m.epochs), "C09.list: listing length differs from the number of loaded epochs")
	for i := 0; i+1 < len(nums); i++ {
		verifAssert(nums[i] > nums[i+1], "C09.list: listing not strictly descending (duplicate or unsorted)")
	}
	for _, e := range nums {
		_, ok := m.epochs[e]
		verifAssert(ok, "C09.list: listed epoch is not loaded")
	}
	verifReach("end")
}

// C09.stable — a query for an epoch that stays loaded behaves as on an idle server while other
// epochs are added / replaced / removed concurrently.
func VerifC09Stable() {
	m := NewMultiEpoch(&Options{})
	e7 := verifC09Epoch(7, "seven.yml")
	m.epochs[5] = verifC09Epoch(5, "five.yml")
	m.epochs[7] = e7
	w := verifChoice("writer", len(verifC09Writers))
	done := make(chan int, 2)
	var got *Epoch
	var gerr error
	var has bool
	go func() { got, gerr = m.GetEpoch(7); has = m.HasEpoch(7); done <- 1 }()
	go func() { verifC09Writers[w](m); done <- 2 }()
	<-done
	<-done
	verifAssert(gerr == nil && got == e7 && has, "C09.stable: query for an epoch that stayed loaded did not behave as on an idle server")
	nums := m.GetEpochNumbers()
	found := false
	for _, x := range nums {
		if x == 7 {
			found = true
		}
	}
	verifAssert(found, "C09.stable: epoch that stayed loaded is missing from the listing")
	verifReach("end")
}

// ---- C09.smt: lock traces + SMT interleaving check ------------------------------------------

func verifC09AllOps() []func(m *MultiEpoch) {
	return append(append([]func(m *MultiEpoch){}, verifC09Readers...), verifC09Writers...)
}

func verifC09Setup() *MultiEpoch {
	m := NewMultiEpoch(&Options{})
	m.epochs[5] = verifC09Epoch(5, "five.yml")
	m.epochs[7] = verifC09Epoch(7, "seven.yml")
	return m
}

// VerifC09Op runs ONE operation alone; the engine records its lock-operation trace.
func VerifC09Op() {
	ops := verifC09AllOps()
	m := verifC09Setup()
	ops[verifChoice("op", len(ops))](m)
	verifReach("end")
}

// VerifC09Pair replays a combination of operations (params op0, op1[, op2]) concurrently under
// the engine's scheduler on the real code.
func VerifC09Pair() {
	ops := verifC09AllOps()
	m := verifC09Setup()
	n := verifParam("threads", 2)
	done := make(chan int, 4)
	for i := 0; i < n; i++ {
		k := verifParam([]string{"op0", "op1", "op2"}[i], 0)
		go func() { ops[k](m); done <- 1 }()
	}
	for i := 0; i < n; i++ {
		<-done
	}
	verifReach("end")
}

// C09.recent — the newest / oldest available epoch returned to a query is a loaded epoch (never
// nil without an error), whatever reload runs concurrently.
func VerifC09Recent() {
	m := verifC09Setup()
	// the reload operations of C09.lock plus the ones that remove the newest epoch
	writers := append(append([]func(m *MultiEpoch){}, verifC09Writers...),
		func(m *MultiEpoch) { m.RemoveEpoch(7) },
		func(m *MultiEpoch) { m.RemoveEpochByConfigFilepath("seven.yml") },
		func(m *MultiEpoch) { m.ReplaceOrAddEpoch(7, verifC09Epoch(7, "seven2.yml")) },
	)
	w := verifChoice("writer", len(writers))
	which := verifChoice("query", 2)
	done := make(chan int, 2)
	var got *Epoch
	var gerr error
	go func() {
		if which == 0 {
			got, gerr = m.GetMostRecentAvailableEpoch()
		} else {
			got, gerr = m.GetOldestAvailableEpoch()
		}
		done <- 1
	}()
	go func() { writers[w](m); done <- 2 }()
	<-done
	<-done
	// (the server always has at least one epoch here: no writer removes both 5 and 7)
	verifAssert(gerr == nil, "C09.recent: newest/oldest epoch query failed although an epoch stayed loaded")
	verifAssert(got != nil, "C09.recent: query returned a nil epoch without an error")
	if got != nil {
		verifAssert(got.epoch == 5 || got.epoch == 7 || got.epoch == 9, "C09.recent: query returned an epoch that was never loaded")
	}
	verifReach("end")
}
