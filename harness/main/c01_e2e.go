//go:build verif

package main

import (
	"bytes"
	"context"
	"encoding/binary"
	"errors"
	"fmt"
	"io"
	"os"

	"github.com/allegro/bigcache/v3"
	"github.com/gagliardetto/solana-go"
	"github.com/ipfs/go-cid"
	carv1 "github.com/ipld/go-car"
	carv2 "github.com/ipld/go-car/v2"
	"github.com/rpcpool/yellowstone-faithful/blocktimeindex"
	"github.com/rpcpool/yellowstone-faithful/bucketteer"
	"github.com/rpcpool/yellowstone-faithful/compactindexsized"
	hugecache "github.com/rpcpool/yellowstone-faithful/huge-cache"
	"github.com/rpcpool/yellowstone-faithful/indexes"
	"github.com/rpcpool/yellowstone-faithful/indexmeta"
	"github.com/rpcpool/yellowstone-faithful/ipld/ipldbindcode"
	"github.com/rpcpool/yellowstone-faithful/iplddecoders"
)

// ---------------------------------------------------------------------------------------------
// C01.e2e — `index all` followed by the server's lookups on the same CAR bytes.
//
// Real code executed: createAllIndexes, carCountItemsByFirstByte, carreader (New, NextNode,
// NextNodeBytes, HeaderSize), the three index writers and readers of package indexes (constructors,
// Put, Seal, Open*, Get, metadata), blocktimeindex (NewForEpoch, Set, Get), readFirstSignature,
// Epoch.GetNodeByCid / FindCidFromSlot / FindCidFromSignature / FindOffsetAndSizeFromCid /
// GetBlocktime, the huge-cache codec, go-cid, bufio.
// Cut (models below): the CBOR codecs (CAR header, node decoders), the hash-index container
// (compactindexsized Builder/DB = key→value recorder, property C04), bucketteer (C05), bigcache,
// the block-time file codec (C01.blocktime.file), errgroup (sequential, C01.seal*).

type c01Obj struct {
	cid       cid.Cid
	kind      iplddecoders.Kind
	payload   []byte
	offset    uint64 // ground truth: where the section starts in the file
	total     uint64 // ground truth: bytes the section occupies
	slot      uint64
	blocktime int64
	sig       solana.Signature
}

// c01AfterIndexing is set by c01_verify.go (C01.verify, C01.progress): runs the --verify pass;
// true = the obligation ends there.
var c01AfterIndexing func(ctx context.Context, carPath string, paths *IndexPaths, numTotal uint64) bool

var (
	c01Objs       []c01Obj
	c01HeaderBody []byte
	c01E2EEpoch   = uint64(700)
)

// --- CAR header codec (cut). Assumption: re-encoding the decoded header yields as many bytes as
// the header occupies in the file (both HeaderSize() and the server rely on it).
func c01Model_cborDecodeInto(b []byte, v interface{}) error {
	verifAssert(bytes.Equal(b, c01HeaderBody), "C01.e2e: the bytes handed to the header decoder are not the header body")
	ch := v.(*carv1.CarHeader)
	ch.Roots = []cid.Cid{c01Cid(100)}
	ch.Version = 1
	return nil
}

func c01Model_carWriteHeader(h *carv1.CarHeader, w io.Writer) error {
	var lb [binary.MaxVarintLen64]byte
	n := binary.PutUvarint(lb[:], uint64(len(c01HeaderBody)))
	if _, err := w.Write(lb[:n]); err != nil {
		return err
	}
	_, err := w.Write(c01HeaderBody)
	return err
}

// --- node decoders (cut): the harness payload is [0x86, kind, object number, arbitrary bytes...]
func c01ObjOf(b []byte) *c01Obj {
	verifAssert(len(b) >= 3 && int(b[2]) < len(c01Objs), "C01.e2e: decoder called on bytes that are not an object's payload")
	o := &c01Objs[int(b[2])]
	verifAssert(bytes.Equal(b, o.payload), "C01.e2e: decoder called on bytes that are not exactly the object's payload")
	return o
}

func c01Model_DecodeEpoch(b []byte) (*ipldbindcode.Epoch, error) {
	verifAssert(c01ObjOf(b).kind == iplddecoders.KindEpoch, "C01.e2e: DecodeEpoch on another kind")
	return &ipldbindcode.Epoch{Kind: int(iplddecoders.KindEpoch), Epoch: int(c01E2EEpoch)}, nil
}

func c01Model_DecodeBlock(b []byte) (*ipldbindcode.Block, error) {
	o := c01ObjOf(b)
	verifAssert(o.kind == iplddecoders.KindBlock, "C01.e2e: DecodeBlock on another kind")
	return &ipldbindcode.Block{Kind: int(iplddecoders.KindBlock), Slot: int(o.slot), Meta: ipldbindcode.SlotMeta{Blocktime: int(o.blocktime)}}, nil
}

func c01Model_DecodeTransaction(b []byte) (*ipldbindcode.Transaction, error) {
	o := c01ObjOf(b)
	verifAssert(o.kind == iplddecoders.KindTransaction, "C01.e2e: DecodeTransaction on another kind")
	// first data frame: compact-u16 signature count (1), the signature, then the message
	return &ipldbindcode.Transaction{Kind: int(iplddecoders.KindTransaction), Data: ipldbindcode.DataFrame{Data: b[3:]}}, nil
}

// --- hash-index container (cut): a Builder is a recorder; Seal publishes it under the file name;
// Open returns a DB bound to the recorder of that file; Lookup returns the value stored under an
// equal key.
type c01Index struct {
	kvs    []c01KV
	sealed bool
	closed bool
}

var (
	c01ByBuilder = map[*compactindexsized.Builder]*c01Index{}
	c01ByFile    = map[string]*compactindexsized.Builder{}
	c01ByDB      = map[*compactindexsized.DB]*c01Index{}
)

func c01NotFound() error {
	if compactindexsized.ErrNotFound == nil {
		compactindexsized.ErrNotFound = errors.New("not found") // library global (package is not a source root)
	}
	return compactindexsized.ErrNotFound
}

func c01Model_NewBuilderSized(tmpDir string, numItems uint, valueSizeBytes uint) (*compactindexsized.Builder, error) {
	if numItems == 0 {
		return nil, fmt.Errorf("numItems must be > 0")
	}
	b := &compactindexsized.Builder{Header: compactindexsized.Header{ValueSize: uint64(valueSizeBytes), NumBuckets: 1, Metadata: &indexmeta.Meta{}}}
	c01ByBuilder[b] = &c01Index{}
	return b, nil
}

func c01Model_BuilderMetadata(b *compactindexsized.Builder) *indexmeta.Meta { return b.Header.Metadata }

func c01Model_BuilderInsert(b *compactindexsized.Builder, key []byte, value []byte) error {
	ix := c01ByBuilder[b]
	verifAssert(ix != nil && !ix.sealed, "C01.e2e: Insert into an unknown or sealed index")
	verifAssert(uint64(len(value)) == b.Header.ValueSize, "C01.e2e: value size differs from the size the index was created with")
	ix.kvs = append(ix.kvs, c01KV{append([]byte{}, key...), append([]byte{}, value...)})
	return nil
}

func c01Model_BuilderSeal(b *compactindexsized.Builder, ctx context.Context, file *os.File) error {
	ix := c01ByBuilder[b]
	verifAssert(ix != nil && !ix.sealed, "C01.e2e: Seal of an unknown or already sealed index")
	ix.sealed = true
	c01ByFile[file.Name()] = b
	_, err := file.Write([]byte("compiszd")) // the file starts with the container's magic (new format)
	return err
}

func c01Model_BuilderClose(b *compactindexsized.Builder) error {
	c01ByBuilder[b].closed = true
	return nil
}

func c01Model_compactindexOpen(stream io.ReaderAt) (*compactindexsized.DB, error) {
	f, ok := stream.(*os.File)
	verifAssert(ok, "C01.e2e: index opened from something that is not a file")
	b := c01ByFile[f.Name()]
	if b == nil {
		return nil, fmt.Errorf("not a sealed index file: %s", f.Name())
	}
	db := &compactindexsized.DB{Header: &compactindexsized.Header{ValueSize: b.Header.ValueSize, NumBuckets: 1, Metadata: b.Header.Metadata}, Stream: stream}
	c01ByDB[db] = c01ByBuilder[b]
	return db, nil
}

func c01Model_DBLookup(db *compactindexsized.DB, key []byte) ([]byte, error) {
	ix := c01ByDB[db]
	verifAssert(ix != nil, "C01.e2e: Lookup in an index that was not opened")
	for _, kv := range ix.kvs {
		if len(kv.key) == len(key) && bytes.Equal(kv.key, key) {
			return append([]byte{}, kv.value...), nil
		}
	}
	return nil, c01NotFound()
}

// --- sig_exists (cut, property C05): recorder
var (
	c01SigExistsSeen   []solana.Signature
	c01SigExistsSealed bool
)

func c01Model_bucketteerNewWriter(path string) (*bucketteer.Writer, error) {
	return &bucketteer.Writer{}, nil
}
func c01Model_bucketteerPut(w *bucketteer.Writer, sig [64]byte) {
	verifAssert(!c01SigExistsSealed, "C01.e2e: sig_exists entry after sealing")
	c01SigExistsSeen = append(c01SigExistsSeen, solana.Signature(sig))
}
func c01Model_bucketteerSeal(w *bucketteer.Writer, meta indexmeta.Meta) (int64, error) {
	c01SigExistsSealed = true
	return 0, nil
}
func c01Model_bucketteerClose(w *bucketteer.Writer) error { return nil }

// --- carv2 reader of a local CARv1 file (cut: mmap + internal offset reader): DataReader gives an
// independent read/seek/readat handle on the file's bytes, positioned at its start
var c01CarPath string

func c01Model_carv2DataReader(r *carv2.Reader) (carv2.SectionReader, error) {
	verifAssert(r != nil && r.Version == 1, "C01.e2e: DataReader on a reader the harness did not create")
	return os.Open(c01CarPath)
}

// --- block-time file codec (cut; decided by C01.blocktime.file): the server loads the index that
// was written
var c01BtWritten *blocktimeindex.Index

func c01Model_blocktimeWriteTo(idx *blocktimeindex.Index, w io.Writer) (int64, error) {
	c01BtWritten = idx
	return 0, nil
}

// The object cache: bigcache is the engine's model (ext_C03.go: string-keyed map, never evicts);
// an evicting cache is covered by giving the epoch a fresh cache before the second round.
func c01NewCache() *hugecache.Cache {
	c, err := hugecache.NewWithConfig(context.Background(), bigcache.Config{})
	verifAssert(err == nil && c != nil, "C01: cache construction failed")
	return c
}

// payload lengths: with the 36-byte CID the section-length varint is 1 byte up to 91, 2 bytes
// from 92 to 16347 and 3 bytes from 16348
var (
	c01E2ELens    = []int{91, 92, 16347, 16348, 70, 300}
	c01E2EHdrLens = []int{59, 128, 127, 300}
)

func VerifC01E2E() {
	nl := verifParam("nlens", len(c01E2ELens))
	// the CAR: header, then transaction, entry, block [, transaction, block], epoch (root last)
	kinds := []iplddecoders.Kind{iplddecoders.KindTransaction, iplddecoders.KindEntry, iplddecoders.KindBlock}
	if verifParam("second", 0) == 1 {
		kinds = append(kinds, iplddecoders.KindTransaction, iplddecoders.KindBlock)
	}
	extra := verifParam("extra", 0) // further entries of assorted sizes (longer running offset, more buffer refills)
	extraKinds := []iplddecoders.Kind{iplddecoders.KindEntry, iplddecoders.KindRewards, iplddecoders.KindDataFrame, iplddecoders.KindSubset}
	for i := 0; i < extra; i++ {
		kinds = append(kinds, extraKinds[i%len(extraKinds)])
	}
	kinds = append(kinds, iplddecoders.KindEpoch)
	hc := verifChoice("hdrlen", verifParam("nhdrs", len(c01E2EHdrLens)))
	c01HeaderBody = verifBytes("header", c01E2EHdrLens[hc])
	c01E2EEpoch = []uint64{700, 0}[hc%2] // epoch 0 (slot 0 is a block) goes with every second header length
	var lb [binary.MaxVarintLen64]byte
	file := append([]byte{}, lb[:binary.PutUvarint(lb[:], uint64(len(c01HeaderBody)))]...)
	file = append(file, c01HeaderBody...)
	// block slots: both ends of the epoch and their neighbours, rotated by the other choices
	slotOffs := []uint64{0, 431999, 431998, 1}
	nb := 0
	sel := hc
	for i, k := range kinds {
		o := c01Obj{cid: c01Cid(i), kind: k}
		dl := 70
		if i < 2 { // the first transaction and the entry sweep the length boundaries
			dc := verifChoice("datalen", nl)
			sel += dc
			dl = c01E2ELens[dc]
		} else if k != iplddecoders.KindTransaction && k != iplddecoders.KindBlock && k != iplddecoders.KindEpoch {
			dl = 40 + 37*(i%11) + i
		}
		o.payload = append([]byte{0x86, byte(k), byte(i)}, verifBytes("payload", dl-3)...)
		switch k {
		case iplddecoders.KindBlock:
			o.slot = c01E2EEpoch*432000 + slotOffs[(sel+nb)%len(slotOffs)]
			o.blocktime = verifI64("blocktime")
			nb++
		case iplddecoders.KindTransaction:
			// compact-u16 (short_vec) signature count, then the signatures. First transaction: any
			// count of every encoding width: 1 byte = 1..127, 2 bytes = 128..16383, 3 bytes =
			// 16384..65535 (count bytes symbolic, minimal encodings); later ones: 129.
			if i == 0 {
				w := 1 + sel%3
				if verifParam("allwidths", 0) == 1 {
					w = 1 + verifChoice("sigCountWidth", 3)
				}
				p := o.payload
				switch w {
				case 1:
					verifAssume(p[3] >= 1)
					verifAssume(p[3] <= 0x7f)
				case 2:
					verifAssume(p[3] >= 0x80)
					verifAssume(p[4] >= 1)
					verifAssume(p[4] <= 0x7f)
				case 3:
					verifAssume(p[3] >= 0x80)
					verifAssume(p[4] >= 0x80)
					verifAssume(p[5] >= 1)
					verifAssume(p[5] <= 3)
				}
				copy(o.sig[:], p[3+w:3+w+64])
			} else {
				o.payload[3], o.payload[4] = 0x81, 0x01
				copy(o.sig[:], o.payload[5:69])
			}
		}
		sec := c01Section(c01CidBytes(i), o.payload)
		o.offset, o.total = uint64(len(file)), uint64(len(sec))
		file = append(file, sec...)
		c01Objs = append(c01Objs, o)
	}
	// well-formed CAR: first signatures are distinct and not all-zero
	var sigs []solana.Signature
	for _, o := range c01Objs {
		if o.kind == iplddecoders.KindTransaction {
			verifAssume(!o.sig.IsZero())
			for _, s := range sigs {
				verifAssume(s != o.sig)
			}
			sigs = append(sigs, o.sig)
		}
	}
	carPath := verifTempPath("epoch-700.car")
	verifMemFile(carPath, file)

	ctx := context.Background()
	paths, numTotal, err := createAllIndexes(ctx, indexes.NetworkMainnet, verifTempPath("tmp"), carPath, "/memfs/idx")
	if err != nil {
		verifTrace("createAllIndexes", err.Error())
	}
	verifAssert(err == nil && paths != nil, "C01.e2e: index all fails on a well-formed CAR")
	verifAssert(numTotal == uint64(len(c01Objs)), "C01.e2e: wrong item count")
	verifAssert(c01SigExistsSealed && c01BtWritten != nil, "C01.e2e: sig_exists / block-time index not written")

	if c01AfterIndexing != nil && c01AfterIndexing(ctx, carPath, paths, numTotal) {
		return
	}

	// the server opens what index all reported
	cacheKeeps := verifParam("cache", -1) == 1
	if verifParam("cache", -1) < 0 {
		cacheKeeps = verifChoice("cacheKeeps", 2) == 1
	}
	cidIdx, err := OpenIndex_CidToOffset(paths.CidToOffsetAndSize)
	verifAssert(err == nil, "C01.e2e: the cid_to_offset_and_size index that was reported does not open")
	slotIdx, err := OpenIndex_SlotToCid(paths.SlotToCid)
	verifAssert(err == nil, "C01.e2e: the slot_to_cid index that was reported does not open")
	sigIdx, err := OpenIndex_SigToCid(paths.SignatureToCid)
	verifAssert(err == nil, "C01.e2e: the sig_to_cid index that was reported does not open")
	verifAssert(cidIdx.Meta().Epoch == c01E2EEpoch && cidIdx.Meta().RootCid.Equals(c01Cid(100)) && slotIdx.Meta().Epoch == c01E2EEpoch && sigIdx.Meta().Epoch == c01E2EEpoch,
		"C01.e2e: index metadata does not carry the CAR's epoch / root")
	car, err := os.Open(carPath)
	verifAssert(err == nil, "C01.e2e: open")
	c01CarPath = carPath
	ep := &Epoch{
		epoch:                   c01E2EEpoch,
		config:                  &Config{},
		cidToOffsetAndSizeIndex: cidIdx,
		slotToCidIndex:          slotIdx,
		sigToCidIndex:           sigIdx,
		blocktimeindex:          c01BtWritten,
		allCache:                c01NewCache(),
	}
	// the CAR is served through a ReaderAt (remote/split files) or from a local file (carv2 reader)
	carFrom := verifParam("carFrom", -1)
	if carFrom < 0 {
		carFrom = verifChoice("carFrom", 2)
	}
	if carFrom == 0 {
		ep.remoteCarReader = car
	} else {
		ep.localCarReader = &carv2.Reader{Version: 1}
	}
	nt := 0
	for round := 0; round < 2; round++ { // second round: answers may come from the cache
		if round == 1 && !cacheKeeps {
			ep.allCache = c01NewCache()
		}
		for i := range c01Objs {
			o := &c01Objs[i]
			oas, err := ep.FindOffsetAndSizeFromCid(ctx, o.cid)
			verifAssert(err == nil && oas != nil, "C01.e2e: an object's CID does not resolve")
			verifAssert(oas.Offset == o.offset && oas.Size == o.total, "C01.e2e: recorded offset/size is not where the section is in the file")
			got, err := ep.GetNodeByCid(ctx, o.cid)
			verifAssert(err == nil, "C01.e2e: an object of the CAR cannot be fetched by its CID")
			verifAssert(bytes.Equal(got, o.payload), "C01.e2e: the bytes fetched by CID are not the object's bytes")
			raw, err := ep.ReadAtFromCar(ctx, oas.Offset, oas.Size)
			verifAssert(err == nil && uint64(len(raw)) == o.total && bytes.Equal(raw[o.total-uint64(len(o.payload)):], o.payload), "C01.e2e: ReadAtFromCar at the recorded offset/size is not the object's section")
			switch o.kind {
			case iplddecoders.KindBlock:
				c, err := ep.FindCidFromSlot(ctx, o.slot)
				verifAssert(err == nil && c.Equals(o.cid), "C01.e2e: a block's slot does not resolve to the block's CID")
				blk, c, err := ep.GetBlock(ctx, o.slot)
				verifAssert(err == nil && blk != nil && c.Equals(o.cid) && uint64(blk.Slot) == o.slot, "C01.e2e: GetBlock(slot) does not return the block of that slot")
				bt, err := ep.GetBlocktime(o.slot)
				verifAssert(err == nil && bt == o.blocktime, "C01.e2e: a block's slot does not resolve to its recorded block time")
			case iplddecoders.KindTransaction:
				c, err := ep.FindCidFromSignature(ctx, o.sig)
				verifAssert(err == nil && c.Equals(o.cid), "C01.e2e: a transaction's first signature does not resolve to the transaction's CID")
				tx, c, err := ep.GetTransaction(ctx, o.sig)
				verifAssert(err == nil && tx != nil && c.Equals(o.cid), "C01.e2e: GetTransaction(first signature) does not return the transaction")
				if round == 0 {
					verifAssert(nt < len(c01SigExistsSeen) && c01SigExistsSeen[nt] == o.sig, "C01.e2e: a transaction's first signature was not added to sig_exists")
					nt++
				}
			}
		}
	}
	verifAssert(len(c01SigExistsSeen) == nt, "C01.e2e: sig_exists holds entries that are not first signatures")
	_, err = ep.GetNodeByCid(ctx, c01Cid(50))
	verifAssert(err != nil, "C01.e2e: a CID that is not in the CAR resolves")
	_, err = ep.FindCidFromSlot(ctx, c01E2EEpoch*432000+5)
	verifAssert(err != nil, "C01.e2e: a slot without a block resolves")
	verifReach("end")
}
