//go:build verif

package main

import (
	"bufio"
	"bytes"
	"encoding/binary"
	"errors"
	"context"
	"io"

	"github.com/ipfs/go-cid"
	"github.com/rpcpool/yellowstone-faithful/indexes"
)

// C12.car.node — the node readers of package main over arbitrary bytes:
// parseNodeFromSection, readNodeWithKnownSize, readNodeSizeFromReaderAtWithOffset (epoch.go) and
// readHeader (cmd-car-split.go). Error or bytes; no panic; allocation bounded by the length
// argument (which comes from the 24-bit size field of the index).
//
// Cut: cid.CidFromReader (library) — fails, or consumes L bytes (1 <= L <= maxcid) and returns L.

func c12Model_cidFromReader(r io.Reader) (int, cid.Cid, error) {
	L := verifChoice("cidlen", verifParam("maxcid", 3)+1)
	if L == 0 {
		var one [1]byte
		if n, _ := r.Read(one[:]); n == 0 {
			return 0, cid.Undef, io.EOF
		}
		return 1, cid.Undef, errors.New("invalid cid (model)")
	}
	buf := make([]byte, L)
	n, err := io.ReadFull(r, buf)
	if err != nil {
		return n, cid.Undef, errors.New("invalid cid (model): short read")
	}
	return L, cid.Cid{}, nil
}

func VerifC12CarNode() {
	N := verifParam("N", 6)
	verifAllocLimit(1<<24 + 4096) // the index stores node sizes in 24 bits
	switch verifChoice("api", 5) {
	case 0:
		// a section as fetched by (offset,size) from the CAR: arbitrary bytes of every length
		n := verifChoice("len", N+1)
		section := verifBytes("section", n)
		data, err := parseNodeFromSection(section, nil)
		if err != nil {
			verifAssert(data == nil, "C12.car.node: parseNodeFromSection returned data together with an error")
			verifReach("parse-error")
		} else {
			verifAssert(len(data) < n, "C12.car.node: node data not shorter than its section")
			verifReach("parse-ok")
		}
	case 1:
		// known-size read: stream of n bytes, requested length every value 0..N+2 and 2^24-1
		n := verifChoice("len", N+1)
		stream := verifBytes("stream", n)
		var length uint64
		if verifChoice("lengthKind", 2) == 0 {
			length = verifU64("length")
			verifAssume(length <= uint64(N+2))
		} else {
			length = 1<<24 - 1
		}
		data, err := readNodeWithKnownSize(bufio.NewReader(bytes.NewReader(stream)), nil, length)
		if err != nil {
			verifAssert(data == nil, "C12.car.node: readNodeWithKnownSize returned data together with an error")
			verifReach("known-error")
		} else {
			verifAssert(uint64(len(data)) < length && length <= uint64(n), "C12.car.node: node data not shorter than the requested section, or section longer than the stream")
			verifReach("known-ok")
		}
	case 2:
		// size probe at an arbitrary offset of an arbitrary file
		n := verifParam("file", 14)
		file := verifBytes("file", n)
		var off uint64
		offBig := []uint64{1<<63 - 1, 1 << 63, 1<<64 - 1}
		if k := verifChoice("offsetKind", 1+len(offBig)); k == 0 {
			off = verifU64("offset")
			verifAssume(off <= uint64(n+1))
		} else {
			off = offBig[k-1]
		}
		sz, err := readNodeSizeFromReaderAtWithOffset(bytes.NewReader(file), off)
		if err != nil {
			verifAssert(sz == 0, "C12.car.node: readNodeSizeFromReaderAtWithOffset returned a size together with an error")
			verifReach("size-error")
		} else {
			verifAssert(sz <= 32<<20, "C12.car.node: node size above go-car's section cap")
			verifReach("size-ok")
		}
	case 3:
		// CAR header framing of cmd-car-split: length prefix candidates + arbitrary bytes
		pre := [][]byte{{0}, {1}, {5}, {12}, {0x80, 0x01}, binary.AppendUvarint(nil, 1<<40), binary.AppendUvarint(nil, 1<<63), bytes.Repeat([]byte{0xff}, 10)}
		p := pre[verifChoice("prefix", len(pre))]
		stream := append(append([]byte{}, p...), verifBytes("rest", verifChoice("rest", 3)*6)...)
		hdr, total, err := readHeader(bufio.NewReader(bytes.NewReader(stream)))
		if err != nil {
			verifAssert(hdr == nil && total == 0, "C12.car.node: readHeader returned data together with an error")
			verifReach("hdr-error")
		} else {
			verifAssert(int64(len(hdr)) < total && total <= int64(len(stream)), "C12.car.node: header longer than what was consumed, or more consumed than the stream holds")
			verifReach("hdr-ok")
		}
	case 4:
		// the public remote-CAR read path: Epoch.GetNodeByOffsetAndSize / ReadAtFromCar with an
		// (offset,size) pair from a third-party index over a CAR of arbitrary bytes
		n := verifParam("file", 14)
		ep := &Epoch{remoteCarReader: &verifC12RAC{bytes.NewReader(verifBytes("car", n))}}
		var oas indexes.OffsetAndSize
		offBig := []uint64{1<<48 - 1}
		if k := verifChoice("offsetKind", 1+len(offBig)); k == 0 {
			oas.Offset = verifU64("offset")
			verifAssume(oas.Offset <= 1 || (oas.Offset >= uint64(n-3) && oas.Offset <= uint64(n+1)))
		} else {
			oas.Offset = offBig[k-1]
		}
		if verifChoice("sizeKind", 2) == 0 {
			oas.Size = verifU64("size")
			verifAssume(oas.Size <= uint64(N+2))
		} else {
			oas.Size = 1<<24 - 1
		}
		if verifChoice("entry", 2) == 0 {
			data, err := ep.GetNodeByOffsetAndSize(context.Background(), nil, &oas)
			if err != nil {
				verifAssert(data == nil, "C12.car.node: GetNodeByOffsetAndSize returned data together with an error")
				verifReach("remote-error")
			} else {
				verifAssert(oas.Size != 0 && uint64(len(data)) < oas.Size && oas.Offset+oas.Size <= uint64(n), "C12.car.node: GetNodeByOffsetAndSize returned a node that does not lie inside the requested range of the file")
				verifReach("remote-ok")
			}
			d2, err := ep.GetNodeByOffsetAndSize(context.Background(), nil, nil)
			verifAssert(err != nil && d2 == nil, "C12.car.node: GetNodeByOffsetAndSize accepted a nil location")
		} else {
			data, err := ep.ReadAtFromCar(context.Background(), oas.Offset, oas.Size)
			if err != nil {
				verifAssert(data == nil, "C12.car.node: ReadAtFromCar returned data together with an error")
				verifReach("readat-error")
			} else {
				verifAssert(uint64(len(data)) == oas.Size && oas.Offset+oas.Size <= uint64(n), "C12.car.node: ReadAtFromCar returned bytes outside the file")
				verifReach("readat-ok")
			}
		}
	}
	verifReach("end")
}

// verifC12RAC: an in-memory remote CAR (io.ReaderAt + io.Closer)
type verifC12RAC struct{ *bytes.Reader }

func (verifC12RAC) Close() error { return nil }
