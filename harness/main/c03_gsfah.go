//go:build verif

package main

import (
	"context"
	"encoding/json"
	"errors"

	"github.com/gagliardetto/solana-go"
	"github.com/ipfs/go-cid"
	"github.com/rpcpool/yellowstone-faithful/gsfa"
	"github.com/rpcpool/yellowstone-faithful/gsfa/linkedlog"
	"github.com/rpcpool/yellowstone-faithful/indexes"
	"github.com/rpcpool/yellowstone-faithful/ipld/ipldbindcode"
	"github.com/rpcpool/yellowstone-faithful/iplddecoders"
	"github.com/sourcegraph/jsonrpc2"
)

// C03.gsfahandler — the real JSON-RPC handleGetSignaturesForAddress with its REAL per-transaction fetcher
// closure (epoch handle lookup by epoch number, Epoch.GetNodeByOffsetAndSize by location, decode) and
// reply assembly, with several epochs loaded under ARBITRARY (symbolic, pairwise distinct) epoch numbers.
// gSFA reads the CAR by (offset,size) without any CID check, so the only thing that ties a listed location
// to the right transaction is that the fetcher reads it from the epoch the location belongs to.
// Decided: every location the address index lists for epoch n is fetched from epoch n's archive (the
// fetcher returns exactly the transaction stored there), and the reply is exactly the multiset of the
// signatures of the listed transactions — never a signature of a transaction of another epoch / location.
// All epochs share the same CAR layout (equal offsets), so a read from the wrong epoch yields a
// well-formed transaction of that epoch.

type verifC03HTx struct {
	ep  *Epoch
	off uint64
	sig solana.Signature
	tx  *ipldbindcode.Transaction
}

var verifC03H struct {
	objs    []*verifC03HTx
	byRdr   map[*gsfa.GsfaReader]*Epoch
	listed  map[*Epoch][]*verifC03HTx // what the address index lists per epoch (newest first)
	replies []interface{}
	fetched int
}

// model of parseGetSignaturesForAddressParams (renamed; parsing is C08)
func parseGetSignaturesForAddressParams(raw *json.RawMessage) (*GetSignaturesForAddressParams, error) {
	return &GetSignaturesForAddressParams{Address: solana.PublicKey{9, 9, 9}, Limit: 1000}, nil
}

// model of (*requestContext).ReplyRaw (renamed): records the reply
func (c *requestContext) ReplyRaw(ctx context.Context, id jsonrpc2.ID, result interface{}) error {
	verifC03H.replies = append(verifC03H.replies, result)
	return nil
}

// model of (*Epoch).GetNodeByOffsetAndSize (renamed): the section stored at that offset of THIS epoch's CAR
func (s *Epoch) GetNodeByOffsetAndSize(ctx context.Context, wantedCid *cid.Cid, oas *indexes.OffsetAndSize) ([]byte, error) {
	if oas == nil {
		return nil, errors.New("verif model: nil location")
	}
	for i, o := range verifC03H.objs {
		if o.ep == s && o.off == oas.Offset {
			return []byte{0, byte(i)}, nil
		}
	}
	return nil, errors.New("verif model: no section at this offset of the epoch's CAR")
}

// model of iplddecoders.DecodeTransaction (hook)
func verifC03HDecode(data []byte) (*ipldbindcode.Transaction, error) {
	if len(data) != 2 || data[0] != 0 || int(data[1]) >= len(verifC03H.objs) {
		return nil, errors.New("verif model: not a transaction node")
	}
	return verifC03H.objs[data[1]].tx, nil
}

// model of (*gsfa.GsfaReaderMultiepoch).GetBeforeUntil at its call site in the handler (the readers are
// decided by C03.gsfa / C07.iter): walks the readers in the order handed over, lists each epoch's
// locations and resolves every one through the handler's REAL fetcher.
func verifC03HGetBeforeUntil(
	multi *gsfa.GsfaReaderMultiepoch,
	readers []*gsfa.GsfaReader,
	ctx context.Context,
	pk solana.PublicKey,
	limit int,
	before *solana.Signature,
	until *solana.Signature,
	fetcher func(uint64, linkedlog.OffsetAndSizeAndSlot) (*ipldbindcode.Transaction, error),
) (gsfa.EpochToTransactionObjects, error) {
	out := make(gsfa.EpochToTransactionObjects)
	for _, rd := range readers {
		ep := verifC03H.byRdr[rd]
		verifAssert(ep != nil, "C03.gsfahandler: unknown gsfa reader handed to the multi-epoch reader")
		num, ok := rd.GetEpoch()
		verifAssert(ok && num == ep.epoch, "C03.gsfahandler: gsfa reader is labelled with another epoch's number")
		for _, want := range verifC03H.listed[ep] {
			tx, err := fetcher(num, linkedlog.OffsetAndSizeAndSlot{Offset: want.off, Size: 1, Slot: num*432000 + want.off})
			verifAssert(err == nil, "C03.gsfahandler: fetcher failed for a listed location")
			verifC03H.fetched++
			verifAssert(tx == want.tx, "C03.gsfahandler: the fetcher answered a location of one epoch with the transaction stored at that offset in ANOTHER epoch's archive")
			out[num] = append(out[num], tx)
		}
	}
	return out, nil
}

func VerifC03GsfaHandler() {
	iplddecoders.VerifDecodeTransaction = verifC03HDecode
	verifC03H.byRdr = map[*gsfa.GsfaReader]*Epoch{}
	verifC03H.listed = map[*Epoch][]*verifC03HTx{}
	ne := verifParam("min_epochs", 2) + verifChoice("epochs", verifParam("max_epochs", 2)-verifParam("min_epochs", 2)+1)
	perEpoch := verifParam("txs", 2)
	multi := NewMultiEpoch(&Options{GsfaOnlySignatures: true})
	var nums []uint64
	want := map[string]int{}
	total := 0
	for i := 0; i < ne; i++ {
		num := verifU64("epochNumber") // arbitrary epoch numbers, 0 included
		verifAssume(num < 1000)
		for _, p := range nums {
			verifAssume(p != num)
		}
		nums = append(nums, num)
		rd := &gsfa.GsfaReader{}
		e := &Epoch{epoch: num, config: &Config{}, gsfaReader: rd}
		multi.epochs[num] = e
		verifC03H.byRdr[rd] = e
		for j := 0; j < perEpoch; j++ {
			var sig solana.Signature
			sig[0], sig[1], sig[63] = byte(1+i), byte(1+j), 0x5A
			o := &verifC03HTx{ep: e, off: uint64(100 + 10*j), sig: sig}
			o.tx = &ipldbindcode.Transaction{Kind: 0, Slot: int(num*432000) + j, Data: ipldbindcode.DataFrame{Kind: 6, Data: append([]byte{1}, sig[:]...)}}
			verifC03H.objs = append(verifC03H.objs, o)
		}
		// what the address index lists in this epoch: nothing, the first, or all transactions
		n := verifChoice("listed", perEpoch+1)
		for j := 0; j < n; j++ {
			o := verifC03H.objs[i*perEpoch+j]
			verifC03H.listed[e] = append(verifC03H.listed[e], o)
			want[o.sig.String()]++
			total++
		}
	}
	raw := json.RawMessage(nil)
	rpcErr, err := multi.handleGetSignaturesForAddress(context.Background(), &requestContext{}, &jsonrpc2.Request{Method: "getSignaturesForAddress", Params: &raw})
	verifAssert(rpcErr == nil && err == nil, "C03.gsfahandler: handler failed although every listed location is readable")
	verifAssert(verifC03H.fetched == total, "C03.gsfahandler: not every listed location was fetched")
	verifAssert(len(verifC03H.replies) == 1, "C03.gsfahandler: not exactly one reply")
	resp, ok := verifC03H.replies[0].([]map[string]any)
	verifAssert(ok && len(resp) == total, "C03.gsfahandler: reply does not have one entry per listed transaction")
	got := map[string]int{}
	for _, m := range resp {
		s, _ := m["signature"].(string)
		got[s]++
	}
	for s, n := range want {
		verifAssert(got[s] == n, "C03.gsfahandler: the reply does not carry the signature of a listed transaction exactly once (a foreign signature took its place)")
	}
	verifReach("end")
}
