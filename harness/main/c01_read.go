//go:build verif

package main

import (
	"bytes"
	"context"
	"errors"
	"io"
	"os"

	"github.com/allegro/bigcache/v3"
	carv2 "github.com/ipld/go-car/v2"
	"github.com/rpcpool/yellowstone-faithful/compactindexsized"
	hugecache "github.com/rpcpool/yellowstone-faithful/huge-cache"
	"github.com/rpcpool/yellowstone-faithful/indexes"
)

// ---- cut: the hash index (property C04) is a recorder: Lookup returns what Insert stored.
var c01Inserted []c01KV

func c01Model_BuilderInsert(b *compactindexsized.Builder, key []byte, value []byte) error {
	c01Inserted = append(c01Inserted, c01KV{append([]byte{}, key...), append([]byte{}, value...)})
	return nil
}

func c01Model_DBLookup(db *compactindexsized.DB, key []byte) ([]byte, error) {
	for _, kv := range c01Inserted {
		if len(kv.key) == len(key) && bytes.Equal(kv.key, key) {
			return append([]byte{}, kv.value...), nil
		}
	}
	if compactindexsized.ErrNotFound == nil {
		compactindexsized.ErrNotFound = errors.New("not found") // library global (package is not a source root)
	}
	return nil, compactindexsized.ErrNotFound
}

// The object cache: bigcache is the engine's model (ext_C03.go: string-keyed map, never evicts);
// an evicting cache is covered by giving the epoch a fresh cache before the second round.
func c01NewCache() *hugecache.Cache {
	c, err := hugecache.NewWithConfig(context.Background(), bigcache.Config{})
	verifAssert(err == nil && c != nil, "C01: cache construction failed")
	return c
}

var c01ReadCarPath string

func c01Model_carv2DataReader(r *carv2.Reader) (carv2.SectionReader, error) {
	verifAssert(r != nil && r.Version == 1, "C01.read: DataReader on a reader the harness did not create")
	if c01Far != nil {
		return &c01FarFile{c01Far.base, c01Far.content, 0, 0, false}, nil
	}
	return os.Open(c01ReadCarPath)
}

// c01FarFile is a window of a huge CAR file: content sits at the (symbolic) absolute offset base.
// It serves ReadAt / Seek+Read only at that offset and asserts that this is where the server reads
// (real epoch CARs are hundreds of GiB: offsets beyond 2^32 cannot be built as memfs files).
type c01FarFile struct {
	base     uint64
	content  []byte
	seekTo   int64
	consumed int
	sought   bool
}

var c01Far *c01FarFile

func (f *c01FarFile) ReadAt(p []byte, off int64) (int, error) {
	verifAssert(off >= 0 && uint64(off) == f.base, "C01.read.far: the server reads the CAR at an offset that is not the recorded offset")
	n := copy(p, f.content)
	if n < len(p) {
		return n, io.EOF
	}
	return n, nil
}

func (f *c01FarFile) Seek(off int64, whence int) (int64, error) {
	verifAssert(whence == io.SeekStart, "C01.read.far: the harness file model only supports absolute seeks")
	f.seekTo, f.sought, f.consumed = off, true, 0
	return off, nil
}

func (f *c01FarFile) Read(p []byte) (int, error) {
	verifAssert(f.sought && f.seekTo >= 0 && uint64(f.seekTo) == f.base, "C01.read.far: the server reads the CAR sequentially from an offset that is not the recorded offset")
	if f.consumed >= len(f.content) {
		return 0, io.EOF
	}
	n := copy(p, f.content[f.consumed:])
	f.consumed += n
	return n, nil
}

func (f *c01FarFile) Close() error { return nil }

// C01.read.far — the same server lookups for a section that lies at an arbitrary 48-bit offset
// of the CAR (the recorded offset travels through the real index value codec): every read of the
// CAR happens exactly at the recorded offset (no narrowing or sign trouble beyond 2^31 / 2^32)
// and returns exactly the object's bytes, through the ReaderAt branch and the local-file branch.
func VerifC01ReadFar() {
	dl := c01DataLens[verifChoice("datalen", verifParam("nlens", 4))]
	data := verifBytes("data", dl)
	sec := c01Section(c01CidBytes(0), data)
	base := verifU64("offset")
	verifAssume(base <= indexes.MaxUint48)
	c01Far = &c01FarFile{base: base, content: append(append([]byte{}, sec...), verifBytes("after", 40)...)}
	w := &indexes.CidToOffsetAndSize_Writer{}
	verifAssert(w.Put(c01Cid(0), base, uint64(len(sec))) == nil, "C01.read.far: Put failed")
	ep := &Epoch{config: &Config{}, cidToOffsetAndSizeIndex: &indexes.CidToOffsetAndSize_Reader{}, allCache: c01NewCache()}
	if verifChoice("carFrom", 2) == 0 {
		ep.remoteCarReader = c01Far
	} else {
		ep.localCarReader = &carv2.Reader{Version: 1}
	}
	ctx := context.Background()
	oas, err := ep.FindOffsetAndSizeFromCid(ctx, c01Cid(0))
	verifAssert(err == nil && oas != nil, "C01.read.far: the CID does not resolve")
	verifAssert(oas.Offset == base && oas.Size == uint64(len(sec)), "C01.read.far: the resolved offset/size is not what was recorded")
	got, err := ep.GetNodeByCid(ctx, c01Cid(0))
	verifAssert(err == nil && bytes.Equal(got, data), "C01.read.far: GetNodeByCid does not return the object's bytes")
	raw, err := ep.ReadAtFromCar(ctx, oas.Offset, oas.Size)
	verifAssert(err == nil && bytes.Equal(raw, sec), "C01.read.far: ReadAtFromCar does not return the raw section")
	verifReach("end")
}

// payload lengths around the 1/2/3-byte length-prefix boundaries (36-byte CID)
var c01DataLens = []int{91, 92, 16347, 16348, 1, 300, 90, 93, 16346, 16349}

// bytes in front of the section (CAR header and earlier sections)
var c01PrefixLens = []int{60, 0, 1, 4095, 70000}

// C01.read — the server side of "fetch by CID": with the index holding the (offset, total
// section length) pair that the indexer records for a section, the real Epoch.GetNodeByCid
// (remote/ReaderAt branch), GetNodeByOffsetAndSize, readNodeWithKnownSize (local branch after the
// seek) and ReadAtFromCar return exactly the section's payload bytes / raw bytes, whatever
// surrounds the section in the file; a different wanted CID is refused.
func VerifC01Read() {
	cacheKeeps := verifChoice("cacheKeeps", 2) == 1
	dl := c01DataLens[verifChoice("datalen", verifParam("nlens", len(c01DataLens)))]
	pl := c01PrefixLens[verifChoice("prefixlen", verifParam("nprefix", len(c01PrefixLens)))]
	data := verifBytes("data", dl)
	sec := c01Section(c01CidBytes(0), data)
	file := append([]byte{}, verifBytes("before", pl)...)
	file = append(file, sec...)
	file = append(file, verifBytes("after", 40)...)
	path := verifTempPath("epoch.car")
	verifMemFile(path, file)
	f, err := os.Open(path)
	verifAssert(err == nil, "C01.read: open")

	// what the indexer records for this section (C01.offsets / C01.e2e): offset of the length
	// prefix, total length including the prefix; stored through the real writer codec
	w := &indexes.CidToOffsetAndSize_Writer{}
	verifAssert(w.Put(c01Cid(0), uint64(pl), uint64(len(sec))) == nil, "C01.read: Put failed")

	ep := &Epoch{
		config:                  &Config{},
		remoteCarReader:         f,
		cidToOffsetAndSizeIndex: &indexes.CidToOffsetAndSize_Reader{},
		allCache:                c01NewCache(),
	}
	ctx := context.Background()
	for round := 0; round < 2; round++ { // second round: offset and raw object come from the cache (if it kept them)
		if round == 1 && !cacheKeeps {
			ep.allCache = c01NewCache()
		}
		got, err := ep.GetNodeByCid(ctx, c01Cid(0))
		if err != nil {
			verifTrace("GetNodeByCid", err.Error())
		}
		verifAssert(err == nil, "C01.read: GetNodeByCid failed for an indexed object")
		verifAssert(bytes.Equal(got, data), "C01.read: GetNodeByCid returned bytes that are not the object's bytes")
		ep.GetCache().PutRawCarObject(c01Cid(0), got) // as the handlers do after a fetch
	}
	_, err = ep.GetNodeByCid(ctx, c01Cid(1))
	verifAssert(err != nil, "C01.read: GetNodeByCid succeeded for a CID that is not indexed")

	oas := &indexes.OffsetAndSize{Offset: uint64(pl), Size: uint64(len(sec))}
	wrong := c01Cid(1)
	_, err = ep.GetNodeByOffsetAndSize(ctx, &wrong, oas)
	verifAssert(err != nil, "C01.read: a section whose CID differs from the wanted CID is returned")

	raw, err := ep.ReadAtFromCar(ctx, oas.Offset, oas.Size)
	verifAssert(err == nil && bytes.Equal(raw, sec), "C01.read: ReadAtFromCar does not return the raw section")

	// the same lookups with the CAR served from a local file (carv2 reader; its DataReader is a
	// model handing out a read/seek handle on the file's bytes)
	c01ReadCarPath = path
	lep := &Epoch{
		config:                  &Config{},
		localCarReader:          &carv2.Reader{Version: 1},
		cidToOffsetAndSizeIndex: &indexes.CidToOffsetAndSize_Reader{},
		allCache:                c01NewCache(),
	}
	got, err := lep.GetNodeByCid(ctx, c01Cid(0))
	verifAssert(err == nil && bytes.Equal(got, data), "C01.read: GetNodeByCid (local CAR file) does not return the object's bytes")
	_, err = lep.GetNodeByOffsetAndSize(ctx, &wrong, oas)
	verifAssert(err != nil, "C01.read: (local CAR file) a section whose CID differs from the wanted CID is returned")
	got, err = lep.GetNodeByOffsetAndSize(ctx, nil, oas)
	verifAssert(err == nil && bytes.Equal(got, data), "C01.read: GetNodeByOffsetAndSize without a wanted CID (local CAR file) does not return the object's bytes")
	raw, err = lep.ReadAtFromCar(ctx, oas.Offset, oas.Size)
	verifAssert(err == nil && bytes.Equal(raw, sec), "C01.read: ReadAtFromCar (local CAR file) does not return the raw section")
	verifReach("end")
}
