//go:build verif

package main

import (
	"bufio"
	"bytes"
	"context"
	"errors"
	"io"
	"os"

	"github.com/allegro/bigcache/v3"
	"github.com/rpcpool/yellowstone-faithful/compactindexsized"
	hugecache "github.com/rpcpool/yellowstone-faithful/huge-cache"
	"github.com/rpcpool/yellowstone-faithful/indexes"
)

// ---- cut: the hash index (property C04) is a recorder: Lookup returns what Insert stored.
var c01Inserted []c01KV

func c01Model_BuilderInsert(b *compactindexsized.Builder, key []byte, value []byte) error {
	c01Inserted = append(c01Inserted, c01KV{append([]byte{}, key...), append([]byte{}, value...)})
	return nil
}

func c01Model_DBLookup(db *compactindexsized.DB, key []byte) ([]byte, error) {
	for _, kv := range c01Inserted {
		if len(kv.key) == len(key) && bytes.Equal(kv.key, key) {
			return append([]byte{}, kv.value...), nil
		}
	}
	if compactindexsized.ErrNotFound == nil {
		compactindexsized.ErrNotFound = errors.New("not found") // library global (package is not a source root)
	}
	return nil, compactindexsized.ErrNotFound
}

// The object cache: bigcache is the engine's model (ext_C03.go: string-keyed map, never evicts);
// an evicting cache is covered by giving the epoch a fresh cache before the second round.
func c01NewCache() *hugecache.Cache {
	c, err := hugecache.NewWithConfig(context.Background(), bigcache.Config{})
	verifAssert(err == nil && c != nil, "C01: cache construction failed")
	return c
}

// payload lengths around the 1/2/3-byte length-prefix boundaries (36-byte CID)
var c01DataLens = []int{91, 92, 16347, 16348, 1, 300, 90, 93, 16346, 16349}

// bytes in front of the section (CAR header and earlier sections)
var c01PrefixLens = []int{60, 0, 1, 4095, 70000}

// C01.read — the server side of "fetch by CID": with the index holding the (offset, total
// section length) pair that the indexer records for a section, the real Epoch.GetNodeByCid
// (remote/ReaderAt branch), GetNodeByOffsetAndSize, readNodeWithKnownSize (local branch after the
// seek) and ReadAtFromCar return exactly the section's payload bytes / raw bytes, whatever
// surrounds the section in the file; a different wanted CID is refused.
func VerifC01Read() {
	cacheKeeps := verifChoice("cacheKeeps", 2) == 1
	dl := c01DataLens[verifChoice("datalen", verifParam("nlens", len(c01DataLens)))]
	pl := c01PrefixLens[verifChoice("prefixlen", verifParam("nprefix", len(c01PrefixLens)))]
	data := verifBytes("data", dl)
	sec := c01Section(c01CidBytes(0), data)
	file := append([]byte{}, verifBytes("before", pl)...)
	file = append(file, sec...)
	file = append(file, verifBytes("after", 40)...)
	path := verifTempPath("epoch.car")
	verifMemFile(path, file)
	f, err := os.Open(path)
	verifAssert(err == nil, "C01.read: open")

	// what the indexer records for this section (C01.offsets / C01.e2e): offset of the length
	// prefix, total length including the prefix; stored through the real writer codec
	w := &indexes.CidToOffsetAndSize_Writer{}
	verifAssert(w.Put(c01Cid(0), uint64(pl), uint64(len(sec))) == nil, "C01.read: Put failed")

	ep := &Epoch{
		config:                  &Config{},
		remoteCarReader:         f,
		cidToOffsetAndSizeIndex: &indexes.CidToOffsetAndSize_Reader{},
		allCache:                c01NewCache(),
	}
	ctx := context.Background()
	for round := 0; round < 2; round++ { // second round: offset and raw object come from the cache (if it kept them)
		if round == 1 && !cacheKeeps {
			ep.allCache = c01NewCache()
		}
		got, err := ep.GetNodeByCid(ctx, c01Cid(0))
		if err != nil {
			verifTrace("GetNodeByCid", err.Error())
		}
		verifAssert(err == nil, "C01.read: GetNodeByCid failed for an indexed object")
		verifAssert(bytes.Equal(got, data), "C01.read: GetNodeByCid returned bytes that are not the object's bytes")
		ep.GetCache().PutRawCarObject(c01Cid(0), got) // as the handlers do after a fetch
	}
	_, err = ep.GetNodeByCid(ctx, c01Cid(1))
	verifAssert(err != nil, "C01.read: GetNodeByCid succeeded for a CID that is not indexed")

	oas := &indexes.OffsetAndSize{Offset: uint64(pl), Size: uint64(len(sec))}
	wrong := c01Cid(1)
	_, err = ep.GetNodeByOffsetAndSize(ctx, &wrong, oas)
	verifAssert(err != nil, "C01.read: a section whose CID differs from the wanted CID is returned")

	raw, err := ep.ReadAtFromCar(ctx, oas.Offset, oas.Size)
	verifAssert(err == nil && bytes.Equal(raw, sec), "C01.read: ReadAtFromCar does not return the raw section")

	// local-file branch of GetNodeByOffsetAndSize after DataReader().Seek(offset) (carv2 I/O is cut)
	f2, _ := os.Open(path)
	_, err = f2.Seek(int64(oas.Offset), io.SeekStart)
	verifAssert(err == nil, "C01.read: seek")
	want := c01Cid(0)
	got, err := readNodeWithKnownSize(bufio.NewReader(f2), &want, oas.Size)
	verifAssert(err == nil && bytes.Equal(got, data), "C01.read: readNodeWithKnownSize does not return the object's bytes")
	got, err = readNodeWithKnownSize(bufio.NewReader(bytes.NewReader(sec)), nil, oas.Size)
	verifAssert(err == nil && bytes.Equal(got, data), "C01.read: readNodeWithKnownSize (no wanted CID) does not return the object's bytes")
	verifReach("end")
}
