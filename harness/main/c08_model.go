//go:build verif

package main

// Shared models for the C08 obligations (no request can crash the server).
//
// JSON shape model: the server decodes request parameters with
// `fasterJson.Unmarshal(*raw, &params)` into a `[]any`. jsoniter itself (reflect2/unsafe) is library
// code outside the encoding; `fasterJson` is a package variable of interface type jsoniter.API, so
// the harness installs its own implementation whose Unmarshal yields the *shape* chosen by the
// harness: an error, or a list whose elements have one of the six dynamic types a JSON decoder
// produces for `any` (nil, float64, string, bool, map[string]any, []any). The raw bytes are
// irrelevant to the model (they stay opaque), but the real code still dereferences `*raw` itself.

import (
	"encoding/json"
	"errors"

	jsoniter "github.com/json-iterator/go"
)

type verifC08JSON struct{ jsoniter.API }

var (
	verifC08UnmarshalFails bool  // the decoder reports a syntax/type error (e.g. params is an object)
	verifC08Params         []any // the decoded list otherwise
	verifC08Unmarshals     int
)

func (verifC08JSON) Unmarshal(data []byte, v interface{}) error {
	verifC08Unmarshals++
	switch p := v.(type) {
	case *[]any:
		if verifC08UnmarshalFails {
			return errors.New("verif: json: cannot unmarshal into []interface {}")
		}
		*p = verifC08Params
		return nil
	}
	panic("verifC08JSON.Unmarshal: target type outside the C08 shape model")
}

// value pools ---------------------------------------------------------------------------------

const (
	// 64-byte signature, 32-byte public key (base58), taken from mainnet
	verifC08Sig64  = "5VERv8NMvzbJMEkV8xnrLkEaWRtSz9CosKDYjCJjBRnbJLgp8uirBgmQpjKhoR4tjF3ZpRzrFmBV6UjKdiSZkQUW"
	verifC08Sig64b = "2nBhEBYYvfaAe16UMNqRHre4YNSskvuYgx3M6E4JP1oDYvZEJHvoPzyUidNgNX5r9sTyN1J9UxtbCXy2rqYcuyuv"
	verifC08Key32  = "Vote111111111111111111111111111111111111111"
	verifC08Key32b = "SysvarC1ock11111111111111111111111111111111"
	// 64 x '1' decodes to 64 zero bytes: a well-formed but zero signature
	verifC08SigZero = "1111111111111111111111111111111111111111111111111111111111111111"
)

// strings offered where the code expects a base58 signature or public key
var verifC08B58Strings = []string{
	verifC08Sig64,   // valid signature (wrong length for a key)
	verifC08Key32,   // valid key (wrong length for a signature)
	verifC08SigZero, // zero signature
	"",              // empty
	"0OIl",          // characters outside the alphabet
	"éé",            // high-bit bytes
	"1",             // one zero byte
}

var verifC08Encodings = []string{"base58", "base64", "base64+zstd", "json", "jsonParsed", "binary", ""}

var verifC08Numbers = []float64{0, 1, 1.5, -1, 431999, 432000, 1e300, 18446744073709551615}

// dynamic types of a decoded JSON value
const (
	verifC08Null = iota
	verifC08Number
	verifC08String
	verifC08Bool
	verifC08Obj
	verifC08List
	verifC08NumTypes
)

// verifC08OfType returns a JSON value of dynamic type t; strings and numbers come from the given
// pools (one path per pool member).
func verifC08OfType(name string, t int, strs []string, nums []float64) any {
	switch t {
	case verifC08Null:
		return nil
	case verifC08Number:
		return nums[verifChoice(name+".num", len(nums))]
	case verifC08String:
		return strs[verifChoice(name+".str", len(strs))]
	case verifC08Bool:
		return verifChoice(name+".bool", 2) == 1
	case verifC08Obj:
		return map[string]any{"x": 1.0}
	default:
		return []any{"x"}
	}
}

// verifC08Value returns a JSON value of arbitrary dynamic type.
func verifC08Value(name string, strs []string, nums []float64) any {
	return verifC08OfType(name, verifChoice(name, verifC08NumTypes), strs, nums)
}

// verifC08IllTyped returns a JSON value of any dynamic type except `want`.
func verifC08IllTyped(name string, want int) any {
	t := verifChoice(name+".illtyped", verifC08NumTypes-1)
	if t >= want {
		t++
	}
	return verifC08OfType(name, t, []string{"x"}, []float64{1})
}

// verifC08Key describes one member of an option object: the dynamic type the parser expects and
// the pool of well-typed values.
type verifC08Key struct {
	name string
	want int
	strs []string
	nums []float64
}

// verifC08ConfigVocabulary: the member names a Solana JSON-RPC config object can carry (all methods
// of the cluster API that this server answers, plus the common ones of the others). A parser may
// start reading any of them at any time, so every parser is exercised with every one of them, not
// only with the members it reads today.
var verifC08ConfigVocabulary = []string{
	"commitment", "encoding", "maxSupportedTransactionVersion", "transactionDetails", "rewards",
	"limit", "before", "until", "minContextSlot", "searchTransactionHistory", "dataSlice", "filters",
}

// verifC08Foreign adds to m one member of the vocabulary that is NOT among the parser's known
// members (keys), with a value of any of the six dynamic types (strings / numbers: one
// representative); returns false when no foreign member is chosen.
func verifC08Foreign(name string, m map[string]any, keys []verifC08Key) bool {
	var foreign []string
	for _, v := range verifC08ConfigVocabulary {
		known := false
		for _, k := range keys {
			if k.name == v {
				known = true
			}
		}
		if !known {
			foreign = append(foreign, v)
		}
	}
	f := verifChoice(name+".foreign-member", len(foreign)*verifC08NumTypes+1)
	if f == 0 {
		return false
	}
	f--
	m[foreign[f/verifC08NumTypes]] = verifC08OfType(name+".foreign", f%verifC08NumTypes, []string{"processed"}, []float64{1})
	return true
}

// verifC08Object returns a JSON object over the given member names:
//   - every subset of the members, each present member well-typed with a value from its pool; or
//   - exactly one member ill-typed (each of the five other dynamic types) and every subset of the
//     remaining members present with one well-typed representative; or
//   - one member of the config vocabulary that the parser does not read today, with a value of each
//     of the six dynamic types (alone, or next to all known members with representative values).
func verifC08Object(name string, keys []verifC08Key) map[string]any {
	m := map[string]any{}
	if verifC08Foreign(name, m, keys) {
		if verifChoice(name+".foreign.with-known", 2) == 1 {
			for _, k := range keys {
				switch k.want {
				case verifC08Number:
					m[k.name] = k.nums[0]
				case verifC08String:
					m[k.name] = k.strs[0]
				default:
					m[k.name] = true
				}
			}
		}
		return m
	}
	if verifParam("full_product", 0) == 1 {
		// thorough: every member independently absent | well-typed (every pool value) | ill-typed
		// (each of the five other dynamic types)
		for _, k := range keys {
			switch verifChoice(name+"."+k.name+".state", 3) {
			case 1:
				m[k.name] = verifC08OfType(name+"."+k.name, k.want, k.strs, k.nums)
			case 2:
				m[k.name] = verifC08IllTyped(name+"."+k.name, k.want)
			}
		}
		return m
	}
	bad := verifChoice(name+".illtyped-member", len(keys)+1) - 1 // -1: none
	for i, k := range keys {
		if i == bad {
			m[k.name] = verifC08IllTyped(name+"."+k.name, k.want)
			continue
		}
		if verifChoice(name+"."+k.name+".present", 2) == 0 {
			continue
		}
		if bad >= 0 {
			// representative well-typed value
			switch k.want {
			case verifC08Number:
				m[k.name] = k.nums[0]
			case verifC08String:
				m[k.name] = k.strs[0]
			default:
				m[k.name] = true
			}
			continue
		}
		m[k.name] = verifC08OfType(name+"."+k.name, k.want, k.strs, k.nums)
	}
	return m
}

// verifC08RawParams models req.Params as delivered by jsonrpc2.Request.UnmarshalJSON:
// nil when the request has no "params" member, otherwise a non-nil raw message.
var verifC08ParamsMissing bool

// `parsed` tells whether the code under test is going to parse the params (only then does the
// known-finding region C08-params-nil apply).
func verifC08RawParams(parsed bool) *json.RawMessage {
	verifC08ParamsMissing = verifChoice("params.member", 2) == 0
	if verifC08ParamsMissing {
		// {"jsonrpc":"2.0","id":1,"method":"getBlock"}  -> req.Params == nil
		if parsed {
			verifKnownFinding("C08-params-nil", true)
		}
		return nil
	}
	raw := json.RawMessage("[opaque]")
	return &raw
}

// first positional argument of the four methods
var (
	verifC08SlotArg = verifC08Key{"slot", verifC08Number, []string{"123", ""}, verifC08Numbers}
	verifC08SigArg  = verifC08Key{"signature", verifC08String, verifC08B58Strings, []float64{1}}
	verifC08AddrArg = verifC08Key{"address", verifC08String, append([]string{verifC08Key32}, verifC08B58Strings...), []float64{1}}
)
