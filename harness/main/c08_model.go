//go:build verif

package main

// Shared models for the C08 obligations (no request can crash the server).
//
// JSON shape model: the server decodes request parameters with
// `fasterJson.Unmarshal(*raw, &params)` into a `[]any`. jsoniter itself (reflect2/unsafe) is library
// code outside the encoding; `fasterJson` is a package variable of interface type jsoniter.API, so
// the harness installs its own implementation whose Unmarshal yields the *shape* chosen by the
// harness: an error, or a list whose elements have one of the six dynamic types a JSON decoder
// produces for `any` (nil, float64, string, bool, map[string]any, []any). The raw bytes are
// irrelevant to the model (they stay opaque), but the real code still dereferences `*raw` itself.

import (
	"errors"

	jsoniter "github.com/json-iterator/go"
)

type verifC08JSON struct{ jsoniter.API }

var (
	verifC08UnmarshalFails bool  // the decoder reports a syntax/type error (e.g. params is an object)
	verifC08Params         []any // the decoded list otherwise
	verifC08Unmarshals     int
)

func (verifC08JSON) Unmarshal(data []byte, v interface{}) error {
	verifC08Unmarshals++
	switch p := v.(type) {
	case *[]any:
		if verifC08UnmarshalFails {
			return errors.New("verif: json: cannot unmarshal into []interface {}")
		}
		*p = verifC08Params
		return nil
	}
	panic("verifC08JSON.Unmarshal: target type outside the C08 shape model")
}

// value pools ---------------------------------------------------------------------------------

const (
	// 64-byte signature, 32-byte public key (base58), taken from mainnet
	verifC08Sig64  = "5VERv8NMvzbJMEkV8xnrLkEaWRtSz9CosKDYjCJjBRnbJLgp8uirBgmQpjKhoR4tjF3ZpRzrFmBV6UjKdiSZkQUW"
	verifC08Sig64b = "2nBhEBYYvfaAe16UMNqRHre4YNSskvuYgx3M6E4JP1oDYvZEJHvoPzyUidNgNX5r9sTyN1J9UxtbCXy2rqYcuyuv"
	verifC08Key32  = "Vote111111111111111111111111111111111111111"
	verifC08Key32b = "SysvarC1ock11111111111111111111111111111111"
	// 64 x '1' decodes to 64 zero bytes: a well-formed but zero signature
	verifC08SigZero = "1111111111111111111111111111111111111111111111111111111111111111"
)

// strings offered where the code expects a base58 signature or public key
var verifC08B58Strings = []string{
	verifC08Sig64,   // valid signature (wrong length for a key)
	verifC08Key32,   // valid key (wrong length for a signature)
	verifC08SigZero, // zero signature
	"",              // empty
	"0OIl",          // characters outside the alphabet
	"éé",  // high-bit bytes
	"1",             // one zero byte
}

var verifC08Encodings = []string{"base58", "base64", "base64+zstd", "json", "jsonParsed", "binary", ""}

var verifC08Numbers = []float64{0, 1, 1.5, -1, 431999, 432000, 1e300, 18446744073709551615}

// verifC08Value returns a JSON value of arbitrary dynamic type; strings and numbers come from
// the given pools (one path per pool member).
func verifC08Value(name string, strs []string, nums []float64) any {
	switch verifChoice(name, 6) {
	case 0:
		return nil
	case 1:
		return nums[verifChoice(name+".num", len(nums))]
	case 2:
		return strs[verifChoice(name+".str", len(strs))]
	case 3:
		return verifChoice(name+".bool", 2) == 1
	case 4:
		return map[string]any{"x": 1.0}
	default:
		return []any{"x"}
	}
}

type verifC08Key struct {
	name string
	strs []string
	nums []float64
}

// verifC08Object returns a JSON object holding any subset of the given member names, each with a
// value of arbitrary dynamic type.
func verifC08Object(name string, keys []verifC08Key) map[string]any {
	m := map[string]any{}
	for _, k := range keys {
		if verifChoice(name+"."+k.name+".present", 2) == 1 {
			m[k.name] = verifC08Value(name+"."+k.name, k.strs, k.nums)
		}
	}
	return m
}
