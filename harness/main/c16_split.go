//go:build verif

package main

import (
	"bytes"
	"errors"
	"fmt"
	"io"

	"github.com/anjor/carlet"
	"github.com/filecoin-project/go-leb128"
	"github.com/ipfs/go-cid"
	"github.com/ipld/go-car"
	carv2 "github.com/ipld/go-car/v2"
	"github.com/ipld/go-ipld-prime/datamodel"
	cidlink "github.com/ipld/go-ipld-prime/linking/cid"
	"github.com/rpcpool/yellowstone-faithful/ipld/ipldbindcode"
	splitcarfetcher "github.com/rpcpool/yellowstone-faithful/split-car-fetcher"
)

// ---------------------------------------------------------------------------------------------
// CLI plumbing, cut by overlay rewrites in cmd-car-split.go (see registry):
//   c.Args().First() -> verifC16SplitIn()      c.Int("epoch")         -> verifC16SplitEpoch()
//   c.Int64("size")  -> verifC16SplitSize()    c.String("output-dir") -> verifC16SplitOutDir()
//   c.String("metadata") -> verifC16SplitMeta()   csv.NewWriter(f) -> verifC16CSV(f)

var (
	c16SplitIn   string
	c16SplitSize int64
	c16CSVRows   [][]string
	c16Meta      *splitcarfetcher.Metadata
	c16Subsets   []subsetInfo // what each modelled subset node was built from, in writing order
)

func verifC16SplitIn() string     { return c16SplitIn }
func verifC16SplitEpoch() int     { return 7 }
func verifC16SplitSize() int64    { return c16SplitSize }
func verifC16SplitOutDir() string { return "/memfs/out" }
func verifC16SplitMeta() string   { return "/memfs/out/metadata.csv" }

// verifC16FirstFileNum is the initial value of split-car's piece counter (overlay rewrite of its
// declaration; 0 in the real code): numbering that starts just below 10 / 100 makes a split into
// two or three pieces cross a decimal digit boundary of the piece number (epoch-E-9, epoch-E-10),
// which otherwise needs a CAR of ten blocks or more.
func verifC16FirstFileNum() int { return verifParam("first_file_num", 0) }

type c16CSVWriter struct{}

func verifC16CSV(w io.Writer) *c16CSVWriter { return &c16CSVWriter{} }
func (*c16CSVWriter) Write(rec []string) error {
	c16CSVRows = append(c16CSVRows, append([]string{}, rec...))
	return nil
}
func (*c16CSVWriter) Flush() {}

// ---------------------------------------------------------------------------------------------
// Models of callees that cannot be executed (cuts). Same-package ones replace the renamed
// originals; the others are reached through the engine's redirectToHarness table (ext_C16.go).

const (
	c16SubsetNodeLen = 5 // bytes the modelled subset node occupies in a piece
	c16EpochNodeLen  = 3
)

func c16DummyCid() cid.Cid { return c16MkCid(0xD0) }

func c16MkCid(seed byte) cid.Cid {
	b := []byte{0x01, 0x71, 0x12, 0x20}
	for i := 0; i < 32; i++ {
		b = append(b, seed+byte(i)*3)
	}
	_, c, err := cid.CidFromBytes(b)
	if err != nil {
		panic(err)
	}
	return c
}

// writeSubsetNode (ipld-prime qp builder + dag-cbor + sha256): writes one CAR section of
// c16SubsetNodeLen bytes to the writer and returns a link, like the original.
func writeSubsetNode(currentSubsetInfo subsetInfo, writer io.Writer) (datamodel.Link, error) {
	rec := currentSubsetInfo
	rec.blockLinks = append([]datamodel.Link{}, currentSubsetInfo.blockLinks...)
	c16Subsets = append(c16Subsets, rec)
	sec := make([]byte, c16SubsetNodeLen)
	for i := range sec {
		sec[i] = 0xEE
	}
	if _, err := writer.Write(sec); err != nil {
		return nil, err
	}
	return cidlink.Link{Cid: c16DummyCid()}, nil
}

// writeNode is only called directly for the epoch node.
func writeNode(node datamodel.Node, w io.Writer) (cid.Cid, error) {
	sec := make([]byte, c16EpochNodeLen)
	for i := range sec {
		sec[i] = 0xEF
	}
	if _, err := w.Write(sec); err != nil {
		return cid.Cid{}, err
	}
	return c16DummyCid(), nil
}

func calcCommP(fileName string) (cid.Cid, uint64, error) { return c16DummyCid(), 1 << 15, nil }

func writeMetadata(metadata *splitcarfetcher.Metadata, epoch int) error {
	c16Meta = metadata
	return nil
}

// CAR header CBOR codec (refmt, reflection): {"roots":[tag42(0x00‖cid), ...],"version":v} with
// 1..23 roots of CIDs shorter than 255 bytes.
func c16Model_cborDumpObject(obj interface{}) ([]byte, error) {
	h, ok := obj.(*car.CarHeader)
	if !ok || len(h.Roots) < 1 || len(h.Roots) > 23 {
		return nil, errors.New("c16 model: only CAR headers with 1..23 roots are modelled")
	}
	out := []byte{0xA2, 0x65, 'r', 'o', 'o', 't', 's', 0x80 + byte(len(h.Roots))}
	for _, r := range h.Roots {
		cb := r.Bytes()
		out = append(out, 0xD8, 0x2A, 0x58, byte(len(cb)+1), 0x00)
		out = append(out, cb...)
	}
	out = append(out, 0x67, 'v', 'e', 'r', 's', 'i', 'o', 'n', byte(h.Version))
	return out, nil
}

func c16Model_cborDecodeInto(b []byte, v interface{}) error {
	h, ok := v.(*car.CarHeader)
	if !ok || len(b) < 14 || b[0] != 0xA2 || b[7]&0xE0 != 0x80 {
		return errors.New("c16 model: only CAR headers with 1..23 roots are modelled")
	}
	n := int(b[7] & 0x1F)
	pos := 8
	h.Roots = nil
	for i := 0; i < n; i++ {
		if pos+5 > len(b) || b[pos] != 0xD8 || b[pos+2] != 0x58 {
			return errors.New("c16 model: malformed root")
		}
		l := int(b[pos+3]) - 1
		_, c, err := cid.CidFromBytes(b[pos+5 : pos+5+l])
		if err != nil {
			return err
		}
		h.Roots = append(h.Roots, c)
		pos += 5 + l
	}
	h.Version = uint64(b[len(b)-1])
	return nil
}

// iplddecoders.DecodeBlock (CBOR decoder, property C11/C12): the slot is the third data byte.
func c16Model_DecodeBlock(raw []byte) (*ipldbindcode.Block, error) {
	return &ipldbindcode.Block{Kind: 2, Slot: int(raw[2])}, nil
}

func c16Model_qpBuildMap(np datamodel.NodePrototype, sizeHint int64, fn func(datamodel.MapAssembler)) (datamodel.Node, error) {
	return nil, nil
}

func c16Model_replaceRoots(path string, roots []cid.Cid, opts ...carv2.Option) error { return nil }

func c16Model_cidString(c cid.Cid) string { return fmt.Sprintf("cid-%x", c.Bytes()[4:8]) }

// ---------------------------------------------------------------------------------------------

func c16Section(c cid.Cid, data []byte) []byte {
	out := leb128.FromUInt64(uint64(len(c.Bytes()) + len(data)))
	out = append(out, c.Bytes()...)
	return append(out, data...)
}

// C16.split — the real split-car Action (real readHeader, carreader, accum.ObjectAccumulator
// with its flusher goroutine, size accounting, file rotation, bufio/os.File writes, metadata
// assembly) on an in-memory epoch CAR whose object kinds and payload bytes are symbolic and
// whose target size is symbolic: every block is written together with all of its objects,
// byte-identical and in the original order, into exactly one piece; pieces start with the
// 59-byte placeholder header; and the sizes in the metadata describe the files written.
func VerifC16Split() {
	S := verifParam("sections", 3)
	// original CAR: header with one root, then S sections
	// 1 root: 59-byte header (1-byte length prefix); 3 roots: 2-byte length prefix
	var roots []cid.Cid
	nRoots := verifParam("roots", 1)
	if nRoots == 0 {
		nRoots = []int{1, 3}[verifChoice("roots", 2)]
	}
	for i := 0; i < nRoots; i++ {
		roots = append(roots, c16MkCid(byte(0x11+i)))
	}
	hb, _ := c16Model_cborDumpObject(&car.CarHeader{Roots: roots, Version: 1})
	carBytes := append(leb128.FromUInt64(uint64(len(hb))), hb...)
	origHeaderLen := len(carBytes)

	kinds := make([]uint8, S)
	raws := make([][]byte, S)
	cids := make([]cid.Cid, S)
	slots := []int{12, 10, 13, 11, 14}
	var blocks uint64
	for j := 0; j < S; j++ {
		dl := 4 + j
		if j == verifParam("boundary_section", -1) {
			dl = 92 // cid (36) + data = 128: first section length with a 2-byte length prefix
		}
		data := verifBytes(fmt.Sprintf("obj%d", j), dl)
		data[0] = 0x86
		data[2] = byte(slots[j]) // the slot the DecodeBlock model reports (not monotonic)
		kinds[j] = data[1]
		// transaction (0), entry (1), block (2), subset (3, ignored), epoch (4, ignored)
		verifAssume(kinds[j] <= 4)
		if verifParam("kind_classes", 0) == 1 {
			// one representative per class the code distinguishes: child (transaction), block, ignored (subset)
			verifAssume(kinds[j] != 1 && kinds[j] != 4)
		}
		blocks += verifIteU64(kinds[j] == 2, 1, 0)
		cids[j] = c16MkCid(byte(0x20 + j))
		raws[j] = c16Section(cids[j], data)
		carBytes = append(carBytes, raws[j]...)
	}
	// at least one block (an epoch CAR without any block makes the command dereference a nil writer)
	verifAssume(blocks >= 1)
	c16SplitIn = verifTempPath("epoch.car")
	verifMemFile(c16SplitIn, carBytes)
	c16SplitSize = int64(verifU16("target_size"))
	verifAssume(c16SplitSize <= int64(len(carBytes)+80))
	maxLinksParam := verifParam("max_links", -1) // >= 0: maxLinks is rewritten to this value (C16.splitlinks)
	if maxLinksParam >= 0 {
		// the target size never forces a new piece: only the link limit does
		verifAssume(c16SplitSize >= int64(len(carBytes)+70))
	}
	c16CSVRows, c16Meta, c16Subsets = nil, nil, nil

	err := newCmd_SplitCar().Action(nil)
	verifAssert(err == nil, "C16.split: split-car failed on a well-formed CAR")
	if err != nil {
		return
	}

	// expected content stream and the offsets at which a block family ends
	var want []byte
	famEnd := map[int]bool{0: true}
	blockAt := map[int]int{} // offset in want at which a block section ends -> its section index
	pending := 0
	for j := 0; j < S; j++ {
		if kinds[j] == 3 || kinds[j] == 4 {
			continue
		}
		want = append(want, raws[j]...)
		pending += len(raws[j])
		if kinds[j] == 2 {
			famEnd[len(want)] = true
			blockAt[len(want)] = j
			pending = 0
		}
	}
	want = want[:len(want)-pending] // trailing objects without a block are dropped by design
	verifAssert(c16Meta != nil && c16Meta.CarPieces != nil, "C16.split: metadata not written")
	m := c16Meta.CarPieces
	verifAssert(m.OriginalCarHeaderSize == uint64(origHeaderLen), "C16.split: original header size in the metadata is wrong")

	hdrBytes := new(bytes.Buffer)
	verifAssert(car.WriteHeader(hdr, hdrBytes) == nil, "C16.split: placeholder header")
	var got []byte
	csvOK := true
	verifAssert(len(c16CSVRows) == len(m.CarPieces)+1, "C16.split: one CSV row per piece expected")
	for i, p := range m.CarPieces {
		file := verifMemFileBytes(p.Name)
		verifAssert(p.Name == fmt.Sprintf("/memfs/out/epoch-7-%d.car", verifC16FirstFileNum()+i+1), "C16.split: pieces are not listed in the metadata in the order in which they were cut (file name / piece number)")
		verifAssert(p.HeaderSize == uint64(hdrBytes.Len()), "C16.split: piece header size in the metadata is wrong")
		verifAssert(len(file) >= hdrBytes.Len() && bytes.Equal(file[:hdrBytes.Len()], hdrBytes.Bytes()), "C16.split: piece does not start with the placeholder CAR header")
		end := int(p.HeaderSize + p.ContentSize)
		verifAssert(end <= len(file), "C16.split: metadata declares more content than the piece file holds")
		if end > len(file) {
			return
		}
		prevLen := len(got)
		got = append(got, file[p.HeaderSize:end]...)
		verifAssert(famEnd[len(got)], "C16.split: a piece boundary falls inside a block's family of objects")
		families := 0
		var wantLinks []cid.Cid
		first, last := -1, -1
		for o := prevLen + 1; o <= len(got); o++ {
			if famEnd[o] {
				families++
				j := blockAt[o]
				wantLinks = append(wantLinks, cids[j])
				if first == -1 || slots[j] < first {
					first = slots[j]
				}
				if slots[j] > last {
					last = slots[j]
				}
			}
		}
		// the subset node of this piece is built from exactly the blocks of this piece
		verifAssert(i < len(c16Subsets), "C16.split: fewer subset nodes than pieces")
		if i < len(c16Subsets) {
			si := c16Subsets[i]
			verifAssert(si.fileName == p.Name, "C16.split: subset node built for another piece file")
			linksOK := len(si.blockLinks) == len(wantLinks)
			for x := 0; linksOK && x < len(wantLinks); x++ {
				l, ok := si.blockLinks[x].(cidlink.Link)
				linksOK = ok && l.Cid.Equals(wantLinks[x])
			}
			verifAssert(linksOK, "C16.split: the subset node of a piece does not link exactly the blocks written to that piece, in order")
			verifAssert(si.firstSlot == first && si.lastSlot == last, "C16.split: first/last slot of a piece's subset node are not the min/max slot of its blocks")
		}
		verifAssert(families >= 1, "C16.split: a piece without any block")
		if maxLinksParam >= 0 {
			// roll-over happens when a piece already links more than maxLinks blocks
			verifAssert(families <= maxLinksParam+1, "C16.split: a piece links more blocks than the link limit allows")
			if i < len(m.CarPieces)-1 {
				verifAssert(families == maxLinksParam+1, "C16.split: a piece was closed before the link limit although the target size did not force it")
			}
		}
		if families > 1 {
			verifAssert(p.HeaderSize+p.ContentSize <= uint64(c16SplitSize), "C16.split: a piece holding several blocks exceeds the target size (in accounted bytes)")
		}
		if len(c16CSVRows) == len(m.CarPieces)+1 {
			verifAssert(c16CSVRows[i+1][0] == fmt.Sprintf("epoch-7-%d.car", verifC16FirstFileNum()+i+1), "C16.split: CSV rows are not in the order in which the pieces were cut")
		}
		if len(c16CSVRows) == len(m.CarPieces)+1 && c16CSVRows[i+1][4] != fmt.Sprint(len(file)) {
			csvOK = false
		}
	}
	verifAssert(len(c16Subsets) == len(m.CarPieces), "C16.split: number of subset nodes differs from the number of pieces")
	verifAssert(bytes.Equal(got, want), "C16.split: piece contents are not the original objects, byte-identical and in order")
	verifReach("content-checked")
	// known finding: the subset (and epoch) node appended to every piece is not counted
	verifKnownFinding("C16-split-size-omits-subset-node", true)
	verifAssert(csvOK, "C16.split: 'file size' in the CSV differs from the file written")
	if len(m.CarPieces) <= verifParam("readback_max_pieces", 3) {
		// read the pieces back through the real split-CAR reader over the local files just written
		scr, err := splitcarfetcher.NewSplitCarReader(m, func(cf carlet.CarFile) (splitcarfetcher.ReaderAtCloserSize, error) {
			return splitcarfetcher.NewFileSplitCarReader(cf.Name)
		})
		verifAssert(err == nil, "C16.split: NewSplitCarReader rejects the local pieces just written (HeaderSize+ContentSize differs from the file size)")
		if err == nil {
			stream := append(append([]byte{}, carBytes[:origHeaderLen]...), want...)
			p := make([]byte, len(stream)+1)
			n, rerr := scr.ReadAt(p, 0)
			verifAssert(n == len(stream) && rerr == io.EOF, "C16.split: reading the split CAR back ends at the wrong offset")
			verifAssert(n == len(stream) && bytes.Equal(p[:n], stream), "C16.split: the split CAR does not read back as original header followed by the original objects")
		}
	}
	verifReach("end")
}
