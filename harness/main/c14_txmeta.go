//go:build verif

package main

import (
	"bytes"
	"context"
	"errors"

	"github.com/gagliardetto/solana-go"
	"github.com/ipfs/go-cid"
	"github.com/rpcpool/yellowstone-faithful/ipld/ipldbindcode"
	"github.com/rpcpool/yellowstone-faithful/iplddecoders"
)

// C14.txmeta — the server-side callers of the reassembly (storage.go): a Transaction node whose
// `data` and `metadata` are two independent multi-frame payloads stored in the same epoch and
// fetched through the same getter, the real (*Epoch).GetDataFrameByCid.
//
// Cuts: (*Epoch).GetNodeByCid is a table CID -> object bytes (harness function below, wired by a
// rename); iplddecoders.DecodeDataFrame is a table object bytes -> decoded frame; bin.UnmarshalBin
// and ParseAnyTransactionStatusMeta record the bytes they are given (engine redirects, ext_C14.go).

var (
	c14Epoch      *c14Store
	c14FrameTable []*ipldbindcode.DataFrame
	c14TxSeen     [][]byte
	c14MetaSeen   [][]byte
)

func (s *Epoch) GetNodeByCid(ctx context.Context, wantedCid cid.Cid) ([]byte, error) {
	for i := range c14Epoch.cids {
		if c14Epoch.cids[i].Equals(wantedCid) {
			if i == c14Epoch.missing {
				return nil, errC14NotStored
			}
			return []byte{0x86, byte(iplddecoders.KindDataFrame), byte(i)}, nil
		}
	}
	return nil, errC14NotStored
}

func c14Model_DecodeDataFrame(raw []byte) (*ipldbindcode.DataFrame, error) {
	if len(raw) != 3 || raw[1] != byte(iplddecoders.KindDataFrame) || int(raw[2]) >= len(c14FrameTable) {
		return nil, errors.New("c14: not a dataframe object")
	}
	f := *c14FrameTable[raw[2]]
	return &f, nil
}

func c14Model_UnmarshalBin(v interface{}, b []byte) error {
	tx, ok := v.(*solana.Transaction)
	if !ok {
		return errors.New("c14: UnmarshalBin model: unexpected target")
	}
	c14TxSeen = append(c14TxSeen, append([]byte{}, b...))
	var sig solana.Signature
	sig[0] = 1
	tx.Signatures = []solana.Signature{sig}
	return nil
}

type c14Meta struct{ n int }

func c14Model_ParseAnyMeta(buf []byte) (any, error) {
	c14MetaSeen = append(c14MetaSeen, append([]byte{}, buf...))
	return &c14Meta{len(buf)}, nil
}

// c14TxMetaBox — the far side of the quantification box through the server-side callers: the
// transaction bytes and the metadata are both large well-formed payloads in the same epoch.
//
//	1: 60 frames fan-out 1 (depth 59) + 60 frames fan-out 10      2: 60 frames linked by the head alone + 35 frames fan-out 2, reversed
//	3: `bytes` (200 KiB) in 60 frames fan-out 5 + 200 KiB in 1 frame
func c14TxMetaBox(which int) {
	small := func(k int) int { return 1 + k%2 }
	var pA, pB *c14Payload
	switch which {
	case 1:
		pA = c14HubChain(60, 1, false, 0, small, false)
		pB = c14HubChain(60, 10, false, 64, small, true)
	case 2:
		pA = c14HubChain(60, 60, true, 0, small, true)
		pB = c14HubChain(35, 2, true, 64, small, false)
	default:
		total := verifParam("bytes", 204800)
		pA = c14HubChain(60, 5, false, 0, func(k int) int { return total / 60 }, false)
		pB = c14HubChain(1, 1, false, 64, func(k int) int { return total }, false)
	}
	st := &c14Store{missing: -1}
	st.add(pB)
	st.add(pA)
	c14Epoch = st
	c14FrameTable = st.frames
	node := &ipldbindcode.Transaction{Kind: int(iplddecoders.KindTransaction), Slot: 5, Data: *pA.frames[0], Metadata: *pB.frames[0]}
	ep := &Epoch{}
	txb, metab, err := getTransactionAndMetaFromNode(node, ep.GetDataFrameByCid)
	verifAssert(err == nil, "C14.txmeta: large well-formed transaction rejected by getTransactionAndMetaFromNode")
	verifAssert(bytes.Equal(txb, pA.orig), "C14.txmeta: large transaction payload differs from the original")
	verifAssert(bytes.Equal(metab, pB.orig), "C14.txmeta: large metadata payload differs from the original")
	_, meta, err := parseTransactionAndMetaFromNode(node, ep.GetDataFrameByCid)
	verifAssert(err == nil && meta != nil, "C14.txmeta: large well-formed transaction rejected by parseTransactionAndMetaFromNode")
	verifAssert(len(c14TxSeen) == 1 && bytes.Equal(c14TxSeen[0], pA.orig), "C14.txmeta: large transaction payload handed to the decoder differs from the original")
	verifAssert(len(c14MetaSeen) == 1 && bytes.Equal(c14MetaSeen[0], pB.orig), "C14.txmeta: large metadata payload handed to the parser differs from the original")
	verifReach("box")
	verifReach("end")
}

func VerifC14TxMeta() {
	c14TxSeen, c14MetaSeen = nil, nil
	if box := verifChoice("box", 1+verifParam("box", 3)); box > 0 {
		c14TxMetaBox(box)
		return
	}
	maxN := verifParam("N", 3)
	nA := 1 + verifChoice("txFrames", maxN)
	nB := 1 + verifChoice("metaFrames", maxN)
	hashMode := verifChoice("checksum", 3) // 0 CRC64, 1 legacy FNV-1a, 2 absent
	// legacy FNV-1a records: concrete data (else every VerifyHash asks the solver whether CRC64(x) = FNV-1a(x) has a solution)
	c14Concrete = hashMode == 1
	pA := c14NewPayload(nA, 0, c14Lens(1), c14PermEnds)
	pB := c14NewPayload(nB, 8, c14Lens(2), c14PermEnds)
	for _, p := range []*c14Payload{pA, pB} {
		h := 0
		switch hashMode {
		case 0:
			h = int(c14Crc(p.orig))
		case 1:
			h = int(c14Fnv(p.orig))
		}
		p.setMeta(p.n, hashMode != 2, h)
	}
	st := &c14Store{missing: -1}
	// the two payloads' frames are interleaved in the store
	st.add(pB)
	st.add(pA)
	c14Epoch = st
	c14FrameTable = st.frames
	fault := verifChoice("fault", 2) // 1: one stored frame is missing
	if fault == 1 {
		verifAssume(len(st.cids) > 0)
		st.missing = verifChoice("missing", len(st.cids))
	}
	node := &ipldbindcode.Transaction{Kind: int(iplddecoders.KindTransaction), Slot: 5, Data: *pA.frames[0], Metadata: *pB.frames[0]}
	ep := &Epoch{}

	switch verifChoice("caller", 2) {
	case 0:
		txb, metab, err := getTransactionAndMetaFromNode(node, ep.GetDataFrameByCid)
		if fault == 1 {
			verifAssert(err != nil, "C14.txmeta: a frame is missing from the epoch but getTransactionAndMetaFromNode succeeded")
			break
		}
		verifAssert(err == nil, "C14.txmeta: well-formed transaction rejected by getTransactionAndMetaFromNode")
		verifAssert(bytes.Equal(txb, pA.orig), "C14.txmeta: transaction bytes differ from the original payload")
		if len(pB.orig) == 0 {
			verifAssert(metab == nil, "C14.txmeta: empty metadata not returned as nil")
		} else {
			verifAssert(bytes.Equal(metab, pB.orig), "C14.txmeta: metadata bytes differ from the original payload")
		}
	case 1:
		tx, meta, err := parseTransactionAndMetaFromNode(node, ep.GetDataFrameByCid)
		if fault == 1 {
			verifAssert(err != nil, "C14.txmeta: a frame is missing from the epoch but parseTransactionAndMetaFromNode succeeded")
			break
		}
		verifAssert(err == nil, "C14.txmeta: well-formed transaction rejected by parseTransactionAndMetaFromNode")
		verifAssert(len(tx.Signatures) == 1, "C14.txmeta: decoded transaction not returned")
		verifAssert(len(c14TxSeen) == 1 && bytes.Equal(c14TxSeen[0], pA.orig), "C14.txmeta: bytes handed to the transaction decoder differ from the original payload")
		if len(pB.orig) == 0 {
			verifAssert(meta == nil && len(c14MetaSeen) == 0, "C14.txmeta: empty metadata parsed")
		} else {
			verifAssert(meta != nil, "C14.txmeta: metadata not returned")
			verifAssert(len(c14MetaSeen) == 1 && bytes.Equal(c14MetaSeen[0], pB.orig), "C14.txmeta: bytes handed to the metadata parser differ from the original payload")
		}
	}
	verifReach("end")
}
