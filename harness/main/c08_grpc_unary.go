//go:build verif

package main

import (
	"context"
	"errors"
	"io"

	old_faithful_grpc "github.com/rpcpool/yellowstone-faithful/old-faithful-proto/old-faithful-grpc"
	"google.golang.org/grpc"
)

// C08.grpc_unary — the unary gRPC methods (GetVersion, GetBlock, GetTransaction, GetBlockTime) and
// the bidirectional Get stream never panic and always hand gRPC a response or a status error, for
// every request message shape, with zero, one and three epochs loaded. Uses the server state and
// the epoch accessor models of c08_dispatch.go.

// --- stream doubles (the gRPC transport is library code) -------------------------------------------

type verifC08Stream struct {
	grpc.ServerStream // nil: only Context/Send/Recv are used by the code under test
	ctx               context.Context
	sent              int
}

func (s *verifC08Stream) Context() context.Context { return s.ctx }

// a Send may fail at any time (client went away)
func (s *verifC08Stream) send() error {
	s.sent++
	if verifChoice("stream.Send", 2) == 1 {
		return errors.New("verif: transport is closing")
	}
	return nil
}

// the stream context: live, or already cancelled by the client
func verifC08StreamCtx() context.Context {
	if verifChoice("stream.ctx", 2) == 1 {
		ctx, cancel := context.WithCancel(context.Background())
		cancel()
		return ctx
	}
	return context.Background()
}

type verifC08GetStream struct {
	*verifC08Stream
	reqs []*old_faithful_grpc.GetRequest
	next int
}

func (s *verifC08GetStream) Send(m *old_faithful_grpc.GetResponse) error {
	return s.send()
}

func (s *verifC08GetStream) Recv() (*old_faithful_grpc.GetRequest, error) {
	if s.next < len(s.reqs) {
		s.next++
		return s.reqs[s.next-1], nil
	}
	if verifChoice("stream.Recv.end", 2) == 1 {
		return nil, errors.New("verif: stream reset")
	}
	return nil, io.EOF
}

// --- request pools ----------------------------------------------------------------------------------

var verifC08GrpcSlots = []uint64{0, 3, 4, 432000, 1295999, 1296000, 18446744073709551615}

func verifC08GrpcSignature() []byte {
	n := []int{0, 1, 64, 65}[verifChoice("signature.len", 4)]
	sig := make([]byte, n)
	for i := range sig {
		sig[i] = byte(i + 1)
	}
	return sig
}

// one Get request: every oneof alternative, and the oneof left unset
func verifC08GetRequest(i int, leading bool) *old_faithful_grpc.GetRequest {
	r := &old_faithful_grpc.GetRequest{Id: uint64(i + 1)}
	if leading {
		// first of two requests: one that is answered with a result, one answered with an error
		// (both let the loop continue)
		if verifChoice("get.leading", 2) == 0 {
			r.Request = &old_faithful_grpc.GetRequest_Version{Version: &old_faithful_grpc.VersionRequest{}}
		} else {
			r.Request = &old_faithful_grpc.GetRequest_BlockTime{BlockTime: &old_faithful_grpc.BlockTimeRequest{Slot: 1296000}}
		}
		return r
	}
	switch verifChoice("get.kind", 5) {
	case 0:
		r.Request = &old_faithful_grpc.GetRequest_Version{Version: &old_faithful_grpc.VersionRequest{}}
	case 1:
		r.Request = &old_faithful_grpc.GetRequest_BlockTime{BlockTime: &old_faithful_grpc.BlockTimeRequest{Slot: verifC08GrpcSlots[verifChoice("get.slot", 4)]}}
	case 2:
		r.Request = &old_faithful_grpc.GetRequest_Block{Block: &old_faithful_grpc.BlockRequest{Slot: verifC08GrpcSlots[verifChoice("get.slot", 4)]}}
	case 3:
		r.Request = &old_faithful_grpc.GetRequest_Transaction{Transaction: &old_faithful_grpc.TransactionRequest{Signature: verifC08GrpcSignature()}}
	default:
		// no request member set
	}
	return r
}

func VerifC08GrpcUnary() {
	fasterJson = verifC08JSON{}
	rpc := verifParam("rpc", -1)
	if rpc < 0 {
		rpc = verifChoice("rpc", 5)
	}
	// epochs loaded: 0, 1 (epoch 0 or epoch 1) or 3 (epochs 0..2); the multi-epoch signature
	// search is obligation C08.search
	nEpochs, first := 0, uint64(0)
	nCfg := 4
	if rpc == 2 {
		nCfg = 3
	}
	if rpc == 4 {
		nCfg = 2
	}
	switch verifChoice("epochs", nCfg) {
	case 1:
		nEpochs = 1
	case 2:
		nEpochs, first = 1, 1
	case 3:
		nEpochs = 3
	}
	feature := 0
	if nEpochs > 0 {
		if rpc == 4 {
			feature = 3
		} else {
			feature = verifChoice("feature.blocktime", 2) + 2*verifChoice("feature.sigExists", 2)
		}
	}
	multi := verifC08Server(nEpochs, first, feature, 1)
	ctx := context.Background()

	switch rpc {
	case 0:
		resp, err := multi.GetVersion(ctx, &old_faithful_grpc.VersionRequest{})
		verifAssert(resp != nil || err != nil, "C08.grpc_unary: GetVersion returned neither a response nor an error")
	case 1:
		slot := verifC08GrpcSlots[verifChoice("slot", len(verifC08GrpcSlots))]
		resp, err := multi.GetBlock(ctx, &old_faithful_grpc.BlockRequest{Slot: slot})
		verifAssert(resp != nil || err != nil, "C08.grpc_unary: GetBlock returned neither a response nor an error")
	case 2:
		resp, err := multi.GetTransaction(ctx, &old_faithful_grpc.TransactionRequest{Signature: verifC08GrpcSignature()})
		verifAssert(resp != nil || err != nil, "C08.grpc_unary: GetTransaction returned neither a response nor an error")
	case 3:
		slot := verifC08GrpcSlots[verifChoice("slot", len(verifC08GrpcSlots))]
		resp, err := multi.GetBlockTime(ctx, &old_faithful_grpc.BlockTimeRequest{Slot: slot})
		verifAssert(resp != nil || err != nil, "C08.grpc_unary: GetBlockTime returned neither a response nor an error")
	default:
		n := 1 + verifChoice("get.requests", verifParam("max_get_requests", 2))
		st := &verifC08GetStream{verifC08Stream: &verifC08Stream{ctx: verifC08StreamCtx()}}
		for i := 0; i < n; i++ {
			st.reqs = append(st.reqs, verifC08GetRequest(i, n == 2 && i == 0))
		}
		_ = multi.Get(st) // nil (client closed the stream) or a status error: both end the stream cleanly
	}

	// the server keeps serving
	verifAssert(multi.CountEpochs() == nEpochs, "C08.grpc_unary: epoch set changed by a query")
	multi.AddEpoch(999, verifC08Epoch(999))
	verifReach("end")
}
