//go:build verif

package main

import (
	"context"
	"encoding/json"

	jsoniter "github.com/json-iterator/go"
	"github.com/rpcpool/yellowstone-faithful/gsfa"
	"github.com/rpcpool/yellowstone-faithful/gsfa/linkedlog"
	"github.com/rpcpool/yellowstone-faithful/ipld/ipldbindcode"
	"github.com/sourcegraph/jsonrpc2"
	"github.com/valyala/fasthttp"
)

// C08.gsfa — handleGetSignaturesForAddress when the gsfa walk FINDS transactions: the response
// assembly (per-epoch loop, Transaction.Signature, the enrichment with err / memo / slot /
// blockTime through the block-time cache closure, GsfaOnlySignatures on or off) never panics, ends
// with a reply or an error object, and leaves the epoch-set lock free. (C07 decides which
// signatures are listed, with GsfaOnlySignatures on; C08.dispatch stops at an empty walk.)
//
// Uses the server/epoch models of c08_dispatch.go and the data-side models of c08_grpc_stream.go
// (parseTransactionAndMetaFromNode = {error, transfer, vote + protobuf meta}, getErr = {nil, error
// object}); Transaction.Signature, getMemoInstructionDataFromTransaction, the block-time index and
// the handler are the real code.

// a transaction node as iplddecoders.DecodeTransaction yields it: the first data frame holds the
// wire bytes. kind 0: well-formed; 1: empty data; 2: zero signatures; 3: truncated signature
func verifC08GsfaNode(kind int, slot int) *ipldbindcode.Transaction {
	n := &ipldbindcode.Transaction{Slot: slot}
	switch kind {
	case 0:
		n.Data.Data = verifC08TxBytes(false)
	case 1:
	case 2:
		n.Data.Data = []byte{0}
	default:
		n.Data.Data = []byte{1, 7, 7, 7}
	}
	return n
}

func VerifC08Gsfa() {
	fasterJson = verifC08JSON{}
	jsoniter.ConfigCompatibleWithStandardLibrary = verifC08JSON{}

	// epochs 0 and 1 loaded, both with a gsfa reader; block-time index present or not
	feature := 4 + verifChoice("feature.blocktime", 2)
	multi := verifC08Server(2, 0, feature, 1)

	plan := verifChoice("walk", 6)
	verifC08GsfaFound = func(fetcher func(uint64, linkedlog.OffsetAndSizeAndSlot) (*ipldbindcode.Transaction, error)) (gsfa.EpochToTransactionObjects, error) {
		switch plan {
		case 0:
			return gsfa.EpochToTransactionObjects{0: {verifC08GsfaNode(0, 2)}}, nil
		case 1:
			// a node whose signature cannot be read, between two good ones; slots inside / outside the index window
			return gsfa.EpochToTransactionObjects{0: {verifC08GsfaNode(0, 3), verifC08GsfaNode(1+verifChoice("badnode", 3), 2), verifC08GsfaNode(0, 400000)}}, nil
		case 2:
			// two epochs (the handler ranges over the map)
			return gsfa.EpochToTransactionObjects{1: {verifC08GsfaNode(0, 432001)}, 0: {verifC08GsfaNode(0, 2), verifC08GsfaNode(0, 2)}}, nil
		case 3:
			// an epoch that is not loaded (any more)
			return gsfa.EpochToTransactionObjects{0: {verifC08GsfaNode(0, 2)}, 7: {verifC08GsfaNode(0, 7*432000)}}, nil
		case 4:
			// an epoch listed without transactions
			return gsfa.EpochToTransactionObjects{0: {}, 1: {verifC08GsfaNode(0, 432000)}}, nil
		}
		// negative slot in a node (decoded from CBOR as int)
		return gsfa.EpochToTransactionObjects{0: {verifC08GsfaNode(0, -1)}}, nil
	}
	defer func() { verifC08GsfaFound = nil }()

	verifC08UnmarshalFails, verifC08ParamsMissing = false, false
	verifC08Params = []any{verifC08Key32}
	if verifChoice("options", 2) == 1 {
		verifC08Params = []any{verifC08Key32, map[string]any{"limit": 2.0, "before": verifC08Sig64}}
	}
	raw := json.RawMessage("[opaque]")
	req := &jsonrpc2.Request{Method: "getSignaturesForAddress", ID: jsonrpc2.ID{Num: 1}, Params: &raw}
	ctx := setRequestIDToContext(context.Background(), "verif-request")
	conn := &requestContext{ctx: &fasthttp.RequestCtx{}}

	verifC08Replies = 0
	errResp, err := multi.handleRequest(ctx, conn, req)
	verifAssert(errResp != nil || err != nil || verifC08Replies >= 1, "C08.gsfa: handler finished without a reply and without an error response")

	verifAssert(multi.CountEpochs() == 2, "C08.gsfa: epoch set changed by a query")
	multi.AddEpoch(999, verifC08Epoch(999))
	verifReach("end")
}
