//go:build verif

package main

import (
	"context"
	"encoding/json"
	"errors"

	"github.com/gagliardetto/solana-go"
	"github.com/sourcegraph/jsonrpc2"
)

// C03.jsontx — the real JSON-RPC handleGetTransaction (Validate, epoch search, Epoch.GetTransaction,
// error mapping, block-time lookup, parseTransactionAndMetaFromNode, response assembly) over the
// keyless-index model with symbolic signatures: the replied transaction carries the requested first
// signature and the DAG-Root-CID header names its CID; a signature that is not archived (also one whose
// 24-bit hash equals a stored one) gets the JSON-RPC not-found code and no result.
// Cuts in addition to the ones of C03.grpctx: parseGetTransactionRequest (table model: signature +
// default options), bin.UnmarshalBin of the transaction bytes (reads the first signature only),
// encodeTransactionResponseBasedOnWantedEncoding (identity), requestContext.Reply (recorder; shared
// with C03.jsonblock), the response header write.

var verifC03JSONSig solana.Signature

// model of parseGetTransactionRequest (the real one is renamed)
func parseGetTransactionRequest(raw *json.RawMessage) (*GetTransactionRequest, error) {
	out := &GetTransactionRequest{Signature: verifC03JSONSig}
	e, c := defaultEncoding(), defaultCommitment()
	out.Options.Encoding, out.Options.Commitment = &e, &c
	return out, nil
}

// model of bin.UnmarshalBin(&tx, buf) in parseTransactionAndMetaFromNode: compact-u16(1) ++ signature
func verifC03UnmarshalTx(_ func(any, []byte) error, tx *solana.Transaction, buf []byte) error {
	if len(buf) < 65 || buf[0] != 1 {
		return errors.New("verif model: malformed transaction bytes")
	}
	var s solana.Signature
	copy(s[:], buf[1:65])
	tx.Signatures = []solana.Signature{s}
	return nil
}

// model of encodeTransactionResponseBasedOnWantedEncoding (the real one is renamed): identity
func encodeTransactionResponseBasedOnWantedEncoding(encoding solana.EncodingType, tx solana.Transaction, meta any) (any, any, error) {
	return tx, meta, nil
}

func VerifC03JSONTx() {
	ne := verifParam("epochs", 1)
	nt := 1 + verifChoice("ntxs", verifParam("maxtxs", 2))
	multi, eps := verifC03Multi(ne, 0, nt)
	q := verifC03Sig("sig")
	verifAssume(q[0] != 0 || q[1] != 0 || q[63] != 0) // Validate rejects the all-zero signature (C08)
	verifC03JSONSig = q
	raw := json.RawMessage(nil)
	rpcErr, err := multi.handleGetTransaction(context.Background(), &requestContext{}, &jsonrpc2.Request{Method: "getTransaction", Params: &raw})
	archived := verifC03SigArchived(eps, q)
	if rpcErr != nil || err != nil {
		verifAssert(len(verifC03JSONReply) == 0, "C03.jsontx: a result is sent although the handler reports an error")
		verifAssert(rpcErr != nil, "C03.jsontx: handler error without a JSON-RPC error object")
		if archived == 0 {
			verifAssert(rpcErr.Code == CodeNotFound, "C03.jsontx: signature that is not archived is not answered with the not-found code")
		} else if !verifC03AnyCollision(eps) {
			verifAssert(false, "C03.jsontx: archived signature answered with an error although no index lookup hit a foreign entry")
		}
	} else {
		verifAssert(len(verifC03JSONReply) == 1, "C03.jsontx: not exactly one result sent")
		resp, ok := verifC03JSONReply[0].(GetTransactionResponse)
		verifAssert(ok && len(resp.Signatures) == 1, "C03.jsontx: result is not a transaction object with one signature")
		verifAssert(resp.Signatures[0] == q, "C03.jsontx: the replied transaction carries a different signature")
		verifAssert(archived == 1, "C03.jsontx: a transaction is returned for a signature that is not archived")
		// the header names the CID of the transaction with the requested signature
		okCid := uint64(0)
		for _, e := range eps {
			for _, o := range verifC03Stores[e].objs {
				if o.kind == verifC03KindTx && len(verifC03JSONHeader) == 1 && o.c.String() == verifC03JSONHeader[0] {
					okCid |= verifIteU64(o.sig == q, 1, 0)
				}
			}
		}
		verifAssert(okCid == 1, "C03.jsontx: DAG-Root-CID header does not name the requested transaction")
	}
	verifReach("end")
}
