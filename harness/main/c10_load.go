//go:build verif

package main

import (
	"context"
	"encoding/binary"
	"errors"
	"os"

	"github.com/gagliardetto/solana-go"
	"github.com/ipfs/go-cid"
	"github.com/libp2p/go-libp2p/core/peer"
	"github.com/rpcpool/yellowstone-faithful/blocktimeindex"
	"github.com/rpcpool/yellowstone-faithful/bucketteer"
	"github.com/rpcpool/yellowstone-faithful/compactindexsized"
	"github.com/rpcpool/yellowstone-faithful/gsfa"
	"github.com/rpcpool/yellowstone-faithful/indexes"
	"github.com/rpcpool/yellowstone-faithful/indexmeta"
	"github.com/rpcpool/yellowstone-faithful/radiance/genesis"
	"github.com/urfave/cli/v2"

	carv2 "github.com/ipld/go-car/v2"
)

// ---------------------------------------------------------------------------------------------
// C10.load — the real NewEpochFromConfig over an in-memory file system.
//
// Every index file of the epoch is a real file image (header + metadata, written with the real
// header/metadata encoders) whose identity fields are arbitrary: the epoch is a symbolic 64-bit
// value per file, the root CID is one of two CIDs per file, the kind is the kind of any of the
// four hash-index roles (files swapped between roles) or the file has a foreign format. The files
// are materialised at the moment the loader opens them (storage cut), so that a load which stops
// at the first mismatch does not multiply the later files' choices.
//
// Oracle: NewEpochFromConfig returns an *Epoch only if every file it serves from has the right
// kind, carries the configured epoch, and all root CIDs (and the configured Filecoin root) are
// equal; and (no false rejection) it returns an error only if some opened file mismatches.

const (
	c10RoleCidToOff = iota
	c10RoleSlotToCid
	c10RoleSigToCid
	c10RoleGsfaOffsets
	c10RoleGsfaManifest
	c10RoleSigExists
	c10RoleBlocktime
	c10NumRoles
)

const (
	c10FmtCompact    = iota // compactindexsized file
	c10FmtBucket            // bucketteer (sig-exists) file
	c10FmtBlocktime         // blocktime index file
	c10FmtManifest          // gsfa manifest
	c10FmtOldCompact        // deprecated compactindex / compactindex36 file (32-byte header, no metadata at all)
	c10FmtOldBucket         // deprecated bucketteer file (version 1, string metadata, no identity recorded)
)

type c10File struct {
	opened   bool
	missing  int    // 0: all identity fields present; 1: no epoch entry; 2: no root CID entry; 3: epoch value of 7 bytes; 4 (hash index only): no kind entry
	version  uint64 // gsfa manifest: format version
	format   int
	kind     int    // compactindexsized: index into c10Kinds
	root     int    // index into c10Roots (-1: the format carries no root CID)
	epoch    uint64 // epoch recorded in the file
	btStart  uint64 // blocktime: first slot
	btEnd    uint64 // blocktime: last slot
	hasEpoch bool
}

var (
	c10Files [c10NumRoles]c10File
	c10Paths [c10NumRoles]string
	c10Kinds [][]byte
	c10Roots []cid.Cid
	c10E     uint64
)

func c10RootBytes(i int) []byte {
	b := []byte{0x01, 0x71, 0x12, 0x20}
	for j := 0; j < 32; j++ {
		b = append(b, byte(0xA0+0x10*i+j%7))
	}
	return b
}

// c10Meta builds the metadata block of a file with the real indexmeta writer API; f.missing drops one entry.
func c10Meta(f *c10File, kind []byte, epochBytes []byte, nMissing int) indexmeta.Meta {
	f.missing = 0
	if verifParam("missing", 0) == 1 {
		f.missing = verifChoice("missing", nMissing)
	}
	var m indexmeta.Meta
	if f.missing == 3 {
		epochBytes = epochBytes[:7] // not what AddUint64 / Uint64tob write
	}
	if f.missing != 1 {
		verifAssert(m.Add(indexmeta.MetadataKey_Epoch, epochBytes) == nil, "C10.load: harness meta epoch")
	}
	if f.missing != 2 {
		verifAssert(m.AddCid(indexmeta.MetadataKey_RootCid, c10Roots[f.root]) == nil, "C10.load: harness meta root")
	}
	verifAssert(m.AddString(indexmeta.MetadataKey_Network, string(indexes.NetworkMainnet)) == nil, "C10.load: harness meta network")
	if kind != nil && f.missing != 4 {
		verifAssert(m.Add(indexmeta.MetadataKey_Kind, kind) == nil, "C10.load: harness meta kind")
	}
	return m
}

func c10LE64(v uint64) []byte {
	b := make([]byte, 8)
	binary.LittleEndian.PutUint64(b, v)
	return b
}

// image of a compactindexsized file: the header exactly as Builder.Seal writes it (Header.Bytes);
// Open never reads past the header.
// The kind is that of the role itself (choice 0) or of the next 1..nKinds-1 roles (a file built for another role).
func c10CompactImage(f *c10File, role, nKinds int) []byte {
	f.format = c10FmtCompact
	f.kind = (c10RightKind[role] + verifChoice("kind", nKinds)) % len(c10Kinds)
	f.root = verifChoice("root", len(c10Roots))
	f.epoch = verifU64("fileEpoch")
	f.hasEpoch = true
	m := c10Meta(f, c10Kinds[f.kind], indexes.Uint64tob(f.epoch), 5)
	h := compactindexsized.Header{ValueSize: c10ValueSize[f.kind], NumBuckets: 1, Metadata: &m}
	return h.Bytes()
}

// image of a bucketteer file with no buckets: size ‖ magic ‖ version ‖ meta ‖ numPrefixes=0
func c10BucketImage(f *c10File) []byte {
	f.format = c10FmtBucket
	f.root = verifChoice("root", len(c10Roots))
	f.epoch = verifU64("fileEpoch")
	f.hasEpoch = true
	m := c10Meta(f, nil, c10LE64(f.epoch), 4)
	magic := bucketteer.Magic()
	body := append([]byte{}, magic[:]...)
	body = append(body, c10LE64(bucketteer.Version)...)
	body = append(body, m.Bytes()...)
	body = append(body, c10LE64(0)...)
	out := make([]byte, 4)
	binary.LittleEndian.PutUint32(out, uint32(len(body)))
	return append(out, body...)
}

// image of a blocktime index: magic ‖ start ‖ end ‖ epoch ‖ capacity ‖ cells, padded to the size the loader reads
func c10BlocktimeImage(f *c10File) []byte {
	f.format = c10FmtBlocktime
	f.root = -1
	f.epoch = verifU64("fileEpoch")
	f.btStart = verifU64("btStart")
	f.btEnd = verifU64("btEnd")
	f.hasEpoch = true
	out := make([]byte, blocktimeindex.DefaultIndexByteSize)
	n := copy(out, []byte("blocktimeindex"))
	n += copy(out[n:], c10LE64(f.btStart))
	n += copy(out[n:], c10LE64(f.btEnd))
	n += copy(out[n:], c10LE64(f.epoch))
	copy(out[n:], c10LE64(uint64(verifParam("cells", 2))))
	return out
}

// image of a gsfa manifest: magic ‖ version ‖ meta (no content tuples)
func c10ManifestImage(f *c10File) []byte {
	f.format = c10FmtManifest
	f.root = verifChoice("root", len(c10Roots))
	f.epoch = verifU64("fileEpoch")
	f.hasEpoch = true
	m := c10Meta(f, nil, c10LE64(f.epoch), 4)
	f.version = verifU64("manifestVersion") // the current writer's version is 5
	out := []byte{'g', 's', 'f', 'a', 'm', 'n', 'f', 's'}
	out = append(out, c10LE64(f.version)...)
	return append(out, m.Bytes()...)
}

// image of a deprecated compactindex / compactindex36 file: the 32-byte header (magic, file size,
// bucket count, version); these formats have no metadata, hence no identity.
func c10OldCompactImage(f *c10File) []byte {
	f.format = c10FmtOldCompact
	f.root = -1
	out := make([]byte, 32)
	copy(out, []byte{'r', 'd', 'c', 'e', 'c', 'i', 'd', 'x'})
	binary.LittleEndian.PutUint64(out[8:], 32)
	binary.LittleEndian.PutUint32(out[16:], 1)
	out[20] = 1
	return out
}

// image of a deprecated bucketteer file: size ‖ magic ‖ version 1 ‖ numMeta=0 ‖ numPrefixes=0
func c10OldBucketImage(f *c10File) []byte {
	f.format = c10FmtOldBucket
	f.root = -1
	magic := bucketteer.Magic()
	body := append([]byte{}, magic[:]...)
	body = append(body, c10LE64(1)...)
	body = append(body, c10LE64(0)...)
	body = append(body, c10LE64(0)...)
	out := make([]byte, 4)
	binary.LittleEndian.PutUint32(out, uint32(len(body)))
	return append(out, body...)
}

// c10Materialise writes the file of a role the first time the loader touches it.
func c10Materialise(role int) {
	f := &c10Files[role]
	if f.opened {
		return
	}
	f.opened = true
	var img []byte
	foreign := verifParam("foreign", 0) == 1
	legacy := verifParam("legacy", 0) == 1
	switch role {
	case c10RoleCidToOff, c10RoleSlotToCid, c10RoleSigToCid, c10RoleGsfaOffsets:
		nk := verifParam("kinds", len(c10Kinds))
		switch {
		case role == c10RoleCidToOff && c10DeprecatedCfg:
			img = c10OldCompactImage(f) // the deprecated cid-to-offset index of a deprecated configuration
		case legacy && (role == c10RoleSlotToCid || role == c10RoleSigToCid) && verifChoice("oldFormat", 2) == 1:
			img = c10OldCompactImage(f) // a file in the old (compactindex36) format
		case foreign && verifChoice("foreign", 2) == 1:
			img = c10BucketImage(f) // a sig-exists file configured in a hash-index role
		default:
			img = c10CompactImage(f, role, nk)
		}
	case c10RoleGsfaManifest:
		img = c10ManifestImage(f)
	case c10RoleSigExists:
		switch {
		case c10DeprecatedCfg && verifChoice("oldSigExists", 2) == 1:
			img = c10OldBucketImage(f)
		case foreign && verifChoice("foreign", 2) == 1:
			img = c10CompactImage(f, c10RoleSigToCid, 1) // a hash index configured as sig-exists
		default:
			img = c10BucketImage(f)
		}
	case c10RoleBlocktime:
		if foreign && verifChoice("foreign", 2) == 1 {
			img = c10CompactImage(f, c10RoleSlotToCid, 1)
			img = append(img, make([]byte, blocktimeindex.DefaultIndexByteSize)...)
		} else {
			img = c10BlocktimeImage(f)
		}
	}
	verifMemFile(c10Paths[role], img)
}

// ---- cuts -----------------------------------------------------------------------------------

// model of openIndexStorage (mmap / HTTP range reader): the file of that URI on the memfs.
func openIndexStorage(ctx context.Context, where string) (ReaderAtCloser, error) {
	for role, p := range c10Paths {
		if p == where {
			c10Materialise(role)
			return os.Open(where)
		}
	}
	return nil, errors.New("verif model: no such index file")
}

// model of openCarStorage: a remote (ReaderAt) CAR whose first bytes are a 1-byte uvarint header length.
func openCarStorage(ctx context.Context, where string) (*carv2.Reader, ReaderAtCloser, error) {
	f, err := os.Open(where)
	return nil, f, err
}

// model of newLassieWrapper (network client construction).
func newLassieWrapper(cctx *cli.Context, fetchProviderAddrInfos []peer.AddrInfo) (*lassieWrapper, error) {
	return &lassieWrapper{}, nil
}

func c10Setup() {
	c10Kinds = [][]byte{
		indexes.Kind_CidToOffsetAndSize,
		indexes.Kind_SlotToCid,
		indexes.Kind_SigToCid,
		indexes.Kind_PubkeyToOffsetAndSize,
	}
	c10Roots = nil
	for i := 0; i < verifParam("roots", 2); i++ {
		c, err := cid.Cast(c10RootBytes(i))
		verifAssert(err == nil, "C10.load: harness CID")
		c10Roots = append(c10Roots, c)
	}
	c10Files = [c10NumRoles]c10File{}
	gsfaDir := verifTempPath("gsfa")
	c10Paths = [c10NumRoles]string{
		verifTempPath("cid-to-offset-and-size.index"),
		verifTempPath("slot-to-cid.index"),
		verifTempPath("sig-to-cid.index"),
		gsfaDir + "/" + string(indexes.Kind_PubkeyToOffsetAndSize) + ".index",
		gsfaDir + "/manifest",
		verifTempPath("sig-exists.index"),
		verifTempPath("slot-to-blocktime.index"),
	}
	// the gsfa directory's files come into existence when NewGsfaReader first looks at the directory
	gsfa.VerifIsDirHook = func(path string) {
		if path == gsfaDir {
			c10Materialise(c10RoleGsfaOffsets)
			c10Materialise(c10RoleGsfaManifest)
		}
	}
}

var c10RightKind = [c10NumRoles]int{0, 1, 2, 3, -1, -1, -1}
var c10RightFormat = [c10NumRoles]int{c10FmtCompact, c10FmtCompact, c10FmtCompact, c10FmtCompact, c10FmtManifest, c10FmtBucket, c10FmtBlocktime}

// value sizes the four writers create their files with (offset+size, CID, CID, offset+size)
var c10ValueSize = []uint64{9, 36, 36, 9}

// c10DeprecatedCfg: the configuration names a deprecated cid-to-offset index instead of a
// cid-to-offset-and-size index; the loader then opens the cid index and the sig-exists index
// with the deprecated readers, whose formats record no identity.
var c10DeprecatedCfg bool

// c10FormatOK: is a file of format fmt what the loader's reader for that role reads?
func c10FormatOK(role, format int) bool {
	switch role {
	case c10RoleCidToOff:
		if c10DeprecatedCfg {
			return format == c10FmtOldCompact
		}
		return format == c10FmtCompact
	case c10RoleSlotToCid, c10RoleSigToCid:
		return format == c10FmtCompact || format == c10FmtOldCompact // old-format files are still read (no identity)
	case c10RoleSigExists:
		if c10DeprecatedCfg {
			// version 1 and version 2 files differ in the version field only as far as the magic check goes
			return format == c10FmtOldBucket
		}
		return format == c10FmtBucket
	}
	return format == c10RightFormat[role]
}

// models (engine redirect, ext_C10.go) of the genesis archive reader and the hash constructor
// used by the epoch-0 branch of the loader.
func c10Model_ReadGenesisFromFile(fpath string) (*genesis.Genesis, *[32]byte, error) {
	var h [32]byte
	h[0] = 0x45
	return &genesis.Genesis{}, &h, nil
}

func c10Model_HashFromBytes(in []byte) (out solana.Hash) {
	copy(out[:], in)
	return
}

// c10New allocates the (anonymous) struct a config pointer field points to.
func c10New[T any](p **T) *T {
	*p = new(T)
	return *p
}

func VerifC10Load() {
	c10Setup()
	c10E = verifU64("configEpoch")
	if verifParam("epoch0", 0) == 0 {
		verifAssume(c10E != 0) // epoch 0 (which loads the genesis file first) is the subject of the epoch0 variant
	}
	filecoin := verifChoice("filecoinMode", 2) == 1
	withGsfa := verifChoice("withGsfa", 2) == 1
	c10DeprecatedCfg = verifParam("legacy", 0) == 1 && verifChoice("deprecatedConfig", 2) == 1

	cfg := &Config{}
	e := c10E
	cfg.Epoch = &e
	cfg.Genesis.URI = URI(verifTempPath("genesis.tar.bz2"))
	cfg.Indexes.SlotToCid.URI = URI(c10Paths[c10RoleSlotToCid])
	cfg.Indexes.SigToCid.URI = URI(c10Paths[c10RoleSigToCid])
	cfg.Indexes.SigExists.URI = URI(c10Paths[c10RoleSigExists])
	cfg.Indexes.SlotToBlocktime.URI = URI(c10Paths[c10RoleBlocktime])
	if withGsfa {
		cfg.Indexes.Gsfa.URI = URI(verifTempPath("gsfa"))
	}
	if c10DeprecatedCfg {
		cfg.Indexes.CidToOffset.URI = URI(c10Paths[c10RoleCidToOff])
	} else if !filecoin {
		cfg.Indexes.CidToOffsetAndSize.URI = URI(c10Paths[c10RoleCidToOff])
	}
	cfgRoot := -1
	if filecoin {
		cfgRoot = verifChoice("configRoot", len(c10Roots))
		fc := c10New(&cfg.Data.Filecoin)
		fc.Enable = true
		fc.RootCID = c10Roots[cfgRoot]
	} else {
		carPath := verifTempPath("epoch.car")
		verifMemFile(carPath, append([]byte{0x3a}, make([]byte, 0x3a+20)...))
		c10New(&cfg.Data.Car).URI = URI(carPath)
	}
	verifAssert(cfg.IsFilecoinMode() == filecoin && cfg.IsDeprecatedIndexes() == c10DeprecatedCfg, "C10.load: harness config")

	ep, err := NewEpochFromConfig(cfg, &cli.Context{Context: context.Background()}, nil, nil)

	// ---- oracle (branch-free over the symbolic epochs) ----
	var symMismatch uint64 // number of opened files that record another epoch than configured (or are not self-consistent)
	concreteMismatch := false
	legacyInvolved := c10DeprecatedCfg // a file without identity takes part: only the safety direction is claimed
	root := cfgRoot
	for role := 0; role < c10NumRoles; role++ {
		f := &c10Files[role]
		if !f.opened {
			continue
		}
		if !c10FormatOK(role, f.format) {
			concreteMismatch = true
			continue
		}
		if f.format == c10FmtOldCompact || f.format == c10FmtOldBucket {
			legacyInvolved = true // nothing recorded, nothing to compare
			continue
		}
		if f.format == c10FmtCompact && f.kind != c10RightKind[role] {
			concreteMismatch = true
		}
		if f.missing != 0 {
			concreteMismatch = true
			continue
		}
		if f.format == c10FmtManifest {
			symMismatch += verifIteU64(f.version != 5, 1, 0) // only the current manifest version is readable
		}
		if f.root >= 0 {
			if root >= 0 && f.root != root {
				concreteMismatch = true
			}
			if root < 0 {
				root = f.root
			}
		}
		symMismatch += verifIteU64(f.epoch != c10E, 1, 0)
		if f.format == c10FmtBlocktime {
			symMismatch += verifIteU64(f.btStart/432000 != f.epoch, 1, 0)
			symMismatch += verifIteU64(f.btEnd/432000 != f.epoch, 1, 0)
		}
	}

	if err == nil {
		verifAssert(ep != nil, "C10.load: nil epoch without error")
		need := []int{c10RoleSlotToCid, c10RoleSigToCid, c10RoleSigExists, c10RoleBlocktime}
		if !filecoin {
			need = append(need, c10RoleCidToOff)
		}
		if withGsfa {
			need = append(need, c10RoleGsfaOffsets, c10RoleGsfaManifest)
		}
		for _, r := range need {
			verifAssert(c10Files[r].opened, "C10.load: epoch returned without opening one of its index files")
		}
		verifAssert(!concreteMismatch, "C10.load: epoch served from an index of the wrong kind/format or with a different root CID")
		verifAssert(symMismatch == 0, "C10.load: epoch served from an index file recording another epoch")
		verifAssert(ep.Epoch() == c10E, "C10.load: Epoch.epoch differs from the configured epoch")
		if root >= 0 {
			verifAssert(ep.rootCid.Equals(c10Roots[root]), "C10.load: Epoch.rootCid is not the common root CID")
		} else {
			verifAssert(legacyInvolved && !ep.rootCid.Defined(), "C10.load: Epoch.rootCid set although no file records a root CID")
		}
		verifAssert(ep.IsFilecoinMode() == filecoin, "C10.load: mode")
		if verifParam("epoch0", 0) == 1 {
			isZero := verifIteU64(c10E == 0, 1, 0)
			hasGenesis := uint64(0)
			if ep.GetGenesis() != nil {
				hasGenesis = 1
			}
			verifAssert(isZero == hasGenesis, "C10.load: genesis loaded iff the configured epoch is 0")
		}
		verifReach("loaded")
	} else {
		verifAssert(ep == nil, "C10.load: epoch returned together with an error")
		if !concreteMismatch && !legacyInvolved {
			verifAssert(symMismatch != 0, "C10.load: a configuration whose files all match is rejected")
		}
		verifReach("rejected")
	}
	verifReach("end")
}
