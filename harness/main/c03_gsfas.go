//go:build verif

package main

import (
	"bytes"
	"context"
	"errors"

	"github.com/gagliardetto/solana-go"
	"github.com/rpcpool/yellowstone-faithful/blocktimeindex"
	"github.com/rpcpool/yellowstone-faithful/gsfa"
	"github.com/rpcpool/yellowstone-faithful/gsfa/linkedlog"
	"github.com/rpcpool/yellowstone-faithful/ipld/ipldbindcode"
	"github.com/rpcpool/yellowstone-faithful/iplddecoders"
	old_faithful_grpc "github.com/rpcpool/yellowstone-faithful/old-faithful-proto/old-faithful-grpc"
	"google.golang.org/grpc"
)

// C03.gsfastream — the sibling of C03.gsfahandler on the gRPC side: the real StreamTransactions with an
// account filter (getGsfaReadersInEpochDescendingOrderForSlotRange, processSlotTransactions' indexed
// branch with its REAL per-transaction fetcher closure, parse, filter, buffer, flush) over two
// consecutive epochs (0,1 or 3,4) whose archives share one layout: every listed location of epoch n is
// read from epoch n's archive and the stream carries exactly the listed transactions.

var verifC03HOrder []*Epoch

// model of bin.UnmarshalBin(&tx, buf) in parseTransactionAndMetaFromNode: compact-u16(1) ++ signature
func verifC03HUnmarshalTx(_ func(any, []byte) error, tx *solana.Transaction, buf []byte) error {
	if len(buf) < 65 || buf[0] != 1 {
		return errors.New("verif model: malformed transaction bytes")
	}
	var s solana.Signature
	copy(s[:], buf[1:65])
	tx.Signatures = []solana.Signature{s}
	return nil
}

// model of (*gsfa.GsfaReaderMultiepoch).GetBeforeUntilSlot at its call site
func verifC03HGetBeforeUntilSlot(
	multi *gsfa.GsfaReaderMultiepoch,
	ctx context.Context,
	pk solana.PublicKey,
	limit int,
	before uint64,
	until uint64,
	fetcher func(uint64, linkedlog.OffsetAndSizeAndSlot) (*ipldbindcode.Transaction, error),
) (gsfa.EpochToTransactionObjects, error) {
	out := make(gsfa.EpochToTransactionObjects)
	for _, ep := range verifC03HOrder { // newest first
		for _, want := range verifC03H.listed[ep] {
			tx, err := fetcher(ep.epoch, linkedlog.OffsetAndSizeAndSlot{Offset: want.off, Size: 1, Slot: uint64(want.tx.Slot)})
			verifAssert(err == nil, "C03.gsfastream: fetcher failed for a listed location")
			verifC03H.fetched++
			verifAssert(tx == want.tx, "C03.gsfastream: the fetcher answered a location of one epoch with the transaction stored at that offset in ANOTHER epoch's archive")
			out[ep.epoch] = append(out[ep.epoch], tx)
		}
	}
	return out, nil
}

type verifC03HStream struct {
	grpc.ServerStream
	sent []*old_faithful_grpc.TransactionResponse
}

func (s *verifC03HStream) Context() context.Context { return context.Background() }
func (s *verifC03HStream) Send(r *old_faithful_grpc.TransactionResponse) error {
	s.sent = append(s.sent, r)
	return nil
}

func VerifC03GsfaStream() {
	iplddecoders.VerifDecodeTransaction = verifC03HDecode
	verifC03H.byRdr = map[*gsfa.GsfaReader]*Epoch{}
	verifC03H.listed = map[*Epoch][]*verifC03HTx{}
	first := []uint64{0, 3}[verifChoice("firstEpoch", 2)]
	multi := NewMultiEpoch(&Options{})
	perEpoch := verifParam("txs", 2)
	boundary := (first + 1) * 432000
	var want [][]byte
	for i := 1; i >= 0; i-- { // newest epoch first
		num := first + uint64(i)
		rd := &gsfa.GsfaReader{}
		e := &Epoch{epoch: num, config: &Config{}, gsfaReader: rd}
		// the slots of the requested range that belong to this epoch: boundary-2, boundary-1 | boundary, boundary+1
		lo := boundary - 2 + 2*uint64(i)
		e.blocktimeindex = blocktimeindex.NewIndexer(lo, lo+1, 2)
		e.blocktimeindex.Set(lo, 1700000000)
		e.blocktimeindex.Set(lo+1, 1700000001)
		multi.epochs[num] = e
		verifC03H.byRdr[rd] = e
		verifC03HOrder = append(verifC03HOrder, e)
		base := len(verifC03H.objs)
		for j := 0; j < perEpoch; j++ {
			var sig solana.Signature
			sig[0], sig[1], sig[63] = byte(1+i), byte(1+j), 0x5A
			o := &verifC03HTx{ep: e, off: uint64(100 + 10*j), sig: sig}
			pos := j
			pp := &pos
			o.tx = &ipldbindcode.Transaction{Kind: 0, Slot: int(lo) + j%2, Index: &pp, Data: ipldbindcode.DataFrame{Kind: 6, Data: append([]byte{1}, sig[:]...)}}
			verifC03H.objs = append(verifC03H.objs, o)
		}
		n := verifChoice("listed", perEpoch+1)
		for j := 0; j < n; j++ {
			o := verifC03H.objs[base+j]
			verifC03H.listed[e] = append(verifC03H.listed[e], o)
			want = append(want, o.sig[:])
		}
	}
	end := boundary + 1
	st := &verifC03HStream{}
	pk := solana.PublicKey{9, 9, 9}
	err := multi.StreamTransactions(&old_faithful_grpc.StreamTransactionsRequest{
		StartSlot: boundary - 2, EndSlot: &end,
		Filter: &old_faithful_grpc.StreamTransactionsFilter{AccountInclude: []string{pk.String()}},
	}, st)
	verifAssert(err == nil, "C03.gsfastream: stream failed although every listed location is readable")
	verifAssert(verifC03H.fetched == len(want), "C03.gsfastream: not every listed location was fetched")
	if len(want) == 0 {
		verifAssert(len(st.sent) == 1 && st.sent[0].Transaction == nil, "C03.gsfastream: empty result is not the single empty marker")
	} else {
		verifAssert(len(st.sent) == len(want), "C03.gsfastream: number of streamed transactions differs from the listed ones")
		for _, w := range want {
			n := 0
			for _, r := range st.sent {
				if r.Transaction != nil && len(r.Transaction.Transaction) >= 65 && bytes.Equal(r.Transaction.Transaction[1:65], w) {
					n++
				}
			}
			verifAssert(n == 1, "C03.gsfastream: a listed transaction is not streamed exactly once (a foreign transaction took its place)")
		}
	}
	verifReach("end")
}
