//go:build verif

package main

// C02.txConcurrent — two getTransaction requests served at the same time by one server whose node
// reads are the REAL ones ((*Epoch).GetNodeByCid -> GetNodeByOffsetAndSize -> local-file or ReaderAt
// path -> parseNodeFromSection over the model CAR of c02_car.go): each request is answered with its
// own transaction (slot, position, transaction and metadata bytes reassembled from its own frames),
// whatever the other request reads in between, under every interleaving and every sync.Pool reuse
// decision. State shared between node reads must not leak one request's bytes into the other's answer.

import (
	"bytes"
	"context"
	"sync"

	old_faithful_grpc "github.com/rpcpool/yellowstone-faithful/old-faithful-proto/old-faithful-grpc"
)

func VerifC02TxConcurrent() {
	sc := verifC02NewTxScene(1, 0, 1) // one epoch: no epoch search, the requests go straight to the node reads
	a := sc.a
	verifC02EnableCar()
	if verifChoice("carReader", 2) == 1 {
		verifC02UseLocalCar()
	}
	a.car()
	verifC02RealNodeRead = true
	var other *verifC02Tx
	for _, t := range a.txs {
		if t != sc.t {
			other = t
		}
	}
	check := func(t *verifC02Tx) {
		resp, err := sc.multi.GetTransaction(context.Background(), &old_faithful_grpc.TransactionRequest{Signature: t.sig[:]})
		verifAssert(err == nil && resp != nil && resp.Transaction != nil, "C02.txConcurrent: archived transaction is answered with an error while another request is being served")
		if err != nil || resp == nil || resp.Transaction == nil {
			return
		}
		verifAssert(resp.Slot == t.slot, "C02.txConcurrent: slot of another transaction")
		verifAssert(resp.Index != nil && *resp.Index == t.pos, "C02.txConcurrent: position of another transaction")
		verifAssert(bytes.Equal(resp.Transaction.Transaction, t.data.want), "C02.txConcurrent: transaction bytes differ from the archive while another request is being served")
		verifAssert(bytes.Equal(resp.Transaction.Meta, t.meta.want), "C02.txConcurrent: metadata bytes differ from the archive while another request is being served")
	}
	var wg sync.WaitGroup
	wg.Add(2)
	go func() { defer wg.Done(); check(sc.t) }()
	go func() { defer wg.Done(); check(other) }()
	wg.Wait()
	verifReach("end")
}
