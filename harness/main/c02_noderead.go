//go:build verif

package main

// C02.nodeRead — the real node read behind every answer: (*Epoch).GetNodeByCid (cache lookup, offset
// lookup) -> (*Epoch).GetNodeByOffsetAndSize -> local-file path (DataReader, Seek, bufio,
// readNodeWithKnownSize) or ReaderAt path (readNodeFromReaderAtWithOffsetAndSize) ->
// parseNodeFromSection, over the concrete model CAR of c02_car.go. The bytes a read returns are the
// bytes archived under the requested CID, and they STAY those bytes while and after other nodes are
// read - by the same goroutine (the handlers keep decoded nodes, whose byte fields may alias the raw
// node, while they fetch the next node) and by a concurrent one (two requests, or the entry /
// transaction goroutines of one getBlock). Storage shared between reads (pooled or reused section
// buffers, a shared bufio reader) must therefore never back a returned node.
//
// The real GetNodeByCid is reached as verifOrig_GetNodeByCid (the rename that gives the other C02
// obligations their GetNodeByCid cut keeps the original under that name).

import (
	"bytes"
	"context"
	"sync"

	"github.com/ipfs/go-cid"
)

func verifC02NodeBytes(a *verifC02Archive, i int) []byte {
	return []byte{byte(a.nodes[i].kind), byte(i), byte(a.num)}
}

func VerifC02NodeRead() {
	verifC02Reset()
	a := verifC02NewEpoch(5)
	// an archive with a few nodes of several kinds (one block, one entry, two transactions, frames)
	b := &verifC02Block{slot: a.lo() + 3, parent: a.lo() - 1, blocktime: 7}
	verifC02BuildBlock(a, b, []int{2}, true, verifC02TwoFrames, 2, 2, false, false)
	verifC02EnableCar()
	local := verifChoice("carReader", 2) == 1
	if local {
		verifC02UseLocalCar()
	}
	a.car() // lay the CAR out before any reader runs
	n := len(a.nodes)
	i := verifChoice("first", n)
	j := verifChoice("second", n)
	ci, cj := a.nodes[i].c, a.nodes[j].c
	ctx := context.Background()
	read := func(c cid.Cid) []byte {
		data, err := a.e.verifOrig_GetNodeByCid(ctx, c)
		verifAssert(err == nil, "C02.nodeRead: an archived node cannot be read")
		return data
	}

	if verifChoice("mode", verifParam("modes", 2)) == 0 {
		// one goroutine: the first node is still held while the second is read
		d1 := read(ci)
		verifAssert(bytes.Equal(d1, verifC02NodeBytes(a, i)), "C02.nodeRead: bytes differ from the node archived under the CID")
		d2 := read(cj)
		verifAssert(bytes.Equal(d2, verifC02NodeBytes(a, j)), "C02.nodeRead: bytes of the second read differ from the node archived under its CID")
		verifAssert(bytes.Equal(d1, verifC02NodeBytes(a, i)), "C02.nodeRead: bytes returned by an earlier read changed when another node was read (returned node aliases reused storage)")
		d3 := read(ci)
		verifAssert(bytes.Equal(d3, verifC02NodeBytes(a, i)) && bytes.Equal(d2, verifC02NodeBytes(a, j)), "C02.nodeRead: re-reading a node changed the bytes of another read")
	} else {
		// two goroutines read concurrently; each checks its node right after the read, the main
		// goroutine checks both once they are done
		var d1, d2 []byte
		var wg sync.WaitGroup
		wg.Add(2)
		go func() {
			defer wg.Done()
			d1 = read(ci)
			verifAssert(bytes.Equal(d1, verifC02NodeBytes(a, i)), "C02.nodeRead: concurrent read returned bytes that differ from the node archived under the CID")
		}()
		go func() {
			defer wg.Done()
			d2 = read(cj)
			verifAssert(bytes.Equal(d2, verifC02NodeBytes(a, j)), "C02.nodeRead: concurrent read returned bytes that differ from the node archived under the CID")
		}()
		wg.Wait()
		verifAssert(bytes.Equal(d1, verifC02NodeBytes(a, i)) && bytes.Equal(d2, verifC02NodeBytes(a, j)), "C02.nodeRead: bytes returned by a read were changed by a concurrent read")
	}
	verifReach("end")
}
