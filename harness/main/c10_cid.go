//go:build verif

package main

import (
	"bufio"
	"bytes"
	"context"
	"os"

	"github.com/ipfs/go-cid"
	"github.com/rpcpool/yellowstone-faithful/indexes"
)

func c10WantedCidBytes() []byte {
	b := []byte{0x01, 0x71, 0x12, 0x20}
	for j := 0; j < 32; j++ {
		b = append(b, byte(0x31+5*j))
	}
	return b
}

// VerifC10Cid — the CAR file is not the one the indexes were built from: the (offset, size) pair the
// cid-to-offset-and-size index holds for the wanted CID points at a section of the other CAR, i.e.
// a length prefix, a CID that differs from the wanted one and arbitrary payload bytes. The fetch by
// offset and size (remote/ReaderAt branch: GetNodeByOffsetAndSize -> readNodeFromReaderAtWithOffsetAndSize;
// local branch after the seek: readNodeWithKnownSize; both end in parseNodeFromSection) must fail;
// it may succeed only if the CID stored in the section is byte-for-byte the wanted CID, and then
// it returns exactly the payload behind that CID.
func VerifC10Cid() {
	want := c10WantedCidBytes()
	wantCid, err := cid.Cast(want)
	verifAssert(err == nil, "C10.cid: harness CID")

	// the CID found in the CAR: the wanted one with one byte (any position) replaced by any value,
	// or (position 36) a CID whose digest differs in every byte
	stored := append([]byte{}, want...)
	pos := verifChoice("pos", verifParam("positions", 37))
	b := verifU8("b")
	if pos < 36 {
		if verifParam("allvalues", 0) == 0 || pos < 4 { // the 4 header bytes (version, codec, hash code, hash length) always use the small value set
			w := want[pos]
			if verifParam("fewvalues", 0) == 1 {
				verifAssume(b == w || b == w^1 || b == w^0x80 || b == ^w)
			} else {
				verifAssume(b == w || b == w^1 || b == w^0x80 || b == ^w || b == 0 || b == 0x7f)
			}
		}
		stored[pos] = b
	} else {
		for i := 4; i < 36; i++ {
			stored[i] = ^want[i]
		}
	}
	dl := verifParam("datalen", 5)
	data := verifBytes("data", dl)
	prefix := verifU8("lenPrefix") // one-byte uvarint; its value is not compared with the section length by the reader
	verifAssume(prefix < 0x80)
	section := append([]byte{prefix}, stored...)
	section = append(section, data...)

	before := verifBytes("before", 7)
	file := append(append([]byte{}, before...), section...)
	file = append(file, verifBytes("after", 9)...)
	path := verifTempPath("other.car")
	verifMemFile(path, file)
	f, err := os.Open(path)
	verifAssert(err == nil, "C10.cid: open")

	oas := &indexes.OffsetAndSize{Offset: uint64(len(before)), Size: uint64(len(section))}
	var got []byte
	if verifChoice("branch", verifParam("branches", 2)) == 0 {
		ep := &Epoch{config: &Config{}, remoteCarReader: f}
		got, err = ep.GetNodeByOffsetAndSize(context.Background(), &wantCid, oas)
	} else {
		_, serr := f.Seek(int64(oas.Offset), 0)
		verifAssert(serr == nil, "C10.cid: seek")
		got, err = readNodeWithKnownSize(bufio.NewReader(f), &wantCid, oas.Size)
	}
	if err == nil {
		same := pos < 36 && b == want[pos]
		verifAssert(same, "C10.cid: a section carrying another CID is returned for the wanted CID")
		if prefix == byte(len(stored)+dl) { // well-formed section: the prefix announces exactly CID + payload
			verifAssert(bytes.Equal(got, data), "C10.cid: returned bytes are not the payload stored under the wanted CID")
		}
		verifReach("served")
	} else {
		if pos < 36 {
			// (claimed for a well-formed section only: a reader may also check the length prefix)
			wellFormed := byte(len(stored) + dl)
			verifAssert(verifIteU64(b != want[pos], 1, 0)+verifIteU64(prefix != wellFormed, 1, 0) != 0, "C10.cid: the well-formed section of the wanted CID itself is refused")
		}
		verifReach("refused")
	}
	verifReach("end")
}
