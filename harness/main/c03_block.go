//go:build verif

package main

import (
	"context"
	"errors"
	"strings"

	"github.com/rpcpool/yellowstone-faithful/compactindexsized"
	old_faithful_grpc "github.com/rpcpool/yellowstone-faithful/old-faithful-proto/old-faithful-grpc"
	"google.golang.org/grpc"
)

// C03.epochblock — the real (*Epoch).GetBlock over the keyless-index model: for every requested
// slot (present, absent, absent with a colliding 24-bit hash) the call returns ErrNotFound /
// another error, or a block whose slot is the requested slot.
func VerifC03EpochBlock() {
	nb := 1 + verifChoice("nblocks", verifParam("maxblocks", 2))
	e := verifC03NewEpoch(5, nb, 0)
	verifC03Install(e)
	st := verifC03Stores[e]
	q := verifU64("slot")
	block, c, err := e.GetBlock(WithSubrapghPrefetch(context.Background(), verifBool("prefetch")), q)
	if err != nil {
		// not-found must stay recognisable for the handlers
		present := false
		for _, o := range st.objs {
			if o.slot == q {
				present = true
			}
		}
		verifAssert(!present, "C03.epochblock: error for a slot that is archived")
		verifAssert(errors.Is(err, compactindexsized.ErrNotFound), "C03.epochblock: absent slot not reported as ErrNotFound")
	} else {
		verifAssert(uint64(block.Slot) == q, "C03.epochblock: GetBlock returned the block of a different slot")
		ok := false
		for _, o := range st.objs {
			if o.c.Equals(c) && o.slot == q {
				ok = true
			}
		}
		verifAssert(ok, "C03.epochblock: returned CID is not the CID of the requested slot's block")
	}
	verifReach("end")
}

// verifC03Multi loads `ne` epochs (numbers 4, 6, 7: epoch 5 is a gap) with up to maxblocks blocks and
// maxtxs transactions each.
func verifC03Multi(ne, nBlocks, nTxs int) (*MultiEpoch, []*Epoch) {
	nums := []uint64{6, 4, 7}
	multi := NewMultiEpoch(&Options{EpochSearchConcurrency: verifParam("concurrency", 0)})
	var eps []*Epoch
	for i := 0; i < ne; i++ {
		e := verifC03NewEpoch(nums[i], nBlocks, nTxs)
		multi.epochs[nums[i]] = e
		eps = append(eps, e)
	}
	verifC03Install(eps...)
	return multi, eps
}

func verifC03AnyCollision(eps []*Epoch) bool {
	for _, e := range eps {
		if verifC03Stores[e].collided {
			return true
		}
	}
	return false
}

// verifC03Archived: branch-free "slot q is a block of one of the loaded epochs".
func verifC03Archived(eps []*Epoch, q uint64) uint64 {
	a := uint64(0)
	for _, e := range eps {
		for _, o := range verifC03Stores[e].objs {
			if o.kind == verifC03KindBlock {
				a |= verifIteU64(o.slot == q, 1, 0)
			}
		}
	}
	return a
}

// C03.grpcblock — the real gRPC MultiEpoch.GetBlock (epoch routing, Epoch.GetBlock, response
// assembly, parent lookup) with one or three epochs loaded: the response is the block of the
// requested slot, or the error is NotFound (slot skipped / epoch not available) when the slot is not
// archived.
func VerifC03GrpcBlock() {
	ne := verifParam("epochs", 1)
	nb := 1 + verifChoice("nblocks", verifParam("maxblocks", 2))
	multi, eps := verifC03Multi(ne, nb, 0)
	q := verifU64("slot")
	resp, err := multi.GetBlock(context.Background(), &old_faithful_grpc.BlockRequest{Slot: q})
	archived := verifC03Archived(eps, q)
	if err != nil {
		if archived == 0 {
			verifAssert(strings.Contains(err.Error(), "code = NotFound"), "C03.grpcblock: slot that is not archived is not answered with NotFound")
		} else if !verifC03AnyCollision(eps) {
			// the only legitimate failure for an archived slot: its parent block cannot be fetched
			verifAssert(strings.Contains(err.Error(), "parent"), "C03.grpcblock: archived slot answered with an error")
		}
	} else {
		verifAssert(resp != nil, "C03.grpcblock: nil response without error")
		verifAssert(resp.Slot == q, "C03.grpcblock: response carries the block of a different slot")
		verifAssert(archived == 1, "C03.grpcblock: a block is returned for a slot that is not archived")
	}
	verifReach("end")
}

type verifC03BlockStream struct {
	grpc.ServerStream
	sent []*old_faithful_grpc.BlockResponse
}

func (s *verifC03BlockStream) Context() context.Context { return context.Background() }
func (s *verifC03BlockStream) Send(b *old_faithful_grpc.BlockResponse) error {
	s.sent = append(s.sent, b)
	return nil
}

// C03.stream — the real gRPC StreamBlocks over a range of `span` consecutive slots (symbolic start):
// every block that is sent is the block of a slot of the range that is archived, slots are strictly
// increasing, and skipped slots / slots of epochs that are not loaded are passed over.
func VerifC03Stream() {
	ne := verifParam("epochs", 1)
	nb := 1 + verifChoice("nblocks", verifParam("maxblocks", 2))
	multi, eps := verifC03Multi(ne, nb, 0)
	start := verifU64("start")
	span := uint64(verifParam("span", 2))
	verifAssume(start < 1<<40)
	end := start + span - 1
	st := &verifC03BlockStream{}
	err := multi.StreamBlocks(&old_faithful_grpc.StreamBlocksRequest{StartSlot: start, EndSlot: &end}, st)
	verifAssert(uint64(len(st.sent)) <= span, "C03.stream: more blocks sent than slots in the range")
	prev := uint64(0)
	for i, b := range st.sent {
		verifAssert(b.Slot >= start && b.Slot <= end, "C03.stream: a block outside the requested range is sent")
		verifAssert(verifC03Archived(eps, b.Slot) == 1, "C03.stream: a block is sent for a slot that is not archived")
		if i > 0 {
			verifAssert(b.Slot > prev, "C03.stream: the same or an earlier slot is sent again")
		}
		prev = b.Slot
	}
	if err == nil && !verifC03AnyCollision(eps) {
		// every archived slot of the range was sent
		n := uint64(0)
		for s := start; s <= end; s++ {
			n += verifC03Archived(eps, s)
		}
		verifAssert(uint64(len(st.sent)) == n, "C03.stream: an archived slot of the range is missing from the stream")
	}
	verifReach("end")
}
