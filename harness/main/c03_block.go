//go:build verif

package main

import (
	"context"
	"errors"

	"github.com/rpcpool/yellowstone-faithful/compactindexsized"
)

// C03.epochblock — the real (*Epoch).GetBlock over the keyless-index model: for every requested
// slot (present, absent, absent with a colliding 24-bit hash) the call returns ErrNotFound /
// another error, or a block whose slot is the requested slot.
func VerifC03EpochBlock() {
	nb := 1 + verifChoice("nblocks", verifParam("maxblocks", 2))
	e := verifC03NewEpoch(5, nb, 0)
	verifC03Install(e)
	st := verifC03Stores[e]
	q := verifU64("slot")
	verifKnownFinding("C03-S1-getblock-no-slot-check", true)
	block, c, err := e.GetBlock(WithSubrapghPrefetch(context.Background(), verifBool("prefetch")), q)
	if err != nil {
		// not-found must stay recognisable for the handlers
		present := false
		for _, o := range st.objs {
			if o.slot == q {
				present = true
			}
		}
		verifAssert(!present, "C03.epochblock: error for a slot that is archived")
		if !st.collided {
			verifAssert(errors.Is(err, compactindexsized.ErrNotFound), "C03.epochblock: absent slot not reported as ErrNotFound")
		}
	} else {
		verifAssert(uint64(block.Slot) == q, "C03.epochblock: GetBlock returned the block of a different slot")
		ok := false
		for _, o := range st.objs {
			if o.c.Equals(c) && o.slot == q {
				ok = true
			}
		}
		verifAssert(ok, "C03.epochblock: returned CID is not the CID of the requested slot's block")
	}
	verifReach("end")
}
