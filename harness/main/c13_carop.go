//go:build verif

package main

import (
	"context"

	"github.com/rpcpool/yellowstone-faithful/indexes"
)

// verifC13CarOp runs one of the server's CAR read paths for node nd over the reader.
// op 0: Epoch.GetNodeByOffsetAndSize (remote-reader branch: readNodeFromReaderAtWithOffsetAndSize,
//
//	parseNodeFromSection)            -> node payload
//
// op 1: Epoch.getNodeSize (remote branch: readNodeSizeFromReaderAtWithOffset) -> section size
// op 2: Epoch.ReadAtFromCar (remote branch: readSectionFromReaderAt)          -> raw section
// (op 3, readNodeWithKnownSize, is local to c13_car.go)
func verifC13CarOp(op int, r ReaderAtCloser, fileLen int64, nd verifC13Node) ([]byte, uint64, error) {
	ep := &Epoch{remoteCarReader: r}
	ctx := context.Background()
	switch op {
	case 0:
		b, err := ep.GetNodeByOffsetAndSize(ctx, &nd.cid, &indexes.OffsetAndSize{Offset: nd.off, Size: nd.size})
		return b, 0, err
	case 1:
		sz, err := ep.getNodeSize(ctx, nd.off)
		return nil, sz, err
	default:
		b, err := ep.ReadAtFromCar(ctx, nd.off, nd.size)
		return b, 0, err
	}
}
