//go:build verif

package main

// Shared model of loaded epochs for the C02 obligations (RPC answers reproduce the archive).
//
// An epoch's archive is a set of DAG nodes (blocks, entries, transactions, rewards, data frames),
// each stored under a concrete, distinct CID, with symbolic content. The real accessors
// (*Epoch).GetBlock / GetEntryByCid / GetTransactionByCid / GetDataFrameByCid / GetRewardsByCid /
// GetTransaction and the real tooling.LoadDataFromDataFrames run on top of these cuts:
//
//   - (*Epoch).FindCidFromSlot / FindCidFromSignature (hash indexes: C03/C04/C01): an archived key
//     is answered with the CID stored for it, any other key with compactindexsized.ErrNotFound.
//   - (*Epoch).GetNodeByCid (cache + CAR read: C03.cid): the node stored under exactly that CID; the
//     node bytes of the model are {kind, node number, epoch}.
//   - iplddecoders.Decode{Block,Entry,Transaction,DataFrame,Rewards} at their call sites in epoch.go
//     (CBOR decoding: C11/C12): a fresh copy of the stored node, or an error if the node is of another kind.
//     A transaction node's data is the wire form compact-u16(1) ++ first signature ++ message bytes,
//     so the real ipldbindcode.Transaction.Signature() (called by (*Epoch).GetTransaction since the
//     C03-S1 fix) reads the archived signature from the node's first frame.
//   - (*Epoch).prefetchSubgraph: cache warm-up only. The epochs are in lassie mode, which skips the
//     CAR prefetch closure of the getBlock handlers (cache warm-up only).
//   - tooling.DecompressZstd at its call sites in storage.go / grpc-server.go / multiepoch-getBlock.go
//     is the identity verifC02Decompress (zstd is library code; payload identity through zstd is outside reach).

import (
	"context"
	"errors"
	"hash/crc64"

	"github.com/gagliardetto/solana-go"
	"github.com/ipfs/go-cid"
	cidlink "github.com/ipld/go-ipld-prime/linking/cid"
	"github.com/rpcpool/yellowstone-faithful/blocktimeindex"
	"github.com/rpcpool/yellowstone-faithful/compactindexsized"
	"github.com/rpcpool/yellowstone-faithful/ipld/ipldbindcode"
)

const (
	verifC02KindTx        = 0
	verifC02KindEntry     = 1
	verifC02KindBlock     = 2
	verifC02KindRewards   = 5
	verifC02KindDataFrame = 6
)

type verifC02Node struct {
	c    cid.Cid
	kind int
	val  any // *ipldbindcode.Block / Entry / Transaction / Rewards / DataFrame
}

// verifC02Payload is one archived byte payload (transaction, metadata or rewards) and the way it is
// stored: in the frame embedded in its owner node, possibly continued in linked frames.
type verifC02Payload struct {
	want  []byte // the archived bytes
	first ipldbindcode.DataFrame
}

type verifC02Tx struct {
	c      cid.Cid
	slot   uint64
	pos    uint64
	hasPos bool
	sig    solana.Signature
	data   verifC02Payload
	meta   verifC02Payload
}

type verifC02Entry struct {
	c    cid.Cid
	hash []byte // 32 bytes
	txs  []*verifC02Tx
}

type verifC02Block struct {
	c         cid.Cid
	slot      uint64
	parent    uint64
	blocktime uint64
	height    uint64
	hasHeight bool
	entries   []*verifC02Entry
	rewards   *verifC02Payload // nil: the block links to DummyCID
}

type verifC02Archive struct {
	e      *Epoch
	num    uint64
	nodes  []*verifC02Node
	blocks []*verifC02Block
	txs    []*verifC02Tx // transactions reachable through the sig-to-cid index
	// sigExistsFP: the signature-exists pre-filter answers true for signatures that are not archived here
	sigExistsFP bool
	// failing: reading the node with this CID fails with an I/O error (C02.*FetchFail only)
	failing *cid.Cid
}

var (
	verifC02Archives = map[*Epoch]*verifC02Archive{}
	verifC02ByNum    = map[uint64]*verifC02Archive{}
)

// verifC02CacheLookup is installed by the CAR-mode obligations (c02_car.go): the raw-object cache.
var verifC02CacheLookup func(a *verifC02Archive, c cid.Cid) ([]byte, bool)

// verifC02RealNodeRead: node reads of the handlers go through the real GetNodeByCid (CAR mode only).
var verifC02RealNodeRead bool

func verifC02Reset() {
	verifC02RealNodeRead = false
	verifC02Archives = map[*Epoch]*verifC02Archive{}
	verifC02ByNum = map[uint64]*verifC02Archive{}
}

// verifC02NewEpoch creates a loaded epoch in lassie mode (no CAR prefetch) with an empty archive.
func verifC02NewEpoch(num uint64) *verifC02Archive {
	e := &Epoch{epoch: num, isFilecoinMode: true, lassieFetcher: &lassieWrapper{}, config: &Config{}}
	a := &verifC02Archive{e: e, num: num}
	verifC02Archives[e] = a
	verifC02ByNum[num] = a
	return a
}

func (a *verifC02Archive) lo() uint64 { return a.num * 432000 }
func (a *verifC02Archive) hi() uint64 { return a.num*432000 + 431999 }

// add stores a node under a fresh CIDv1 (dag-cbor, sha2-256) whose digest encodes (epoch, number).
func (a *verifC02Archive) add(kind int, val any) cid.Cid {
	raw := make([]byte, 36)
	raw[0], raw[1], raw[2], raw[3] = 0x01, 0x71, 0x12, 0x20
	for i := 4; i < 36; i++ {
		raw[i] = 0xC2
	}
	raw[4], raw[5] = byte(a.num+1), byte(len(a.nodes))
	c, err := cid.Cast(raw)
	if err != nil {
		panic(err)
	}
	a.nodes = append(a.nodes, &verifC02Node{c: c, kind: kind, val: val})
	return c
}

func verifC02IntPP(v int) **int {
	p := &v
	return &p
}

// Payload layouts (how the archive creator stored the bytes).
const (
	verifC02OneFrameLegacy = iota // one frame without index / total / next
	verifC02OneFrame              // one frame: index 0, total 1, empty next list
	verifC02TwoFrames             // index 0 -> next [1]
	verifC02ThreeFlat             // index 0 -> next [2, 1] (stored out of order: the loader sorts by index)
	verifC02ThreeChained          // index 0 -> next [1], frame 1 -> next [2]
	verifC02NumLayouts
)

// payload archives n symbolic bytes in the given layout and returns the first frame (to be embedded
// in the owner node). withHash records the CRC64 of the whole payload in the first frame.
func (a *verifC02Archive) payload(name string, n int, layout int, withHash bool) verifC02Payload {
	return a.payloadWithHead(nil, name, n, layout, withHash)
}

// txDataPayload archives the wire bytes of a single-signature transaction: compact-u16 signature
// count 1, the 64 signature bytes, then n symbolic message bytes; the head (count + signature) lies in
// the first frame together with its share of the message bytes.
func (a *verifC02Archive) txDataPayload(sig solana.Signature, name string, n int, layout int, withHash bool) verifC02Payload {
	return a.txDataPayloadCut([]solana.Signature{sig}, name, n, layout, withHash, -1)
}

// txDataPayloadCut archives the wire bytes of a transaction with the given signatures (count byte,
// 64 bytes per signature, n symbolic message bytes). firstFrame < 0: the count and all signatures lie
// in the first frame together with its share of the message; firstFrame >= verifC02TxHead: in the
// multi-frame layouts the first frame holds exactly that many bytes (it may end inside the signature
// array after the first signature). Frames are never cut inside the count byte or the first signature:
// the first frame of every archived transaction holds at least verifC02TxHead bytes.
func (a *verifC02Archive) txDataPayloadCut(sigs []solana.Signature, name string, n int, layout int, withHash bool, firstFrame int) verifC02Payload {
	want := []byte{byte(len(sigs))}
	for _, s := range sigs {
		want = append(want, s[:]...)
	}
	want = append(want, verifBytes(name, n)...)
	if firstFrame < 0 {
		return a.payloadBytes(want, 1+64*len(sigs), layout, withHash)
	}
	if firstFrame > len(want) {
		firstFrame = len(want)
	}
	return a.payloadBytesExact(want, firstFrame, layout, withHash)
}

const verifC02TxHead = 65 // compact-u16(1) + first signature

// payloadWithHead archives head ++ n symbolic bytes; the head stays in the first frame and the n
// bytes are cut evenly over the frames of the layout.
func (a *verifC02Archive) payloadWithHead(head []byte, name string, n int, layout int, withHash bool) verifC02Payload {
	return a.payloadBytes(append(append([]byte{}, head...), verifBytes(name, n)...), len(head), layout, withHash)
}

// payloadBytes archives the given bytes; the first h bytes stay in the first frame and the rest is
// cut evenly over the frames of the layout.
func (a *verifC02Archive) payloadBytes(want []byte, h int, layout int, withHash bool) verifC02Payload {
	return a.payloadFrames(want, h, false, layout, withHash)
}

// payloadBytesExact archives the given bytes; in the multi-frame layouts the first frame holds
// exactly the first h bytes and the rest is cut evenly over the other frames.
func (a *verifC02Archive) payloadBytesExact(want []byte, h int, layout int, withHash bool) verifC02Payload {
	return a.payloadFrames(want, h, true, layout, withHash)
}

func (a *verifC02Archive) payloadFrames(want []byte, h int, exact bool, layout int, withHash bool) verifC02Payload {
	n := len(want) - h
	p := verifC02Payload{want: want}
	p.first = ipldbindcode.DataFrame{Kind: verifC02KindDataFrame}
	cut := func(i, k int) []byte {
		if exact && k > 1 {
			if i == 0 {
				return p.want[:h]
			}
			return p.want[h+n*(i-1)/(k-1) : h+n*i/(k-1)]
		}
		lo, hi := h+n*i/k, h+n*(i+1)/k
		if i == 0 {
			lo = 0
		}
		return p.want[lo:hi]
	}
	frame := func(i, k int, next ...cid.Cid) *ipldbindcode.DataFrame {
		f := &ipldbindcode.DataFrame{Kind: verifC02KindDataFrame, Index: verifC02IntPP(i), Total: verifC02IntPP(k), Data: cut(i, k)}
		l := ipldbindcode.List__Link{}
		for _, c := range next {
			l = append(l, cidlink.Link{Cid: c})
		}
		lp := &l
		f.Next = &lp
		return f
	}
	switch layout {
	case verifC02OneFrameLegacy:
		p.first.Data = p.want
	case verifC02OneFrame:
		p.first = *frame(0, 1)
	case verifC02TwoFrames:
		c1 := a.add(verifC02KindDataFrame, frame(1, 2))
		p.first = *frame(0, 2, c1)
	case verifC02ThreeFlat:
		c1 := a.add(verifC02KindDataFrame, frame(1, 3))
		c2 := a.add(verifC02KindDataFrame, frame(2, 3))
		p.first = *frame(0, 3, c2, c1)
	case verifC02ThreeChained:
		c2 := a.add(verifC02KindDataFrame, frame(2, 3))
		c1 := a.add(verifC02KindDataFrame, frame(1, 3, c2))
		p.first = *frame(0, 3, c1)
	}
	if withHash {
		p.first.Hash = verifC02IntPP(int(verifC02Crc64(p.want)))
	}
	return p
}

// verifC02Crc64 is the checksum the archive creator records (CRC-64/ISO, as ipldbindcode.VerifyHash
// recomputes it; under the engine both go through the same exact bit-serial model of hash/crc64).
func verifC02Crc64(b []byte) uint64 {
	return crc64.Checksum(b, crc64.MakeTable(crc64.ISO))
}

// addTx archives a transaction node (not yet linked from an entry).
func (a *verifC02Archive) addTx(t *verifC02Tx) *verifC02Tx {
	n := &ipldbindcode.Transaction{Kind: verifC02KindTx, Data: t.data.first, Metadata: t.meta.first, Slot: int(t.slot)}
	if t.hasPos {
		n.Index = verifC02IntPP(int(t.pos))
	}
	t.c = a.add(verifC02KindTx, n)
	return t
}

func (a *verifC02Archive) addEntry(en *verifC02Entry) *verifC02Entry {
	n := &ipldbindcode.Entry{Kind: verifC02KindEntry, NumHashes: 1, Hash: en.hash, Transactions: ipldbindcode.List__Link{}}
	for _, t := range en.txs {
		n.Transactions = append(n.Transactions, cidlink.Link{Cid: t.c})
	}
	en.c = a.add(verifC02KindEntry, n)
	return en
}

// addBlock archives a block node and registers its slot in the slot-to-cid index.
func (a *verifC02Archive) addBlock(b *verifC02Block) *verifC02Block {
	n := &ipldbindcode.Block{Kind: verifC02KindBlock, Slot: int(b.slot), Entries: ipldbindcode.List__Link{}}
	n.Meta = ipldbindcode.SlotMeta{Parent_slot: int(b.parent), Blocktime: int(b.blocktime)}
	if b.hasHeight {
		n.Meta.Block_height = verifC02IntPP(int(b.height))
	}
	for _, en := range b.entries {
		n.Entries = append(n.Entries, cidlink.Link{Cid: en.c})
	}
	n.Rewards = cidlink.Link{Cid: DummyCID}
	if b.rewards != nil {
		rc := a.add(verifC02KindRewards, &ipldbindcode.Rewards{Kind: verifC02KindRewards, Slot: int(b.slot), Data: b.rewards.first})
		n.Rewards = cidlink.Link{Cid: rc}
	}
	b.c = a.add(verifC02KindBlock, n)
	a.blocks = append(a.blocks, b)
	return b
}

// setBlocktimeIndex installs a real blocktime index covering the first `window` slots of the epoch
// (a full index covers all 432000; lookups of the model stay inside the window).
func (a *verifC02Archive) setBlocktimeIndex(window uint64) {
	a.e.blocktimeindex = blocktimeindex.NewIndexer(a.lo(), a.lo()+window-1, window)
}

// reloadBlocktimeIndexFromFile replaces the epoch's block-time index by the one read back from its
// file form (real MarshalBinary -> FromBytes), as NewEpochFromConfig loads it. Recorded values must
// be in [0, 2^32) (the writer refuses others).
func (a *verifC02Archive) reloadBlocktimeIndexFromFile() {
	data, err := a.e.blocktimeindex.MarshalBinary()
	if err != nil {
		panic(err)
	}
	idx, err := blocktimeindex.FromBytes(data)
	if err != nil {
		panic(err)
	}
	a.e.blocktimeindex = idx
}

// ---------------------------------------------------------------------------------------------
// cuts (the real methods are renamed to verifOrig_* in the overlay)

func (ser *Epoch) FindCidFromSlot(ctx context.Context, slot uint64) (cid.Cid, error) {
	a := verifC02Archives[ser]
	if slot < a.lo() || slot > a.hi() {
		return cid.Undef, compactindexsized.ErrNotFound // an epoch's index holds the slots of that epoch only
	}
	for _, b := range a.blocks {
		if b.slot == slot {
			return b.c, nil
		}
	}
	return cid.Undef, compactindexsized.ErrNotFound
}

func (ser *Epoch) FindCidFromSignature(ctx context.Context, sig solana.Signature) (cid.Cid, error) {
	a := verifC02Archives[ser]
	for _, t := range a.txs {
		if t.sig == sig {
			return t.c, nil
		}
	}
	return cid.Undef, compactindexsized.ErrNotFound
}

func (s *Epoch) GetNodeByCid(ctx context.Context, wantedCid cid.Cid) ([]byte, error) {
	if verifC02RealNodeRead {
		// C02.txConcurrent: the real GetNodeByCid (kept as verifOrig_GetNodeByCid by the rename) over the model CAR
		return s.verifOrig_GetNodeByCid(ctx, wantedCid)
	}
	a := verifC02Archives[s]
	if verifC02CacheLookup != nil {
		// CAR mode (C02.*Prefetch): as the real GetNodeByCid, an object found in the cache is served from it
		if data, ok := verifC02CacheLookup(a, wantedCid); ok {
			return data, nil
		}
	}
	if a.failing != nil && a.failing.Equals(wantedCid) {
		return nil, errors.New("verif model: i/o error while reading the node")
	}
	for i, n := range a.nodes {
		if n.c.Equals(wantedCid) {
			return []byte{byte(n.kind), byte(i), byte(a.num)}, nil
		}
	}
	return nil, errors.New("verif model: no object with this CID in the epoch")
}

func (s *Epoch) prefetchSubgraph(ctx context.Context, wantedCid cid.Cid) error { return nil }

func verifC02NodeOf(data []byte, kind int) (*verifC02Node, error) {
	if len(data) != 3 || int(data[0]) != kind {
		return nil, errors.New("verif model: node is not of the expected kind")
	}
	return verifC02ByNum[uint64(data[2])].nodes[data[1]], nil
}

func verifC02DecodeBlock(data []byte) (*ipldbindcode.Block, error) {
	n, err := verifC02NodeOf(data, verifC02KindBlock)
	if err != nil {
		return nil, err
	}
	v := *n.val.(*ipldbindcode.Block)
	return &v, nil
}

func verifC02DecodeEntry(data []byte) (*ipldbindcode.Entry, error) {
	n, err := verifC02NodeOf(data, verifC02KindEntry)
	if err != nil {
		return nil, err
	}
	v := *n.val.(*ipldbindcode.Entry)
	return &v, nil
}

func verifC02DecodeTransaction(data []byte) (*ipldbindcode.Transaction, error) {
	n, err := verifC02NodeOf(data, verifC02KindTx)
	if err != nil {
		return nil, err
	}
	v := *n.val.(*ipldbindcode.Transaction)
	return &v, nil
}

func verifC02DecodeDataFrame(data []byte) (*ipldbindcode.DataFrame, error) {
	n, err := verifC02NodeOf(data, verifC02KindDataFrame)
	if err != nil {
		return nil, err
	}
	v := *n.val.(*ipldbindcode.DataFrame)
	return &v, nil
}

func verifC02DecodeRewards(data []byte) (*ipldbindcode.Rewards, error) {
	n, err := verifC02NodeOf(data, verifC02KindRewards)
	if err != nil {
		return nil, err
	}
	v := *n.val.(*ipldbindcode.Rewards)
	return &v, nil
}

// model of the signature-exists pre-filter (bucketteer, C05): no false negatives; false positives
// as chosen per epoch.
type verifC02SigExists struct{ a *verifC02Archive }

func (b *verifC02SigExists) Has(sig [64]byte) (bool, error) {
	for _, t := range b.a.txs {
		if t.sig == solana.Signature(sig) {
			return true, nil
		}
	}
	return b.a.sigExistsFP, nil
}

// verifC02Decompress replaces tooling.DecompressZstd at the handlers' call sites.
func verifC02Decompress(b []byte) ([]byte, error) { return b, nil }

// verifC02B: branch-free 0/1 of a (possibly symbolic) condition.
func verifC02B(c bool) uint64 { return verifIteU64(c, 1, 0) }
