//go:build verif

package main

import (
	"encoding/binary"

	"github.com/ipfs/go-cid"
)

func c01CidBytes(i int) []byte {
	b := []byte{0x01, 0x71, 0x12, 0x20}
	for j := 0; j < 32; j++ {
		b = append(b, byte(0x40+7*i+j))
	}
	return b
}

func c01Cid(i int) cid.Cid {
	c, err := cid.Cast(c01CidBytes(i))
	verifAssert(err == nil, "C01: harness CID does not parse")
	return c
}

// c01Section encodes one CARv1 section: uvarint(len(cid)+len(data)) ‖ cid ‖ data.
func c01Section(cidBytes, data []byte) []byte {
	var lb [binary.MaxVarintLen64]byte
	n := binary.PutUvarint(lb[:], uint64(len(cidBytes)+len(data)))
	out := append([]byte{}, lb[:n]...)
	out = append(out, cidBytes...)
	return append(out, data...)
}

type c01KV struct{ key, value []byte }
