//go:build verif

package main

import (
	"bytes"
	"encoding/binary"

	"github.com/ipfs/go-cid"
	"github.com/rpcpool/yellowstone-faithful/compactindexsized"
)

func c01CidBytes(i int) []byte {
	b := []byte{0x01, 0x71, 0x12, 0x20}
	for j := 0; j < 32; j++ {
		b = append(b, byte(0x40+7*i+j))
	}
	return b
}

func c01Cid(i int) cid.Cid {
	c, err := cid.Cast(c01CidBytes(i))
	verifAssert(err == nil, "C01: harness CID does not parse")
	return c
}

// c01Section encodes one CARv1 section: uvarint(len(cid)+len(data)) ‖ cid ‖ data.
func c01Section(cidBytes, data []byte) []byte {
	var lb [binary.MaxVarintLen64]byte
	n := binary.PutUvarint(lb[:], uint64(len(cidBytes)+len(data)))
	out := append([]byte{}, lb[:n]...)
	out = append(out, cidBytes...)
	return append(out, data...)
}

// ---- cut: the hash index (property C04) is a recorder: Lookup returns what Insert stored.
type c01KV struct{ key, value []byte }

var c01Inserted []c01KV

func c01Model_BuilderInsert(b *compactindexsized.Builder, key []byte, value []byte) error {
	c01Inserted = append(c01Inserted, c01KV{append([]byte{}, key...), append([]byte{}, value...)})
	return nil
}

func c01Model_DBLookup(db *compactindexsized.DB, key []byte) ([]byte, error) {
	for _, kv := range c01Inserted {
		if len(kv.key) == len(key) && bytes.Equal(kv.key, key) {
			return append([]byte{}, kv.value...), nil
		}
	}
	return nil, compactindexsized.ErrNotFound
}

