//go:build verif

package main

// C02.jsonBlockPrefetch — as C02.grpcBlockPrefetch for the JSON-RPC handleGetBlock (its own copy of
// the prefetch closure).
func VerifC02JsonBlockPrefetch() {
	sc := verifC02BlockScene(false)
	verifC02EnableCar()
	if !verifC02JsonBlockOracle(sc) {
		return
	}
	verifC02CheckCache("C02.jsonBlockPrefetch")
	if len(verifC02Cache[sc.a]) >= 1 {
		verifReach("prefetch-cached") // vacuity guard: the closure read the CAR and cached something
	}
	verifReach("end")
}
