//go:build verif

package main

import (
	"bytes"
	"encoding/binary"

	"github.com/ipfs/go-cid"
	carv1 "github.com/ipld/go-car"
	"github.com/rpcpool/yellowstone-faithful/carreader"
)

// C13.carcount — a CONSUMER of the sequential CAR walk: the real carCountItems (os.Open,
// carreader.New, NextInfo until errors.Is(err, io.EOF)), which sizes the indexes that are built
// from a CAR. On a well-formed CARv1 cut at EVERY byte offset T it returns an error, or - only when
// T lies exactly on a section boundary (a well-formed shorter CAR) - the number of sections that
// are completely present. Never a smaller count for a CAR cut inside a section.
//
// Cut: the header's CBOR decoder (hook variable in carreader, as in C13.carscan). memfs files.

var verifC13CountHeader []byte

func verifC13CountDecodeHeader(real func([]byte, interface{}) error, b []byte, v interface{}) error {
	verifAssert(bytes.Equal(b, verifC13CountHeader), "C13.carcount: the bytes handed to the header decoder are not the header body")
	ch := v.(*carv1.CarHeader)
	rb := []byte{0x01, 0x71, 0x12, 0x20}
	for j := 0; j < 32; j++ {
		rb = append(rb, byte(0x61+j))
	}
	root, _ := cid.Cast(rb)
	ch.Roots = []cid.Cid{root}
	ch.Version = 1
	return nil
}

func VerifC13CarCount() {
	carreader.VerifDecodeHeader = verifC13CountDecodeHeader
	shapes := [][]int{{3, 5}, {0, 95, 2}}
	lens := shapes[verifChoice("shape", verifParam("shapes", 1))]
	verifC13CountHeader = verifBytes("header", 20)
	file := binary.AppendUvarint(nil, uint64(len(verifC13CountHeader)))
	file = append(file, verifC13CountHeader...)
	hdrEnd := len(file)
	var ends []int
	for i, l := range lens {
		cb := []byte{0x01, 0x71, 0x12, 0x20}
		for j := 0; j < 32; j++ {
			cb = append(cb, byte(0x33+5*i+j))
		}
		sec := binary.AppendUvarint(nil, uint64(len(cb)+l))
		sec = append(sec, cb...)
		sec = append(sec, verifBytes("data", l)...)
		file = append(file, sec...)
		ends = append(ends, len(file))
	}
	N := len(file)
	T := verifChoice("T", N+1) // the first T bytes are present; T == N is the complete file
	path := verifTempPath("epoch.car")
	verifMemFile(path, file[:T])
	complete, boundary := uint64(0), T == hdrEnd
	for _, e := range ends {
		if e <= T {
			complete++
		}
		if e == T {
			boundary = true
		}
	}
	count, err := carCountItems(path)
	if err != nil {
		verifAssert(!boundary, "C13.carcount: a CAR that ends on a section boundary is reported as damaged")
		verifReach("error")
	} else {
		verifAssert(boundary, "C13.carcount: a CAR cut inside its header or a section is counted without an error (later items silently missing)")
		verifAssert(count == complete, "C13.carcount: the count differs from the number of sections completely present")
		verifReach("counted")
	}
	verifReach("end")
}
