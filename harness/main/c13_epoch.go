//go:build verif

package main

import (
	"bytes"
	"context"
	"errors"

	"github.com/allegro/bigcache/v3"
	"github.com/gagliardetto/solana-go"
	"github.com/ipfs/go-cid"
	"github.com/rpcpool/yellowstone-faithful/compactindexsized"
	"github.com/rpcpool/yellowstone-faithful/deprecated/compactindex"
	hugecache "github.com/rpcpool/yellowstone-faithful/huge-cache"
	"github.com/rpcpool/yellowstone-faithful/indexes"
	"github.com/rpcpool/yellowstone-faithful/indexmeta"
)

// C13.epoch — the epoch's own lookup chain over real files: a real Epoch in CAR mode whose
// slot-to-cid, sig-to-cid and cid-to-offset-and-size indexes are opened by the real
// indexes.OpenWithReader_* over file images and whose CAR is a remote-style io.ReaderAt, with ONE
// of the four files cut at a symbolic offset. Driven: Epoch.FindCidFromSlot /
// Epoch.FindCidFromSignature followed by Epoch.GetNodeByCid (cache probe, FindOffsetAndSizeFromCid
// and its cache, the real index reader, GetNodeByOffsetAndSize, section parsing) - i.e.
// Epoch.GetBlock / GetTransaction without the CBOR decoder - twice in a row (cold, then with
// whatever the first attempt left in the cache).
// Oracle: opening fails, or each attempt returns the node bytes of the complete files or an error
// that is not compactindexsized.ErrNotFound.
//
// Uses verifC13File / verifC13CidBytes / verifC13Section of c13_car.go. Cut: xxhash
// (EntryHash64, Header.BucketHash through hook variables) = table indexed by the byte sum of the key;
// bigcache = the engine's map model.

var verifC13EHash [256]uint64

func verifC13EKeyID(key []byte) byte {
	var s byte
	for _, b := range key {
		s += b
	}
	return s
}

// verifC13EIndex: compactindexsized image with the kind's metadata, one bucket, two entries
// (hash(kA) < hash(kB); eytzinger order of two sorted entries = [larger, smaller]).
func verifC13EIndex(name string, kind []byte, valueSize int, root cid.Cid, kA, kB, vA, vB []byte) []byte {
	meta := &indexmeta.Meta{}
	meta.Add(indexmeta.MetadataKey_Epoch, indexes.Uint64tob(5))
	meta.Add(indexmeta.MetadataKey_RootCid, root.Bytes())
	meta.Add(indexmeta.MetadataKey_Network, []byte(indexes.NetworkMainnet))
	meta.Add(indexmeta.MetadataKey_Kind, kind)
	h := &compactindexsized.Header{ValueSize: uint64(valueSize), NumBuckets: 1, Metadata: meta}
	img := h.Bytes()
	const mask = uint64(1)<<24 - 1
	hA, hB := verifU64(name+".hashA"), verifU64(name+".hashB")
	verifAssume(hA&mask < hB&mask)
	verifAssert(verifC13EKeyID(kA) != verifC13EKeyID(kB), "C13.epoch: harness keys collide in the hash table model")
	verifC13EHash[verifC13EKeyID(kA)], verifC13EHash[verifC13EKeyID(kB)] = hA, hB
	var hb [16]byte
	bh := compactindexsized.BucketHeader{HashDomain: 3, NumEntries: 2, HashLen: 3, FileOffset: uint64(len(img) + 16)}
	bh.Store(&hb)
	img = append(img, hb[:]...)
	entry := func(hash uint64, v []byte) {
		x := hash & mask
		img = append(img, byte(x), byte(x>>8), byte(x>>16))
		img = append(img, v...)
	}
	entry(hB, vB)
	entry(hA, vA)
	return img
}

// verifC13EIndexDep: legacy (deprecated/compactindex) cid-to-offset image: 32-byte header, one
// bucket, two entries with 2-byte offsets (FileSize 1000).
func verifC13EIndexDep(kA, kB []byte, vA, vB uint64) []byte {
	var hdr [32]byte
	(&compactindex.Header{FileSize: 1000, NumBuckets: 1}).Store(&hdr)
	img := append([]byte(nil), hdr[:]...)
	const mask = uint64(1)<<24 - 1
	hA, hB := verifU64("c2o.hashA"), verifU64("c2o.hashB")
	verifAssume(hA&mask < hB&mask)
	verifC13EHash[verifC13EKeyID(kA)], verifC13EHash[verifC13EKeyID(kB)] = hA, hB
	var hb [16]byte
	bh := compactindex.BucketHeader{HashDomain: 3, NumEntries: 2, HashLen: 3, FileOffset: uint64(len(img) + 16)}
	bh.Store(&hb)
	img = append(img, hb[:]...)
	entry := func(hash uint64, v uint64) {
		x := hash & mask
		img = append(img, byte(x), byte(x>>8), byte(x>>16), byte(v), byte(v>>8))
	}
	entry(hB, vB)
	entry(hA, vA)
	return img
}

func VerifC13Epoch() {
	compactindex.VerifEntryHash = func(prefix uint32, key []byte) uint64 { return verifC13EHash[verifC13EKeyID(key)] }
	compactindex.VerifBucketHash = func(key []byte) uint { return 0 }
	compactindexsized.VerifEntryHash = func(prefix uint32, key []byte) uint64 { return verifC13EHash[verifC13EKeyID(key)] }
	compactindexsized.VerifBucketHash = func(key []byte) uint { return 0 }
	// CAR: header, block node, transaction node (payload bytes arbitrary)
	shapes := [][]int{{4, 3}, {1, 12}, {0, 7}}
	img, nodes := verifC13CarImage(6, shapes[verifChoice("shape", verifParam("shapes", 1))])
	blockN, txN := nodes[0], nodes[1]
	root, err := cid.Cast(verifC13CidBytes(9))
	verifAssert(err == nil, "C13.epoch: harness CID does not parse")
	other, err := cid.Cast(verifC13CidBytes(7)) // a second key in every index
	verifAssert(err == nil, "C13.epoch: harness CID does not parse")
	slot := uint64(5*432000 + 17)
	var sig, sig2 solana.Signature
	sig[0], sig[63] = 1, 9
	sig2[0], sig2[63] = 2, 12
	files := [][]byte{
		verifC13EIndex("s2c", indexes.Kind_SlotToCid, indexes.IndexValueSize_SlotToCid, root, indexes.Uint64tob(slot), indexes.Uint64tob(slot+3), blockN.cid.Bytes(), other.Bytes()),
		verifC13EIndex("g2c", indexes.Kind_SigToCid, indexes.IndexValueSize_SigToCid, root, sig[:], sig2[:], txN.cid.Bytes(), other.Bytes()),
		verifC13EIndex("c2o", indexes.Kind_CidToOffsetAndSize, indexes.IndexValueSize_CidToOffsetAndSize, root, blockN.cid.Bytes(), txN.cid.Bytes(),
			indexes.OffsetAndSize{Offset: blockN.off, Size: blockN.size}.Bytes(), indexes.OffsetAndSize{Offset: txN.off, Size: txN.size}.Bytes()),
		img,
	}
	// index generation: 0 = current cid-to-offset-and-size index; 1 = deprecated cid-to-offset index
	// (offset only; the size is probed from the CAR by Epoch.getNodeSize)
	deprecated := verifChoice("indexes", verifParam("modes", 2)) == 1
	if deprecated {
		files[2] = verifC13EIndexDep(blockN.cid.Bytes(), txN.cid.Bytes(), blockN.off, txN.off)
	}
	open := func(rd [4]*verifC13File) (*Epoch, error) {
		r2, err := indexes.OpenWithReader_SlotToCid(rd[0])
		if err != nil {
			return nil, err
		}
		r3, err := indexes.OpenWithReader_SigToCid(rd[1])
		if err != nil {
			return nil, err
		}
		cfg := &Config{}
		var r1 *indexes.CidToOffsetAndSize_Reader
		var r1dep *indexes.Deprecated_CidToOffset_Reader
		if deprecated {
			cfg.Indexes.CidToOffset.URI = "cid-to-offset.index"
			r1dep, err = indexes.Deprecated_OpenWithReader_CidToOffset(rd[2])
		} else {
			r1, err = indexes.OpenWithReader_CidToOffsetAndSize(rd[2])
		}
		if err != nil {
			return nil, err
		}
		cache, err := hugecache.NewWithConfig(context.Background(), bigcache.Config{})
		verifAssert(err == nil, "C13.epoch: cache setup failed")
		return &Epoch{epoch: 5, config: cfg, carHeaderSize: 7, rootCid: root, remoteCarReader: rd[3],
			cidToOffsetAndSizeIndex: r1, deprecated_cidToOffsetIndex: r1dep, slotToCidIndex: r2, sigToCidIndex: r3, allCache: cache}, nil
	}
	bySlot := verifChoice("by", 2) == 0
	ctx := context.Background()
	lookup := func(e *Epoch) ([]byte, error) {
		var c cid.Cid
		var err error
		if bySlot {
			c, err = e.FindCidFromSlot(ctx, slot)
		} else {
			c, err = e.FindCidFromSignature(ctx, sig)
		}
		if err != nil {
			return nil, err
		}
		return e.GetNodeByCid(ctx, c)
	}
	var fullRd [4]*verifC13File
	for i := range files {
		fullRd[i] = &verifC13File{data: files[i], t: int64(len(files[i]))}
	}
	full, err := open(fullRd)
	verifAssert(err == nil, "C13.epoch: the complete files do not open")
	want, err := lookup(full)
	verifAssert(err == nil, "C13.epoch: the complete files do not answer")
	wantData := blockN.data
	if !bySlot {
		wantData = txN.data
	}
	verifAssert(bytes.Equal(want, wantData), "C13.epoch: the complete files answer with other bytes")

	sel := verifChoice("file", 4)
	T := int64(verifU16("T"))
	verifAssume(T < int64(len(files[sel])))
	mm := verifChoice("reader", 2) == 1
	var cutRd [4]*verifC13File
	for i := range files {
		cutRd[i] = &verifC13File{data: files[i], t: int64(len(files[i])), mmap: mm}
	}
	cutRd[sel].t = T
	e, err := open(cutRd)
	if err != nil {
		verifReach("open-error")
		verifReach("end")
		return
	}
	for attempt := 0; attempt < 2; attempt++ {
		got, err := lookup(e)
		if err != nil {
			verifAssert(!errors.Is(err, compactindexsized.ErrNotFound), "C13.epoch: a truncated file makes the epoch answer 'not found' for an archived key")
			verifReach("error")
		} else {
			verifAssert(len(got) == len(want) && bytes.Equal(got, want), "C13.epoch: a truncated file makes the epoch answer with different bytes")
			verifReach("same")
		}
	}
	verifReach("end")
}
