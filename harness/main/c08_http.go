//go:build verif

package main

import (
	"context"
	"encoding/json"
	"errors"
	"net/url"

	"github.com/ipfs/go-cid"
	jsoniter "github.com/json-iterator/go"
	"github.com/sourcegraph/jsonrpc2"
	"github.com/valyala/fasthttp"
)

// C08.http — the fasthttp entry point itself: the closure returned by newMultiEpochHandler (routing
// of /metrics, /health, /api/v1/*, method and size checks, body decoding, getVersion, handleRequest,
// error/null replies, deferred metrics) and apiHandler (slot-to-cid / sig-to-cid) never panic and
// always leave a response, for every method, path, declared length and body-decoding outcome.
// This closure is where a panic would end the process (fasthttp does not recover).
//
// The fasthttp.RequestCtx accessors used by the code (Path, IsGet, IsPost, ContentLength, Body,
// SetStatusCode, SetBodyString, Response.Header.Set, Response.StatusCode) are redirected by
// textual rewrites to the functions below, which present the request chosen by the harness;
// fasthttp, the Prometheus handler and uuid are library code.

var (
	verifC08HTTPMethod    string
	verifC08HTTPPath      string
	verifC08HTTPLength    int
	verifC08HTTPStatus    int
	verifC08HTTPStatusSet bool
	verifC08HTTPBodySet   bool
	verifC08HTTPMetrics   int
	// outcome of decoding the body into a jsonrpc2.Request
	verifC08BodyFails  bool
	verifC08BodyMethod string
	verifC08BodyParams *json.RawMessage
)

func verifC08Path(ctx *fasthttp.RequestCtx) []byte { return []byte(verifC08HTTPPath) }
func verifC08IsGet(ctx *fasthttp.RequestCtx) bool  { return verifC08HTTPMethod == "GET" }
func verifC08IsPost(ctx *fasthttp.RequestCtx) bool { return verifC08HTTPMethod == "POST" }
func verifC08ContentLength(ctx *fasthttp.RequestCtx) int {
	return verifC08HTTPLength
}
func verifC08Body(ctx *fasthttp.RequestCtx) []byte            { return []byte("opaque-body") }
func verifC08SetHeader(ctx *fasthttp.RequestCtx, k, v string) {}
func verifC08Status(ctx *fasthttp.RequestCtx) int {
	if verifC08HTTPStatusSet {
		return verifC08HTTPStatus
	}
	return 200
}
func verifC08SetStatus(ctx *fasthttp.RequestCtx, code int) {
	verifC08HTTPStatus, verifC08HTTPStatusSet = code, true
}
func verifC08SetBody(ctx *fasthttp.RequestCtx, s string) { verifC08HTTPBodySet = true }
func verifC08MetricsHandler() func(ctx *fasthttp.RequestCtx) {
	return func(ctx *fasthttp.RequestCtx) { verifC08HTTPMetrics++ }
}

// the request context handed to the handlers: a live context (fasthttp's own context methods are
// library code)
func verifC08Ctx(ctx *fasthttp.RequestCtx) context.Context { return context.Background() }

func verifC08CidString(c cid.Cid) string {
	if verifSymbolic() {
		return "bafy-opaque"
	}
	return c.String()
}

func randomRequestID() string { return "verif-request" }

// --- reverse proxy (C08.http_proxy) -----------------------------------------------------------------
// The proxy target is configuration, not request input: urlx / net/url are cut to a fixed parsed
// target. proxyToAlternativeRPCServer (fasthttp client, library) is replaced by a model: the
// upstream is unreachable (JSON error reply) or answers (status + body copied); a getVersion
// answer goes through the REAL tryEnrichGetVersion.

func verifC08ParseURL(target string, real func(string) (*url.URL, error)) (*url.URL, error) {
	return &url.URL{Scheme: "https", Host: "upstream.example:8899"}, nil
}
func verifC08URLHost(u *url.URL) string { return "upstream.example" }
func verifC08URLPort(u *url.URL) string { return "8899" }

var (
	verifC08Proxied       int
	verifC08UpstreamError bool // the upstream answered getVersion with a JSON-RPC error
	verifC08UpstreamBad   bool // the upstream answer is not a JSON-RPC response / its result is not an object
)

func proxyToAlternativeRPCServer(
	handler *MultiEpoch,
	lsConf *ListenerConfig,
	proxy *fasthttp.HostClient,
	reqCtx *fasthttp.RequestCtx,
	rpcRequest *jsonrpc2.Request,
	body []byte,
	reqID string,
) {
	verifAssert(proxy != nil && lsConf != nil && lsConf.ProxyConfig != nil && rpcRequest != nil, "C08.http_proxy: proxying without a configured proxy")
	verifC08Proxied++
	if verifChoice("upstream.reachable", 2) == 0 {
		replyJSON(reqCtx, 500, nil)
		return
	}
	verifC08SetStatus(reqCtx, 200)
	if rpcRequest.Method == "getVersion" {
		verifC08UpstreamError, verifC08UpstreamBad = false, false
		switch verifChoice("upstream.getVersion", 3) {
		case 1:
			verifC08UpstreamError = true
		case 2:
			verifC08UpstreamBad = true
		}
		_, _ = handler.tryEnrichGetVersion([]byte("opaque-upstream-body"))
	}
}

// body decoding: fasterJson.Unmarshal(body, &rpcRequest) runs jsonrpc2.Request.UnmarshalJSON
// (library): a syntax error / missing method, or a request with a method string and params that
// are nil (member missing) or raw bytes.
type verifC08HTTPJSON struct{ verifC08JSON }

func (j verifC08HTTPJSON) Unmarshal(data []byte, v interface{}) error {
	switch t := v.(type) {
	case *jsonrpc2.Response:
		// upstream answer (tryEnrichGetVersion)
		if verifC08UpstreamBad && verifChoice("upstream.bad", 2) == 0 {
			return errors.New("verif: upstream answer is not a JSON-RPC response")
		}
		if verifC08UpstreamError {
			t.Error = &jsonrpc2.Error{Code: -32000, Message: "upstream error"}
			return nil
		}
		if verifChoice("upstream.result", 2) == 1 {
			res := json.RawMessage("{opaque}")
			t.Result = &res
		}
		return nil
	case *map[string]any:
		if verifC08UpstreamBad {
			return errors.New("verif: upstream result is not an object")
		}
		if verifChoice("upstream.result.null", 2) == 1 {
			// "result":null decodes without error and leaves the map nil
			verifKnownFinding("C08-proxy-version-null-result", true)
			return nil
		}
		*t = map[string]any{"solana-core": "1.16.7", "feature-set": 1.0}
		return nil
	}
	if r, ok := v.(*jsonrpc2.Request); ok {
		if verifC08BodyFails {
			return errors.New("verif: invalid request body")
		}
		r.Method = verifC08BodyMethod
		r.Params = verifC08BodyParams
		r.ID = jsonrpc2.ID{Num: 1}
		return nil
	}
	return j.verifC08JSON.Unmarshal(data, v)
}

var verifC08HTTPPaths = []string{
	"/", "", "/metrics", "/health", "/health/", "/api/v1/", "/api/v1/other",
	"/api/v1/slot-to-cid", "/api/v1/slot-to-cid/", "/api/v1/slot-to-cid/5", "/api/v1/slot-to-cid/5//", "/api/v1/slot-to-cid/432000",
	"/api/v1/slot-to-cid/abc", "/api/v1/slot-to-cid/-1", "/api/v1/slot-to-cid/18446744073709551616",
	"/api/v1/sig-to-cid", "/api/v1/sig-to-cid/", "/api/v1/sig-to-cid/" + verifC08Sig64, "/api/v1/sig-to-cid/" + verifC08Sig64 + "/",
	"/api/v1/sig-to-cid/" + verifC08Key32, "/api/v1/sig-to-cid/0OIl",
}

func VerifC08HTTP() {
	fasterJson = verifC08HTTPJSON{}
	jsoniter.ConfigCompatibleWithStandardLibrary = verifC08HTTPJSON{}

	verifC08HTTPMethod = []string{"POST", "GET", "PUT"}[verifChoice("http.method", 3)]
	verifC08HTTPStatusSet, verifC08HTTPBodySet, verifC08HTTPMetrics, verifC08Replies = false, false, 0, 0
	verifC08BodyFails, verifC08BodyMethod, verifC08BodyParams = false, "", nil
	verifC08HTTPLength = 20

	// epochs: none | epoch 0 (with blocktime index, signature-exists filter, genesis)
	nEpochs := verifChoice("epochs", 2)
	multi := verifC08Server(nEpochs, 0, 1|2|8, 1)
	var lsConf *ListenerConfig
	if verifParam("proxy", 0) == 1 {
		lsConf = &ListenerConfig{ProxyConfig: &ProxyConfig{Target: "https://upstream.example:8899", ProxyFailedRequests: verifChoice("proxy.failed-requests", 2) == 1}}
	} else if verifChoice("listener.config", 2) == 1 {
		lsConf = &ListenerConfig{} // no proxy configured
	}
	verifC08Proxied = 0
	handler := newMultiEpochHandler(multi, lsConf)

	rpcPath := false
	if verifC08HTTPMethod == "POST" && verifChoice("http.rpc", 2) == 1 {
		// JSON-RPC call: POST / with a body
		rpcPath = true
		verifC08HTTPPath = "/"
		cl := verifChoice("http.content-length", 5)
		verifC08HTTPLength = []int{20, 0, -1, 1024, 1025}[cl]
		bodyKind := 1
		if cl == 0 {
			// the declared length is checked before the body is looked at: the body kinds are
			// explored with an ordinary length, the other lengths with param-less calls
			bodyKind = verifChoice("body", 3)
		}
		switch bodyKind {
		case 0:
			verifC08BodyFails = true
		case 1:
			// a method that takes no params (or is unknown): params missing or present
			verifC08BodyMethod = []string{"getVersion", "getSlot", "getFirstAvailableBlock", "getGenesisHash", "nope", ""}[verifChoice("body.method", 6)]
			verifC08BodyParams = verifC08RawParams(false)
		default:
			switch verifChoice("body.call", 4) {
			case 0:
				verifC08BodyMethod = "getBlock"
				verifC08BodyParams = verifC08DispatchParams(verifC08Key{"slot", verifC08Number, []string{"1"}, []float64{1, 432000, 1e300}}, false, true)
			case 1:
				verifC08BodyMethod = "getBlockTime"
				verifC08BodyParams = verifC08DispatchParams(verifC08Key{"slot", verifC08Number, []string{"1"}, []float64{1, 4, 1e300}}, false, true)
			case 2:
				verifC08BodyMethod = "getTransaction"
				verifC08BodyParams = verifC08DispatchParams(verifC08Key{"signature", verifC08String, []string{verifC08Sig64, "0OIl"}, []float64{1}}, false, nEpochs > 0)
			default:
				verifC08BodyMethod = "getSignaturesForAddress"
				verifC08BodyParams = verifC08DispatchParams(verifC08Key{"address", verifC08String, []string{verifC08Key32, "0OIl"}, []float64{1}}, false, true)
			}
		}
	} else {
		verifC08HTTPPath = verifC08HTTPPaths[verifChoice("http.path", len(verifC08HTTPPaths))]
	}

	handler(&fasthttp.RequestCtx{})

	// a response was produced: a JSON reply, an explicit status, or the metrics page
	verifAssert(verifC08Replies >= 1 || verifC08HTTPStatusSet || verifC08HTTPMetrics >= 1, "C08.http: request finished without any response being written")
	_ = rpcPath
	// the server keeps serving
	verifAssert(multi.CountEpochs() == nEpochs, "C08.http: epoch set changed by a request")
	multi.AddEpoch(999, verifC08Epoch(999))
	verifReach("end")
}
