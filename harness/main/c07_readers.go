//go:build verif

package main

import (
	"context"

	"github.com/rpcpool/yellowstone-faithful/gsfa"
)

// Reader selection of the slot-bounded (streaming) variant. Standalone: only
// getGsfaReadersInEpochDescendingOrderForSlotRange, MultiEpoch.epochs and Epoch.{epoch,gsfaReader}
// are referenced (no handler cuts).

// ---------------------------------------------------------------------------
// C07.readers — getGsfaReadersInEpochDescendingOrderForSlotRange (streaming variant): the
// selected epochs are exactly the loaded epochs with a gsfa index that overlap
// [startSlot, endSlot], newest first, for every map iteration order.
func VerifC07RangeReaders() {
	if verifParam("crash_classes", 0) == 1 && verifChoice("class", 2) == 1 {
		VerifC07RangeCrash()
		return
	}
	verifMapOrderNondet(true)
	m := NewMultiEpoch(&Options{})
	nums := []uint64{3, 0, 4, 1}
	minK := verifParam("min_epochs", 1)
	K := minK + verifChoice("epochs", verifParam("max_epochs", 3)-minK+1)
	withReader := map[uint64]bool{}
	for k := 0; k < K; k++ {
		ep := &Epoch{epoch: nums[k]}
		if verifChoice("has_gsfa", 2) == 1 {
			ep.gsfaReader = &gsfa.GsfaReader{}
			withReader[nums[k]] = true
		}
		m.epochs[nums[k]] = ep
	}
	start := verifU64("startSlot")
	end := verifU64("endSlot")
	const L = 432000
	// sane request: start <= end, both inside epochs 0..5 (reversed / huge ranges: C07.slotrange)
	verifAssume(start <= end && end < 6*L)
	multi, epochNums := m.getGsfaReadersInEpochDescendingOrderForSlotRange(context.Background(), start, end)
	verifAssert(multi != nil, "C07.readers: no multi-epoch reader returned")
	for i := 0; i+1 < len(epochNums); i++ {
		verifAssert(epochNums[i] > epochNums[i+1], "C07.readers: epochs not strictly descending")
	}
	for _, e := range nums[:K] {
		listed := false
		for _, x := range epochNums {
			if x == e {
				listed = true
			}
		}
		// epoch e covers slots [e*L, e*L+L-1]
		overlaps := verifIteU64(e*L+L > start, verifIteU64(e*L <= end, 1, 0), 0)
		expect := verifIteU64(withReader[e], overlaps, 0)
		verifAssert((expect != 0) == listed, "C07.readers: epoch selection differs from `has a gsfa index and overlaps the slot range`")
	}
	for _, x := range epochNums {
		_, ok := m.epochs[x]
		verifAssert(ok, "C07.readers: listed epoch is not loaded")
	}
	verifReach("end")
}

// ---------------------------------------------------------------------------
// C07.slotrange — crash-freedom of getGsfaReadersInEpochDescendingOrderForSlotRange over slot
// ranges a client can send (StreamTransactions passes start_slot / end_slot unchecked): short
// forward ranges, ranges reversed by more than one epoch, and forward ranges of >= 2^40 slots.
func VerifC07RangeCrash() {
	verifMapOrderNondet(true)
	m := NewMultiEpoch(&Options{})
	nums := []uint64{3, 0, 4, 1}
	K := 1 + verifChoice("epochs", verifParam("max_epochs", 1))
	for k := 0; k < K; k++ {
		ep := &Epoch{epoch: nums[k]}
		if verifChoice("has_gsfa", 2) == 1 {
			ep.gsfaReader = &gsfa.GsfaReader{}
		}
		m.epochs[nums[k]] = ep
	}
	start := verifU64("startSlot")
	end := verifU64("endSlot")
	const L = 432000
	sane := verifIteU64(start <= end, verifIteU64(end-start < 6*L, 1, 0), 0)
	rev := verifIteU64(start > end, verifIteU64(start-end > L, 1, 0), 0)
	huge := verifIteU64(start <= end, verifIteU64(end-start >= 1<<40, 1, 0), 0)
	verifAssume(sane+rev+huge != 0)
	// known finding: the capacity endEpoch-startEpoch+1 of the epoch list is computed from the
	// request alone (wraps for reversed ranges, unbounded for long ones)
	verifKnownFinding("C07-slotrange-alloc", sane == 0)
	verifAllocLimit(1 << 20)
	_, epochNums := m.getGsfaReadersInEpochDescendingOrderForSlotRange(context.Background(), start, end)
	verifAssert(len(epochNums) <= K, "C07.slotrange: more epochs listed than loaded")
	verifReach("end")
}
