//go:build verif

package main

import "context"

// C09.search — a getTransaction epoch search addressed to an epoch that stays loaded, while a NEWER
// epoch is being added (start-up loading / --watch Create): the real
// MultiEpoch.findEpochNumberFromSignature (single-epoch fast path, per-epoch jobs, sig-exists
// pre-filter, sig-to-cid lookup; archive model of C03) runs concurrently with the real AddEpoch,
// under every interleaving. The search must complete and name the epoch that archives the
// signature, exactly as on an idle server - never the epoch that arrived meanwhile.
func VerifC09Search() {
	multi, eps := verifC03Multi(2, 0, 1) // epochs 6 (eps[0]) and 4 (eps[1]), one transaction each
	older, newer := eps[1], eps[0]
	delete(multi.epochs, newer.epoch) // only the older epoch is loaded when the query starts
	q := verifC03Sig("sig")
	verifAssume(verifC03ArchivedIn(older, q) == 1 && verifC03ArchivedIn(newer, q) == 0)
	done := make(chan struct{})
	go func() {
		multi.AddEpoch(newer.epoch, newer)
		close(done)
	}()
	num, err := multi.findEpochNumberFromSignature(context.Background(), q)
	<-done
	// the archive model answers the pre-filter exactly only in its fault mode; keep the runs in
	// which no index read failed (read faults are C03's subject, not C09's)
	_, anyFault := verifC03Health(eps)
	verifAssume(!anyFault)
	verifAssert(err == nil, "C09.search: a signature archived in an epoch that stayed loaded was not found while another epoch was being added")
	if err == nil {
		verifAssert(num == older.epoch, "C09.search: the search named another epoch than the one that archives the signature (epoch set read in two steps?)")
	}
	// the added epoch is visible afterwards and the listing is consistent
	ns := multi.GetEpochNumbers()
	verifAssert(len(ns) == 2 && ns[0] > ns[1], "C09.search: epoch listing after the add")
	verifReach("end")
}
