//go:build verif

package main

// C02.grpcTx / C02.jsonTx / C02.txSched — getTransaction (gRPC GetTransaction and JSON-RPC
// handleGetTransaction, with the real findEpochNumberFromSignature, getAllBucketteers,
// (*Epoch).GetTransaction, getTransactionAndMetaFromNode / parseTransactionAndMetaFromNode and
// tooling.LoadDataFromDataFrames) over 1..3 loaded epochs: for every archived signature the answer
// carries that transaction's slot, the block time its epoch's block-time index records for that
// slot, its position and its own transaction / metadata payloads, whichever other epochs are loaded,
// whatever the signature-exists pre-filters of the other epochs answer, for every search
// concurrency setting.

import (
	"bytes"
	"context"
	"encoding/json"

	"github.com/gagliardetto/solana-go"
	old_faithful_grpc "github.com/rpcpool/yellowstone-faithful/old-faithful-proto/old-faithful-grpc"
	"github.com/sourcegraph/jsonrpc2"
	"github.com/valyala/fasthttp"
)

const verifC02TxWindow = 3 // slots covered by the model's block-time indexes (from the epoch's first slot)

type verifC02TxScene struct {
	multi     *MultiEpoch
	a         *verifC02Archive
	t         *verifC02Tx
	blocktime int64 // recorded by a's block-time index for t.slot
}

var verifC02TxEpochs = []uint64{5, 3, 6}

func verifC02Sig(name string) solana.Signature {
	var s solana.Signature
	s[0], s[1], s[63] = verifU8(name), verifU8(name), verifU8(name)
	s[7] = 0x5C
	return s
}

// verifC02TxScene: ne epochs (numbers 5, 3, 6 in insertion order); the queried transaction lives in
// the epoch with index `home`; every epoch holds one further transaction with another signature and
// a block-time index with arbitrary values; the signature-exists filters of the other epochs may
// answer with false positives.
func verifC02NewTxScene(ne, home int, conc int) *verifC02TxScene {
	verifC02Reset()
	sc := &verifC02TxScene{multi: NewMultiEpoch(&Options{EpochSearchConcurrency: conc})}
	sig := verifC02Sig("sig")
	// block-time indexes filled directly (arbitrary int64) or, viaFile, with 32-bit unsigned values and
	// read back from their file form (real MarshalBinary -> FromBytes), as a started server has them
	viaFile := verifChoice("viaFile", verifParam("fileModes", 1)) == 1
	for i := 0; i < ne; i++ {
		a := verifC02NewEpoch(verifC02TxEpochs[i])
		a.setBlocktimeIndex(verifC02TxWindow)
		times := make([]int64, verifC02TxWindow)
		for k := range times {
			times[k] = verifI64("blocktimeIndexValue")
			if viaFile {
				verifAssume(times[k] >= 0 && times[k] <= 0xFFFFFFFF)
			}
			a.e.blocktimeindex.Set(a.lo()+uint64(k), times[k])
		}
		if viaFile {
			a.reloadBlocktimeIndexFromFile()
		}
		a.e.sigExists = &verifC02SigExists{a: a}
		// another transaction of this epoch
		o := &verifC02Tx{slot: a.lo() + 1, hasPos: true, pos: 9, sig: verifC02Sig("otherSig")}
		verifAssume(o.sig != sig)
		o.data = a.txDataPayload(o.sig, "otherData", 1, verifC02OneFrameLegacy, false)
		o.meta = a.payload("otherMeta", 1, verifC02OneFrameLegacy, false)
		a.txs = append(a.txs, a.addTx(o))
		if i == home {
			off := verifU64("slotOffset")
			verifAssume(off < uint64(verifParam("offsets", verifC02TxWindow)))
			t := &verifC02Tx{slot: a.lo() + off, sig: sig}
			t.hasPos = verifChoice("positions", verifParam("positionModes", 2)) == verifParam("positionModes", 2)-1
			if t.hasPos {
				t.pos = verifU64("position")
			}
			plan := verifChoice("layoutPlan", verifParam("layoutPlans", verifC02NumLayouts))
			withHash := verifChoice("frameHash", verifParam("hashModes", 2)) == 1
			// 1..maxSigs signatures; in the multi-frame layouts the first frame either holds the count,
			// all signatures and its share of the message (0), or ends right after the first signature
			// (1), inside the second signature (2), or right after the last signature (3)
			sigs := []solana.Signature{sig}
			nsig := 1 + verifChoice("extraSignatures", verifParam("maxSigs", 2))
			for j := 1; j < nsig; j++ {
				sigs = append(sigs, solana.Signature{0: 0x51, 1: byte(j), 40: verifU8("extraSigByte"), 63: 0x52})
			}
			firstFrame := -1
			if plan >= verifC02TwoFrames {
				cuts := []int{-1, verifC02TxHead, verifC02TxHead + 17, 1 + 64*len(sigs)}
				if len(sigs) == 1 {
					cuts = cuts[:2]
				}
				firstFrame = cuts[verifChoice("firstFrameCut", verifParam("cutModes", len(cuts)))%len(cuts)]
			}
			t.data = a.txDataPayloadCut(sigs, "txData", verifParam("dataLen", 3), plan, withHash, firstFrame)
			t.meta = a.payload("txMeta", verifParam("metaLen", 3)*(verifChoice("metaPresent", verifParam("metaModes", 2))+2-verifParam("metaModes", 2)), (plan+2)%verifC02NumLayouts, withHash)
			a.txs = append(a.txs, a.addTx(t))
			sc.a, sc.t = a, t
			// branch-free read of the recorded block time
			for k := range times {
				sc.blocktime = int64(verifIteU64(off == uint64(k), uint64(times[k]), uint64(sc.blocktime)))
			}
		} else {
			a.sigExistsFP = verifChoice("sigExistsFalsePositive", verifParam("fpModes", 2)) == 1
		}
		sc.multi.epochs[a.num] = a.e
	}
	return sc
}

func verifC02TxSceneFromParams() *verifC02TxScene {
	ne := verifParam("minEpochs", 1) + verifChoice("epochs", verifParam("maxEpochs", 3)-verifParam("minEpochs", 1)+1)
	home := verifChoice("home", ne)
	conc := verifParam("conc", 0) // 0: every setting in {-1, 1..ne}
	if conc == 0 {
		conc = verifChoice("concurrency", verifParam("concChoices", ne+1))
		if conc == 0 {
			conc = -1
		}
	}
	return verifC02NewTxScene(ne, home, conc)
}

func VerifC02GrpcTx() {
	sc := verifC02TxSceneFromParams()
	t := sc.t
	resp, err := sc.multi.GetTransaction(context.Background(), &old_faithful_grpc.TransactionRequest{Signature: t.sig[:]})
	verifAssert(err == nil, "C02.grpcTx: archived transaction is answered with an error")
	if err != nil {
		return
	}
	verifAssert(resp.Slot == t.slot, "C02.grpcTx: wrong slot")
	verifAssert(resp.BlockTime == sc.blocktime, "C02.grpcTx: block time is not the one recorded by the epoch's block-time index for the transaction's slot")
	if t.hasPos {
		verifAssert(resp.Index != nil && *resp.Index == t.pos, "C02.grpcTx: wrong position")
	} else {
		verifAssert(resp.Index == nil, "C02.grpcTx: position reported although none is recorded")
	}
	verifAssert(resp.Transaction != nil, "C02.grpcTx: no transaction in the response")
	if resp.Transaction == nil {
		return
	}
	verifAssert(bytes.Equal(resp.Transaction.Transaction, t.data.want), "C02.grpcTx: transaction bytes differ from the archive")
	verifAssert(bytes.Equal(resp.Transaction.Meta, t.meta.want), "C02.grpcTx: metadata bytes differ from the archive")
	verifReach("end")
}

func VerifC02JsonTx() {
	sc := verifC02TxSceneFromParams()
	t := sc.t
	verifC02Req.sig = t.sig
	verifC02Req.encoding = verifC02Encodings[verifChoice("encoding", verifParam("encodings", len(verifC02Encodings)))]
	verifC02Replies = nil
	raw := json.RawMessage("[opaque]")
	req := &jsonrpc2.Request{Method: "getTransaction", ID: jsonrpc2.ID{Num: 1}, Params: &raw}
	conn := &requestContext{ctx: &fasthttp.RequestCtx{}}
	errResp, err := sc.multi.handleRequest(context.Background(), conn, req)
	verifAssert(errResp == nil && err == nil, "C02.jsonTx: archived transaction is answered with an error")
	if errResp != nil || err != nil {
		return
	}
	verifAssert(len(verifC02Replies) == 1, "C02.jsonTx: not exactly one reply")
	if len(verifC02Replies) != 1 {
		return
	}
	resp, ok := verifC02Replies[0].(GetTransactionResponse)
	verifAssert(ok, "C02.jsonTx: reply is not a GetTransactionResponse")
	if !ok {
		return
	}
	verifAssert(resp.Slot != nil && *resp.Slot == t.slot, "C02.jsonTx: wrong slot")
	verifAssert(resp.Blocktime != nil && *resp.Blocktime == sc.blocktime, "C02.jsonTx: block time is not the one recorded by the epoch's block-time index for the transaction's slot")
	if t.hasPos {
		verifAssert(resp.Position == t.pos, "C02.jsonTx: wrong position")
	}
	verifAssert(verifC02SameTx(resp.Transaction, resp.Meta, resp.Signatures, t, verifC02Req.encoding) == 1, "C02.jsonTx: transaction / metadata differ from the archive")
	verifAssert(resp.Version == "legacy", "C02.jsonTx: version of a legacy transaction")
	verifReach("end")
}
