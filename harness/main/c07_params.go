//go:build verif

package main

import (
	"encoding/json"

	"github.com/gagliardetto/solana-go"
	jsoniter "github.com/json-iterator/go"
)

// ---------------------------------------------------------------------------
// C07.params — the real parseGetSignaturesForAddressParams: the (limit, before, until) the paging
// code receives are the ones the client sent: address and signatures decoded from base58, limit
// taken when it is an integer in 1..1000 and 1000 otherwise (absent, 0, negative, above 1000);
// an undecodable signature or address is an error, not a silently different page.
//
// Cut: JSON byte parsing (fasterJson is replaced by a shape model that hands over the decoded list).

type verifC07PJSON struct{ jsoniter.API }

var verifC07PParams []any

func (verifC07PJSON) Unmarshal(data []byte, v interface{}) error {
	p, ok := v.(*[]any)
	if !ok {
		panic("verifC07PJSON.Unmarshal: unexpected target type")
	}
	*p = verifC07PParams
	return nil
}

func verifC07PSig(id int) (s solana.Signature) {
	s[0] = byte(id)
	s[9] = 0x21
	s[63] = byte(id) ^ 0x5A
	return
}

func VerifC07Params() {
	fasterJson = verifC07PJSON{}
	pk := solana.PublicKey{4, 4, 4, 1}
	limits := []float64{0, 1, 500, 1000, 1001}
	if verifParam("deep", 0) == 1 {
		limits = []float64{-1, 0, 1, 2, 500, 999, 1000, 1001, 1e6}
	}
	wantLimit := 1000
	opts := map[string]interface{}{}
	if c := verifChoice("limit", len(limits)+1); c > 0 {
		l := limits[c-1]
		opts["limit"] = l
		if l >= 1 && l <= 1000 {
			wantLimit = int(l)
		}
	}
	// 0 absent, 1 valid signature, 2 string that is not base58, 3 base58 of the wrong length (a public key)
	sigCase := func(name string, id int) (want *solana.Signature, bad bool) {
		switch verifChoice(name, 4) {
		case 1:
			s := verifC07PSig(id)
			opts[name] = s.String()
			return &s, false
		case 2:
			opts[name] = "0OIl-not-base58"
			return nil, true
		case 3:
			opts[name] = pk.String()
			return nil, true
		}
		return nil, false
	}
	wantBefore, badB := sigCase("before", 1)
	wantUntil, badU := sigCase("until", 2)
	addr := pk.String()
	badAddr := false
	switch verifChoice("address", 3) {
	case 1:
		addr, badAddr = "0OIl", true
	case 2:
		s := verifC07PSig(3)
		addr, badAddr = s.String(), true // 64 bytes: not an address
	}
	if verifChoice("options_present", 2) == 1 {
		verifC07PParams = []any{addr, opts}
	} else {
		verifC07PParams = []any{addr}
		wantLimit, wantBefore, wantUntil, badB, badU = 1000, nil, nil, false, false
	}
	raw := json.RawMessage(`[]`)
	got, err := parseGetSignaturesForAddressParams(&raw)
	if badAddr || badB || badU {
		verifAssert(err != nil, "C07.params: undecodable address/signature accepted")
		verifReach("end")
		return
	}
	verifAssert(err == nil && got != nil, "C07.params: well-formed params rejected")
	verifAssert(got.Address == pk, "C07.params: address not decoded from base58")
	verifAssert(got.Limit == wantLimit, "C07.params: limit is not the requested one (1..1000) / the default 1000")
	verifAssert((got.Before == nil) == (wantBefore == nil), "C07.params: `before` dropped or invented")
	if wantBefore != nil {
		verifAssert(*got.Before == *wantBefore, "C07.params: `before` is not the signature the client sent")
	}
	verifAssert((got.Until == nil) == (wantUntil == nil), "C07.params: `until` dropped or invented")
	if wantUntil != nil {
		verifAssert(*got.Until == *wantUntil, "C07.params: `until` is not the signature the client sent")
	}
	verifReach("end")
}
