//go:build verif

package main

// CAR mode for the getBlock obligations (C02.grpcBlockPrefetch / C02.jsonBlockPrefetch): the loaded
// epochs serve from a CAR file (no lassie fetcher), so the handlers run their prefetch closure
// (prefetcherFromCar): two slot-to-cid lookups, two cid-to-offset lookups, one ranged CAR read from
// the parent block's section (or the end of the CAR header) up to the requested block's section,
// go-car's util.ReadNode over that range, and a cache insertion for every section read.
//
// The model CAR file is concrete: an 11-byte header followed by one section per archive node in
// archive (post-) order, section = uvarint(len(cid)+len(data)) ++ cid ++ data, with the model's node
// bytes {kind, node number, epoch} as data. The real (*Epoch).ReadAtFromCar / readSectionFromReaderAt
// read it through a ReaderAtCloser installed as the epoch's remote CAR reader.
//
// Cuts: (*Epoch).FindOffsetAndSizeFromCid (renamed; cid-to-offset index: C01/C04) answers with the
// section's offset / size or ErrNotFound; (*hugecache.Cache).PutRawCarObject (engine redirect
// to c02Model_cachePut) records the pair in a map that the GetNodeByCid model consults first, like the real
// GetNodeByCid consults the cache.

import (
	"bytes"
	"context"
	"encoding/binary"
	"io"

	"github.com/ipfs/go-cid"
	carv2 "github.com/ipld/go-car/v2"
	"github.com/rpcpool/yellowstone-faithful/compactindexsized"
	hugecache "github.com/rpcpool/yellowstone-faithful/huge-cache"
	"github.com/rpcpool/yellowstone-faithful/indexes"
)

const verifC02CarHeader = 11

type verifC02Car struct {
	a    *verifC02Archive
	data []byte
	off  []uint64 // section offset per node
	size []uint64 // section size per node
}

type verifC02CachedObj struct {
	c    cid.Cid
	data []byte
}

var (
	verifC02Cars  = map[*verifC02Archive]*verifC02Car{}
	verifC02Cache = map[*verifC02Archive][]verifC02CachedObj{}
)

// car lays the archive out as a CAR file (on first use: the scene is complete by then).
func (a *verifC02Archive) car() *verifC02Car {
	if c := verifC02Cars[a]; c != nil {
		return c
	}
	c := &verifC02Car{a: a, data: make([]byte, verifC02CarHeader)}
	for i, n := range a.nodes {
		cb := n.c.Bytes()
		body := []byte{byte(n.kind), byte(i), byte(a.num)}
		var lenbuf [10]byte
		k := binary.PutUvarint(lenbuf[:], uint64(len(cb)+len(body)))
		c.off = append(c.off, uint64(len(c.data)))
		c.data = append(c.data, lenbuf[:k]...)
		c.data = append(c.data, cb...)
		c.data = append(c.data, body...)
		c.size = append(c.size, uint64(k+len(cb)+len(body)))
	}
	verifC02Cars[a] = c
	return c
}

func (c *verifC02Car) ReadAt(p []byte, off int64) (int, error) {
	if off < 0 || off > int64(len(c.data)) {
		return 0, io.EOF
	}
	n := copy(p, c.data[off:])
	if n < len(p) {
		return n, io.EOF
	}
	return n, nil
}

func (c *verifC02Car) Close() error { return nil }

// verifC02EnableCar switches every loaded epoch of the model to CAR mode.
func verifC02EnableCar() {
	verifC02Cars = map[*verifC02Archive]*verifC02Car{}
	verifC02Cache = map[*verifC02Archive][]verifC02CachedObj{}
	for e, a := range verifC02Archives {
		e.lassieFetcher = nil
		e.isFilecoinMode = false
		e.carHeaderSize = verifC02CarHeader
		e.remoteCarReader = &verifC02CarReader{a: a}
		e.allCache = &hugecache.Cache{}
	}
	verifC02CacheLookup = func(a *verifC02Archive, c cid.Cid) ([]byte, bool) {
		for _, o := range verifC02Cache[a] {
			if o.c.Equals(c) {
				return o.data, true
			}
		}
		return nil, false
	}
}

// verifC02CarReader defers the layout until the first read (the scene is complete by then).
type verifC02CarReader struct{ a *verifC02Archive }

func (r *verifC02CarReader) ReadAt(p []byte, off int64) (int, error) { return r.a.car().ReadAt(p, off) }
func (r *verifC02CarReader) Close() error                            { return nil }

// model of (*Epoch).FindOffsetAndSizeFromCid (the real one is renamed)
func (ser *Epoch) FindOffsetAndSizeFromCid(ctx context.Context, c cid.Cid) (*indexes.OffsetAndSize, error) {
	a := verifC02Archives[ser]
	car := a.car()
	for i, n := range a.nodes {
		if n.c.Equals(c) {
			return &indexes.OffsetAndSize{Offset: car.off[i], Size: car.size[i]}, nil
		}
	}
	return nil, compactindexsized.ErrNotFound
}

// c02Model_cachePut is the model of (*hugecache.Cache).PutRawCarObject (engine redirect): every epoch
// of the model owns a distinct (empty) hugecache.Cache object that identifies its record.
func c02Model_cachePut(hc *hugecache.Cache, c cid.Cid, data []byte) error {
	for e, a := range verifC02Archives {
		if e.allCache == hc {
			verifC02Cache[a] = append(verifC02Cache[a], verifC02CachedObj{c: c, data: append([]byte{}, data...)})
			return nil
		}
	}
	verifFail("C02 model: PutRawCarObject on a cache that belongs to no loaded epoch")
	return nil
}

// c02Model_cacheGet is the model of (*hugecache.Cache).GetRawCarObject (engine redirect).
func c02Model_cacheGet(hc *hugecache.Cache, c cid.Cid) ([]byte, error, bool) {
	for e, a := range verifC02Archives {
		if e.allCache == hc {
			data, ok := verifC02CacheLookup(a, c)
			return data, nil, ok
		}
	}
	return nil, nil, false
}

// verifC02UseLocalCar: the epochs read their CAR through the local-file path of
// (*Epoch).GetNodeByOffsetAndSize (DataReader + Seek + bufio + readNodeWithKnownSize) instead of the
// ReaderAt path; each epoch owns a distinct (empty) carv2.Reader that identifies its model CAR.
func verifC02UseLocalCar() {
	for e := range verifC02Archives {
		e.localCarReader = &carv2.Reader{}
		e.remoteCarReader = nil
	}
}

// c02Model_carDataReader is the model of (*carv2.Reader).DataReader (engine redirect): a fresh section
// reader over the bytes of the epoch's model CAR.
func c02Model_carDataReader(r *carv2.Reader) (carv2.SectionReader, error) {
	for e, a := range verifC02Archives {
		if e.localCarReader == r {
			data := a.car().data
			return io.NewSectionReader(bytes.NewReader(data), 0, int64(len(data))), nil
		}
	}
	verifFail("C02 model: DataReader on a CAR that belongs to no loaded epoch")
	return nil, nil
}

// verifC02CheckCache: every object the prefetch put into an epoch's cache is an object of that
// epoch's archive, stored under its own CID with its own bytes.
func verifC02CheckCache(label string) {
	for a, objs := range verifC02Cache {
		for _, o := range objs {
			ok := false
			for i, n := range a.nodes {
				if n.c.Equals(o.c) && bytes.Equal(o.data, []byte{byte(n.kind), byte(i), byte(a.num)}) {
					ok = true
				}
			}
			verifAssert(ok, label+": the prefetch cached bytes under a CID they do not belong to")
		}
	}
}

// C02.grpcBlockPrefetch — C02.grpcBlock's oracle with the epochs in CAR mode: the answer is the same
// with the prefetch closure running (and the cache it fills being consulted by every node read), and
// the cache only ever receives objects under their own CID.
func VerifC02GrpcBlockPrefetch() {
	sc := verifC02BlockScene(true)
	verifC02EnableCar()
	if !verifC02GrpcBlockOracle(sc) {
		return
	}
	verifC02CheckCache("C02.grpcBlockPrefetch")
	if len(verifC02Cache[sc.a]) >= 1 {
		verifReach("prefetch-cached") // vacuity guard: the closure read the CAR and cached something
	}
	verifReach("end")
}
