//go:build verif

package main

// C02.route — epoch routing used by all three methods: for every slot, slottools.CalcEpochForSlot
// names the one epoch whose CalcEpochLimits contain the slot, and (*MultiEpoch).GetEpoch returns the
// epoch loaded under exactly that number, whichever other epochs are loaded (arbitrary epoch
// numbers, map with symbolic keys); the gRPC GetBlockTime answers NotFound exactly when the slot's
// epoch is not loaded.

import (
	"context"
	"strings"

	old_faithful_grpc "github.com/rpcpool/yellowstone-faithful/old-faithful-proto/old-faithful-grpc"
	"github.com/rpcpool/yellowstone-faithful/slottools"
)

func VerifC02Route() {
	slot := verifU64("slot")
	e := slottools.CalcEpochForSlot(slot)
	lo, hi := slottools.CalcEpochLimits(e)
	// (the last, partial epoch below 2^64 is excluded: its upper limit wraps)
	verifAssume(slot < 1<<63)
	verifAssert(lo <= slot && slot <= hi, "C02.route: the slot is outside the limits of the epoch it is routed to")
	verifAssert(hi-lo == 431999, "C02.route: epoch limits do not span 432000 slots")
	other := verifU64("otherEpoch")
	verifAssume(other < 1<<44) // other*432000 does not wrap
	lo2, hi2 := slottools.CalcEpochLimits(other)
	verifAssert(!(lo2 <= slot && slot <= hi2) || other == e, "C02.route: another epoch's limits contain the slot too")

	// loaded epochs: 1..3 arbitrary distinct numbers
	n := 1 + verifChoice("loaded", verifParam("maxEpochs", 3))
	multi := NewMultiEpoch(&Options{EpochSearchConcurrency: 1})
	nums := make([]uint64, n)
	eps := make([]*Epoch, n)
	for i := range nums {
		nums[i] = verifU64("epochNumber")
		for j := 0; j < i; j++ {
			verifAssume(nums[j] != nums[i])
		}
		eps[i] = &Epoch{epoch: nums[i], config: &Config{}}
		multi.epochs[nums[i]] = eps[i]
	}
	got, err := multi.GetEpoch(e)
	var want *Epoch
	for i := range nums {
		if nums[i] == e {
			want = eps[i]
		}
	}
	if want != nil {
		verifAssert(err == nil && got == want, "C02.route: GetEpoch does not return the epoch loaded under the slot's epoch number")
	} else {
		verifAssert(err != nil, "C02.route: GetEpoch returns an epoch although the slot's epoch is not loaded")
	}

	// the handler's own routing (epochs carry no block-time index: a routed request ends with the
	// Internal "index is not available" error, an unrouted one with NotFound)
	_, herr := multi.GetBlockTime(context.Background(), &old_faithful_grpc.BlockTimeRequest{Slot: slot})
	verifAssert(herr != nil, "C02.route: GetBlockTime succeeded without a block-time index")
	if herr != nil {
		notFound := strings.Contains(herr.Error(), "code = NotFound")
		verifAssert(notFound == (want == nil), "C02.route: GetBlockTime answers NotFound although the slot's epoch is loaded, or vice versa")
	}
	verifReach("end")
}
