//go:build verif

package main

// C08.adapt — the reply post-processing of getTransaction / getBlock answers (adapters.go):
// adaptTransactionMetaToExpectedOutput never panics on any response object the server can hand
// it. The input is the generic JSON form (map[string]any / []any / float64 / string / bool / nil)
// of GetTransactionResponse after toMapAny + MapToCamelCaseAny; its shape is fixed by the Go types
// of the three metadata formats. The shape model below was read off the real marshaller (jsoniter,
// std-compatible) applied to confirmed_block.TransactionStatusMeta (every member `omitempty`),
// metalatest / metaoldest.TransactionStatusMeta (untagged struct fields) and a nil meta, and
// follows it member by member: a member is absent or has its one static type; lists have 0..2
// elements. Self-contained: shares no harness file with the other C08 obligations.
//
// Cut: solanaerrors.ParseTransactionError (jsoniter + bincode of the stored error) = {nil, object, error}.

func verifC08ParseTxError(v any) (map[string]any, error) {
	switch verifChoice("ParseTransactionError", 3) {
	case 0:
		return nil, nil
	case 1:
		return map[string]any{"InstructionError": []any{0.0, "Custom"}}, nil
	}
	return nil, errVerifC08Adapt
}

type verifC08AdaptErr struct{}

func (verifC08AdaptErr) Error() string { return "verif: cannot parse transaction error" }

var errVerifC08Adapt error = verifC08AdaptErr{}

func verifC08Opt(name string) bool { return verifChoice(name, 2) == 1 }

// list of 0..2 elements
func verifC08List(name string, elem func(i int) any) []any {
	n := verifChoice(name+".len", 3)
	out := make([]any, 0, n) // an empty JSON list decodes to a non-nil empty slice
	for i := 0; i < n; i++ {
		out = append(out, elem(i))
	}
	return out
}

func verifC08UiTokenAmount(name string) map[string]any {
	m := map[string]any{}
	if verifC08Opt(name + ".decimals") {
		m["decimals"] = 2.0
	}
	if verifC08Opt(name + ".uiAmount") {
		m["uiAmount"] = 1.5
	}
	if verifC08Opt(name + ".amount") {
		m["amount"] = "15"
		m["uiAmountString"] = "1.5"
	}
	return m
}

func verifC08TokenBalances(name string) []any {
	return verifC08List(name, func(i int) any {
		b := map[string]any{}
		if i > 0 && verifParam("rich", 0) == 0 {
			return b // second element: an empty balance object
		}
		if verifC08Opt(name + ".accountIndex") {
			b["accountIndex"] = 1.0
			b["mint"] = "m"
		}
		if verifC08Opt(name + ".uiTokenAmount") {
			b["uiTokenAmount"] = verifC08UiTokenAmount(name + ".ui")
		}
		return b
	})
}

// protobuf inner instructions: [{index?, instructions?: [{programIdIndex?, accounts?: base64 string, data?, stackHeight?}]}]
// jsonParsed answers carry, instead of such an element, whatever the instruction parser produced
// (an object) or the fallback object (accounts: list of strings).
func verifC08InnerInstructions(name string, parsed bool) []any {
	return verifC08List(name, func(i int) any {
		g := map[string]any{}
		if i > 0 && verifParam("rich", 0) == 0 {
			return g // second group: empty object
		}
		if verifC08Opt(name + ".index") {
			g["index"] = 1.0
		}
		if verifC08Opt(name + ".instructions") {
			g["instructions"] = verifC08List(name+".instructions", func(j int) any {
				in := map[string]any{}
				if j > 0 && verifParam("rich", 0) == 0 {
					return in
				}
				switch verifChoice(name+".instruction", 4) {
				case 0:
				case 1:
					in["accounts"] = "AQI=" // base64
					in["data"] = "Aw=="
					in["programIdIndex"] = 1.0
				case 2:
					in["accounts"] = "not base64 !"
				default:
					if parsed {
						in["accounts"] = []any{"SysvarC1ock11111111111111111111111111111111"}
						in["programId"] = "11111111111111111111111111111111"
						in["stackHeight"] = nil
					} else {
						in["programIdIndex"] = 1.0
						in["stackHeight"] = 3.0
					}
				}
				return in
			})
		}
		return g
	})
}

// legacy bincode inner instructions: Go structs without tags; accounts / data are objects
func verifC08LegacyInnerInstructions(name string) any {
	if !verifC08Opt(name + ".present") {
		return nil // *[]InnerInstructions nil -> JSON null
	}
	return verifC08List(name, func(i int) any {
		g := map[string]any{"index": 1.0}
		if verifC08Opt(name + ".instructions") {
			g["instructions"] = verifC08List(name+".instructions", func(j int) any {
				return map[string]any{"programIdIndex": 1.0, "accounts": map[string]any{"field0": map[string]any{"field0": 0.0}, "field1": 0.0}, "data": map[string]any{"field1": 0.0}}
			})
		} else {
			g["instructions"] = nil
		}
		return g
	})
}

// verifC08ProtoMeta: camel-cased JSON of confirmed_block.TransactionStatusMeta; `group` selects the
// member group that is varied (the others absent).
func verifC08ProtoMeta(group int, parsed bool) map[string]any {
	meta := map[string]any{}
	on := func(g int) bool { return group == g }
	if on(0) { // err / status
		if verifC08Opt("err") {
			meta["err"] = map[string]any{"err": "AQIDBAU="}
		}
	}
	if on(1) { // loaded addresses (base64 strings)
		if verifC08Opt("loadedWritableAddresses") {
			meta["loadedWritableAddresses"] = verifC08List("loadedWritableAddresses", func(i int) any { return []string{"AQI=", "%%%"}[i] })
		}
		if verifC08Opt("loadedReadonlyAddresses") {
			meta["loadedReadonlyAddresses"] = verifC08List("loadedReadonlyAddresses", func(i int) any { return "Aw==" })
		}
	}
	if on(2) {
		if verifC08Opt("preTokenBalances") {
			meta["preTokenBalances"] = verifC08TokenBalances("preTokenBalances")
		}
	}
	if on(3) {
		if verifC08Opt("postTokenBalances") {
			meta["postTokenBalances"] = verifC08TokenBalances("postTokenBalances")
		}
	}
	if on(4) { // return data (bytes -> base64 strings)
		if verifC08Opt("returnDataNone") {
			meta["returnDataNone"] = true
		}
		if verifC08Opt("returnData") {
			rd := map[string]any{}
			if verifC08Opt("returnData.programId") {
				rd["programId"] = []string{"AQ==", "%%%"}[verifChoice("returnData.programId.b64", 2)]
			}
			if verifC08Opt("returnData.data") {
				rd["data"] = "Ag=="
			}
			meta["returnData"] = rd
		}
	}
	if on(5) {
		if verifC08Opt("rewards") {
			meta["rewards"] = verifC08List("rewards", func(i int) any { return map[string]any{"pubkey": "k", "lamports": 1.0} })
		}
		if verifC08Opt("scalars") {
			meta["fee"] = 5000.0
			meta["preBalances"] = []any{1.0}
			meta["postBalances"] = []any{2.0}
			meta["logMessages"] = []any{"log"}
			meta["logMessagesNone"] = true
			meta["innerInstructionsNone"] = true
			meta["computeUnitsConsumed"] = 7.0
		}
	}
	if on(6) {
		if verifC08Opt("innerInstructions") {
			meta["innerInstructions"] = verifC08InnerInstructions("innerInstructions", parsed)
		}
	}
	return meta
}

// every member present at once (fixed representative values)
func verifC08ProtoMetaFull() map[string]any {
	ui := map[string]any{"decimals": 2.0, "uiAmount": 1.5, "amount": "15", "uiAmountString": "1.5"}
	return map[string]any{
		"err": map[string]any{"err": "AQIDBAU="}, "fee": 5000.0, "preBalances": []any{1.0}, "postBalances": []any{2.0},
		"innerInstructions": []any{
			map[string]any{"index": 1.0, "instructions": []any{map[string]any{"programIdIndex": 1.0, "accounts": "AQI=", "data": "Aw==", "stackHeight": 3.0}}},
			map[string]any{},
		},
		"innerInstructionsNone": true, "logMessages": []any{"a"}, "logMessagesNone": true,
		"preTokenBalances":        []any{map[string]any{"accountIndex": 1.0, "mint": "m", "uiTokenAmount": ui, "owner": "o", "programId": "p"}, map[string]any{}},
		"postTokenBalances":       []any{map[string]any{"accountIndex": 1.0, "uiTokenAmount": map[string]any{}}, map[string]any{}},
		"rewards":                 []any{map[string]any{"pubkey": "k", "lamports": 1.0}},
		"loadedWritableAddresses": []any{"AQI="}, "loadedReadonlyAddresses": []any{"Aw=="},
		"returnData": map[string]any{"programId": "AQ==", "data": "Ag=="}, "returnDataNone": true, "computeUnitsConsumed": 7.0,
	}
}

func verifC08LegacyMeta(oldest bool) map[string]any {
	meta := map[string]any{"fee": 5000.0, "preBalances": nil, "postBalances": nil}
	switch verifChoice("status", 3) {
	case 0:
		meta["status"] = nil
	case 1:
		meta["status"] = map[string]any{}
	default:
		meta["status"] = map[string]any{"value": map[string]any{}}
	}
	if !oldest {
		meta["innerInstructions"] = verifC08LegacyInnerInstructions("innerInstructions")
	}
	return meta
}

func VerifC08Adapt() {
	m := map[string]any{"transaction": []any{"AQ==", "base64"}, "version": "legacy"}
	if verifC08Opt("blockTime") {
		m["blockTime"] = 1700000000.0
		m["slot"] = 5.0
	}
	switch verifChoice("meta.kind", 5) {
	case 0:
		m["meta"] = nil // no metadata
	case 1:
		m["meta"] = verifC08LegacyMeta(false)
	case 2:
		m["meta"] = verifC08LegacyMeta(true)
	case 3:
		// protobuf metadata, one member group varied at a time, or all of them
		g := verifChoice("group", 8)
		if g == 7 {
			m["meta"] = verifC08ProtoMetaFull()
		} else {
			m["meta"] = verifC08ProtoMeta(g, false)
		}
	default:
		// jsonParsed answer: same members, inner instructions replaced by parsed / fallback objects
		m["meta"] = verifC08ProtoMeta(6, true)
	}
	_ = adaptTransactionMetaToExpectedOutput(m)
	verifReach("end")
}
