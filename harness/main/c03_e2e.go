//go:build verif

package main

import (
	"bytes"
	"context"
	"encoding/binary"
	"errors"

	"github.com/allegro/bigcache/v3"
	"github.com/gagliardetto/solana-go"
	"github.com/ipfs/go-cid"
	"github.com/rpcpool/yellowstone-faithful/compactindexsized"
	hugecache "github.com/rpcpool/yellowstone-faithful/huge-cache"
	"github.com/rpcpool/yellowstone-faithful/indexes"
	"github.com/rpcpool/yellowstone-faithful/indexmeta"
)

// ---------------------------------------------------------------------------------------------
// Full-stack setup (concrete keys): a real Epoch in CAR mode with
//   * a CAR image (remote reader) holding the stored objects as real sections,
//   * the real slot-to-cid, sig-to-cid and cid-to-offset-and-size index readers opened by the real
//     OpenWithReader_* functions over real index headers (real metadata),
//   * the real hugecache over the bigcache model.
// The only cuts: compactindexsized.DB.Lookup (the keyless-index model characterised by C03.lookup:
// an inserted key gets its value; an absent key gets ErrNotFound or the value of any entry) and the
// CBOR decoders.

type verifC03ReaderAt struct{ r *bytes.Reader }

func (v verifC03ReaderAt) ReadAt(p []byte, off int64) (int, error) { return v.r.ReadAt(p, off) }
func (v verifC03ReaderAt) Close() error                            { return nil }

type verifC03KV struct{ key, val []byte }

type verifC03Index struct {
	entries []verifC03KV
	memo    map[string]int // key -> entry index, -1 = ErrNotFound
}

var verifC03Indexes = map[string]*verifC03Index{} // by index kind

// find: index of the entry that answers key (functional per key), -1 = not found. An inserted key is
// answered with its own entry; any other key with not-found or with ANY stored entry (24-bit hash).
func (ix *verifC03Index) find(name string, key []byte, s1 bool) int {
	hit, seen := ix.memo[string(key)]
	if !seen {
		hit = -2
		for i, e := range ix.entries {
			if bytes.Equal(e.key, key) {
				hit = i
			}
		}
		if hit == -2 {
			k := verifChoice("lookup:"+name, len(ix.entries)+1)
			hit = k
			if k == len(ix.entries) {
				hit = -1
			} else {
				verifKnownFinding("C03-S1-index-answer-unchecked", s1)
			}
		}
		ix.memo[string(key)] = hit
	}
	return hit
}

// verifC03DepSetup (set by c03_e2edep.go) builds the epoch over the DEPRECATED index formats.
var verifC03DepSetup func(f *verifC03Full, s2c, g2c, c2o *verifC03Index, car []byte, root cid.Cid) *Epoch

// model of (*compactindexsized.DB).Lookup, installed through the VerifLookup hook.
func verifC03Lookup(db *compactindexsized.DB, key []byte) ([]byte, error) {
	kind, _ := db.GetKind()
	ix := verifC03Indexes[string(kind)]
	if ix == nil {
		return nil, errors.New("verif model: unknown index kind")
	}
	hit := ix.find(string(kind), key, string(kind) != string(indexes.Kind_CidToOffsetAndSize))
	if hit < 0 {
		return nil, compactindexsized.ErrNotFound
	}
	return append([]byte{}, ix.entries[hit].val...), nil
}

func verifC03IndexFile(kind []byte, valueSize uint64, root cid.Cid) verifC03ReaderAt {
	meta := &indexmeta.Meta{}
	meta.Add(indexmeta.MetadataKey_Epoch, indexes.Uint64tob(5))
	meta.Add(indexmeta.MetadataKey_RootCid, root.Bytes())
	meta.Add(indexmeta.MetadataKey_Network, []byte(indexes.NetworkMainnet))
	meta.Add(indexmeta.MetadataKey_Kind, kind)
	h := &compactindexsized.Header{ValueSize: valueSize, NumBuckets: 1, Metadata: meta}
	img := append(h.Bytes(), make([]byte, 16)...)
	return verifC03ReaderAt{bytes.NewReader(img)}
}

type verifC03Full struct {
	e        *Epoch
	st       *verifC03Store
	payload  [][]byte // payload of object i as stored in the CAR
	absent   cid.Cid  // a CID that is in no index and not in the CAR
	absSlots []uint64
	absSigs  []solana.Signature
}

func verifC03ConcreteSig(tag byte) solana.Signature {
	var s solana.Signature
	s[0], s[1], s[63] = tag, 0x55, tag^0xFF
	return s
}

// verifC03NewFull: nBlocks blocks at slots base+7, base+9, .. and nTxs transactions.
func verifC03NewFull(nBlocks, nTxs int) *verifC03Full {
	const epoch = 5
	base := uint64(epoch * 432000)
	f := &verifC03Full{st: &verifC03Store{}}
	for i := 0; i < nBlocks; i++ {
		f.st.objs = append(f.st.objs, &verifC03Obj{c: verifC03Cid(0x60 + byte(i)), kind: verifC03KindBlock, slot: base + 7 + 2*uint64(i), parent: 0})
	}
	for i := 0; i < nTxs; i++ {
		f.st.objs = append(f.st.objs, &verifC03Obj{c: verifC03Cid(0x68 + byte(i)), kind: verifC03KindTx, slot: base + 7, sig: verifC03ConcreteSig(0x21 + byte(i))})
	}
	f.absent = verifC03Cid(0x7F)
	f.absSlots = []uint64{base + 8, base + 70, 2160007 / 10} // skipped slot, skipped slot, slot of an epoch that is not loaded
	f.absSigs = []solana.Signature{verifC03ConcreteSig(0x31), verifC03ConcreteSig(0x32)}

	s2c := &verifC03Index{memo: map[string]int{}}
	g2c := &verifC03Index{memo: map[string]int{}}
	c2o := &verifC03Index{memo: map[string]int{}}
	// CAR image: 11 header bytes, then one section per object. With param "chain" = 1 the layout is
	// the one of a real CAR (tx_i, block_i in slot order; transactions beyond the blocks last) and
	// block i > 0 names block i-1 as its parent, so the handlers' CAR prefetch has work to do.
	order := make([]int, 0, len(f.st.objs))
	if verifParam("chain", 0) == 1 {
		for i := 0; i < nBlocks; i++ {
			if i < nTxs {
				order = append(order, nBlocks+i)
			}
			order = append(order, i)
			if i > 0 {
				f.st.objs[i].parent = f.st.objs[i-1].slot
			}
		}
		for i := nBlocks; i < nTxs; i++ {
			order = append(order, nBlocks+i)
		}
	} else {
		for i := range f.st.objs {
			order = append(order, i)
		}
	}
	f.payload = make([][]byte, len(f.st.objs))
	c2o.entries = make([]verifC03KV, len(f.st.objs))
	car := make([]byte, 11)
	for _, i := range order {
		o := f.st.objs[i]
		payload := []byte{byte(o.kind), byte(i), epoch, verifU8("payload")}
		f.payload[i] = payload
		cb := o.c.Bytes()
		var lenBuf [binary.MaxVarintLen64]byte
		n := binary.PutUvarint(lenBuf[:], uint64(len(cb)+len(payload)))
		off := uint64(len(car))
		car = append(car, lenBuf[:n]...)
		car = append(car, cb...)
		car = append(car, payload...)
		size := uint64(len(car)) - off
		c2o.entries[i] = verifC03KV{cb, indexes.OffsetAndSize{Offset: off, Size: size}.Bytes()}
		if o.kind == verifC03KindBlock {
			s2c.entries = append(s2c.entries, verifC03KV{indexes.Uint64tob(o.slot), cb})
		} else {
			g2c.entries = append(g2c.entries, verifC03KV{append([]byte{}, o.sig[:]...), cb})
		}
	}
	verifC03Indexes[string(indexes.Kind_SlotToCid)] = s2c
	verifC03Indexes[string(indexes.Kind_SigToCid)] = g2c
	verifC03Indexes[string(indexes.Kind_CidToOffsetAndSize)] = c2o
	compactindexsized.VerifLookup = verifC03Lookup

	root := verifC03Cid(0x01)
	if verifC03DepSetup != nil && verifParam("deprecated", 0) == 1 {
		f.e = verifC03DepSetup(f, s2c, g2c, c2o, car, root)
		f.e.sigExists = &verifC03SigExists{st: f.st}
		verifC03Stores[f.e] = f.st
		verifC03Install(f.e)
		return f
	}
	r1, err := indexes.OpenWithReader_CidToOffsetAndSize(verifC03IndexFile(indexes.Kind_CidToOffsetAndSize, indexes.IndexValueSize_CidToOffsetAndSize, root))
	verifAssert(err == nil, "C03 setup: cid-to-offset-and-size index does not open")
	r2, err := indexes.OpenWithReader_SlotToCid(verifC03IndexFile(indexes.Kind_SlotToCid, indexes.IndexValueSize_SlotToCid, root))
	verifAssert(err == nil, "C03 setup: slot-to-cid index does not open")
	r3, err := indexes.OpenWithReader_SigToCid(verifC03IndexFile(indexes.Kind_SigToCid, indexes.IndexValueSize_SigToCid, root))
	verifAssert(err == nil, "C03 setup: sig-to-cid index does not open")
	cache, err := hugecache.NewWithConfig(context.Background(), bigcache.Config{})
	verifAssert(err == nil, "C03 setup: cache")
	f.e = &Epoch{
		epoch: epoch, config: &Config{}, carHeaderSize: 11, rootCid: root,
		remoteCarReader:         verifC03ReaderAt{bytes.NewReader(car)},
		cidToOffsetAndSizeIndex: r1, slotToCidIndex: r2, sigToCidIndex: r3,
		allCache:  cache,
		sigExists: &verifC03SigExists{st: f.st}, // an epoch normally has its sig-exists index loaded
	}
	verifC03Stores[f.e] = f.st
	verifC03Install(f.e)
	return f
}

// C03.cid — the real (*Epoch).GetNodeByCid (cache probe, FindOffsetAndSizeFromCid with its cache and
// the real cid-to-offset-and-size reader, GetNodeByOffsetAndSize, readNodeFromReaderAtWithOffsetAndSize,
// parseNodeFromSection, go-cid parsing, hugecache key functions) returns bytes only if they are
// stored under the wanted CID — for archived CIDs and for a CID that is not archived (index miss or
// index answer of another CID's entry), with a cold cache and after earlier requests / prefetches.
func VerifC03Cid() {
	K := 1 + verifChoice("nobjs", verifParam("maxobjs", 2))
	f := verifC03NewFull(K, 0)
	ctx := context.Background()
	cids := make([]cid.Cid, 0, K+1)
	for _, o := range f.st.objs {
		cids = append(cids, o.c)
	}
	cids = append(cids, f.absent)
	// earlier activity on the same epoch
	switch verifChoice("warmup", 3) {
	case 1: // a prefetch put some object's raw bytes into the cache
		a := verifChoice("warmobj", K)
		f.e.GetCache().PutRawCarObject(cids[a], f.payload[a])
	case 2: // an earlier request
		a := verifChoice("warmobj", K+1)
		f.e.GetNodeByCid(ctx, cids[a])
	}
	rounds := verifParam("rounds", 2)
	for r := 0; r < rounds; r++ {
		w := verifChoice("wanted", K+1)
		data, err := f.e.GetNodeByCid(ctx, cids[w])
		if w == K {
			verifAssert(err != nil, "C03.cid: bytes returned for a CID that is not archived")
		} else {
			if err != nil {
				verifTrace("ciderr", err.Error())
			}
			verifAssert(err == nil, "C03.cid: archived CID not served")
			verifAssert(bytes.Equal(data, f.payload[w]), "C03.cid: bytes returned are not the bytes stored under the wanted CID")
		}
	}
	verifReach("end")
}

// C03.e2e — getBlock / getTransaction keys through the whole real stack of one epoch (concrete
// keys): real Epoch.GetBlock / GetTransaction, FindCidFromSlot with the slot cache,
// FindCidFromSignature, the real index readers, GetNodeByCid, CAR sections. Two consecutive requests
// on the same epoch (the second sees the caches filled by the first).
func VerifC03E2E() {
	nb := verifParam("blocks", 2)
	nt := verifParam("txs", 2)
	f := verifC03NewFull(nb, nt)
	ctx := context.Background()
	var slots []uint64
	var sigs []solana.Signature
	for _, o := range f.st.objs {
		if o.kind == verifC03KindBlock {
			slots = append(slots, o.slot)
		} else {
			sigs = append(sigs, o.sig)
		}
	}
	slots = append(slots, f.absSlots...)
	sigs = append(sigs, f.absSigs...)
	rounds := verifParam("rounds", 2)
	for r := 0; r < rounds; r++ {
		if verifChoice("what", 2) == 0 {
			i := verifChoice("slot", len(slots))
			q := slots[i]
			block, c, err := f.e.GetBlock(WithSubrapghPrefetch(ctx, false), q)
			if err != nil {
				verifAssert(i >= nb, "C03.e2e: archived slot not served")
				verifAssert(errors.Is(err, compactindexsized.ErrNotFound), "C03.e2e: slot that is not archived is not reported as ErrNotFound")
			} else {
				verifAssert(uint64(block.Slot) == q, "C03.e2e: GetBlock returned the block of a different slot")
				verifAssert(i < nb && c.Equals(f.st.objs[i].c), "C03.e2e: GetBlock returned a CID that is not the CID of the slot's block")
			}
		} else {
			i := verifChoice("sig", len(sigs))
			q := sigs[i]
			tx, c, err := f.e.GetTransaction(WithSubrapghPrefetch(ctx, false), q)
			if err != nil {
				verifAssert(i >= nt, "C03.e2e: archived signature not served")
				verifAssert(errors.Is(err, compactindexsized.ErrNotFound), "C03.e2e: signature that is not archived is not reported as ErrNotFound")
			} else {
				got, serr := tx.Signature()
				verifAssert(serr == nil && got == q, "C03.e2e: GetTransaction returned a transaction with a different signature")
				verifAssert(i < nt && c.Equals(f.st.objs[nb+i].c), "C03.e2e: GetTransaction returned a CID that is not the CID of the signature's transaction")
			}
		}
	}
	verifReach("end")
}
