//go:build verif

package main

import (
	"bytes"
	"encoding/binary"
	"fmt"
)

// CLI plumbing cut by two overlay rewrites in cmd-merge-cars.go (see registry):
//
//	paths := c.Args().Slice()   ->  paths := verifC16MergePaths()
//	var outputFile string       ->  var outputFile string = verifC16MergeOut()
var (
	c16MergeIn  []string
	c16MergeOut string
)

var c16Cfg []int

func verifC16MergePaths() []string { return c16MergeIn }
func verifC16MergeOut() string     { return c16MergeOut }

// c16PieceHeader returns a CARv1-framed header (uvarint length ‖ body) with a body of n bytes.
func c16PieceHeader(n int) []byte {
	h := binary.AppendUvarint(nil, uint64(n))
	for i := 0; i < n; i++ {
		h = append(h, byte(0xA2+i*5))
	}
	return h
}

// C16.merge — the real merge-cars Action on the in-memory file system: the output file is
// nulRootCarHeader followed by the content of every input piece (its own header discarded), in
// argument order, byte-identical and complete.
func VerifC16Merge() {
	K := 1 + verifChoice("pieces", verifParam("maxK", 2))
	hdrLens := []int{25, 59, 200} // 1-byte and 2-byte length prefixes
	// lengths around the 4096-byte bufio buffers (26 bytes of the writer's taken by nulRootCarHeader)
	contentLens := []int{0, 7, 4100}
	if verifParam("big", 0) == 1 {
		contentLens = []int{0, 1, 4069, 4070, 4071, 8200}
	}
	want := []byte(nulRootCarHeader)
	c16MergeIn = nil
	c16Cfg = nil
	for k := 0; k < K; k++ {
		hl := hdrLens[verifChoice("piece_header_len", len(hdrLens))]
		cl := contentLens[verifChoice("content_len", len(contentLens))]
		content := make([]byte, cl)
		for i := range content {
			content[i] = byte(i*7 + k*31 + 1)
		}
		// symbolic bytes at both ends of the content
		sym := verifBytes(fmt.Sprintf("content%d", k), 4)
		for j, pos := range []int{0, 1, cl - 2, cl - 1} {
			if pos >= 0 && pos < cl {
				content[pos] = sym[j]
			}
		}
		c16Cfg = append(c16Cfg, hl, cl)
		file := append(c16PieceHeader(hl), content...)
		name := verifTempPath(fmt.Sprintf("in-%d.car", k))
		verifMemFile(name, file)
		c16MergeIn = append(c16MergeIn, name)
		want = append(want, content...)
	}
	c16MergeOut = verifTempPath("merged.car")

	err := newCmd_MergeCars().Action(nil)
	verifAssert(err == nil, "C16.merge: merge-cars failed on well-formed pieces")

	got := verifMemFileBytes(c16MergeOut)
	n := len(got)
	verifTrace("merge", fmt.Sprint(c16Cfg), n, len(want))
	verifAssert(n <= len(want), "C16.merge: output longer than header plus piece contents")
	if n <= len(want) {
		verifAssert(bytes.Equal(got, want[:n]), "C16.merge: output is not a prefix of nul header followed by the piece contents in order")
	}
	verifReach("prefix-checked")
	// known finding: the bufio.Writer around the output file is never flushed
	verifKnownFinding("C16-merge-no-flush", true)
	verifAssert(n == len(want), "C16.merge: output is truncated (tail of the merged CAR missing)")
	verifReach("end")
}
