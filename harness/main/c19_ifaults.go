//go:build verif

package main

// C19.ifaults — the index-accelerated branch of StreamTransactions under faults (see c19_faults.go for
// the oracle): the k-th Send of the flush fails, the stream context is cancelled, an epoch has no
// block-time index; plus archives whose transaction nodes carry no position index (the order
// inside a slot is then undefined, the streamed set must still be the selected set).
// Cuts as C19.indexed.

import (
	"context"

	"github.com/rpcpool/yellowstone-faithful/ipld/ipldbindcode"
	old_faithful_grpc "github.com/rpcpool/yellowstone-faithful/old-faithful-proto/old-faithful-grpc"
	"google.golang.org/grpc/codes"
	"google.golang.org/grpc/status"
)

// ---------------------------------------------------------------------------------------------
// index-accelerated branch

// verifC19IdxNodes creates the nodes the address index points to (with or without position index).
func verifC19IdxNodes(withPosition bool) {
	verifC19Idx.nodes = map[*ipldbindcode.Transaction]*verifC19Tx{}
	verifC19Idx.nodeOf = nil
	for _, t := range verifC19.txs {
		node := &ipldbindcode.Transaction{Kind: 0, Slot: int(verifC19.start) + t.slotIx}
		if withPosition {
			pos := t.pos
			pp := &pos
			node.Index = &pp
		}
		verifC19Idx.nodes[node] = t
		verifC19Idx.nodeOf = append(verifC19Idx.nodeOf, node)
	}
}

func VerifC19IndexedFaults() {
	const ob = "C19.ifaults"
	verifC19Idx.name = ob
	verifC19Reset(verifC19Base)
	// faults 0..2 as above, 3: nodes without position index (old archives), 4: only one of the two
	// loaded epochs of the range has an address index
	fault := verifChoice("fault", 6)
	failAt, cancelled := -1, false
	verifC19NoBlocktimeEpoch = -1
	verifC19NoGsfaEpoch = -1
	oldNodes, partial, cancelMid := false, false, false
	switch fault {
	case verifC19FaultSend:
		failAt = verifChoice("send_fails_at", 2)
	case verifC19FaultCancelled:
		cancelled = true
	case verifC19FaultNoBlocktime:
		verifC19NoBlocktimeEpoch = verifChoice("epoch_without_blocktime", 2)
	case 3:
		oldNodes = true
	case 4:
		partial = true
		verifC19NoGsfaEpoch = verifChoice("epoch_without_address_index", 2)
	default: // 5: the client cancels right after the first message
		cancelMid = true
	}
	ntpl := 2
	if partial {
		ntpl = 1 // the window crossing the epoch boundary
	}
	tpl := []string{"11", "2"}[verifChoice("window", ntpl)]
	verifC19Window(tpl, func(t *verifC19Tx) { t.prog = 9 })
	verifC19IdxNodes(!oldNodes)
	verifC19Idx.limit = 2
	verifC19Idx.failQuery = -1
	n := len(verifC19.slots)
	verifC19Idx.lo, verifC19Idx.hi = verifC19.start, verifC19.start+uint64(n)-1

	f := &verifC19FilterSpec{}
	f.vote = verifBool("filter.vote")
	f.failed = verifBool("filter.failed")
	f.incl = verifC19Lists[1+verifChoice("include_two", verifParam("include_two", 1))] // [A] or [A,B]
	verifC19Idx.incl = f.incl
	var exam []*verifC19Tx
	for _, s := range verifC19.slots {
		exam = append(exam, s.txs...)
	}

	req := &old_faithful_grpc.StreamTransactionsRequest{StartSlot: verifC19Idx.lo, EndSlot: &verifC19Idx.hi, Filter: f.build()}
	ser := &verifC19TxStream{ctx: context.Background(), failAt: failAt}
	if cancelled {
		ctx, cancel := context.WithCancel(context.Background())
		cancel()
		ser.ctx = ctx
	}
	if cancelMid {
		ser.ctx, ser.cancel = context.WithCancel(context.Background())
		ser.cancelAfter = 1
	}

	err := verifC19Multi(true).StreamTransactions(req, ser)

	// the empty marker ("nothing found") is tolerated as the only message
	if len(ser.sent) == 1 && ser.sent[0] != nil && ser.sent[0].Transaction == nil {
		ser.sent = nil
	}
	if oldNodes {
		// no position available: the order inside a slot is not defined, positions are absent
		got := make([]uint64, len(verifC19.txs))
		prevSlot := -1
		for _, r := range ser.sent {
			verifAssert(r != nil && r.Transaction != nil && len(r.Transaction.Transaction) == 1, ob+": response without the archived transaction bytes")
			id := int(r.Transaction.Transaction[0])
			t := verifC19.txs[id]
			verifAssert(got[id] == 0, ob+": transaction sent twice")
			verifAssert(t.slotIx >= prevSlot, ob+": stream not in ascending slot order")
			prevSlot = t.slotIx
			verifAssert(r.Slot == verifC19.start+uint64(t.slotIx), ob+": response does not carry the slot of the transaction")
			verifAssert(r.BlockTime == verifC19BlockTime(verifC19.start+uint64(t.slotIx)), ob+": wrong block time")
			got[id] = 1
		}
		verifAssert(err == nil, ob+": unexpected error")
		collide := uint64(0) // C19-indexed-no-position-collision: two matching transactions of one slot
		for i, t := range exam {
			for _, u := range exam[i+1:] {
				if u.slotIx == t.slotIx {
					collide |= f.matches(t) & f.matches(u)
				}
			}
		}
		verifKnownFinding("C19-indexed-no-position-collision", collide == 1)
		for _, t := range exam {
			verifAssert(got[t.id] == f.matches(t), ob+": without position indexes the streamed set is not the set selected by the filter")
		}
		verifReach("end")
		return
	}

	sent := verifC19CheckStream(ob, ser.sent)
	for _, r := range ser.sent {
		t := verifC19.txs[int(r.Transaction.Transaction[0])]
		verifAssert(r.Slot == verifC19.start+uint64(t.slotIx), ob+": response does not carry the slot of the transaction")
		verifAssert(r.Index != nil && *r.Index == uint64(t.pos), ob+": response does not carry the position of the transaction")
	}
	if cancelMid {
		// the flush polls the context before every Send: exactly the first matching transaction (or the
		// "nothing found" marker) goes out, and the result is the context's error
		seen := uint64(0)
		for _, t := range exam {
			m := f.matches(t)
			verifAssert(sent[t.id] == m&(1^seen), ob+": after the client cancelled, the stream is not exactly the first matching transaction")
			seen |= m
		}
		if len(ser.sent) > 0 {
			verifAssert(err == context.Canceled, ob+": a stream cancelled by the client does not end with the context's error")
		} else {
			verifAssert(err == nil, ob+": unexpected error")
		}
		verifReach("end")
		return
	}
	if partial {
		verifAssert(err == nil, ob+": unexpected error")
		lost := uint64(0) // C19-partial-address-index: a matching transaction lies in the epoch without index
		for _, t := range exam {
			if int(verifC19EpochOf(t)) == verifC19NoGsfaEpoch {
				lost |= f.matches(t)
			}
		}
		verifKnownFinding("C19-partial-address-index", lost == 1)
		for _, t := range exam {
			verifAssert(sent[t.id] == f.matches(t), ob+": with an address index for only part of the range the streamed set is not the set selected by the filter")
		}
		verifReach("end")
		return
	}
	switch fault {
	case verifC19FaultCancelled:
		verifAssert(err == context.Canceled, ob+": a cancelled stream does not end with the context's error")
		verifAssert(len(ser.sent) == 0, ob+": transactions sent on a cancelled stream")
	case verifC19FaultSend:
		if err != nil {
			verifAssert(err == verifC19SendErr, ob+": a failed Send is not reported as the result")
		}
		if err != nil && failAt == 0 {
			// the first Send failed: either that of the first matching transaction or that of the
			// "nothing found" marker; nothing may have been sent
			verifAssert(len(ser.sent) == 0, ob+": transactions sent after the failed Send")
		} else {
			verifC19CheckPrefix(ob, f, exam, sent, len(ser.sent), failAt, err != nil)
		}
	default: // an epoch without block-time index
		missing := uint64(0)
		for _, t := range exam {
			m := f.matches(t)
			if int(verifC19EpochOf(t)) == verifC19NoBlocktimeEpoch {
				missing |= m
				verifAssert(sent[t.id] == 0, ob+": transaction sent without a block time")
			} else if err == nil {
				verifAssert(sent[t.id] == m, ob+": the streamed set is not the set selected by the filter")
			} else {
				verifAssert(sent[t.id]&(1^m) == 0, ob+": a transaction that does not satisfy the filter is sent")
			}
		}
		if err != nil {
			verifAssert(status.Code(err) == codes.Internal, ob+": unexpected error")
			verifAssert(missing == 1, ob+": error although every matching transaction has a block time")
		} else {
			verifAssert(missing == 0, ob+": result nil although a matching transaction could not be sent (no block time)")
		}
	}
	verifReach("end")
}
