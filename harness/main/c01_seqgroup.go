//go:build verif

package main

import "golang.org/x/sync/errgroup"

// Sequential model of errgroup.Group (only in C01.offsets): Go runs the closure at once, Wait
// returns the first error. The concurrent behaviour of the sealing closures is C01.seal.
var c01GroupErr error

func c01Model_errgroupGo(g *errgroup.Group, f func() error) {
	if err := f(); err != nil && c01GroupErr == nil {
		c01GroupErr = err
	}
}

func c01Model_errgroupWait(g *errgroup.Group) error { return c01GroupErr }
