//go:build verif

package main

import (
	"context"
	"fmt"

	"github.com/gagliardetto/solana-go"
	"github.com/rpcpool/yellowstone-faithful/bucketteer"
)

func init() {
	c01AfterIndexing = func(ctx context.Context, carPath string, paths *IndexPaths, numTotal uint64) bool {
		switch verifParam("verify", 0) {
		case 1:
			c01Verify(ctx, carPath, paths, numTotal)
			return true
		case 2: // C01.progress: the untampered --verify pass, then the server lookups
			err := verifyAllIndexes(ctx, carPath, paths, numTotal)
			verifAssert(err == nil, "C01.progress: --verify refuses indexes that index all has just written for a well-formed CAR")
		}
		return false
	}
}

// the sig-exists reader used by `index --verify` (cut, C05): answers from the recorder
func c01Model_bucketteerOpen(path string) (*bucketteer.Reader, error) {
	if !c01SigExistsSealed {
		return nil, fmt.Errorf("sig_exists index %s was not sealed", path)
	}
	return &bucketteer.Reader{}, nil
}

func c01Model_bucketteerHas(r *bucketteer.Reader, sig [64]byte) (bool, error) {
	for _, s := range c01SigExistsSeen {
		if s == solana.Signature(sig) {
			return true, nil
		}
	}
	return false, nil
}

func c01Model_bucketteerReaderClose(r *bucketteer.Reader) error { return nil }

// c01Verify — C01.verify: the `--verify` pass of `index all` (real verifyAllIndexes) accepts the
// indexes that createAllIndexes just wrote and refuses them after any single entry was damaged.
func c01Verify(ctx context.Context, carPath string, paths *IndexPaths, numTotal uint64) {
	ixOf := func(file string) *c01Index {
		b := c01ByFile[file]
		verifAssert(b != nil, "C01.verify: reported index file was not sealed")
		return c01ByBuilder[b]
	}
	cidIx, slotIx, sigIx := ixOf(paths.CidToOffsetAndSize), ixOf(paths.SlotToCid), ixOf(paths.SignatureToCid)
	verifAssert(len(cidIx.kvs) >= 2 && len(slotIx.kvs) >= 1 && len(sigIx.kvs) >= 1 && len(c01SigExistsSeen) >= 1, "C01.verify: an index that index all reported lacks the entries of the CAR's objects")
	tamper := verifChoice("tamper", 9)
	switch tamper {
	case 1: // an object's recorded offset is off by one
		cidIx.kvs[1].value[0] ^= 1
	case 2: // an object's recorded size is off by one
		cidIx.kvs[len(cidIx.kvs)-1].value[6] ^= 1
	case 3: // an object is missing from the cid index
		cidIx.kvs = cidIx.kvs[:len(cidIx.kvs)-1]
	case 4: // a slot resolves to another object's CID
		slotIx.kvs[0].value = append([]byte{}, c01CidBytes(0)...)
	case 5: // a block is missing from the slot index
		slotIx.kvs = slotIx.kvs[1:]
	case 6: // a signature resolves to another object's CID
		sigIx.kvs[0].value = append([]byte{}, c01CidBytes(1)...)
	case 7: // a transaction is missing from the signature index
		sigIx.kvs = sigIx.kvs[1:]
	case 8: // a first signature is missing from sig_exists
		c01SigExistsSeen = c01SigExistsSeen[1:]
	}
	err := verifyAllIndexes(ctx, carPath, paths, numTotal)
	if tamper == 0 {
		if err != nil {
			verifTrace("verifyAllIndexes", err.Error())
		}
		verifAssert(err == nil, "C01.verify: --verify refuses indexes that index all has just written for a well-formed CAR")
	} else {
		verifAssert(err != nil, "C01.verify: --verify accepts a damaged index")
	}
	verifReach("end")
}
