//go:build verif

package main

import "encoding/json"

// C08.parse — the four JSON-RPC parameter parsers and both Validate methods never panic, for every
// shape of `params` (missing, null, not a list, a list of 0..3 values of arbitrary dynamic type,
// option objects holding any subset of the known member names with values of arbitrary type), and
// a successful parse hands the handlers everything they dereference without a check.

// verifC08DecodeOutcome chooses what the decoder makes of the raw params:
//
//	A. an error (params is not a list), a null list, an empty list;
//	B. a list of 1..2 elements whose first element has any dynamic type / any pool value
//	   (second element: an empty object);
//	C. a well-formed first element followed by a second element that is an option object
//	   (see verifC08Object) or a value of any other dynamic type, optionally followed by a third
//	   element of any dynamic type.
func verifC08DecodeOutcome(first verifC08Key, keys []verifC08Key) {
	verifC08UnmarshalFails = false
	verifC08Params = nil
	if verifC08ParamsMissing {
		return // nothing to decode
	}
	switch verifChoice("params.shape", 5) {
	case 0:
		verifC08UnmarshalFails = true
	case 1:
		// "params":null -> nil list
	case 2:
		verifC08Params = []any{}
	case 3:
		v := verifC08Value("first", first.strs, first.nums)
		if verifChoice("params.len2", 2) == 1 {
			verifC08Params = []any{v, map[string]any{}}
		} else {
			verifC08Params = []any{v}
		}
	default:
		var v any
		if first.want == verifC08Number {
			v = first.nums[0]
		} else {
			v = first.strs[0]
		}
		var second any
		if keys != nil && verifChoice("second.isobject", 2) == 1 {
			second = verifC08Object("opts", keys)
			verifC08Params = []any{v, second}
			return
		}
		second = verifC08IllTyped("second", verifC08Obj)
		if verifChoice("params.len3", 2) == 1 {
			verifC08Params = []any{v, second, verifC08Value("third", []string{"x"}, []float64{1})}
		} else {
			verifC08Params = []any{v, second}
		}
	}
}

var verifC08BlockOptionKeys = []verifC08Key{
	{"commitment", verifC08String, []string{"finalized"}, nil},
	{"encoding", verifC08String, verifC08Encodings, nil},
	{"maxSupportedTransactionVersion", verifC08Number, nil, []float64{0, 1e300}},
	{"transactionDetails", verifC08String, []string{"full"}, nil},
	{"rewards", verifC08Bool, nil, nil},
}

var verifC08TxOptionKeys = []verifC08Key{
	{"encoding", verifC08String, verifC08Encodings, nil},
	{"maxSupportedTransactionVersion", verifC08Number, nil, []float64{0, 1e300}},
	{"commitment", verifC08String, []string{"finalized"}, nil},
}

var verifC08GsfaOptionKeys = []verifC08Key{
	{"limit", verifC08Number, nil, []float64{10, 0, 1000, 1001, -5, 2.5, 1e300}},
	{"before", verifC08String, verifC08B58Strings, nil},
	{"until", verifC08String, verifC08B58Strings, nil},
}

func verifC08ParseGetBlock(raw *json.RawMessage) {
	verifC08DecodeOutcome(verifC08SlotArg, verifC08BlockOptionKeys)
	out, err := parseGetBlockRequest(raw)
	verifAssert(out != nil || err != nil, "C08.parse: parseGetBlockRequest returned neither a request nor an error (handler dereferences the request)")
	if err != nil {
		verifReach("getBlock.rejected")
		return
	}
	// handleGetBlock dereferences these without a nil check
	verifAssert(out.Options.Encoding != nil, "C08.parse: getBlock request without Encoding (handler dereferences it)")
	verifAssert(out.Options.Rewards != nil, "C08.parse: getBlock request without Rewards (handler dereferences it)")
	if out.Validate() != nil { // must not panic
		verifReach("getBlock.invalid")
		return
	}
	verifReach("getBlock.accepted")
}

func verifC08ParseGetTransaction(raw *json.RawMessage) {
	verifC08DecodeOutcome(verifC08SigArg, verifC08TxOptionKeys)
	out, err := parseGetTransactionRequest(raw)
	verifAssert(out != nil || err != nil, "C08.parse: parseGetTransactionRequest returned neither a request nor an error (handler dereferences the request)")
	if err != nil {
		verifReach("getTransaction.rejected")
		return
	}
	verifAssert(out.Options.Encoding != nil, "C08.parse: getTransaction request without Encoding (handler dereferences it)")
	if out.Validate() != nil { // must not panic
		verifReach("getTransaction.invalid")
		return
	}
	verifReach("getTransaction.accepted")
}

func verifC08ParseGetBlockTime(raw *json.RawMessage) {
	verifC08DecodeOutcome(verifC08SlotArg, []verifC08Key{}) // no config object today: vocabulary members only
	_, err := parseGetBlockTimeRequest(raw)
	if err != nil {
		verifReach("getBlockTime.rejected")
		return
	}
	verifReach("getBlockTime.accepted")
}

func verifC08ParseGsfa(raw *json.RawMessage) {
	verifC08DecodeOutcome(verifC08AddrArg, verifC08GsfaOptionKeys)
	out, err := parseGetSignaturesForAddressParams(raw)
	verifAssert(out != nil || err != nil, "C08.parse: parseGetSignaturesForAddressParams returned neither params nor an error (handler dereferences the params)")
	if err != nil {
		verifReach("gsfa.rejected")
		return
	}
	verifReach("gsfa.accepted")
}

func VerifC08Parse() {
	fasterJson = verifC08JSON{}
	which := verifParam("method", -1)
	if which < 0 {
		which = verifChoice("method", 4)
	}
	raw := verifC08RawParams(true)
	switch which {
	case 0:
		verifC08ParseGetBlock(raw)
	case 1:
		verifC08ParseGetTransaction(raw)
	case 2:
		verifC08ParseGetBlockTime(raw)
	default:
		verifC08ParseGsfa(raw)
	}
	verifReach("end")
}
