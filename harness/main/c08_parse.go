//go:build verif

package main

import "encoding/json"

// C08.parse — the four JSON-RPC parameter parsers and both Validate methods never panic, for every
// shape of `params` (missing, null, not a list, a list of 0..3 values of arbitrary dynamic type,
// option objects holding any subset of the known member names with values of arbitrary type), and
// a successful parse hands the handlers everything they dereference without a check.

// verifC08RawParams models req.Params as delivered by jsonrpc2.Request.UnmarshalJSON:
// nil when the request has no "params" member, otherwise a non-nil raw message.
var verifC08ParamsMissing bool

func verifC08RawParams() *json.RawMessage {
	verifC08ParamsMissing = verifChoice("params.member", 2) == 0
	if verifC08ParamsMissing {
		// {"jsonrpc":"2.0","id":1,"method":"getBlock"}  -> req.Params == nil
		verifKnownFinding("C08-params-nil", true)
		return nil
	}
	raw := json.RawMessage("[opaque]")
	return &raw
}

// verifC08DecodeOutcome chooses what the decoder makes of the raw params: an error, or a list of
// `n` elements built by elem(i).
func verifC08DecodeOutcome(maxLen int, elem func(i int) any) {
	verifC08UnmarshalFails = false
	verifC08Params = nil
	if verifC08ParamsMissing {
		return // nothing to decode
	}
	n := verifChoice("params.len", maxLen+2) // maxLen+1 => decoder error
	if n == maxLen+1 {
		verifC08UnmarshalFails = true
		return
	}
	if n == 0 {
		if verifChoice("params.null", 2) == 1 {
			verifC08Params = []any{} // "params":[]   (nil list: "params":null)
		}
		return
	}
	verifC08Params = make([]any, n)
	for i := 0; i < n; i++ {
		verifC08Params[i] = elem(i)
	}
}

var verifC08BlockOptionKeys = []verifC08Key{
	{"commitment", []string{"finalized", ""}, []float64{1}},
	{"encoding", verifC08Encodings, []float64{1}},
	{"maxSupportedTransactionVersion", []string{"0"}, []float64{0, -1, 1e300}},
	{"transactionDetails", []string{"full", "none"}, []float64{1}},
	{"rewards", []string{"true"}, []float64{1}},
}

var verifC08TxOptionKeys = []verifC08Key{
	{"encoding", verifC08Encodings, []float64{1}},
	{"maxSupportedTransactionVersion", []string{"0"}, []float64{0, -1, 1e300}},
	{"commitment", []string{"finalized", ""}, []float64{1}},
}

var verifC08GsfaOptionKeys = []verifC08Key{
	{"limit", []string{"10"}, []float64{0, 1, 1000, 1001, -5, 2.5, 1e300}},
	{"before", verifC08B58Strings, []float64{1}},
	{"until", verifC08B58Strings, []float64{1}},
}

// the second/third list element: an option object or any other JSON value
func verifC08Options(name string, keys []verifC08Key) any {
	if verifChoice(name+".isobject", 2) == 1 {
		return verifC08Object(name, keys)
	}
	return verifC08Value(name, []string{"x"}, []float64{1})
}

func verifC08ParseGetBlock(raw *json.RawMessage) {
	verifC08DecodeOutcome(3, func(i int) any {
		switch i {
		case 0:
			return verifC08Value("slot", []string{"123", ""}, verifC08Numbers)
		case 1:
			return verifC08Options("opts", verifC08BlockOptionKeys)
		}
		return verifC08Value("extra", []string{"x"}, []float64{1})
	})
	out, err := parseGetBlockRequest(raw)
	verifAssert(out != nil || err != nil, "C08.parse: parseGetBlockRequest returned neither a request nor an error (handler dereferences the request)")
	if err != nil {
		verifReach("getBlock.rejected")
		return
	}
	// handleGetBlock dereferences these without a nil check
	verifAssert(out.Options.Encoding != nil, "C08.parse: getBlock request without Encoding (handler dereferences it)")
	verifAssert(out.Options.Rewards != nil, "C08.parse: getBlock request without Rewards (handler dereferences it)")
	verifAssert(out.Options.Commitment != nil && out.Options.TransactionDetails != nil, "C08.parse: getBlock request without Commitment/TransactionDetails defaults")
	if out.Validate() != nil { // must not panic
		verifReach("getBlock.invalid")
		return
	}
	verifReach("getBlock.accepted")
}

func verifC08ParseGetTransaction(raw *json.RawMessage) {
	verifC08DecodeOutcome(3, func(i int) any {
		switch i {
		case 0:
			return verifC08Value("sig", verifC08B58Strings, []float64{1})
		case 1:
			return verifC08Options("opts", verifC08TxOptionKeys)
		}
		return verifC08Value("extra", []string{"x"}, []float64{1})
	})
	out, err := parseGetTransactionRequest(raw)
	verifAssert(out != nil || err != nil, "C08.parse: parseGetTransactionRequest returned neither a request nor an error (handler dereferences the request)")
	if err != nil {
		verifReach("getTransaction.rejected")
		return
	}
	verifAssert(out.Options.Encoding != nil, "C08.parse: getTransaction request without Encoding (handler dereferences it)")
	if out.Validate() != nil { // must not panic
		verifReach("getTransaction.invalid")
		return
	}
	verifReach("getTransaction.accepted")
}

func verifC08ParseGetBlockTime(raw *json.RawMessage) {
	verifC08DecodeOutcome(2, func(i int) any {
		if i == 0 {
			return verifC08Value("slot", []string{"123", ""}, verifC08Numbers)
		}
		return verifC08Value("extra", []string{"x"}, []float64{1})
	})
	_, err := parseGetBlockTimeRequest(raw)
	if err != nil {
		verifReach("getBlockTime.rejected")
		return
	}
	verifReach("getBlockTime.accepted")
}

func verifC08ParseGsfa(raw *json.RawMessage) {
	verifC08DecodeOutcome(3, func(i int) any {
		switch i {
		case 0:
			return verifC08Value("address", verifC08B58Strings, []float64{1})
		case 1:
			return verifC08Options("opts", verifC08GsfaOptionKeys)
		}
		return verifC08Value("extra", []string{"x"}, []float64{1})
	})
	out, err := parseGetSignaturesForAddressParams(raw)
	verifAssert(out != nil || err != nil, "C08.parse: parseGetSignaturesForAddressParams returned neither params nor an error (handler dereferences the params)")
	if err != nil {
		verifReach("gsfa.rejected")
		return
	}
	verifReach("gsfa.accepted")
}

func VerifC08Parse() {
	fasterJson = verifC08JSON{}
	which := verifParam("method", -1)
	if which < 0 {
		which = verifChoice("method", 4)
	}
	raw := verifC08RawParams()
	switch which {
	case 0:
		verifC08ParseGetBlock(raw)
	case 1:
		verifC08ParseGetTransaction(raw)
	case 2:
		verifC08ParseGetBlockTime(raw)
	default:
		verifC08ParseGsfa(raw)
	}
	verifReach("end")
}
