//go:build verif

package main

import (
	"context"
	"encoding/json"

	"github.com/sourcegraph/jsonrpc2"
)

// Cuts for driving the JSON-RPC handleGetBlock (shared by C03.jsonblock and C03.prefetch).
// C03.jsonblock — the real JSON-RPC handleGetBlock (params validation, epoch routing,
// Epoch.GetBlock, error mapping, response assembly, parent lookup). Cuts in addition to the ones of
// C03.grpcblock: parseGetBlockRequest (table model: slot + default options), the
// "DAG-Root-CID" response header (fasthttp) and requestContext.Reply (recorder).
// The JSON block object has no slot field; the model gives every stored block a distinct block time,
// by which the replied block is identified.

var (
	verifC03JSONSlot   uint64
	verifC03JSONHeader []string
	verifC03JSONReply  []interface{}
)

// model of parseGetBlockRequest (the real one is renamed): the parsed request with default options.
func parseGetBlockRequest(raw *json.RawMessage) (*GetBlockRequest, error) {
	out := &GetBlockRequest{Slot: verifC03JSONSlot}
	c, e, d, r := defaultCommitment(), defaultEncoding(), defaultTransactionDetails(), true
	out.Options.Commitment, out.Options.Encoding, out.Options.TransactionDetails, out.Options.Rewards = &c, &e, &d, &r
	return out, nil
}

func verifC03Header(v string) { verifC03JSONHeader = append(verifC03JSONHeader, v) }

// model of (*requestContext).Reply (the real one is renamed): records the result object.
func (c *requestContext) Reply(ctx context.Context, id jsonrpc2.ID, result interface{}, remapCallback func(map[string]any) map[string]any) error {
	verifC03JSONReply = append(verifC03JSONReply, result)
	return nil
}
