//go:build verif

package main

import (
	"context"
	"errors"
)

// C18.cancel — termination does not depend on the context staying live: the request context is
// cancelled at an arbitrary point while jobs are in flight; FirstSuccess must still return (a
// deadlock of the caller is the violation). The returned value/error is not constrained here.
func VerifC18Cancel() {
	n := verifParam("jobs", 2)
	conc := verifChoice("concurrency", n+1)
	if conc == 0 {
		conc = -1
	}
	ctx, cancel := context.WithCancel(context.Background())
	var fns []JobFunc[uint64]
	for i := 0; i < n; i++ {
		ok := verifChoice("ok", 2) == 1
		e := errors.New("job failed")
		fns = append(fns, func(ctx context.Context) (uint64, error) {
			verifYield() // the job takes time: the cancellation may arrive before, during or after it
			if ok {
				return 7, nil
			}
			return 0, e
		})
	}
	go cancel()
	FirstSuccess[uint64](ctx, conc, fns...)
	verifReach("end")
}
