//go:build verif

package main

import (
	"bufio"
	"bytes"
	"context"
	"encoding/binary"
	"errors"
	"io"

	"github.com/ipfs/go-cid"
	"github.com/rpcpool/yellowstone-faithful/blocktimeindex"
	"github.com/rpcpool/yellowstone-faithful/indexes"
	splitcarfetcher "github.com/rpcpool/yellowstone-faithful/split-car-fetcher"
)

// C13 (package main) — the CAR file and the slot-to-blocktime index as the server reads them.
//
// Storage model: verifC13File, an io.ReaderAt (+Close) over the complete image whose visible
// length t is symbolic (0 <= t < len): n = min(len(p), t-off), io.EOF iff n < len(p) (os.File,
// bytes.Reader); in "mmap" mode an offset beyond the end yields a non-EOF error
// (golang.org/x/exp/mmap.ReaderAt).

type verifC13File struct {
	data []byte
	t    int64
	mmap bool
}

var verifC13ErrOffset = errors.New("mmap: invalid ReadAt offset")

func (f *verifC13File) ReadAt(p []byte, off int64) (int, error) {
	if off < 0 {
		return 0, verifC13ErrOffset
	}
	if off+int64(len(p)) <= f.t { // whole request inside the visible part
		copy(p, f.data[off:])
		return len(p), nil
	}
	if f.mmap && off > f.t {
		return 0, verifC13ErrOffset
	}
	avail := f.t - off
	n := int64(verifIteU64(avail > 0, uint64(avail), 0))
	for i := range p {
		if j := off + int64(i); j < int64(len(f.data)) {
			p[i] = byte(verifIteU64(int64(i) < n, uint64(f.data[j]), uint64(p[i])))
		}
	}
	return int(n), io.EOF
}

func (f *verifC13File) Close() error { return nil }

func verifC13CidBytes(i int) []byte {
	b := []byte{0x01, 0x71, 0x12, 0x20}
	for j := 0; j < 32; j++ {
		b = append(b, byte(0x30+11*i+j))
	}
	return b
}

// verifC13Section encodes one CARv1 section: uvarint(len(cid)+len(data)) | cid | data.
func verifC13Section(cidBytes, data []byte) []byte {
	out := binary.AppendUvarint(nil, uint64(len(cidBytes)+len(data)))
	out = append(out, cidBytes...)
	return append(out, data...)
}

type verifC13Node struct {
	cid       cid.Cid
	off, size uint64
	data      []byte
}

// verifC13CarImage: a CARv1 payload: header section (uvarint length + hl arbitrary bytes), then
// nodes with arbitrary payload bytes of the given lengths.
func verifC13CarImage(hl int, lens []int) (img []byte, nodes []verifC13Node) {
	img = binary.AppendUvarint(nil, uint64(hl))
	img = append(img, verifBytes("carheader", hl)...)
	for i, l := range lens {
		cb := verifC13CidBytes(i)
		c, err := cid.Cast(cb)
		verifAssert(err == nil, "C13.car: harness CID does not parse")
		data := verifBytes("payload", l)
		sec := verifC13Section(cb, data)
		nodes = append(nodes, verifC13Node{cid: c, off: uint64(len(img)), size: uint64(len(sec)), data: data})
		img = append(img, sec...)
	}
	return
}

// verifC13CarOp runs one of the server's CAR read paths for node nd over the reader.
// op 0: Epoch.GetNodeByOffsetAndSize (remote-reader branch: readNodeFromReaderAtWithOffsetAndSize,
//       parseNodeFromSection)            -> node payload
// op 1: Epoch.getNodeSize (remote branch: readNodeSizeFromReaderAtWithOffset) -> section size
// op 2: Epoch.ReadAtFromCar (remote branch: readSectionFromReaderAt)          -> raw section
// op 3: readNodeWithKnownSize over bufio.Reader(section of the file from the node's offset): the
//       body of the local-reader branch of GetNodeByOffsetAndSize (the carv2 data reader is cut)
func verifC13CarOp(op int, r ReaderAtCloser, fileLen int64, nd verifC13Node) ([]byte, uint64, error) {
	ep := &Epoch{remoteCarReader: r}
	ctx := context.Background()
	switch op {
	case 0:
		b, err := ep.GetNodeByOffsetAndSize(ctx, &nd.cid, &indexes.OffsetAndSize{Offset: nd.off, Size: nd.size})
		return b, 0, err
	case 1:
		sz, err := ep.getNodeSize(ctx, nd.off)
		return nil, sz, err
	case 2:
		b, err := ep.ReadAtFromCar(ctx, nd.off, nd.size)
		return b, 0, err
	default:
		dr := io.NewSectionReader(r, 0, fileLen) // data reader of a CARv1 payload of that length
		dr.Seek(int64(nd.off), io.SeekStart)
		b, err := readNodeWithKnownSize(bufio.NewReader(dr), &nd.cid, nd.size)
		return b, 0, err
	}
}

// C13.car — every CAR read path on the complete file and on the file cut at a symbolic offset:
// the cut file yields the same bytes / size or an error.
func VerifC13Car() {
	shapes := [][]int{{5, 3}, {1, 12}, {0, 7, 2}}
	lens := shapes[verifChoice("shape", verifParam("shapes", 2))]
	img, nodes := verifC13CarImage(verifParam("hdr", 6), lens)
	N := int64(len(img))
	nd := nodes[verifChoice("node", len(nodes))]
	op := verifChoice("op", 4)

	wantB, wantSz, err := verifC13CarOp(op, &verifC13File{data: img, t: N}, N, nd)
	if op == 1 && int64(nd.off)+binary.MaxVarintLen64 > N {
		// the size probe reads 10 bytes: a node closer than that to the end of the complete
		// file is not answered by the complete file either (not a truncation matter)
		verifAssert(err != nil, "C13.car: size probe beyond the end of the complete file succeeded")
		verifReach("probe-at-end")
		verifReach("end")
		return
	}
	if err != nil {
		verifTrace("fullerr", err.Error())
	}
	verifAssert(err == nil, "C13.car: the complete file does not answer")
	switch op {
	case 0, 3:
		verifAssert(bytes.Equal(wantB, nd.data), "C13.car: the complete file answers with other bytes")
	case 1:
		verifAssert(wantSz == nd.size, "C13.car: the complete file reports another section size")
	case 2:
		verifAssert(uint64(len(wantB)) == nd.size && bytes.Equal(wantB, img[nd.off:nd.off+nd.size]), "C13.car: the complete file answers with other bytes")
	}

	T := int64(verifU16("T"))
	verifAssume(T < N)
	f := &verifC13File{data: img, t: T, mmap: verifChoice("reader", 2) == 1}
	gotB, gotSz, err := verifC13CarOp(op, f, N, nd)
	if err != nil {
		verifAssert(gotB == nil, "C13.car: bytes returned together with an error")
		verifReach("error")
	} else {
		verifAssert(len(gotB) == len(wantB) && bytes.Equal(gotB, wantB) && gotSz == wantSz, "C13.car: truncated CAR answers with different bytes / size")
		verifReach("same")
	}
	verifReach("end")
}

// C13.car.split — the CAR assembled from pieces (splitcarfetcher.MultiReaderAt over
// io.SectionReader(piece file, piece header, content size), exactly as NewSplitCarReader builds
// it; epoch.go hands it *readCloserWrapper values, for which NewSplitCarReader's size checks do
// not run) with ONE piece file cut short at a symbolic offset: Epoch.GetNodeByOffsetAndSize /
// ReadAtFromCar / getNodeSize answer the same or fail.
func VerifC13CarSplit() {
	lens := []int{4, 3, 5}
	img, nodes := verifC13CarImage(verifParam("hdr", 6), lens)
	N := int64(len(img))
	// piece 0 = original CAR header (in memory, never short); pieces 1.. = content split at node
	// boundaries k1 (between node 0 and 1) and possibly inside node 1
	hdrLen := int64(nodes[0].off)
	splitAt := []int64{int64(nodes[1].off), int64(nodes[1].off) + 9}[verifChoice("split", 2)]
	const ph = 3 // each piece file starts with its own 3-byte header that is skipped
	mk := func(content []byte) []byte { return append([]byte{0xC1, 0xC2, 0xC3}, content...) }
	p1 := mk(img[hdrLen:splitAt])
	p2 := mk(img[splitAt:])
	short := 1 + verifChoice("short_piece", 2)
	T := int64(verifU16("T"))
	f1 := &verifC13File{data: p1, t: int64(len(p1))}
	f2 := &verifC13File{data: p2, t: int64(len(p2))}
	if short == 1 {
		verifAssume(T < int64(len(p1)))
		f1.t = T
	} else {
		verifAssume(T < int64(len(p2)))
		f2.t = T
	}
	build := func(a, b io.ReaderAt) ReaderAtCloser {
		readers := []io.ReaderAt{bytes.NewReader(img[:hdrLen]), io.NewSectionReader(a, ph, int64(len(p1)-ph)), io.NewSectionReader(b, ph, int64(len(p2)-ph))}
		sizes := []int64{hdrLen, int64(len(p1) - ph), int64(len(p2) - ph)}
		return verifC13RAC{splitcarfetcher.NewMultiReaderAt(readers, sizes)}
	}
	nd := nodes[verifChoice("node", len(nodes))]
	op := verifChoice("op", 3)
	if op == 1 && int64(nd.off)+binary.MaxVarintLen64 > N {
		verifReach("end")
		return
	}
	full := build(&verifC13File{data: p1, t: int64(len(p1))}, &verifC13File{data: p2, t: int64(len(p2))})
	wantB, wantSz, err := verifC13CarOp(op, full, N, nd)
	verifAssert(err == nil, "C13.car.split: the complete pieces do not answer")
	if op == 0 {
		verifAssert(bytes.Equal(wantB, nd.data), "C13.car.split: the complete pieces answer with other bytes")
	}
	// known finding (S15, same root cause as C16-short-piece-silent): a short NON-LAST piece
	verifKnownFinding("C13-car-split-short-piece", short == 1)
	gotB, gotSz, err := verifC13CarOp(op, build(f1, f2), N, nd)
	if err != nil {
		verifReach("error")
	} else {
		verifAssert(len(gotB) == len(wantB) && bytes.Equal(gotB, wantB) && gotSz == wantSz, "C13.car.split: CAR with a short piece answers with different bytes / size")
		verifReach("same")
	}
	verifReach("end")
}

type verifC13RAC struct{ io.ReaderAt }

func (verifC13RAC) Close() error { return nil }

// C13.blocktime.server — the server path of NewEpochFromConfig for the slot-to-blocktime index:
// ReadAllFromReaderAt(file, <size of the complete index>) followed by blocktimeindex.FromBytes.
// (The real size is blocktimeindex.DefaultIndexByteSize = 46 + 4*432000; the harness index has a
// small capacity and passes its own complete size.)
func VerifC13BlocktimeServer() {
	capacity := uint64(verifParam("capacity", 3))
	epoch := uint64(verifChoice("epoch", 2))
	start := epoch * 432000
	idx := blocktimeindex.NewIndexer(start, start+431999, capacity)
	vals := make([]int64, capacity)
	for i := range vals {
		vals[i] = int64(verifU32("blocktime"))
		verifAssert(idx.Set(start+uint64(i), vals[i]) == nil, "C13.blocktime.server: Set failed")
	}
	img, err := idx.MarshalBinary()
	verifAssert(err == nil, "C13.blocktime.server: MarshalBinary failed")
	N := int64(len(img))

	buf, err := ReadAllFromReaderAt(&verifC13File{data: img, t: N}, uint64(N))
	verifAssert(err == nil, "C13.blocktime.server: complete file not read")
	full, err := blocktimeindex.FromBytes(buf)
	verifAssert(err == nil, "C13.blocktime.server: complete index does not decode")

	T := int64(verifU16("T"))
	verifAssume(T < N)
	buf, err = ReadAllFromReaderAt(&verifC13File{data: img, t: T, mmap: verifChoice("reader", 2) == 1}, uint64(N))
	if err != nil {
		verifAssert(buf == nil, "C13.blocktime.server: bytes returned together with an error")
		verifReach("read-error")
		verifReach("end")
		return
	}
	cut, err := blocktimeindex.FromBytes(buf)
	if err != nil {
		verifReach("decode-error")
		verifReach("end")
		return
	}
	verifAssert(cut.Epoch() == full.Epoch(), "C13.blocktime.server: truncated index loads with another epoch")
	for i := range vals {
		got, err := cut.Get(start + uint64(i))
		if err == nil {
			verifAssert(got == vals[i], "C13.blocktime.server: truncated index answers a slot with a different block time")
		}
	}
	verifReach("loaded")
	verifReach("end")
}
