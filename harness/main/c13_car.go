//go:build verif

package main

import (
	"bufio"
	"bytes"
	"encoding/binary"
	"io"
)

// C13.car — every CAR read path on the complete file and on the file cut at a symbolic offset:
// the cut file yields the same bytes / size or an error.
func VerifC13Car() {
	shapes := [][]int{{5, 3}, {1, 12}, {0, 7, 2}, {95, 3}} // {95,3}: first section >= 128 bytes (2-byte length prefix)
	lens := shapes[verifChoice("shape", verifParam("shapes", 2))]
	img, nodes := verifC13CarImage(verifParam("hdr", 6), lens)
	N := int64(len(img))
	nd := nodes[verifChoice("node", len(nodes))]
	op := verifChoice("op", 4)

	run := func(r ReaderAtCloser) ([]byte, uint64, error) {
		if op == 3 {
			// readNodeWithKnownSize over bufio.Reader(section of the file from the node's offset): the
			// body of the local-reader branch of GetNodeByOffsetAndSize (the carv2 data reader is cut)
			dr := io.NewSectionReader(r, 0, N) // data reader of a CARv1 payload of that length
			dr.Seek(int64(nd.off), io.SeekStart)
			b, err := readNodeWithKnownSize(bufio.NewReader(dr), &nd.cid, nd.size)
			return b, 0, err
		}
		return verifC13CarOp(op, r, N, nd)
	}
	wantB, wantSz, err := run(&verifC13File{data: img, t: N})
	if op == 1 && int64(nd.off)+binary.MaxVarintLen64 > N {
		// the size probe reads 10 bytes: a node closer than that to the end of the complete
		// file is not answered by the complete file either (not a truncation matter)
		verifAssert(err != nil, "C13.car: size probe beyond the end of the complete file succeeded")
		verifReach("probe-at-end")
		verifReach("end")
		return
	}
	if err != nil {
		verifTrace("fullerr", err.Error())
	}
	verifAssert(err == nil, "C13.car: the complete file does not answer")
	switch op {
	case 0, 3:
		verifAssert(bytes.Equal(wantB, nd.data), "C13.car: the complete file answers with other bytes")
	case 1:
		verifAssert(wantSz == nd.size, "C13.car: the complete file reports another section size")
	case 2:
		verifAssert(uint64(len(wantB)) == nd.size && bytes.Equal(wantB, img[nd.off:nd.off+nd.size]), "C13.car: the complete file answers with other bytes")
	}

	T := int64(verifU16("T"))
	verifAssume(T < N)
	f := &verifC13File{data: img, t: T, mmap: verifChoice("reader", 2) == 1}
	gotB, gotSz, err := run(f)
	if err != nil {
		verifAssert(gotB == nil, "C13.car: bytes returned together with an error")
		verifReach("error")
	} else {
		verifAssert(len(gotB) == len(wantB) && bytes.Equal(gotB, wantB) && gotSz == wantSz, "C13.car: truncated CAR answers with different bytes / size")
		verifReach("same")
	}
	verifReach("end")
}
