//go:build verif

package main

import (
	"context"
	"encoding/json"
	"errors"
	"fmt"
	"io"

	"github.com/gagliardetto/solana-go"
	"github.com/ipfs/go-cid"
	jsoniter "github.com/json-iterator/go"
	"github.com/rpcpool/yellowstone-faithful/compactindexsized"
	old_faithful_grpc "github.com/rpcpool/yellowstone-faithful/old-faithful-proto/old-faithful-grpc"
	"github.com/sourcegraph/jsonrpc2"
	"google.golang.org/grpc/codes"
	"google.golang.org/grpc/status"
)

// C13.answer — the last step of the property: what the CLIENT is told. The public entry points
// gRPC GetBlock / GetTransaction and JSON-RPC getBlock / getTransaction (real handlers, real Epoch.GetBlock /
// Epoch.GetTransaction / GetTransactionByCid wrappers, real findEpochNumberFromSignature with
// FirstSuccess) over epoch accessors that fail the way truncated files make them fail
// (C13.cidx/.indexes/.car: a read error that is not ErrNotFound). The answer must then be an
// INTERNAL error - never NOT_FOUND ("slot was skipped", "Transaction not found"), never a result;
// and a key the indexes do not hold is still answered NOT_FOUND.
//
// Cuts: Epoch.FindCidFromSlot, Epoch.FindCidFromSignature, Epoch.GetNodeByCid (renamed away) are
// outcome tables per epoch; SigExistsIndex = table; prefetchSubgraph = no-op.

const (
	verifC13AOK = iota
	verifC13ANotFound
	verifC13AReadErr
)

type verifC13AEpoch struct {
	findSlot, findSig, node int
}

var verifC13A = map[uint64]*verifC13AEpoch{}

var verifC13AReadError = fmt.Errorf("failed to read entry: %w", io.ErrUnexpectedEOF)

func verifC13AOutcome(o int) error {
	switch o {
	case verifC13ANotFound:
		return compactindexsized.ErrNotFound
	case verifC13AReadErr:
		return verifC13AReadError
	}
	return nil
}

func verifC13ACid() cid.Cid {
	b := []byte{0x01, 0x71, 0x12, 0x20}
	for j := 0; j < 32; j++ {
		b = append(b, byte(0x11+j))
	}
	c, err := cid.Cast(b)
	verifAssert(err == nil, "C13.answer: harness CID does not parse")
	return c
}

// models of the epoch accessors (the real ones are renamed verifOrig_*)
func (ser *Epoch) FindCidFromSlot(ctx context.Context, slot uint64) (cid.Cid, error) {
	if err := verifC13AOutcome(verifC13A[ser.epoch].findSlot); err != nil {
		return cid.Undef, err
	}
	return verifC13ACid(), nil
}

func (ser *Epoch) FindCidFromSignature(ctx context.Context, sig solana.Signature) (cid.Cid, error) {
	if err := verifC13AOutcome(verifC13A[ser.epoch].findSig); err != nil {
		return cid.Undef, err
	}
	return verifC13ACid(), nil
}

// GetNodeByCid: the node is never delivered (decoding is not what is decided here): either the
// cid-to-offset index does not hold the CID (wrapped ErrNotFound, as the real function wraps it)
// or reading index / CAR fails.
func (s *Epoch) GetNodeByCid(ctx context.Context, wantedCid cid.Cid) ([]byte, error) {
	if verifC13A[s.epoch].node == verifC13ANotFound {
		return nil, fmt.Errorf("failed to find offset for CID %s: %w", wantedCid, compactindexsized.ErrNotFound)
	}
	return nil, fmt.Errorf("failed to read section: %w", verifC13AReadError)
}

func (s *Epoch) prefetchSubgraph(ctx context.Context, wantedCid cid.Cid) error { return nil }

type verifC13ASigIdx struct{ has bool }

func (s verifC13ASigIdx) Has(sig [64]byte) (bool, error) { return s.has, nil }

// fasterJson model: the params decode to the list chosen by the harness ([slot] / [signature])
type verifC13AJSON struct {
	jsoniter.API
	params []any
}

func (j verifC13AJSON) Unmarshal(data []byte, v interface{}) error {
	p, ok := v.(*[]any)
	if !ok {
		panic("verifC13AJSON.Unmarshal: unexpected target")
	}
	*p = j.params
	return nil
}

func verifC13AOutcomes(name string) int { return verifChoice(name, 3) }

func VerifC13Answer() {
	rpc := verifChoice("rpc", 4) // 0 gRPC GetBlock, 1 JSON-RPC getBlock, 2 gRPC GetTransaction, 3 JSON-RPC getTransaction
	ctx := context.Background()
	multi := NewMultiEpoch(&Options{EpochSearchConcurrency: verifParam("concurrency", 1)})
	switch rpc {
	case 0, 1:
		ep := &Epoch{epoch: 3}
		o := &verifC13AEpoch{findSlot: verifC13AOutcomes("findSlot"), node: verifC13ANotFound + verifChoice("node", 2)}
		verifC13A[3] = o
		verifAssert(multi.AddEpoch(3, ep) == nil, "C13.answer: AddEpoch failed")
		slot := uint64(3*432000 + 17)
		cut := o.findSlot == verifC13AReadErr || (o.findSlot == verifC13AOK && o.node == verifC13AReadErr)
		if rpc == 0 {
			resp, err := multi.GetBlock(ctx, &old_faithful_grpc.BlockRequest{Slot: slot})
			verifAssert(err != nil && resp == nil, "C13.answer: GetBlock answers without the block being readable")
			if cut {
				verifAssert(status.Code(err) == codes.Internal, "C13.answer: gRPC GetBlock reports a read error of a truncated file as something other than INTERNAL (e.g. NOT_FOUND)")
				verifReach("block-internal")
			} else {
				verifAssert(status.Code(err) == codes.NotFound, "C13.answer: gRPC GetBlock does not answer NOT_FOUND for a slot the indexes do not hold")
				verifReach("block-notfound")
			}
		} else {
			fasterJson = verifC13AJSON{params: []any{float64(slot)}}
			raw := json.RawMessage("[0]")
			jerr, err := multi.handleGetBlock(ctx, nil, &jsonrpc2.Request{Method: "getBlock", Params: &raw})
			verifAssert(jerr != nil && err != nil, "C13.answer: getBlock answers without the block being readable")
			if cut {
				verifAssert(jerr.Code == jsonrpc2.CodeInternalError, "C13.answer: JSON-RPC getBlock reports a read error of a truncated file as something other than an internal error (e.g. 'slot was skipped')")
				verifReach("jsonblock-internal")
			} else {
				verifAssert(jerr.Code == CodeNotFound, "C13.answer: JSON-RPC getBlock does not answer not-found for a slot the indexes do not hold")
				verifReach("jsonblock-notfound")
			}
		}
	default:
		n := 1 + verifChoice("epochs", verifParam("maxEpochs", 2))
		anyOK, anyCut := false, false
		var okNode []int
		for e := uint64(0); e < uint64(n); e++ {
			ep := &Epoch{epoch: 100 + e}
			// per epoch: 0 sig-to-cid answers, node unreadable; 1 sig-to-cid answers, CID unknown to
			// cid-to-offset; 2 sig-to-cid says not found; 3 sig-to-cid read error (truncated);
			// 4 (only with >= 2 epochs, where the sig-exists index is consulted) sig-exists says no
			kinds := 5
			if n == 1 {
				kinds = 4
			}
			kind := verifChoice("epochkind", kinds)
			o := &verifC13AEpoch{node: verifC13AReadErr}
			ep.sigExists = verifC13ASigIdx{has: kind != 4}
			switch kind {
			case 0:
				o.findSig = verifC13AOK
			case 1:
				o.findSig, o.node = verifC13AOK, verifC13ANotFound
			case 2:
				o.findSig = verifC13ANotFound
			case 3:
				o.findSig = verifC13AReadErr
			case 4:
				o.findSig = verifC13AOK // never consulted
			}
			verifC13A[ep.epoch] = o
			verifAssert(multi.AddEpoch(ep.epoch, ep) == nil, "C13.answer: AddEpoch failed")
			if kind <= 1 {
				anyOK = true
				okNode = append(okNode, o.node)
			}
			if kind == 3 {
				anyCut = true
			}
		}
		// internal = the client is told "internal error"; notFound = "not found"
		var internal, notFound bool
		if rpc == 2 {
			var sig solana.Signature
			sig[0] = 9
			resp, err := multi.GetTransaction(ctx, &old_faithful_grpc.TransactionRequest{Signature: sig[:]})
			verifAssert(err != nil && resp == nil, "C13.answer: GetTransaction answers without the transaction being readable")
			internal, notFound = status.Code(err) == codes.Internal, status.Code(err) == codes.NotFound
		} else {
			const sig58 = "5VERv8NMvzbJMEkV8xnrLkEaWRtSz9CosKDYjCJjBRnbJLgp8uirBgmQpjKhoR4tjF3ZpRzrFmBV6UjKdiSZkQUW"
			fasterJson = verifC13AJSON{params: []any{sig58}}
			raw := json.RawMessage("[0]")
			jerr, err := multi.handleGetTransaction(ctx, nil, &jsonrpc2.Request{Method: "getTransaction", Params: &raw})
			verifAssert(jerr != nil && err != nil, "C13.answer: getTransaction answers without the transaction being readable")
			internal, notFound = jerr.Code == jsonrpc2.CodeInternalError, jerr.Code == CodeNotFound
		}
		switch {
		case anyOK:
			// some epoch's sig-to-cid index answers; the node read then fails or the CID is unknown
			allCut, noneCut := true, true
			for _, nd := range okNode {
				allCut = allCut && nd == verifC13AReadErr
				noneCut = noneCut && nd != verifC13AReadErr
			}
			if allCut {
				verifAssert(internal, "C13.answer: GetTransaction reports an unreadable transaction node as something other than an internal error")
			} else if noneCut {
				verifAssert(notFound, "C13.answer: GetTransaction: unknown CID not answered not-found")
			}
			verifReach("tx-node")
		case anyCut:
			verifAssert(internal, "C13.answer: GetTransaction reports a signature archived in an epoch with a truncated index as something other than an internal error (e.g. 'Transaction not found')")
			verifReach("tx-internal")
		default:
			verifAssert(notFound, "C13.answer: GetTransaction does not answer not-found for a signature no index holds")
			verifReach("tx-notfound")
		}
	}
	_ = errors.Is
	verifReach("end")
}
