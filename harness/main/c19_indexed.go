//go:build verif

package main

// C19.indexed — the index-accelerated branch of processSlotTransactions (reached through the real
// StreamTransactions entry): one goroutine per included account, txBuffer.add / flush, the error
// channel, under the controlled scheduler with the happens-before race detector.
//
// Additional cuts of this obligation:
//   - gsfaReader.GetBeforeUntilSlot(...) is replaced at its call site by verifC19GetBeforeUntilSlot:
//     the contract of the address index (decided on the real code by C07.iter / C07.slot): the
//     transactions of the archive that mention the account (static or loaded through an address
//     table), with until <= slot < before, newest first, at most `limit`, grouped by epoch.
//     The fetcher closure (CAR access + node decoding) is not called.
//   - the calls parseTransactionAndMetaFromNode(txn, ...) / getTransactionAndMetaFromNode(txn, ...)
//     (data-frame reassembly, zstd, decoding) of the branch are replaced at their call sites by table
//     look-ups on the model transaction of the node.
//   - the constant batchSize (100) is scaled to 2 by a rewrite.
//   - time.Since in txBuffer.add/flush (slow-lock / slow-send logging) yields 0.
//
// Oracle: the same reference predicate and order as C19.filter: hence, within the bounds, the set
// streamed with an address index equals the set streamed by the block scan.

import (
	"context"
	"errors"
	"time"

	"github.com/gagliardetto/solana-go"
	"github.com/rpcpool/yellowstone-faithful/gsfa"
	"github.com/rpcpool/yellowstone-faithful/gsfa/linkedlog"
	"github.com/rpcpool/yellowstone-faithful/ipld/ipldbindcode"
	old_faithful_grpc "github.com/rpcpool/yellowstone-faithful/old-faithful-proto/old-faithful-grpc"
	"github.com/rpcpool/yellowstone-faithful/slottools"
)

var verifC19Idx struct {
	lo, hi    uint64 // requested range
	nodes     map[*ipldbindcode.Transaction]*verifC19Tx
	nodeOf    []*ipldbindcode.Transaction // by transaction id
	name      string                      // obligation id for the assertion labels
	incl      []string
	failQuery int // the index query for the include account with this position fails (-1: none)
	limit     int
}

var verifC19IdxErr = errors.New("verif: address index read error")

func verifC19Since(time.Time) time.Duration { return 0 }

// model of (*gsfa.GsfaReaderMultiepoch).GetBeforeUntilSlot at its call site
func verifC19GetBeforeUntilSlot(
	r *gsfa.GsfaReaderMultiepoch,
	ctx context.Context,
	pk solana.PublicKey,
	limit int,
	before uint64,
	until uint64,
	fetcher func(uint64, linkedlog.OffsetAndSizeAndSlot) (*ipldbindcode.Transaction, error),
) (gsfa.EpochToTransactionObjects, error) {
	verifAssert(r != nil, verifC19Idx.name+": no multi-epoch address index handed over")
	verifAssert(limit == verifC19Idx.limit, verifC19Idx.name+": unexpected query limit")
	verifAssert(until == verifC19Idx.lo, verifC19Idx.name+": the index is not queried down to the start slot (inclusive)")
	verifAssert(before == verifC19Idx.hi+1, verifC19Idx.name+": the index is not queried up to the end slot (inclusive)")
	last := pk[31]
	verifAssert(pk == verifC19Key(last), verifC19Idx.name+": the index is queried for an account that is not in the include list")
	if fq := verifC19Idx.failQuery; fq >= 0 && solana.MustPublicKeyFromBase58(verifC19Idx.incl[fq]) == pk {
		return nil, verifC19IdxErr
	}
	res := make(gsfa.EpochToTransactionObjects)
	count := 0
	for i := len(verifC19.txs) - 1; i >= 0 && count < limit; i-- {
		t := verifC19.txs[i]
		slot := verifC19.start + uint64(t.slotIx)
		if slot >= before || slot < until {
			continue
		}
		e := slottools.CalcEpochForSlot(slot)
		if int(e) == verifC19NoGsfaEpoch {
			continue // no address index was handed over for this epoch (C19.readers decides the reader list)
		}
		if t.mentions(last) == 0 {
			continue
		}
		res[e] = append(res[e], verifC19Idx.nodeOf[t.id])
		count++
	}
	return res, nil
}

// models of parseTransactionAndMetaFromNode / getTransactionAndMetaFromNode at their call sites in the
// index-accelerated branch (rewrites; the private helpers themselves are not referenced)
func verifC19ParseNode(transactionNode *ipldbindcode.Transaction) (tx solana.Transaction, meta any, _ error) {
	t := verifC19Idx.nodes[transactionNode]
	if t == nil {
		return solana.Transaction{}, nil, errors.New("verif: node outside the model")
	}
	return *t.build(), t.meta(), nil
}

func verifC19NodeBytes(transactionNode *ipldbindcode.Transaction) ([]byte, []byte, error) {
	t := verifC19Idx.nodes[transactionNode]
	if t == nil {
		return nil, nil, errors.New("verif: node outside the model")
	}
	return t.wire.Transaction, t.wire.Meta, nil
}

// scenarios (param "scenarios" = how many of them are explored):
//
//	0: windows of two transactions ("2", thorough also "11"), whole range, the first `profiles` filter profiles
//	1: windows "1s1" / "111", request = whole window, first slot dropped, last slot dropped; include [A,B]
//	2: window "2", include [A,B], the index query for the first / second account fails
//	3: window "12" (three transactions: more than the scaled batch limit), include [A] / [A,B] (= C19.batch)
var verifC19IdxProfiles = [][3]int{{1, 0, 0}, {2, 0, 0}, {2, 3, 0}, {2, 0, 1}}

func VerifC19Indexed() { verifC19Idx.name = "C19.indexed"; verifC19IndexedBody(-1) }

// C19.batch: scenario 3 alone (the range holds more transactions of one account than the batch limit).
func VerifC19IndexedBatch() { verifC19Idx.name = "C19.batch"; verifC19IndexedBody(3) }

func verifC19IndexedBody(scen int) {
	verifC19Reset(verifC19Base)
	if scen < 0 {
		scen = verifChoice("scenario", verifParam("scenarios", 1))
	}
	symVote := verifParam("sym_vote", 0) == 1
	var tpl string
	var p [3]int
	subrange, failing := 0, -1
	switch scen {
	case 0:
		tpl = []string{"2", "11"}[verifChoice("window", verifParam("templates", 1))]
		p = verifC19IdxProfiles[verifParam("profile_from", 0)+verifChoice("profile", verifParam("profiles", 2))]
	case 1:
		tpl = []string{"1s1", "111"}[verifChoice("window", 2)]
		p = verifC19IdxProfiles[1]
		subrange = verifChoice("subrange", 3)
	case 2:
		tpl = "2"
		p = verifC19IdxProfiles[1]
		failing = verifChoice("failing_query", 2)
	default:
		tpl = "12"
		p = verifC19IdxProfiles[verifChoice("profile", verifParam("batch_profiles", 2))]
	}
	verifC19Window(tpl, func(t *verifC19Tx) {
		if !symVote {
			t.prog = 9
		}
	})
	n := len(verifC19.slots)

	// the nodes the address index points to
	verifC19Idx.nodes = map[*ipldbindcode.Transaction]*verifC19Tx{}
	verifC19Idx.nodeOf = nil
	verifC19Idx.limit = 2
	for _, t := range verifC19.txs {
		node := &ipldbindcode.Transaction{Kind: 0, Slot: int(verifC19.start) + t.slotIx}
		pos := t.pos
		pp := &pos
		node.Index = &pp
		verifC19Idx.nodes[node] = t
		verifC19Idx.nodeOf = append(verifC19Idx.nodeOf, node)
	}

	// requested range: the whole window or a proper sub-range
	lo, hi := 0, n-1
	switch subrange {
	case 1:
		lo = 1
	case 2:
		hi = n - 2
	}
	verifC19Idx.lo, verifC19Idx.hi = verifC19.start+uint64(lo), verifC19.start+uint64(hi)

	// filter: include is not empty
	f := &verifC19FilterSpec{}
	if verifParam("sym_flags", 1) == 1 {
		f.vote = verifBool("filter.vote")
		f.failed = verifBool("filter.failed")
	} else { // quick tier: both flags true (no constraint); the flags are decided by C19.filter
		f.vote, f.failed = true, true
	}
	if verifParam("map_order", 0) == 1 {
		verifMapOrderNondet(true) // `for epochNumber, txns := range epochToTxns` in every order
	}
	f.incl, f.excl, f.req = verifC19Lists[p[0]], verifC19Lists[p[1]], verifC19Lists[p[2]]
	verifC19Idx.incl = f.incl
	verifC19Idx.failQuery = failing

	// examined by the property: the transactions of the blocks of the requested range
	var exam []*verifC19Tx
	for i := lo; i <= hi; i++ {
		exam = append(exam, verifC19.slots[i].txs...)
	}
	// C19-S18: more than batchSize transactions of the range mention one included account
	if verifC19Idx.failQuery < 0 {
		for _, a := range f.incl {
			cnt := uint64(0)
			for _, t := range exam {
				cnt += t.mentions(verifC19Last(a))
			}
			if len(exam) > verifC19Idx.limit {
				verifKnownFinding("C19-S18-indexed-batch-limit", cnt > uint64(verifC19Idx.limit))
			}
		}
	}

	req := &old_faithful_grpc.StreamTransactionsRequest{StartSlot: verifC19Idx.lo, EndSlot: &verifC19Idx.hi, Filter: f.build()}
	ser := &verifC19TxStream{ctx: context.Background(), failAt: -1}

	err := verifC19Multi(true).StreamTransactions(req, ser)

	// an empty response (no transaction) is tolerated as the last message only
	trailingEmpty := false
	if k := len(ser.sent); k > 0 && ser.sent[k-1] != nil && ser.sent[k-1].Transaction == nil {
		trailingEmpty = true
		ser.sent = ser.sent[:k-1]
	}
	sent := make([]uint64, len(verifC19.txs))
	prev := -1
	for _, r := range ser.sent {
		verifAssert(r != nil && r.Transaction != nil && len(r.Transaction.Transaction) == 1, verifC19Idx.name+": response without the archived transaction bytes")
		id := int(r.Transaction.Transaction[0])
		verifAssert(id > prev, verifC19Idx.name+": stream not in ascending (slot, position) order, or a transaction sent twice")
		prev = id
		t := verifC19.txs[id]
		verifAssert(t.slotIx >= lo && t.slotIx <= hi, verifC19Idx.name+": transaction outside the requested range")
		verifAssert(len(r.Transaction.Meta) == 1 && int(r.Transaction.Meta[0]) == id|0x80, verifC19Idx.name+": meta of another transaction")
		verifAssert(r.Transaction.Index != nil && *r.Transaction.Index == uint64(t.pos), verifC19Idx.name+": wrong position index")
		verifAssert(r.Index != nil && *r.Index == uint64(t.pos), verifC19Idx.name+": response does not carry the position of the transaction")
		verifAssert(r.Slot == verifC19.start+uint64(t.slotIx), verifC19Idx.name+": response does not carry the slot of the transaction")
		verifAssert(r.BlockTime == verifC19BlockTime(verifC19.start+uint64(t.slotIx)), verifC19Idx.name+": wrong block time")
		sent[id] = 1
	}
	if verifC19Idx.failQuery >= 0 {
		verifAssert(err == verifC19IdxErr, verifC19Idx.name+": a failed index query is not reported")
		verifReach("end-error")
		return
	}
	verifAssert(err == nil, verifC19Idx.name+": unexpected error")

	// the set: first up to a uniform polarity of the closure (the include list is applied by the
	// index query, not by the closure), then exactly
	eqAll, neAll := uint64(1), uint64(1)
	for _, t := range exam {
		d := sent[t.id] ^ f.matches(t)
		in := f.inclAny(t)
		eqAll &= 1 ^ d
		neAll &= (in & d) | ((1 ^ in) & (1 ^ sent[t.id]))
	}
	verifAssert(eqAll|neAll == 1, verifC19Idx.name+": the streamed set is neither the set selected by the filter nor, among the transactions mentioning an included account, its complement")
	verifReach("checked-up-to-polarity")
	verifKnownFinding("C19-S16-filter-polarity", len(exam) > 0)
	verifAssert(eqAll == 1, verifC19Idx.name+": the streamed set is not the set selected by the filter (= the set streamed by the block scan)")

	verifKnownFinding("C19-indexed-trailing-empty", len(ser.sent) > 0)
	verifAssert(!(trailingEmpty && len(ser.sent) > 0), verifC19Idx.name+": an empty response follows the streamed transactions")
	verifReach("end")
}
