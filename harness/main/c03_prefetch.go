//go:build verif

package main

import (
	"bytes"
	"context"
	"encoding/json"
	"strings"

	old_faithful_grpc "github.com/rpcpool/yellowstone-faithful/old-faithful-proto/old-faithful-grpc"
	"github.com/sourcegraph/jsonrpc2"
)

// C03.prefetch — getBlock handlers in CAR mode over the full real read stack (see c03_e2e.go), with
// their CAR prefetch: after Epoch.GetBlock the gRPC GetBlock / JSON-RPC handleGetBlock look up the block's
// and its parent's CID and offset, read the CAR range between them and put every node they read into the
// raw-object cache, which Epoch.GetNodeByCid afterwards trusts without any check.
// Decided: (1) each request is answered with the block of the requested slot or not-found;
// (2) CACHE INTEGRITY: after the requests, for every archived CID the raw-object cache holds nothing or
// exactly the bytes stored under that CID, GetNodeByCid serves exactly those bytes, and a CID that is
// not archived is not served — i.e. no request (archived, skipped, colliding, foreign epoch) makes a
// later fetch by CID return bytes stored under a different CID.
func VerifC03Prefetch() {
	nb := verifParam("blocks", 2)
	nt := verifParam("txs", 2)
	f := verifC03NewFull(nb, nt)
	multi := NewMultiEpoch(&Options{})
	multi.epochs[f.e.epoch] = f.e
	ctx := context.Background()
	var slots []uint64
	for _, o := range f.st.objs {
		if o.kind == verifC03KindBlock {
			slots = append(slots, o.slot)
		}
	}
	slots = append(slots, f.absSlots...)
	rounds := verifParam("rounds", 2)
	for r := 0; r < rounds; r++ {
		i := verifChoice("slot", len(slots))
		q := slots[i]
		if verifChoice("handler", verifParam("handlers", 2)) == 0 {
			resp, err := multi.GetBlock(ctx, &old_faithful_grpc.BlockRequest{Slot: q})
			if err != nil {
				verifAssert(i >= nb, "C03.prefetch: archived slot not served (gRPC)")
				verifAssert(strings.Contains(err.Error(), "code = NotFound"), "C03.prefetch: slot that is not archived is not answered with NotFound (gRPC)")
			} else {
				verifAssert(i < nb && resp.Slot == q, "C03.prefetch: gRPC GetBlock answered with the block of a different slot")
			}
		} else {
			verifC03JSONSlot = q
			verifC03JSONReply = nil
			raw := json.RawMessage(nil)
			rpcErr, err := multi.handleGetBlock(ctx, &requestContext{}, &jsonrpc2.Request{Method: "getBlock", Params: &raw})
			if rpcErr != nil || err != nil {
				verifAssert(i >= nb, "C03.prefetch: archived slot not served (JSON-RPC)")
				verifAssert(rpcErr != nil && rpcErr.Code == CodeNotFound, "C03.prefetch: slot that is not archived is not answered with the not-found code (JSON-RPC)")
			} else {
				verifAssert(i < nb && len(verifC03JSONReply) == 1, "C03.prefetch: JSON-RPC getBlock replied for a slot that is not archived")
				resp, ok := verifC03JSONReply[0].(GetBlockResponse)
				verifAssert(ok && resp.ParentSlot == f.st.objs[i].parent, "C03.prefetch: JSON-RPC getBlock replied with another block")
			}
		}
	}
	// cache integrity sweep
	for j, o := range f.st.objs {
		cached, cerr, has := f.e.GetCache().GetRawCarObject(o.c)
		verifAssert(cerr == nil, "C03.prefetch: cache probe failed")
		if has {
			verifAssert(bytes.Equal(cached, f.payload[j]), "C03.prefetch: the raw-object cache holds, under an archived CID, bytes that are stored under a different CID")
		}
		data, err := f.e.GetNodeByCid(ctx, o.c)
		verifAssert(err == nil, "C03.prefetch: archived CID not served after the requests")
		verifAssert(bytes.Equal(data, f.payload[j]), "C03.prefetch: fetch by CID returns bytes stored under a different CID")
	}
	_, _, has := f.e.GetCache().GetRawCarObject(f.absent)
	verifAssert(!has, "C03.prefetch: the raw-object cache holds an entry for a CID that is not archived")
	for k := 0; k < 2; k++ { // twice: the first fetch fills the offset cache
		_, err := f.e.GetNodeByCid(ctx, f.absent)
		verifAssert(err != nil, "C03.prefetch: bytes returned for a CID that is not archived")
	}
	verifReach("end")
}
