//go:build verif

package main

// C02.jsonTxBytes — byte identity of the transaction through the JSON-RPC getTransaction and getBlock answers for
// the binary encodings, and field identity for the json encoding: the archived transaction is a
// well-formed Solana transaction in wire format (assembled here byte by byte from the format's
// definition: compact-u16 counts, signatures, message header, account keys, recent blockhash,
// compiled instructions, and for v0 the version prefix 0x80 and the address-table lookups), with
// symbolic signature bytes, keys, blockhash, instruction indices and instruction data. The real
// parseTransactionAndMetaFromNode decodes it with solana-go's own Transaction.UnmarshalWithDecoder,
// the real encodeTransactionResponseBasedOnWantedEncoding re-encodes it (Transaction.MarshalBinary):
//
//   - base58 / base64 / base64+zstd: the bytes handed to the text encoder are exactly the archived bytes;
//   - json: the decoded transaction handed to the JSON encoder has exactly the archived signatures,
//     header, account keys, blockhash, instructions and address-table lookups.
//
// Cuts: bin.UnmarshalBin(&tx, buf) -> tx.UnmarshalWithDecoder(bin.NewBinDecoder(buf)) (only the
// reflective dispatch of gagliardetto/binary to the type's own decoder is cut);
// encodeBytesResponseBasedOnWantedEncoding (renamed: base58 / base64 / zstd text encoders are library
// code) returns a token with the bytes it was given; ParseAnyTransactionStatusMeta -> token;
// request / reply models of c02_jsonreq.go; archive cuts of c02_model.go.

import (
	"bytes"
	"context"
	"encoding/json"

	bin "github.com/gagliardetto/binary"
	"github.com/gagliardetto/solana-go"
	"github.com/sourcegraph/jsonrpc2"
	"github.com/valyala/fasthttp"
)

func verifC02UnmarshalTx(_ any, tx *solana.Transaction, buf []byte) error {
	return tx.UnmarshalWithDecoder(bin.NewBinDecoder(buf))
}

type verifC02MetaTok struct{ b []byte }

func verifC02ParseMeta(_ any, buf []byte) (any, error) { return &verifC02MetaTok{b: buf}, nil }

type verifC02BytesTok struct {
	encoding solana.EncodingType
	b        []byte
}

func encodeBytesResponseBasedOnWantedEncoding(encoding solana.EncodingType, buf []byte) ([]any, error) {
	return []any{&verifC02BytesTok{encoding: encoding, b: append([]byte{}, buf...)}, encoding}, nil
}

// verifC02WireTx is the reference description of the archived transaction.
type verifC02WireTx struct {
	v0      bool
	sigs    []solana.Signature
	header  [3]byte
	keys    []solana.PublicKey
	hash    solana.Hash
	instrs  []solana.CompiledInstruction
	lookups []solana.MessageAddressTableLookup
}

func verifC02SymKey(name string, tag byte) (k solana.PublicKey) {
	for i := range k {
		k[i] = tag + byte(i)
	}
	k[0], k[13], k[31] = verifU8(name), verifU8(name), verifU8(name)
	return
}

// wire assembles the transaction in Solana wire format (all counts < 128: one-byte compact-u16).
func (w *verifC02WireTx) wire() []byte {
	var b []byte
	b = append(b, byte(len(w.sigs)))
	for _, s := range w.sigs {
		b = append(b, s[:]...)
	}
	if w.v0 {
		b = append(b, 0x80)
	}
	b = append(b, w.header[:]...)
	b = append(b, byte(len(w.keys)))
	for _, k := range w.keys {
		b = append(b, k[:]...)
	}
	b = append(b, w.hash[:]...)
	b = append(b, byte(len(w.instrs)))
	for _, in := range w.instrs {
		b = append(b, byte(in.ProgramIDIndex), byte(len(in.Accounts)))
		for _, a := range in.Accounts {
			b = append(b, byte(a))
		}
		b = append(b, byte(len(in.Data)))
		b = append(b, in.Data...)
	}
	if w.v0 {
		b = append(b, byte(len(w.lookups)))
		for _, l := range w.lookups {
			b = append(b, l.AccountKey[:]...)
			b = append(b, byte(len(l.WritableIndexes)))
			b = append(b, l.WritableIndexes...)
			b = append(b, byte(len(l.ReadonlyIndexes)))
			b = append(b, l.ReadonlyIndexes...)
		}
	}
	return b
}

func VerifC02JsonTxBytes() {
	verifC02Reset()
	multi := NewMultiEpoch(&Options{EpochSearchConcurrency: 1})
	a := verifC02NewEpoch(5)
	a.setBlocktimeIndex(2)
	a.e.sigExists = &verifC02SigExists{a: a}
	multi.epochs[a.num] = a.e

	// the archived transaction
	w := &verifC02WireTx{v0: verifChoice("version", 2) == 1}
	nsig := 1 + verifChoice("signatures", verifParam("maxSigs", 2))
	for i := 0; i < nsig; i++ {
		var s solana.Signature
		for j := range s {
			s[j] = byte(0x30 + 7*i + j)
		}
		s[0], s[31], s[63] = verifU8("sig"), verifU8("sig"), verifU8("sig")
		w.sigs = append(w.sigs, s)
	}
	nkeys := 2 + verifChoice("keys", verifParam("keyModes", 2))
	w.header = [3]byte{byte(nsig), 0, 1}
	for i := 0; i < nkeys; i++ {
		w.keys = append(w.keys, verifC02SymKey("key", byte(0x10*i)))
	}
	for i := range w.hash {
		w.hash[i] = byte(0xA0 + i)
	}
	w.hash[0], w.hash[31] = verifU8("blockhash"), verifU8("blockhash")
	// instruction shapes (accounts, data units) and lookup shapes (writable, readonly indices)
	instrShapes := [][2]int{{0, 0}, {2, 1}, {1, 2}, {2, 0}}[:verifParam("instrShapes", 2)]
	lookupShapes := [][2]int{{2, 1}, {0, 0}, {1, 0}}[:verifParam("lookupShapes", 2)]
	ninstr := verifChoice("instructions", verifParam("maxInstrs", 2)+1)
	for i := 0; i < ninstr; i++ {
		sh := instrShapes[verifChoice("instrShape", len(instrShapes))]
		in := solana.CompiledInstruction{ProgramIDIndex: uint16(verifU8("programIdIndex"))}
		for j := 0; j < sh[0]; j++ {
			in.Accounts = append(in.Accounts, uint16(verifU8("accountIndex")))
		}
		in.Data = verifBytes("instrData", sh[1]*verifParam("dataUnit", 2))
		w.instrs = append(w.instrs, in)
	}
	if w.v0 {
		for i := 0; i < verifChoice("lookups", verifParam("maxLookups", 2)+1); i++ {
			sh := lookupShapes[verifChoice("lookupShape", len(lookupShapes))]
			l := solana.MessageAddressTableLookup{AccountKey: verifC02SymKey("tableKey", byte(0x90+i))}
			l.WritableIndexes = verifBytes("writableIndexes", sh[0])
			l.ReadonlyIndexes = verifBytes("readonlyIndexes", sh[1])
			w.lookups = append(w.lookups, l)
		}
	}
	wire := w.wire()

	t := &verifC02Tx{slot: a.lo() + 1, hasPos: true, pos: 4, sig: w.sigs[0]}
	layout := verifChoice("layout", verifParam("layouts", 2)) * 2 // single legacy frame / two frames
	// two frames: the first frame holds the count, all signatures and its share of the message (0), or
	// ends right after the first signature (1), inside the second signature (2), right after the last (3)
	firstFrame := -1
	if layout != verifC02OneFrameLegacy {
		cuts := []int{-1, verifC02TxHead, verifC02TxHead + 17, 1 + 64*nsig}
		if nsig == 1 {
			cuts = cuts[:2]
		}
		firstFrame = cuts[verifChoice("firstFrameCut", len(cuts))]
	}
	if firstFrame >= 0 {
		t.data = a.payloadBytesExact(wire, firstFrame, layout, false)
	} else {
		t.data = a.payloadBytes(wire, 1+64*nsig, layout, false)
	}
	t.meta = a.payload("txMeta", 2, verifC02OneFrameLegacy, false)
	a.txs = append(a.txs, a.addTx(t))

	// its block: one entry holding the transaction; parent in the previous epoch
	en := &verifC02Entry{hash: make([]byte, 32), txs: []*verifC02Tx{t}}
	a.addEntry(en)
	blk := &verifC02Block{slot: t.slot, parent: a.lo() - 1, blocktime: 1600000000, entries: []*verifC02Entry{en}}
	a.addBlock(blk)

	enc := verifC02Encodings[verifChoice("encoding", len(verifC02Encodings))]
	verifC02Req.sig, verifC02Req.slot, verifC02Req.encoding, verifC02Req.rewards = t.sig, t.slot, enc, false
	verifC02Replies = nil
	raw := json.RawMessage("[opaque]")
	method := []string{"getTransaction", "getBlock"}[verifChoice("method", verifParam("methods", 2))]
	req := &jsonrpc2.Request{Method: method, ID: jsonrpc2.ID{Num: 1}, Params: &raw}
	conn := &requestContext{ctx: &fasthttp.RequestCtx{}}
	errResp, err := multi.handleRequest(context.Background(), conn, req)
	verifAssert(errResp == nil && err == nil, "C02.jsonTxBytes: archived transaction / block is answered with an error")
	if errResp != nil || err != nil || len(verifC02Replies) != 1 {
		return
	}
	var resp GetTransactionResponse
	if method == "getBlock" {
		br, ok := verifC02Replies[0].(GetBlockResponse)
		verifAssert(ok && len(br.Transactions) == 1, "C02.jsonTxBytes: getBlock reply does not list the block's transaction")
		if !ok || len(br.Transactions) != 1 {
			return
		}
		resp = br.Transactions[0]
	} else {
		r, ok := verifC02Replies[0].(GetTransactionResponse)
		verifAssert(ok, "C02.jsonTxBytes: reply is not a GetTransactionResponse")
		if !ok {
			return
		}
		resp = r
	}
	verifAssert(len(resp.Signatures) == nsig, "C02.jsonTxBytes: signature list of the answer differs from the archive")
	for i := 0; i < nsig && i < len(resp.Signatures); i++ {
		verifAssert(resp.Signatures[i] == w.sigs[i], "C02.jsonTxBytes: signature of the answer differs from the archive")
	}
	if w.v0 {
		verifAssert(resp.Version == solana.MessageVersion(0), "C02.jsonTxBytes: version of a v0 transaction is not 0")
	} else {
		verifAssert(resp.Version == "legacy", "C02.jsonTxBytes: version of a legacy transaction")
	}
	m, isTok := resp.Meta.(*verifC02MetaTok)
	verifAssert(isTok && bytes.Equal(m.b, t.meta.want), "C02.jsonTxBytes: metadata differs from the archive")

	if enc == solana.EncodingJSON {
		tx, ok := resp.Transaction.(solana.Transaction)
		verifAssert(ok, "C02.jsonTxBytes: json encoding does not answer with the decoded transaction")
		if !ok {
			return
		}
		same := len(tx.Signatures) == nsig && len(tx.Message.AccountKeys) == nkeys && len(tx.Message.Instructions) == ninstr && len(tx.Message.AddressTableLookups) == len(w.lookups)
		verifAssert(same, "C02.jsonTxBytes: shape of the decoded transaction differs from the archive")
		if !same {
			return
		}
		eq := verifC02B(tx.Message.RecentBlockhash == w.hash)
		eq &= verifC02B(tx.Message.Header.NumRequiredSignatures == w.header[0]) & verifC02B(tx.Message.Header.NumReadonlySignedAccounts == w.header[1]) & verifC02B(tx.Message.Header.NumReadonlyUnsignedAccounts == w.header[2])
		for i := range w.sigs {
			eq &= verifC02B(tx.Signatures[i] == w.sigs[i])
		}
		for i := range w.keys {
			eq &= verifC02B(tx.Message.AccountKeys[i] == w.keys[i])
		}
		for i, in := range w.instrs {
			got := tx.Message.Instructions[i]
			if len(got.Accounts) != len(in.Accounts) || len(got.Data) != len(in.Data) {
				eq = 0
				continue
			}
			eq &= verifC02B(got.ProgramIDIndex == in.ProgramIDIndex) & verifC02B(bytes.Equal(got.Data, in.Data))
			for j := range in.Accounts {
				eq &= verifC02B(got.Accounts[j] == in.Accounts[j])
			}
		}
		for i, l := range w.lookups {
			got := tx.Message.AddressTableLookups[i]
			eq &= verifC02B(got.AccountKey == l.AccountKey) & verifC02B(bytes.Equal(got.WritableIndexes, l.WritableIndexes)) & verifC02B(bytes.Equal(got.ReadonlyIndexes, l.ReadonlyIndexes))
		}
		verifAssert(eq == 1, "C02.jsonTxBytes: a field of the decoded transaction differs from the archived transaction")
	} else {
		pair, ok := resp.Transaction.([]any)
		verifAssert(ok && len(pair) == 2, "C02.jsonTxBytes: binary encoding does not answer with [data, encoding]")
		if !ok || len(pair) != 2 {
			return
		}
		tok, ok := pair[0].(*verifC02BytesTok)
		verifAssert(ok && tok.encoding == enc && pair[1] == any(enc), "C02.jsonTxBytes: transaction not encoded in the requested encoding")
		if !ok {
			return
		}
		verifAssert(bytes.Equal(tok.b, wire), "C02.jsonTxBytes: re-encoded transaction bytes differ from the archived bytes")
	}
	verifReach("end")
}
