//go:build verif

package main

// JSON-RPC side of C02: the real handleGetBlock / handleGetTransaction / handleGetBlockTime over the
// archive model of c02_model.go. Additional cuts (all listed in the registry):
//
//   - request models and reply recorders: c02_jsonreq.go.
//   - bin.UnmarshalBin and solanatxmetaparsers.ParseAnyTransactionStatusMeta inside the real
//     parseTransactionAndMetaFromNode (rewritten call sites): the decoded transaction carries the
//     signature of the loaded wire bytes and remembers the message bytes; the decoded metadata is
//     a token holding the loaded (decompressed) metadata bytes.
//   - encodeTransactionResponseBasedOnWantedEncoding (renamed): a token holding the encoding, the
//     transaction it was given and the metadata it was given (base58/base64/zstd/JSON encoders are
//     library code).

import (
	"bytes"
	"context"
	"encoding/json"
	"errors"

	"github.com/gagliardetto/solana-go"
	"github.com/sourcegraph/jsonrpc2"
	"github.com/valyala/fasthttp"
)

// --- decoder / encoder tokens --------------------------------------------------------------------

// verifC02UnmarshalTx replaces bin.UnmarshalBin(&tx, buf) in parseTransactionAndMetaFromNode: the
// wire form of a model transaction is count (1..3) ++ signatures ++ message bytes (at most 255);
// the decoded transaction carries those signatures and remembers the message bytes in the data of
// its only instruction.
func verifC02UnmarshalTx(_ any, tx *solana.Transaction, buf []byte) error {
	if len(buf) < 1 || buf[0] < 1 || buf[0] > 3 {
		return errors.New("verif model: transaction bytes outside the model")
	}
	n := int(buf[0])
	if len(buf) < 1+64*n || len(buf) > 1+64*n+255 {
		return errors.New("verif model: transaction bytes outside the model")
	}
	tx.Signatures = make([]solana.Signature, n)
	for i := range tx.Signatures {
		copy(tx.Signatures[i][:], buf[1+64*i:1+64*(i+1)])
	}
	tx.Message.Instructions = []solana.CompiledInstruction{{Data: append([]byte{}, buf[1+64*n:]...)}}
	return nil
}

type verifC02MetaTok struct{ b []byte }

// verifC02ParseMeta replaces solanatxmetaparsers.ParseAnyTransactionStatusMeta(buf).
func verifC02ParseMeta(_ any, buf []byte) (any, error) {
	return &verifC02MetaTok{b: buf}, nil
}

type verifC02EncTok struct {
	encoding solana.EncodingType
	sigs     []solana.Signature
	msg      []byte
	ninstr   int
}

func encodeTransactionResponseBasedOnWantedEncoding(encoding solana.EncodingType, tx solana.Transaction, meta any) (any, any, error) {
	t := &verifC02EncTok{encoding: encoding, sigs: append([]solana.Signature{}, tx.Signatures...), ninstr: len(tx.Message.Instructions)}
	if len(tx.Message.Instructions) > 0 {
		t.msg = tx.Message.Instructions[0].Data
	}
	return t, meta, nil
}

// verifC02SameTx: branch-free "the response pair (transaction token, meta) carries exactly the
// archived payloads of t (signatures and message bytes; metadata bytes), encoded as requested, and
// the response's signature list is the transaction's".
func verifC02SameTx(txAny, metaAny any, sigs []solana.Signature, t *verifC02Tx, enc solana.EncodingType) uint64 {
	want := t.data.want
	n := int(want[0])
	tok, ok := txAny.(*verifC02EncTok)
	if !ok || len(tok.sigs) != n || tok.ninstr != 1 || tok.encoding != enc || len(sigs) != n {
		return 0
	}
	if len(tok.msg) != len(want)-1-64*n {
		return 0
	}
	same := verifC02B(bytes.Equal(tok.msg, want[1+64*n:]))
	for i := 0; i < n; i++ {
		same &= verifC02B(bytes.Equal(tok.sigs[i][:], want[1+64*i:1+64*(i+1)])) & verifC02B(sigs[i] == tok.sigs[i])
	}
	if len(t.meta.want) == 0 {
		if metaAny != nil {
			return 0
		}
		return same
	}
	m, ok := metaAny.(*verifC02MetaTok)
	if !ok || len(m.b) != len(t.meta.want) {
		return 0
	}
	return same & verifC02B(bytes.Equal(m.b, t.meta.want))
}

// --- C02.jsonBlock ----------------------------------------------------------------------------------

func VerifC02JsonBlock() {
	sc := verifC02BlockScene(false)
	if verifC02JsonBlockOracle(sc) {
		verifReach("end")
	}
}

// verifC02JsonBlockOracle drives the real JSON-RPC dispatch (handleRequest -> handleGetBlock) for the
// scene's block and checks the recorded answer against the archive.
func verifC02JsonBlockOracle(sc *verifC02Scene) bool {
	b := sc.b
	sameEpochParent := b.slot != 0 && b.parent >= sc.a.lo()
	verifKnownFinding("C02-S13-prevhash-parent-slot0", sameEpochParent && b.parent == 0 && b.slot > 1)

	verifC02Req.slot = b.slot
	verifC02Req.encoding = verifC02Encodings[verifChoice("encoding", verifParam("encodings", len(verifC02Encodings)))]
	// rewards of the JSON answer go through protobuf and jsoniter (library): asked for only when the block has none
	verifC02Req.rewards = b.rewards == nil && verifChoice("wantRewards", 2) == 1
	verifC02Replies = nil

	raw := json.RawMessage("[opaque]")
	req := &jsonrpc2.Request{Method: "getBlock", ID: jsonrpc2.ID{Num: 1}, Params: &raw}
	conn := &requestContext{ctx: &fasthttp.RequestCtx{}}
	errResp, err := sc.multi.handleRequest(context.Background(), conn, req)
	verifAssert(errResp == nil && err == nil, "C02.jsonBlock: archived block is answered with an error")
	if errResp != nil || err != nil {
		return false
	}
	verifAssert(len(verifC02Replies) == 1, "C02.jsonBlock: not exactly one reply")
	if len(verifC02Replies) != 1 {
		return false
	}
	resp, ok := verifC02Replies[0].(GetBlockResponse)
	verifAssert(ok, "C02.jsonBlock: reply is not a GetBlockResponse")
	if !ok {
		return false
	}

	verifAssert(resp.ParentSlot == b.parent, "C02.jsonBlock: wrong parent slot")
	if b.slot != 0 {
		if b.blocktime != 0 {
			verifAssert(resp.BlockTime != nil && *resp.BlockTime == b.blocktime, "C02.jsonBlock: wrong block time")
		} else {
			verifAssert(resp.BlockTime == nil, "C02.jsonBlock: block time reported although none is recorded")
		}
	}
	if b.hasHeight {
		verifAssert(resp.BlockHeight != nil && *resp.BlockHeight == b.height, "C02.jsonBlock: wrong block height")
	} else if b.slot != 0 {
		verifAssert(resp.BlockHeight == nil, "C02.jsonBlock: block height reported although none is recorded")
	}
	last := b.entries[len(b.entries)-1]
	verifAssert(resp.Blockhash == solana.HashFromBytes(last.hash).String(), "C02.jsonBlock: blockhash is not the hash of the block's last entry")
	if sameEpochParent && len(sc.parent.entries) > 0 {
		pl := sc.parent.entries[len(sc.parent.entries)-1]
		verifAssert(resp.PreviousBlockhash != nil && *resp.PreviousBlockhash == solana.HashFromBytes(pl.hash).String(), "C02.jsonBlock: previous blockhash is not the hash of the parent block's last entry (parent in the same epoch)")
	}

	verifAssert(len(resp.Transactions) == len(sc.txs), "C02.jsonBlock: number of transactions differs from the archive")
	if len(resp.Transactions) != len(sc.txs) {
		return false
	}
	enc := verifC02Req.encoding
	for i, r := range resp.Transactions {
		if sc.hasPos {
			if i > 0 {
				verifAssert(resp.Transactions[i-1].Position < r.Position, "C02.jsonBlock: transactions not in ascending position order")
			}
			match := uint64(0)
			for _, t := range sc.txs {
				match |= verifC02B(t.pos == r.Position) & verifC02SameTx(r.Transaction, r.Meta, r.Signatures, t, enc)
			}
			verifAssert(match == 1, "C02.jsonBlock: a response transaction does not carry the payloads archived for its position")
		} else {
			verifAssert(verifC02SameTx(r.Transaction, r.Meta, r.Signatures, sc.txs[i], enc) == 1, "C02.jsonBlock: transaction / metadata differ from the archive (archive order)")
		}
		verifAssert(r.Version == "legacy", "C02.jsonBlock: version of a legacy transaction")
	}
	return true
}

// C02.jsonBlockFetchFail — as C02.grpcBlockFetchFail for handleGetBlock.
func VerifC02JsonBlockFetchFail() {
	sc := verifC02BlockScene(false)
	if len(sc.txs) == 0 {
		return
	}
	verifKnownFinding("C02-getblock-tx-fetch-failure-nil-deref", true)
	sc.a.failing = &sc.txs[verifChoice("failingTx", len(sc.txs))].c
	verifC02Req.slot = sc.b.slot
	verifC02Req.encoding = verifC02Encodings[0]
	verifC02Req.rewards = false
	verifC02Replies = nil
	raw := json.RawMessage("[opaque]")
	req := &jsonrpc2.Request{Method: "getBlock", ID: jsonrpc2.ID{Num: 1}, Params: &raw}
	conn := &requestContext{ctx: &fasthttp.RequestCtx{}}
	errResp, err := sc.multi.handleRequest(context.Background(), conn, req)
	verifAssert(errResp != nil && err != nil && len(verifC02Replies) == 0, "C02.jsonBlockFetchFail: a block whose transaction could not be read is answered without an error")
	verifReach("end")
}
