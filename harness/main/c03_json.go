//go:build verif

package main

import (
	"context"
	"encoding/json"

	"github.com/sourcegraph/jsonrpc2"
)

func VerifC03JSONBlock() {
	ne := verifParam("epochs", 1)
	nb := 1 + verifChoice("nblocks", verifParam("maxblocks", 2))
	multi, eps := verifC03Multi(ne, nb, 0)
	q := verifU64("slot")
	verifC03JSONSlot = q
	raw := json.RawMessage(nil)
	rpcErr, err := multi.handleGetBlock(context.Background(), &requestContext{}, &jsonrpc2.Request{Method: "getBlock", Params: &raw})
	archived := verifC03Archived(eps, q)
	if rpcErr != nil || err != nil {
		verifAssert(len(verifC03JSONReply) == 0, "C03.jsonblock: a result is sent although the handler reports an error")
		verifAssert(rpcErr != nil, "C03.jsonblock: handler error without a JSON-RPC error object")
		if archived == 0 {
			verifAssert(rpcErr.Code == CodeNotFound, "C03.jsonblock: slot that is not archived is not answered with the not-found code")
		} else if !verifC03AnyCollision(eps) {
			verifAssert(rpcErr.Code == jsonrpc2.CodeInternalError, "C03.jsonblock: archived slot answered with not-found")
		}
	} else {
		verifAssert(len(verifC03JSONReply) == 1, "C03.jsonblock: not exactly one result sent")
		resp, ok := verifC03JSONReply[0].(GetBlockResponse)
		verifAssert(ok && resp.BlockTime != nil, "C03.jsonblock: result is not a block object with a block time")
		verifAssert(archived == 1, "C03.jsonblock: a block is returned for a slot that is not archived")
		// identify the replied block by its block time
		okBlock := uint64(0)
		for _, e := range eps {
			for _, o := range verifC03Stores[e].objs {
				okBlock |= verifIteU64(o.slot == q && *resp.BlockTime == o.blocktime && resp.ParentSlot == o.parent, 1, 0)
			}
		}
		verifAssert(okBlock == 1, "C03.jsonblock: the replied block is not the block of the requested slot")
		verifAssert(len(verifC03JSONHeader) == 1, "C03.jsonblock: DAG-Root-CID header not set exactly once")
	}
	verifReach("end")
}
