//go:build verif

package main

// C19.filter / C19.shapes — the real StreamTransactions entry, getGsfaReadersInEpochDescendingOrderForSlotRange,
// the block-scan branch of processSlotTransactions with its filter closure and send site,
// IsSimpleVoteTransaction and getErr, over a model archive window (see c19_model.go for the cuts).
//
// Oracle (from the property text): the stream consists of exactly the transactions of the found
// blocks of the range that satisfy the filter, in ascending (slot, position) order; a skipped slot
// does not end the stream; a broken slot ends it with that error. The reference predicate is
//   (vote flag or not a simple vote) and (failed flag or status ok)
//   and (include empty or mentions one of include) and mentions none of exclude
//   and mentions all of required;   no filter = everything.
// "mentions" = static account keys plus addresses loaded through address tables.
// "simple vote" = 1..2 signatures, legacy message, exactly one instruction, of the Vote program
// (the agave rule quoted in vote.go).

import (
	"context"

	"github.com/rpcpool/yellowstone-faithful/blocktimeindex"
	"github.com/rpcpool/yellowstone-faithful/gsfa"
	old_faithful_grpc "github.com/rpcpool/yellowstone-faithful/old-faithful-proto/old-faithful-grpc"
)

const verifC19Base = uint64(431_999) // the window starts at the last slot of epoch 0

func verifC19BlockTime(slot uint64) int64 { return int64(1_600_000_000 + (slot-431_990)*3) }

// verifC19Multi builds epochs 0 and 1 with block-time indexes covering slots 431990..432009 and,
// if withGsfa, an address index handle each (never dereferenced by the scan branch).
// verifC19NoBlocktimeEpoch: this epoch is loaded without a block-time index (-1: both have one).
var verifC19NoBlocktimeEpoch = -1

// verifC19NoGsfaEpoch: with withGsfa, this epoch is loaded without address index (-1: both have one).
var verifC19NoGsfaEpoch = -1

func verifC19Multi(withGsfa bool) *MultiEpoch {
	m := NewMultiEpoch(&Options{})
	for e := uint64(0); e < 2; e++ {
		lo := uint64(431_990) + 10*e
		bt := blocktimeindex.NewIndexer(lo, lo+9, 10)
		for s := lo; s < lo+10; s++ {
			if err := bt.Set(s, verifC19BlockTime(s)); err != nil {
				panic(err)
			}
		}
		ep := &Epoch{epoch: e, blocktimeindex: bt}
		if int(e) == verifC19NoBlocktimeEpoch {
			ep.blocktimeindex = nil
		}
		if withGsfa && int(e) != verifC19NoGsfaEpoch {
			ep.gsfaReader = &gsfa.GsfaReader{}
		}
		m.epochs[e] = ep
	}
	return m
}

func verifC19B(c bool) uint64 { return verifIteU64(c, 1, 0) }

// verifC19Window builds the archive window from a template: one character per slot,
// '0'..'9' found with that many transactions, 's' skipped, 'b' broken.
func verifC19Window(tpl string, shape func(t *verifC19Tx)) {
	for _, c := range tpl {
		switch c {
		case 's':
			verifC19AddSlot(verifC19Skipped)
		case 'b':
			verifC19AddSlot(verifC19Broken)
		default:
			s := verifC19AddSlot(verifC19Found)
			for j := 0; j < int(c-'0'); j++ {
				t := s.addTx()
				// content: arbitrary within the account universe
				t.key1 = byte(verifIteU64(verifBool("mentionsA"), 1, 3))
				t.key2 = byte(verifIteU64(verifBool("mentionsB"), 2, 3))
				t.prog = byte(verifIteU64(verifBool("voteProgram"), 0, 9))
				t.failed = verifBool("failed")
				shape(t)
			}
		}
	}
}

type verifC19FilterSpec struct {
	nilFilter         bool
	voteUnset, fUnset bool
	incl, excl, req   []string
	vote, failed      bool // symbolic
}

var verifC19Lists = [][]string{nil, {verifC19AcctA}, {verifC19AcctA, verifC19AcctB}, {verifC19AcctB}}

func (f *verifC19FilterSpec) build() *old_faithful_grpc.StreamTransactionsFilter {
	if f.nilFilter {
		return nil
	}
	out := &old_faithful_grpc.StreamTransactionsFilter{AccountInclude: f.incl, AccountExclude: f.excl, AccountRequired: f.req}
	if !f.voteUnset {
		out.Vote = &f.vote
	}
	if !f.fUnset {
		out.Failed = &f.failed
	}
	return out
}

func verifC19Last(acct string) byte {
	switch acct {
	case verifC19AcctA:
		return 1
	case verifC19AcctB:
		return 2
	}
	return 3
}

// mentions(t, account) as 0/1, branch-free in the symbolic content
func (t *verifC19Tx) mentions(last byte) uint64 {
	h := verifC19B(t.key1 == last) | verifC19B(t.key2 == last)
	for _, l := range t.loadedAll() {
		if l == last {
			h = 1
		}
	}
	return h
}

func (t *verifC19Tx) simpleVote() uint64 {
	if t.nsig < 3 && !t.v0 && t.ninstr == 1 {
		return verifC19B(t.prog == 0)
	}
	return 0
}

// inclAny: the include list is empty or the transaction mentions one of its accounts (0/1).
func (f *verifC19FilterSpec) inclAny(t *verifC19Tx) uint64 {
	if f.nilFilter || len(f.incl) == 0 {
		return 1
	}
	any := uint64(0)
	for _, a := range f.incl {
		any |= t.mentions(verifC19Last(a))
	}
	return any
}

// matches is the reference predicate of the property (0/1).
func (f *verifC19FilterSpec) matches(t *verifC19Tx) uint64 {
	if f.nilFilter {
		return 1
	}
	m := uint64(1)
	if !f.voteUnset {
		m &= verifC19B(f.vote) | (1 ^ t.simpleVote())
	}
	if !f.fUnset {
		m &= verifC19B(f.failed) | (1 ^ verifC19B(t.failed))
	}
	m &= f.inclAny(t)
	for _, a := range f.excl {
		m &= 1 ^ t.mentions(verifC19Last(a))
	}
	for _, a := range f.req {
		m &= t.mentions(verifC19Last(a))
	}
	return m
}

// verifC19CheckStream checks the structure of a transaction stream (independent of the filter): only
// transactions of found blocks, each at most once, ascending (slot, position), with the bytes, meta,
// position and block time of the archived transaction. It returns the 0/1 vector "sent" by id.
func verifC19CheckStream(oblig string, stream []*old_faithful_grpc.TransactionResponse) []uint64 {
	sent := make([]uint64, len(verifC19.txs))
	prev := -1
	for _, r := range stream {
		verifAssert(r != nil && r.Transaction != nil && len(r.Transaction.Transaction) == 1, oblig+": response without the archived transaction bytes")
		id := int(r.Transaction.Transaction[0])
		verifAssert(id > prev, oblig+": stream not in ascending (slot, position) order, or a transaction sent twice")
		prev = id
		t := verifC19.txs[id]
		verifAssert(verifC19.slots[t.slotIx].outcome == verifC19Found, oblig+": transaction of a slot without block")
		verifAssert(len(r.Transaction.Meta) == 1 && int(r.Transaction.Meta[0]) == id|0x80, oblig+": meta of another transaction")
		verifAssert(r.Transaction.Index != nil && *r.Transaction.Index == uint64(t.pos), oblig+": wrong position index")
		verifAssert(r.BlockTime == verifC19BlockTime(verifC19.start+uint64(t.slotIx)), oblig+": wrong block time")
		sent[id] = 1
	}
	return sent
}

// verifC19RunScan streams the window through the real StreamTransactions (block-scan branch) and
// checks the stream against the reference.
func verifC19RunScan(oblig string, f *verifC19FilterSpec, withGsfa, openEnded bool) {
	n := len(verifC19.slots)
	verifC19.openEnded = openEnded
	if openEnded {
		verifC19.openLimit = int(maxSlotsToStream)
	}

	// what the property expects to be examined: the transactions of the found blocks before the
	// first broken slot
	var exam []*verifC19Tx
	var wantErr error
	firstSkip := -1
	skipMatters := false // C19-S17: something the property requires lies behind a skipped slot
	for i, s := range verifC19.slots {
		if s.outcome == verifC19Broken {
			wantErr = s.err
			if firstSkip >= 0 {
				skipMatters = true
			}
			break
		}
		if s.outcome == verifC19Skipped {
			if firstSkip < 0 {
				firstSkip = i
			}
			continue
		}
		if firstSkip >= 0 && len(s.txs) > 0 {
			skipMatters = true
		}
		exam = append(exam, s.txs...)
	}

	// regions of the recorded findings (see /verif/known-findings.d/C19.json)
	verifKnownFinding("C19-S17-skipped-slot-ends-stream", skipMatters)
	if !f.nilFilter && len(exam) > 0 {
		verifKnownFinding("C19-filter-flags-unset-nil-deref", f.voteUnset || f.fUnset)
		verifKnownFinding("C19-empty-include-without-index", !withGsfa && len(f.incl) == 0)
		hasAccountUsed := (!withGsfa && len(f.incl) > 0) || len(f.excl) > 0 || len(f.req) > 0
		for _, t := range exam {
			if t.lookup && hasAccountUsed {
				verifKnownFinding("C19-address-table-accounts-ignored", true)
			}
			if t.metaKind == verifC19MetaProtobuf && !f.fUnset {
				verifKnownFinding("C19-geterr-typed-nil", !t.failed && !f.failed)
			}
			if t.ninstr == 2 && t.nsig < 3 && !t.v0 && !f.voteUnset {
				verifKnownFinding("C19-vote-two-instructions", t.prog == 0 && !f.vote)
			}
		}
	}

	req := &old_faithful_grpc.StreamTransactionsRequest{StartSlot: verifC19.start, Filter: f.build()}
	if !openEnded {
		end := verifC19.start + uint64(n) - 1
		req.EndSlot = &end
	}
	ser := &verifC19TxStream{ctx: context.Background(), failAt: -1}

	err := verifC19Multi(withGsfa).StreamTransactions(req, ser)

	// structure of the stream (independent of the filter): only transactions of the examined
	// blocks, each at most once, ascending (slot, position), bytes, meta, index and block time of
	// the archived transaction.
	sent := verifC19CheckStream(oblig, ser.sent)
	verifAssert(err == wantErr, oblig+": wrong result (nil unless a slot is broken; a skipped slot is not an error)")

	// the set: first up to a uniform polarity, then exactly
	eqAll, neAll := uint64(1), uint64(1)
	for _, t := range exam {
		d := sent[t.id] ^ f.matches(t)
		eqAll &= 1 ^ d
		neAll &= d
	}
	for _, t := range verifC19.txs {
		if sent[t.id] == 1 {
			found := false
			for _, e := range exam {
				found = found || e == t
			}
			verifAssert(found, oblig+": transaction behind a broken slot sent")
		}
	}
	verifAssert(eqAll|neAll == 1, oblig+": the streamed set is neither the set selected by the filter nor its complement")
	verifReach("checked-up-to-polarity")
	verifKnownFinding("C19-S16-filter-polarity", len(exam) > 0)
	verifAssert(eqAll == 1, oblig+": the streamed set is not the set selected by the filter")

	// response labelling
	verifKnownFinding("C19-scan-slot-unset", len(ser.sent) > 0)
	for _, r := range ser.sent {
		t := verifC19.txs[int(r.Transaction.Transaction[0])]
		verifAssert(r.Slot == verifC19.start+uint64(t.slotIx), oblig+": response does not carry the slot of the transaction")
		verifAssert(r.Index != nil && *r.Index == uint64(t.pos), oblig+": response does not carry the position of the transaction")
	}
	verifReach("end")
}

// filter profiles of the quick tier: {include, exclude, required} as indexes into verifC19Lists
var verifC19Profiles = [][3]int{
	{0, 0, 0}, {1, 0, 0}, {2, 0, 0}, {1, 3, 0}, {2, 1, 0}, {1, 0, 2}, {3, 2, 3},
}
var verifC19GsfaProfiles = [][3]int{
	{0, 0, 0}, {0, 1, 0}, {0, 2, 0}, {0, 0, 2}, {0, 3, 1},
}

var verifC19Templates = []string{"2", "11", "s1", "1b", "b1", ""}

func verifC19ChooseFilter(full bool) (*verifC19FilterSpec, bool) {
	small := verifParam("small_profiles", 0) == 1 // quick tier: fewer list profiles, one unset-flag case
	f := &verifC19FilterSpec{}
	withGsfa := verifChoice("address_index_loaded", 2) == 1
	switch verifChoice("filter_kind", 3) {
	case 0:
		f.nilFilter = true
		return f, withGsfa
	case 1:
		switch {
		case small && withGsfa:
			f.fUnset = true
		case small:
			f.voteUnset = true
		case verifChoice("which_flag_unset", 2) == 0:
			f.voteUnset = true
		default:
			f.fUnset = true
		}
	}
	f.vote = verifBool("filter.vote")
	f.failed = verifBool("filter.failed")
	var p [3]int
	switch {
	case f.voteUnset || f.fUnset:
		p = [3]int{1, 0, 0}
		if withGsfa {
			p = [3]int{0, 1, 0}
		}
	case full && withGsfa:
		p = [3]int{0, verifChoice("exclude", 3), verifChoice("required", 3)}
	case full:
		p = [3]int{verifChoice("include", 3), verifChoice("exclude", 3), verifChoice("required", 3)}
	case withGsfa && small:
		p = [][3]int{{0, 1, 0}, {0, 3, 2}}[verifChoice("profile", 2)]
	case small:
		p = [][3]int{{1, 0, 0}, {2, 1, 0}, {3, 0, 2}}[verifChoice("profile", 3)]
	case withGsfa:
		p = verifC19GsfaProfiles[verifChoice("profile", len(verifC19GsfaProfiles))]
	default:
		p = verifC19Profiles[verifChoice("profile", len(verifC19Profiles))]
	}
	f.incl, f.excl, f.req = verifC19Lists[p[0]], verifC19Lists[p[1]], verifC19Lists[p[2]]
	return f, withGsfa
}

func VerifC19Filter() {
	verifC19Reset(verifC19Base)
	full := verifParam("full_filters", 0) == 1
	tpls := verifC19Templates
	if verifParam("small_profiles", 0) == 1 {
		tpls = []string{"2", "11", "s1", "1b", ""}
	}
	if verifParam("more_windows", 0) == 1 {
		tpls = append(append([]string{}, tpls...), "01", "1s", "1", "111", "1s1", "12", "21", "s", "b", "0", "ss1", "1sb")
	}
	tpl := tpls[verifChoice("window", len(tpls))]
	openEnded := false
	if verifParam("open_end", 0) == 1 && tpl == "1" {
		openEnded = verifChoice("open_end", 2) == 1
	}
	verifC19Window(tpl, func(t *verifC19Tx) {})
	f, withGsfa := verifC19ChooseFilter(full)
	verifC19RunScan("C19.filter", f, withGsfa, openEnded)
}

// C19.shapes: one block whose first transaction takes every transaction shape of the model (message
// version, address-table lookup, signature count, instruction count, meta era); thorough: followed
// by a plain legacy transaction.
func VerifC19Shapes() {
	verifC19Reset(verifC19Base)
	shape := verifChoice("shape", 8)
	first := true
	tpl := "1" // quick: the shaped transaction alone
	if verifParam("second_tx", 0) == 1 {
		tpl = "2"
	}
	verifC19Window(tpl, func(t *verifC19Tx) {
		if !first {
			return
		}
		first = false
		switch shape {
		case 0:
			t.metaKind = verifC19MetaSerdeOldest
		case 1:
			t.metaKind = verifC19MetaProtobuf
		case 2:
			t.v0, t.metaKind = true, verifC19MetaProtobuf
		case 3:
			t.v0, t.lookup, t.loaded, t.metaKind = true, true, 1, verifC19MetaProtobuf
		case 4:
			t.v0, t.lookup, t.loaded, t.metaKind = true, true, 3, verifC19MetaProtobuf
		case 5:
			t.nsig = 2
		case 6:
			t.nsig = 3
		case 7:
			t.ninstr = 2
		}
	})
	f := &verifC19FilterSpec{}
	withGsfa := verifChoice("address_index_loaded", 2) == 1
	f.vote = verifBool("filter.vote")
	f.failed = verifBool("filter.failed")
	var p [3]int
	if withGsfa {
		p = [][3]int{{0, 0, 0}, {0, 1, 0}, {0, 0, 2}}[verifChoice("profile", 3)]
	} else {
		p = [][3]int{{1, 0, 0}, {2, 3, 0}, {1, 0, 1}}[verifChoice("profile", 3)]
	}
	f.incl, f.excl, f.req = verifC19Lists[p[0]], verifC19Lists[p[1]], verifC19Lists[p[2]]
	verifC19RunScan("C19.shapes", f, withGsfa, false)
}
