//go:build verif

package main

import (
	"encoding/binary"
	"errors"
	"io"

	"github.com/ipfs/go-cid"
)

// C13 (package main) — shared by the C13 obligations of package main: the storage model and the
// CARv1 image builder. Refers to no unexported identifier of the repository.
//
// Storage model: verifC13File, an io.ReaderAt (+Close) over the complete image whose visible
// length t is symbolic (0 <= t < len): n = min(len(p), t-off), io.EOF iff n < len(p) (os.File,
// bytes.Reader); in "mmap" mode an offset beyond the end yields a non-EOF error
// (golang.org/x/exp/mmap.ReaderAt).

type verifC13File struct {
	data []byte
	t    int64
	mmap bool
}

var verifC13ErrOffset = errors.New("mmap: invalid ReadAt offset")

func (f *verifC13File) ReadAt(p []byte, off int64) (int, error) {
	if off < 0 {
		return 0, verifC13ErrOffset
	}
	if off+int64(len(p)) <= f.t { // whole request inside the visible part
		copy(p, f.data[off:])
		return len(p), nil
	}
	if f.mmap && off > f.t {
		return 0, verifC13ErrOffset
	}
	avail := f.t - off
	n := int64(verifIteU64(avail > 0, uint64(avail), 0))
	for i := range p {
		if j := off + int64(i); j < int64(len(f.data)) {
			p[i] = byte(verifIteU64(int64(i) < n, uint64(f.data[j]), uint64(p[i])))
		}
	}
	return int(n), io.EOF
}

func (f *verifC13File) Close() error { return nil }

func verifC13CidBytes(i int) []byte {
	b := []byte{0x01, 0x71, 0x12, 0x20}
	for j := 0; j < 32; j++ {
		b = append(b, byte(0x30+11*i+j))
	}
	return b
}

// verifC13Section encodes one CARv1 section: uvarint(len(cid)+len(data)) | cid | data.
func verifC13Section(cidBytes, data []byte) []byte {
	out := binary.AppendUvarint(nil, uint64(len(cidBytes)+len(data)))
	out = append(out, cidBytes...)
	return append(out, data...)
}

type verifC13Node struct {
	cid       cid.Cid
	off, size uint64
	data      []byte
}

// verifC13CarImage: a CARv1 payload: header section (uvarint length + hl arbitrary bytes), then
// nodes with arbitrary payload bytes of the given lengths.
func verifC13CarImage(hl int, lens []int) (img []byte, nodes []verifC13Node) {
	img = binary.AppendUvarint(nil, uint64(hl))
	img = append(img, verifBytes("carheader", hl)...)
	for i, l := range lens {
		cb := verifC13CidBytes(i)
		c, err := cid.Cast(cb)
		verifAssert(err == nil, "C13.car: harness CID does not parse")
		data := verifBytes("payload", l)
		sec := verifC13Section(cb, data)
		nodes = append(nodes, verifC13Node{cid: c, off: uint64(len(img)), size: uint64(len(sec)), data: data})
		img = append(img, sec...)
	}
	return
}
