//go:build verif

package main

import (
	"context"
	"errors"
	"fmt"
	"io"

	"github.com/gagliardetto/solana-go"
	"github.com/ipfs/go-cid"
	"github.com/ipfs/go-libipfs/blocks"
	carv1 "github.com/ipld/go-car"
	"github.com/rpcpool/yellowstone-faithful/blocktimeindex"
	"github.com/rpcpool/yellowstone-faithful/bucketteer"
	"github.com/rpcpool/yellowstone-faithful/carreader"
	"github.com/rpcpool/yellowstone-faithful/indexes"
	"github.com/rpcpool/yellowstone-faithful/indexmeta"
	"github.com/rpcpool/yellowstone-faithful/ipld/ipldbindcode"
	"github.com/rpcpool/yellowstone-faithful/iplddecoders"
)

// ---------------------------------------------------------------------------------------------
// C01.offsets — the real createAllIndexes over a model CAR reader and recording sinks.
//
// The CAR is k sections with arbitrary 64-bit total lengths behind a header of arbitrary size H,
// each section a block (arbitrary slot / block time), a transaction (arbitrary first signature)
// or another kind. Exactly one of the fallible steps (or none) fails.

type c01Sec struct {
	cid       cid.Cid
	length    uint64
	kind      iplddecoders.Kind
	slot      uint64
	blocktime int64
	sig       solana.Signature
}

type c01CidPut struct {
	cid          cid.Cid
	offset, size uint64
}
type c01SlotPut struct {
	slot uint64
	cid  cid.Cid
}
type c01BtSet struct {
	slot uint64
	bt   int64
}
type c01SigPut struct {
	sig solana.Signature
	cid cid.Cid
}

var (
	c01Secs   []c01Sec
	c01Next   int // sections handed out by NextNode
	c01H      uint64
	c01EpochN uint64
	c01Fail   string // the one failing site ("" = none)
	c01Failed bool   // the failing site was reached

	c01CidPuts   []c01CidPut
	c01SlotPuts  []c01SlotPut
	c01BtSets    []c01BtSet
	c01SigPuts   []c01SigPut
	c01SigExists []solana.Signature
	// one cell per index (the sealing closures run concurrently; no shared cell between them)
	c01Sealed     = map[string]*int{"cid_to_offset_and_size": new(int), "slot_to_cid": new(int), "sig_to_cid": new(int), "sig_exists": new(int), "slot_to_blocktime": new(int)}
	c01PutAfterOK bool // a sink was written after its Seal (would be lost)
	c01CidW       *indexes.CidToOffsetAndSize_Writer
	c01SlotW      *indexes.SlotToCid_Writer
	c01SigW       *indexes.SigToCid_Writer
	c01SigExistsW *bucketteer.Writer
	c01BtIndex    *blocktimeindex.Index
)

func c01FailHere(site string) bool {
	if c01Fail == site {
		c01Failed = true
		return true
	}
	return false
}

func c01Err(site string) error { return fmt.Errorf("injected failure at %s", site) }

// --- models of the callees outside package main (redirected by the engine, see ext_C01.go)

func c01Model_carreaderNew(r io.ReadCloser) (*carreader.CarReader, error) {
	if c01FailHere("carreader.New") {
		return nil, c01Err("carreader.New")
	}
	return &carreader.CarReader{Header: &carv1.CarHeader{Roots: []cid.Cid{c01Cid(100)}, Version: 1}}, nil
}

func c01Model_HeaderSize(cr *carreader.CarReader) (uint64, error) {
	if c01FailHere("HeaderSize") {
		return 0, c01Err("HeaderSize")
	}
	return c01H, nil
}

func c01Model_NextNode(cr *carreader.CarReader) (cid.Cid, uint64, *blocks.BasicBlock, error) {
	if c01FailHere(fmt.Sprintf("NextNode:%d", c01Next)) {
		// e.g. a truncated section: not io.EOF
		return cid.Undef, 0, nil, fmt.Errorf("failed to read node info: %w", io.ErrUnexpectedEOF)
	}
	if c01Next == len(c01Secs) {
		return cid.Undef, 0, nil, fmt.Errorf("failed to read node info: %w", fmt.Errorf("failed to read section length: %w", fmt.Errorf("failed to peek: %w", io.EOF)))
	}
	s := c01Secs[c01Next]
	c01Next++
	// payload: CBOR array header, then the kind; the rest is only seen by the (cut) decoders
	bl, err := blocks.NewBlockWithCid([]byte{0x86, byte(s.kind), 0x00}, s.cid)
	verifAssert(err == nil, "C01.offsets: harness block")
	return s.cid, s.length, bl, nil
}

func c01Cur() (int, c01Sec) { return c01Next - 1, c01Secs[c01Next-1] }

func c01Model_DecodeBlock(b []byte) (*ipldbindcode.Block, error) {
	i, s := c01Cur()
	verifAssert(s.kind == iplddecoders.KindBlock, "C01.offsets: DecodeBlock called for a section that is not a block")
	if c01FailHere(fmt.Sprintf("DecodeBlock:%d", i)) {
		return nil, c01Err("DecodeBlock")
	}
	return &ipldbindcode.Block{Kind: int(iplddecoders.KindBlock), Slot: int(s.slot), Meta: ipldbindcode.SlotMeta{Blocktime: int(s.blocktime)}}, nil
}

func c01Model_DecodeTransaction(b []byte) (*ipldbindcode.Transaction, error) {
	i, s := c01Cur()
	verifAssert(s.kind == iplddecoders.KindTransaction, "C01.offsets: DecodeTransaction called for a section that is not a transaction")
	if c01FailHere(fmt.Sprintf("DecodeTransaction:%d", i)) {
		return nil, c01Err("DecodeTransaction")
	}
	return &ipldbindcode.Transaction{Kind: int(iplddecoders.KindTransaction), Data: ipldbindcode.DataFrame{Data: []byte{1}}}, nil
}

// model of readFirstSignature (renamed in the overlay; the compact-u16 / bincode reader is cut)
func readFirstSignature(buf []byte) (solana.Signature, error) {
	i, s := c01Cur()
	if c01FailHere(fmt.Sprintf("readFirstSignature:%d", i)) {
		return solana.Signature{}, c01Err("readFirstSignature")
	}
	return s.sig, nil
}

// model of carCountItemsByFirstByte (renamed): the counts of the same CAR and its Epoch object
func carCountItemsByFirstByte(carPath string) (map[byte]uint64, *ipldbindcode.Epoch, error) {
	if c01FailHere("count") {
		return nil, nil, c01Err("count")
	}
	counts := map[byte]uint64{}
	for _, s := range c01Secs {
		counts[byte(s.kind)]++
	}
	if c01FailHere("noEpochObject") {
		return counts, nil, nil
	}
	return counts, &ipldbindcode.Epoch{Kind: int(iplddecoders.KindEpoch), Epoch: int(c01EpochN)}, nil
}

// models of the three NewBuilder_* constructors (renamed): temp dirs and the hash-index builder are cut
func NewBuilder_CidToOffset(epoch uint64, rootCid cid.Cid, network indexes.Network, tmpDir string, numItems uint64) (*indexes.CidToOffsetAndSize_Writer, error) {
	verifAssert(epoch == c01EpochN && rootCid.Equals(c01Cid(100)), "C01.offsets: cid_to_offset index created for another epoch/root")
	verifAssert(numItems == uint64(len(c01Secs)), "C01.offsets: cid_to_offset index sized for a different number of items")
	if c01FailHere("NewBuilder_CidToOffset") {
		return nil, c01Err("NewBuilder_CidToOffset")
	}
	c01CidW = &indexes.CidToOffsetAndSize_Writer{}
	return c01CidW, nil
}

func NewBuilder_SlotToCid(epoch uint64, rootCid cid.Cid, network indexes.Network, tmpDir string, numItems uint64) (*indexes.SlotToCid_Writer, error) {
	verifAssert(epoch == c01EpochN && rootCid.Equals(c01Cid(100)), "C01.offsets: slot_to_cid index created for another epoch/root")
	n := 0
	for _, s := range c01Secs {
		if s.kind == iplddecoders.KindBlock {
			n++
		}
	}
	verifAssert(numItems == uint64(n), "C01.offsets: slot_to_cid index not sized for the number of blocks")
	if c01FailHere("NewBuilder_SlotToCid") {
		return nil, c01Err("NewBuilder_SlotToCid")
	}
	c01SlotW = &indexes.SlotToCid_Writer{}
	return c01SlotW, nil
}

func NewBuilder_SignatureToCid(epoch uint64, rootCid cid.Cid, network indexes.Network, tmpDir string, numItems uint64) (*indexes.SigToCid_Writer, error) {
	verifAssert(epoch == c01EpochN && rootCid.Equals(c01Cid(100)), "C01.offsets: sig_to_cid index created for another epoch/root")
	n := 0
	for _, s := range c01Secs {
		if s.kind == iplddecoders.KindTransaction {
			n++
		}
	}
	verifAssert(numItems == uint64(n), "C01.offsets: sig_to_cid index not sized for the number of transactions")
	if c01FailHere("NewBuilder_SignatureToCid") {
		return nil, c01Err("NewBuilder_SignatureToCid")
	}
	c01SigW = &indexes.SigToCid_Writer{}
	return c01SigW, nil
}

// sinks
func c01Model_CidToOffsetPut(w *indexes.CidToOffsetAndSize_Writer, c cid.Cid, offset uint64, size uint64) error {
	verifAssert(w == c01CidW, "C01.offsets: Put on a foreign writer")
	if *c01Sealed["cid_to_offset_and_size"] > 0 {
		c01PutAfterOK = true
	}
	if c01FailHere(fmt.Sprintf("cid_to_offset.Put:%d", len(c01CidPuts))) {
		return c01Err("cid_to_offset.Put")
	}
	c01CidPuts = append(c01CidPuts, c01CidPut{c, offset, size})
	return nil
}

func c01Model_SlotToCidPut(w *indexes.SlotToCid_Writer, slot uint64, c cid.Cid) error {
	verifAssert(w == c01SlotW, "C01.offsets: Put on a foreign writer")
	if *c01Sealed["slot_to_cid"] > 0 {
		c01PutAfterOK = true
	}
	if c01FailHere(fmt.Sprintf("slot_to_cid.Put:%d", len(c01SlotPuts))) {
		return c01Err("slot_to_cid.Put")
	}
	c01SlotPuts = append(c01SlotPuts, c01SlotPut{slot, c})
	return nil
}

func c01Model_SigToCidPut(w *indexes.SigToCid_Writer, sig solana.Signature, c cid.Cid) error {
	verifAssert(w == c01SigW, "C01.offsets: Put on a foreign writer")
	if *c01Sealed["sig_to_cid"] > 0 {
		c01PutAfterOK = true
	}
	if c01FailHere(fmt.Sprintf("sig_to_cid.Put:%d", len(c01SigPuts))) {
		return c01Err("sig_to_cid.Put")
	}
	c01SigPuts = append(c01SigPuts, c01SigPut{sig, c})
	return nil
}

func c01Seal(name string) error {
	if c01FailHere("Seal:" + name) {
		return c01Err("Seal:" + name)
	}
	*c01Sealed[name]++
	return nil
}

func c01Model_CidToOffsetSeal(w *indexes.CidToOffsetAndSize_Writer, ctx context.Context, dstDir string) error {
	return c01Seal("cid_to_offset_and_size")
}
func c01Model_SlotToCidSeal(w *indexes.SlotToCid_Writer, ctx context.Context, dstDir string) error {
	return c01Seal("slot_to_cid")
}
func c01Model_SigToCidSeal(w *indexes.SigToCid_Writer, ctx context.Context, dstDir string) error {
	return c01Seal("sig_to_cid")
}
func c01Model_CidToOffsetClose(w *indexes.CidToOffsetAndSize_Writer) error { return nil }
func c01Model_SlotToCidClose(w *indexes.SlotToCid_Writer) error            { return nil }
func c01Model_SigToCidClose(w *indexes.SigToCid_Writer) error              { return nil }
func c01Model_CidToOffsetPath(w *indexes.CidToOffsetAndSize_Writer) string {
	return "/memfs/idx/cid-to-offset-and-size.index"
}
func c01Model_SlotToCidPath(w *indexes.SlotToCid_Writer) string {
	return "/memfs/idx/slot-to-cid.index"
}
func c01Model_SigToCidPath(w *indexes.SigToCid_Writer) string { return "/memfs/idx/sig-to-cid.index" }

func c01Model_bucketteerNewWriter(path string) (*bucketteer.Writer, error) {
	if c01FailHere("bucketteer.NewWriter") {
		return nil, c01Err("bucketteer.NewWriter")
	}
	c01SigExistsW = &bucketteer.Writer{}
	return c01SigExistsW, nil
}

func c01Model_bucketteerPut(w *bucketteer.Writer, sig [64]byte) {
	verifAssert(w == c01SigExistsW, "C01.offsets: Put on a foreign writer")
	if *c01Sealed["sig_exists"] > 0 {
		c01PutAfterOK = true
	}
	c01SigExists = append(c01SigExists, solana.Signature(sig))
}

func c01Model_bucketteerSeal(w *bucketteer.Writer, meta indexmeta.Meta) (int64, error) {
	if e, ok := meta.GetUint64(indexmeta.MetadataKey_Epoch); !ok || e != c01EpochN {
		verifFail("C01.offsets: sig_exists sealed with the wrong epoch metadata")
	}
	return 0, c01Seal("sig_exists")
}
func c01Model_bucketteerClose(w *bucketteer.Writer) error { return nil }

func c01Model_blocktimeNewForEpoch(epoch uint64) *blocktimeindex.Index {
	verifAssert(epoch == c01EpochN, "C01.offsets: block-time index created for another epoch")
	c01BtIndex = &blocktimeindex.Index{}
	return c01BtIndex
}

func c01Model_blocktimeSet(idx *blocktimeindex.Index, slot uint64, t int64) error {
	verifAssert(idx == c01BtIndex, "C01.offsets: Set on a foreign index")
	if *c01Sealed["slot_to_blocktime"] > 0 {
		c01PutAfterOK = true
	}
	if c01FailHere(fmt.Sprintf("blocktime.Set:%d", len(c01BtSets))) {
		return c01Err("blocktime.Set") // e.g. a slot outside the epoch
	}
	c01BtSets = append(c01BtSets, c01BtSet{slot, t})
	return nil
}

func c01Model_blocktimeWriteTo(idx *blocktimeindex.Index, w io.Writer) (int64, error) {
	return 0, c01Seal("slot_to_blocktime") // e.g. a block time that does not fit 32 bits
}

func c01Model_blocktimeFormatFilename(epoch uint64, rootCid cid.Cid, network indexes.Network) string {
	return "slot-to-blocktime.index"
}

var c01Kinds = []iplddecoders.Kind{iplddecoders.KindBlock, iplddecoders.KindTransaction, iplddecoders.KindEntry}

// c01Sites lists the fallible steps createAllIndexes goes through for the chosen CAR shape.
func c01Sites() []string {
	sites := []string{"carreader.New", "count", "noEpochObject", "NewBuilder_CidToOffset", "NewBuilder_SlotToCid",
		"NewBuilder_SignatureToCid", "bucketteer.NewWriter", "HeaderSize"}
	nb, nt := 0, 0
	for i, s := range c01Secs {
		sites = append(sites, fmt.Sprintf("NextNode:%d", i), fmt.Sprintf("cid_to_offset.Put:%d", i))
		switch s.kind {
		case iplddecoders.KindBlock:
			sites = append(sites, fmt.Sprintf("DecodeBlock:%d", i), fmt.Sprintf("slot_to_cid.Put:%d", nb), fmt.Sprintf("blocktime.Set:%d", nb))
			nb++
		case iplddecoders.KindTransaction:
			sites = append(sites, fmt.Sprintf("DecodeTransaction:%d", i), fmt.Sprintf("readFirstSignature:%d", i), fmt.Sprintf("sig_to_cid.Put:%d", nt))
			nt++
		}
	}
	sites = append(sites, fmt.Sprintf("NextNode:%d", len(c01Secs)))
	for _, n := range []string{"cid_to_offset_and_size", "slot_to_cid", "sig_to_cid", "sig_exists", "slot_to_blocktime"} {
		sites = append(sites, "Seal:"+n)
	}
	return sites
}

func VerifC01Offsets() {
	kmin, kmax := verifParam("kmin", 0), verifParam("kmax", 2)
	k := kmin + verifChoice("sections", kmax-kmin+1)
	// well-formed CAR within the limits of the index formats: header + sections below 2^48 bytes,
	// every section at most 2^24-1 bytes, slots inside the epoch, block times in [0, 2^32)
	c01H = verifU64("headerSize")
	c01EpochN = verifU64("epoch")
	verifAssume(c01H < 1<<47)
	verifAssume(c01EpochN <= (1<<64-1)/432000-1)
	for i := 0; i < k; i++ {
		s := c01Sec{cid: c01Cid(i), length: verifU64("sectionLength")}
		verifAssume(s.length <= indexes.MaxUint24)
		if verifParam("fixedKinds", 0) == 1 {
			s.kind = c01Kinds[i%len(c01Kinds)]
		} else {
			s.kind = c01Kinds[verifChoice("kind", len(c01Kinds))]
		}
		switch s.kind {
		case iplddecoders.KindBlock:
			d := verifU64("slotInEpoch")
			verifAssume(d < 432000)
			s.slot, s.blocktime = c01EpochN*432000+d, verifI64("blocktime")
			verifAssume(s.blocktime >= 0)
			verifAssume(s.blocktime <= 0xFFFFFFFF)
		case iplddecoders.KindTransaction:
			copy(s.sig[:], verifBytes("sig", 64))
		}
		c01Secs = append(c01Secs, s)
	}
	if verifParam("failures", 1) != 0 {
		sites := c01Sites()
		if n := verifParam("failures", 1); n > 1 {
			sites = sites[len(sites)-5:][:n-1] // only the first n-1 sealing steps (C01.seal*)
		}
		if f := verifChoice("failingSite", len(sites)+1); f > 0 {
			c01Fail = sites[f-1]
		}
	}
	// the sealing closures of the pinned tree share the captured variable err (see C01.sealmask)
	verifKnownFinding("C01-seal-shared-err", verifParam("sharedErrRegion", 0) == 1 &&
		(c01Fail == "Seal:cid_to_offset_and_size" || c01Fail == "Seal:slot_to_cid" || c01Fail == "Seal:sig_to_cid" || c01Fail == "Seal:sig_exists" || verifParam("raceCheck", 0) == 1))
	carPath := verifTempPath("epoch.car")
	verifMemFile(carPath, []byte{0}) // existence only; the reader is a model
	paths, numTotal, err := createAllIndexes(context.Background(), indexes.NetworkMainnet, verifTempPath("tmp"), carPath, "/memfs/idx")

	if c01Fail != "" {
		verifAssert(c01Failed, "C01.offsets: createAllIndexes never reached a step it has to perform")
		verifAssert(err != nil, "C01.offsets: createAllIndexes reports success although a step failed (an index is missing or incomplete)")
		verifReach("end-failed")
		return
	}
	if err != nil {
		verifTrace("createAllIndexes", err.Error())
	}
	verifAssert(err == nil, "C01.offsets: createAllIndexes fails although no step failed")
	verifAssert(numTotal == uint64(k), "C01.offsets: wrong total item count returned")
	verifAssert(c01Next == k, "C01.offsets: not every section was read")

	// (i) every section is recorded at its true position: H + Σ earlier lengths, with its own length
	verifAssert(len(c01CidPuts) == k, "C01.offsets: number of cid_to_offset_and_size entries differs from the number of sections")
	off := c01H
	var nb, nt int
	for i, s := range c01Secs {
		p := c01CidPuts[i]
		verifAssert(p.cid.Equals(s.cid), "C01.offsets: entry recorded under another CID")
		verifAssert(p.offset == off, "C01.offsets: recorded offset is not header size + lengths of all earlier sections")
		verifAssert(p.size == s.length, "C01.offsets: recorded size is not the section's length")
		off += s.length
		switch s.kind {
		case iplddecoders.KindBlock:
			verifAssert(nb < len(c01SlotPuts) && nb < len(c01BtSets), "C01.offsets: a block has no slot_to_cid / block-time entry")
			verifAssert(c01SlotPuts[nb].slot == s.slot && c01SlotPuts[nb].cid.Equals(s.cid), "C01.offsets: slot_to_cid entry is not (block's slot, block's CID)")
			verifAssert(c01BtSets[nb].slot == s.slot && c01BtSets[nb].bt == s.blocktime, "C01.offsets: block-time entry is not (block's slot, block's time)")
			nb++
		case iplddecoders.KindTransaction:
			verifAssert(nt < len(c01SigPuts) && nt < len(c01SigExists), "C01.offsets: a transaction has no sig_to_cid / sig_exists entry")
			verifAssert(c01SigPuts[nt].sig == s.sig && c01SigPuts[nt].cid.Equals(s.cid), "C01.offsets: sig_to_cid entry is not (first signature, transaction's CID)")
			verifAssert(c01SigExists[nt] == s.sig, "C01.offsets: sig_exists entry is not the first signature")
			nt++
		}
	}
	verifAssert(len(c01SlotPuts) == nb && len(c01BtSets) == nb && len(c01SigPuts) == nt && len(c01SigExists) == nt, "C01.offsets: entries recorded for sections that are neither blocks nor transactions")
	// every index is sealed exactly once, after its last entry, and its path is reported
	for _, n := range []string{"cid_to_offset_and_size", "slot_to_cid", "sig_to_cid", "sig_exists", "slot_to_blocktime"} {
		verifAssert(*c01Sealed[n] == 1, "C01.offsets: success reported but an index was not sealed exactly once")
	}
	verifAssert(!c01PutAfterOK, "C01.offsets: an entry was written after its index was sealed")
	verifAssert(paths != nil && paths.CidToOffsetAndSize == "/memfs/idx/cid-to-offset-and-size.index" && paths.SlotToCid == "/memfs/idx/slot-to-cid.index" &&
		paths.SignatureToCid == "/memfs/idx/sig-to-cid.index" && paths.SignatureExists != "" && paths.SlotToBlocktime == "/memfs/idx/slot-to-blocktime.index",
		"C01.offsets: reported index paths are not the sealed files")
	_ = errors.Is
	verifC01YieldShared()
	verifReach("end")
}

// verifC01YieldShared is a scheduling point on one shared object (engine intrinsic, ext_C01.go):
// all such points are mutually dependent, so every order of the code sections they delimit is
// explored. Natively it does nothing.
func verifC01YieldShared() {}
