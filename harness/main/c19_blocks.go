//go:build verif

package main

// C19.blocks — the real StreamBlocks and blockContainsAccounts (grpc-server.go) over a model
// archive window: every found block of the range that passes the account filter is sent exactly
// once, in ascending slot order; skipped slots do not end the stream; a broken slot, a failed
// Send or a cancelled stream context ends it with that error.

import (
	"context"

	"github.com/gagliardetto/solana-go"
	old_faithful_grpc "github.com/rpcpool/yellowstone-faithful/old-faithful-proto/old-faithful-grpc"
	solanatxmetaparsers "github.com/rpcpool/yellowstone-faithful/solana-tx-meta-parsers"
)

// transaction kinds of the blocks obligation (all concrete: blockContainsAccounts looks accounts
// up by their base58 text)
const (
	verifC19BkOther   = iota // static accounts outside the filter universe
	verifC19BkStaticA        // mentions A statically
	verifC19BkStaticB        // mentions B statically
	verifC19BkLoadedA        // v0 transaction: A is loaded through an address table (recorded in the protobuf meta)
	verifC19BkBadWire        // transaction bytes do not decode (the code logs and skips it)
	verifC19BkBadMeta        // meta does not parse (the code logs and goes on)
	verifC19BkNumKinds
)

// scenario of C19.loaded: one block holding (optionally a transaction outside the filter universe and)
// one transaction in every meta container variant; the v0 / protobuf variant loads 0..2 writable
// and 0..2 readonly addresses through its address table, all combinations over {A, B, C}.
const verifC19ScenLoaded = 99

var verifC19BlocksName = "C19.blocks" // obligation id for the assertion labels

var (
	verifC19WLists  = [][]byte{nil, {1}, {3}, {3, 1}}
	verifC19ROLists = [][]byte{nil, {1}, {2}, {3}, {3, 1}, {3, 2}}
)

func verifC19LoadedBlock(s *verifC19Slot) {
	if verifChoice("leading_other_tx", 2) == 1 {
		s.addTx().metaKind = verifC19MetaSerdeLatest
	}
	t := s.addTx()
	if verifChoice("static_A", 2) == 1 {
		t.key1 = 1
	}
	switch verifChoice("meta_variant", 4) {
	case 0:
		t.v0, t.lookup, t.metaKind = true, true, verifC19MetaProtobuf
		t.loadedW = verifC19WLists[verifChoice("writable_loaded", len(verifC19WLists))]
		t.loadedRO = verifC19ROLists[verifChoice("readonly_loaded", len(verifC19ROLists))]
	case 1:
		t.metaKind = verifC19MetaSerdeLatest
	case 2:
		t.metaKind = verifC19MetaSerdeOldest
	default:
		t.metaKind = verifC19MetaProtobuf // legacy message, protobuf meta without loaded addresses
	}
}

func verifC19BlocksBody(forced int) {
	// Scenarios: 0 plain (full window enumeration); the others use a reduced enumeration
	// (at most one transaction per block, filters nil and [A]):
	// 1 open-ended request, 2 stream context already cancelled, 3 a single block of up to two
	// transactions of all six kinds (incl. undecodable bytes / unparsable meta) under all filters,
	// 4.. the k-th Send fails.
	scen := forced
	if scen < 0 {
		scen = verifChoice("scenario", 4+verifParam("send_failures", 1))
	}
	N := verifParam("max_slots", 2)
	T := verifParam("max_txs", 2)
	kinds := verifParam("kinds", 4)
	nfilters := 5
	switch {
	case scen == verifC19ScenLoaded:
		N, nfilters = 1, 4
	case scen == 3:
		N, T, kinds = 1, 2, int(verifC19BkNumKinds)
	case scen != 0:
		N, T, nfilters = verifParam("side_max_slots", 2), 1, 2
	}

	// An open-ended request (no end slot) visits maxSlotsToStream+1 slots: concrete start there,
	// arbitrary start otherwise.
	openEnded := scen == 1
	start := uint64(431_990)
	if !openEnded {
		start = verifU64("start")
		verifAssume(start >= 1 && start < 1<<63)
	}
	verifC19Reset(start)
	verifC19.openEnded = openEnded
	if openEnded {
		verifC19.openLimit = int(maxSlotsToStream)
	}
	solanatxmetaparsers.VerifParseAnyHook = verifC19ParseAnyMeta

	n := 1
	if scen != verifC19ScenLoaded {
		n = verifChoice("nslots", N+1) // 0: empty range (end = start-1)
	}
	for i := 0; i < n; i++ {
		if scen == verifC19ScenLoaded {
			verifC19LoadedBlock(verifC19AddSlot(verifC19Found))
			continue
		}
		s := verifC19AddSlot(verifChoice("outcome", 3))
		if s.outcome != verifC19Found {
			continue
		}
		tmax := T
		if n > 2 && scen == 0 {
			tmax = verifParam("max_txs_long", T) // windows of more than two slots
		}
		ntx := verifChoice("ntx", tmax+1)
		for j := 0; j < ntx; j++ {
			t := s.addTx()
			t.metaKind = verifC19MetaSerdeLatest
			switch verifChoice("kind", kinds) {
			case verifC19BkStaticA:
				t.key1 = 1
			case verifC19BkStaticB:
				t.key2 = 2
			case verifC19BkLoadedA:
				t.v0, t.lookup, t.loaded, t.metaKind = true, true, 1, verifC19MetaProtobuf
			case verifC19BkBadWire:
				t.badWire = true
			case verifC19BkBadMeta:
				t.badMeta = true
			}
		}
	}

	// request
	req := &old_faithful_grpc.StreamBlocksRequest{StartSlot: start}
	var accounts []string
	switch verifChoice("filter", nfilters) {
	case 0:
	case 1:
		accounts = []string{verifC19AcctA}
	case 2:
		accounts = []string{verifC19AcctA, verifC19AcctB}
	case 3:
		accounts = []string{verifC19AcctB}
	case 4:
		req.Filter = &old_faithful_grpc.StreamBlocksFilter{}
	}
	if accounts != nil {
		req.Filter = &old_faithful_grpc.StreamBlocksFilter{AccountInclude: accounts}
	}
	if !openEnded { // otherwise no end slot: start+maxSlotsToStream
		end := start + uint64(n) - 1
		req.EndSlot = &end
	}

	ser := &verifC19BlockStream{ctx: context.Background(), failAt: -1}
	if scen >= 4 && scen != verifC19ScenLoaded {
		ser.failAt = scen - 4
	}
	cancelled := scen == 2
	if cancelled {
		ctx, cancel := context.WithCancel(context.Background())
		cancel()
		ser.ctx = ctx
	}

	// expected stream, from the property text
	inFilter := func(last byte) bool {
		for _, a := range accounts {
			if solana.MustPublicKeyFromBase58(a) == verifC19Key(last) {
				return true
			}
		}
		return false
	}
	var want []*old_faithful_grpc.BlockResponse
	var wantErr error
	wantCalls := 0
	nilMeta := false // C19-blocks-meta-nil: a transaction whose meta does not parse is inspected for loaded accounts
	if cancelled {
		if n > 0 || openEnded { // the context is polled once per slot
			wantErr = context.Canceled
		}
	} else {
	slots:
		for _, s := range verifC19.slots {
			wantCalls++
			switch s.outcome {
			case verifC19Skipped:
				continue
			case verifC19Broken:
				wantErr = s.err
				break slots
			}
			pass := len(accounts) == 0
			for _, t := range s.txs {
				if pass {
					break
				}
				if t.badWire {
					continue
				}
				viaTable := false // loaded addresses are known only from a meta that parses
				if !t.badMeta {
					for _, l := range t.loadedAll() {
						viaTable = viaTable || inFilter(l)
					}
				}
				if inFilter(t.key1) || inFilter(t.key2) || viaTable {
					pass = true
				} else if t.badMeta {
					nilMeta = true
				}
			}
			if pass {
				if len(want) == ser.failAt {
					wantErr = verifC19SendErr
					break slots
				}
				want = append(want, s.block)
			}
		}
		if wantErr == nil && verifC19.openEnded {
			wantCalls = int(maxSlotsToStream) + 1
		}
	}

	verifKnownFinding("C19-blocks-meta-nil", nilMeta)

	err := multiForC19().StreamBlocks(req, ser)

	verifAssert(err == wantErr, verifC19BlocksName+": StreamBlocks returns the wrong error (a skipped slot must not end the stream; a broken slot, failed Send or cancelled context must)")
	verifAssert(verifC19.getBlockCalls == wantCalls, verifC19BlocksName+": wrong number of slots visited")
	verifAssert(len(ser.sent) == len(want), verifC19BlocksName+": wrong number of blocks sent")
	for i := range want {
		verifAssert(ser.sent[i] == want[i], verifC19BlocksName+": wrong block sent (every found block of the range passing the filter, once, ascending)")
	}
	verifReach("end")
}

func multiForC19() *MultiEpoch {
	return NewMultiEpoch(&Options{})
}

func VerifC19Blocks() {
	verifC19BlocksName = "C19.blocks"
	verifC19BlocksBody(-1)
}

// C19.loaded: the account filter of StreamBlocks over every way a block can mention an account
// (static key, writable / readonly address loaded through an address table) and every meta container.
func VerifC19Loaded() {
	verifC19BlocksName = "C19.loaded"
	verifC19BlocksBody(verifC19ScenLoaded)
}
