//go:build verif

package main

// C19.blocks — the real StreamBlocks and blockContainsAccounts (grpc-server.go) over a model
// archive window: every found block of the range that passes the account filter is sent exactly
// once, in ascending slot order; skipped slots do not end the stream; a broken slot, a failed
// Send or a cancelled stream context ends it with that error.

import (
	"context"

	"github.com/gagliardetto/solana-go"
	old_faithful_grpc "github.com/rpcpool/yellowstone-faithful/old-faithful-proto/old-faithful-grpc"
	solanatxmetaparsers "github.com/rpcpool/yellowstone-faithful/solana-tx-meta-parsers"
)

// transaction kinds of the blocks obligation (all concrete: blockContainsAccounts looks accounts
// up by their base58 text)
const (
	verifC19BkOther   = iota // static accounts outside the filter universe
	verifC19BkStaticA        // mentions A statically
	verifC19BkStaticB        // mentions B statically
	verifC19BkLoadedA        // v0 transaction: A is loaded through an address table (recorded in the protobuf meta)
	verifC19BkBadWire        // transaction bytes do not decode (the code logs and skips it)
	verifC19BkBadMeta        // meta does not parse (the code logs and goes on)
	verifC19BkNumKinds
)

func verifC19BlocksBody() {
	// Scenarios: 0 plain (full window enumeration); the others use a reduced enumeration
	// (at most one transaction per block, filters nil and [A]):
	// 1 open-ended request, 2 stream context already cancelled, 3 a single block of up to two
	// transactions of all six kinds (incl. undecodable bytes / unparsable meta) under all filters,
	// 4.. the k-th Send fails.
	scen := verifChoice("scenario", 4+verifParam("send_failures", 1))
	N := verifParam("max_slots", 2)
	T := verifParam("max_txs", 2)
	kinds := verifParam("kinds", 4)
	nfilters := 5
	switch {
	case scen == 3:
		N, T, kinds = 1, 2, int(verifC19BkNumKinds)
	case scen != 0:
		N, T, nfilters = verifParam("side_max_slots", 2), 1, 2
	}

	// An open-ended request (no end slot) visits maxSlotsToStream+1 slots: concrete start there,
	// arbitrary start otherwise.
	openEnded := scen == 1
	start := uint64(431_990)
	if !openEnded {
		start = verifU64("start")
		verifAssume(start >= 1 && start < 1<<63)
	}
	verifC19Reset(start)
	verifC19.openEnded = openEnded
	solanatxmetaparsers.VerifParseAnyHook = verifC19ParseAnyMeta

	n := verifChoice("nslots", N+1) // 0: empty range (end = start-1)
	for i := 0; i < n; i++ {
		s := verifC19AddSlot(verifChoice("outcome", 3))
		if s.outcome != verifC19Found {
			continue
		}
		tmax := T
		if n > 2 && scen == 0 {
			tmax = verifParam("max_txs_long", T) // windows of more than two slots
		}
		ntx := verifChoice("ntx", tmax+1)
		for j := 0; j < ntx; j++ {
			t := s.addTx()
			t.metaKind = verifC19MetaSerdeLatest
			switch verifChoice("kind", kinds) {
			case verifC19BkStaticA:
				t.key1 = 1
			case verifC19BkStaticB:
				t.key2 = 2
			case verifC19BkLoadedA:
				t.v0, t.lookup, t.loaded, t.metaKind = true, true, 1, verifC19MetaProtobuf
			case verifC19BkBadWire:
				t.badWire = true
			case verifC19BkBadMeta:
				t.badMeta = true
			}
		}
	}

	// request
	req := &old_faithful_grpc.StreamBlocksRequest{StartSlot: start}
	var accounts []string
	switch verifChoice("filter", nfilters) {
	case 0:
	case 1:
		accounts = []string{verifC19AcctA}
	case 2:
		accounts = []string{verifC19AcctA, verifC19AcctB}
	case 3:
		accounts = []string{verifC19AcctB}
	case 4:
		req.Filter = &old_faithful_grpc.StreamBlocksFilter{}
	}
	if accounts != nil {
		req.Filter = &old_faithful_grpc.StreamBlocksFilter{AccountInclude: accounts}
	}
	if !openEnded { // otherwise no end slot: start+maxSlotsToStream
		end := start + uint64(n) - 1
		req.EndSlot = &end
	}

	ser := &verifC19BlockStream{ctx: context.Background(), failAt: -1}
	if scen >= 4 {
		ser.failAt = scen - 4
	}
	cancelled := scen == 2
	if cancelled {
		ctx, cancel := context.WithCancel(context.Background())
		cancel()
		ser.ctx = ctx
	}

	// expected stream, from the property text
	inFilter := func(last byte) bool {
		for _, a := range accounts {
			if solana.MustPublicKeyFromBase58(a) == verifC19Key(last) {
				return true
			}
		}
		return false
	}
	var want []*old_faithful_grpc.BlockResponse
	var wantErr error
	wantCalls := 0
	nilMeta := false // C19-blocks-meta-nil: a transaction whose meta does not parse is inspected for loaded accounts
	if cancelled {
		if n > 0 || openEnded { // the context is polled once per slot
			wantErr = context.Canceled
		}
	} else {
	slots:
		for _, s := range verifC19.slots {
			wantCalls++
			switch s.outcome {
			case verifC19Skipped:
				continue
			case verifC19Broken:
				wantErr = s.err
				break slots
			}
			pass := len(accounts) == 0
			for _, t := range s.txs {
				if pass {
					break
				}
				if t.badWire {
					continue
				}
				if inFilter(t.key1) || inFilter(t.key2) || (t.lookup && t.loaded != 0 && inFilter(t.loaded)) {
					pass = true
				} else if t.badMeta {
					nilMeta = true
				}
			}
			if pass {
				if len(want) == ser.failAt {
					wantErr = verifC19SendErr
					break slots
				}
				want = append(want, s.block)
			}
		}
		if wantErr == nil && verifC19.openEnded {
			wantCalls = int(maxSlotsToStream) + 1
		}
	}

	verifKnownFinding("C19-blocks-meta-nil", nilMeta)

	err := multiForC19().StreamBlocks(req, ser)

	verifAssert(err == wantErr, "C19.blocks: StreamBlocks returns the wrong error (a skipped slot must not end the stream; a broken slot, failed Send or cancelled context must)")
	verifAssert(verifC19.getBlockCalls == wantCalls, "C19.blocks: wrong number of slots visited")
	verifAssert(len(ser.sent) == len(want), "C19.blocks: wrong number of blocks sent")
	for i := range want {
		verifAssert(ser.sent[i] == want[i], "C19.blocks: wrong block sent (every found block of the range passing the filter, once, ascending)")
	}
	verifReach("end")
}

func multiForC19() *MultiEpoch {
	return NewMultiEpoch(&Options{})
}

func VerifC19Blocks() {
	verifC19BlocksBody()
}
