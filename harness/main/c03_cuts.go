//go:build verif

package main

import (
	"context"
	"errors"

	"github.com/gagliardetto/solana-go"
	"github.com/ipfs/go-cid"
	"github.com/rpcpool/yellowstone-faithful/compactindexsized"
)

// Cuts used by the handler-level obligations (symbolic keys): the real methods are renamed in the
// overlay and replaced by these models. C03.lookup, C03.cid and C03.e2e justify them.

// model of (*Epoch).FindCidFromSlot (cache + slot-to-cid index); the real one is renamed.
func (ser *Epoch) FindCidFromSlot(ctx context.Context, slot uint64) (cid.Cid, error) {
	st := verifC03Stores[ser]
	for _, m := range st.s2c {
		if m.slot == slot {
			return st.answer(m.hit)
		}
	}
	hit := st.pick("slot2cid", verifC03KindBlock, func(o *verifC03Obj) bool { return o.slot == slot })
	st.s2c = append(st.s2c, verifC03Memo{slot: slot, hit: hit})
	return st.answer(hit)
}

// model of (*Epoch).FindCidFromSignature (sig-to-cid index); the real one is renamed.
func (ser *Epoch) FindCidFromSignature(ctx context.Context, sig solana.Signature) (cid.Cid, error) {
	st := verifC03Stores[ser]
	if verifParam("faults", 0) == 1 && verifChoice("sig2cidReadFails", 2) == 1 {
		st.idxFault = true // transient read failure of the sig-to-cid index (not an answer: not memoised)
		return cid.Undef, verifC03ErrRead
	}
	for _, m := range st.g2c {
		if m.sig == sig {
			return st.answer(m.hit)
		}
	}
	hit := st.pick("sig2cid", verifC03KindTx, func(o *verifC03Obj) bool { return o.sig == sig })
	st.g2c = append(st.g2c, verifC03Memo{sig: sig, hit: hit})
	return st.answer(hit)
}

func (st *verifC03Store) answer(hit int) (cid.Cid, error) {
	if hit < 0 {
		return cid.Undef, compactindexsized.ErrNotFound
	}
	return st.objs[hit].c, nil
}

// model of (*Epoch).GetNodeByCid: the bytes stored under exactly that CID (justified by C03.cid).
// The node bytes of the model are {kind, index of the object in the epoch's store}.
func (s *Epoch) GetNodeByCid(ctx context.Context, wantedCid cid.Cid) ([]byte, error) {
	st := verifC03Stores[s]
	for i, o := range st.objs {
		if o.c.Equals(wantedCid) {
			return []byte{byte(o.kind), byte(i), byte(s.epoch)}, nil
		}
	}
	return nil, errors.New("verif model: no object with this CID in the epoch")
}

// model of (*Epoch).prefetchSubgraph: cache warm-up only, no effect on the answer.
func (s *Epoch) prefetchSubgraph(ctx context.Context, wantedCid cid.Cid) error { return nil }
