//go:build verif

package main

import (
	"bytes"
	"context"
	"errors"
	"strings"

	"github.com/gagliardetto/solana-go"
	"github.com/rpcpool/yellowstone-faithful/compactindexsized"
	old_faithful_grpc "github.com/rpcpool/yellowstone-faithful/old-faithful-proto/old-faithful-grpc"
)

// verifC03SigArchived: branch-free "a transaction with first signature q is stored in one of eps".
func verifC03SigArchived(eps []*Epoch, q solana.Signature) uint64 {
	a := uint64(0)
	for _, e := range eps {
		for _, o := range verifC03Stores[e].objs {
			if o.kind == verifC03KindTx {
				a |= verifIteU64(o.sig == q, 1, 0)
			}
		}
	}
	return a
}

// C03.epochtx — the real (*Epoch).GetTransaction over the keyless-index model: ErrNotFound for a
// signature that is not archived (also when its 24-bit hash equals a stored one), otherwise the
// transaction whose first signature is the requested one.
func VerifC03EpochTx() {
	nt := 1 + verifChoice("ntxs", verifParam("maxtxs", 2))
	e := verifC03NewEpoch(5, 0, nt)
	verifC03Install(e)
	q := verifC03Sig("sig")
	tx, c, err := e.GetTransaction(WithSubrapghPrefetch(context.Background(), verifBool("prefetch")), q)
	archived := verifC03SigArchived([]*Epoch{e}, q)
	if err != nil {
		verifAssert(archived == 0, "C03.epochtx: error for a signature that is archived")
		verifAssert(errors.Is(err, compactindexsized.ErrNotFound), "C03.epochtx: absent signature not reported as ErrNotFound")
	} else {
		got, serr := tx.Signature() // real ipldbindcode.Transaction.Signature on the node's data frame
		verifAssert(serr == nil, "C03.epochtx: returned node has no readable signature")
		verifAssert(got == q, "C03.epochtx: GetTransaction returned a transaction with a different signature")
		ok := uint64(0)
		for _, o := range verifC03Stores[e].objs {
			if o.c.Equals(c) {
				ok |= verifIteU64(o.sig == q, 1, 0)
			}
		}
		verifAssert(ok == 1, "C03.epochtx: returned CID is not the CID of the requested transaction")
	}
	verifReach("end")
}

// C03.grpctx — the real gRPC MultiEpoch.GetTransaction: epoch search (single epoch: no pre-filter;
// several epochs: sig-exists pre-filter + FirstSuccess over the epochs under every interleaving),
// Epoch.GetTransaction, block-time lookup and response assembly. The response carries the
// transaction with the requested signature, or the error is NotFound when it is not archived.
func VerifC03GrpcTx() {
	ne := verifParam("epochs", 1)
	nt := 1 + verifChoice("ntxs", verifParam("maxtxs", 2))
	multi, eps := verifC03Multi(ne, 0, nt)
	q := verifC03Sig("sig")
	resp, err := multi.GetTransaction(context.Background(), &old_faithful_grpc.TransactionRequest{Signature: q[:]})
	archived := verifC03SigArchived(eps, q)
	if err != nil {
		if archived == 0 {
			verifAssert(strings.Contains(err.Error(), "code = NotFound"), "C03.grpctx: signature that is not archived is not answered with NotFound")
		} else if !verifC03AnyCollision(eps) {
			verifAssert(false, "C03.grpctx: archived signature answered with an error although no index lookup hit a foreign entry")
		}
	} else {
		verifAssert(resp != nil && resp.Transaction != nil, "C03.grpctx: nil response without error")
		raw := resp.Transaction.Transaction
		verifAssert(len(raw) >= 65 && raw[0] == 1, "C03.grpctx: malformed transaction bytes in the response")
		verifAssert(bytes.Equal(raw[1:65], q[:]), "C03.grpctx: response carries a transaction with a different signature")
		verifAssert(archived == 1, "C03.grpctx: a transaction is returned for a signature that is not archived")
	}
	verifReach("end")
}

// ---------------------------------------------------------------------------------------------
// Several epochs loaded, index reads may fail (param "faults" = 1).
//
// With several epochs the sig-exists pre-filter (64-bit hashes) is what keeps signatures that an
// epoch does not archive away from that epoch's keyless sig-to-cid index (24-bit hashes). The part
// of C03 decided here: the epoch search trusts a sig-to-cid answer only for an epoch whose
// pre-filter positively confirmed the signature; a failed read is not a confirmation.

// verifC03ArchivedIn: branch-free "epoch e archives a transaction with first signature q".
func verifC03ArchivedIn(e *Epoch, q solana.Signature) uint64 {
	return verifC03SigArchived([]*Epoch{e}, q)
}

// verifC03Health: healthyHome = some epoch's pre-filter confirmed the signature (exact: it archives it)
// and no confirming epoch had a failing sig-to-cid read (the search may pick any confirming epoch);
// anyFault = some index read of the request failed.
func verifC03Health(eps []*Epoch) (healthyHome, anyFault bool) {
	confirmed, confirmedFaulty := false, false
	for _, e := range eps {
		st := verifC03Stores[e]
		if st.preFilter == verifC03PreYes {
			confirmed = true
			if st.idxFault {
				confirmedFaulty = true
			}
		}
		if st.preFilter == verifC03PreFault || st.idxFault {
			anyFault = true
		}
	}
	return confirmed && !confirmedFaulty, anyFault
}

// C03.grpctxf — the same configuration end to end through the real gRPC MultiEpoch.GetTransaction:
// never a transaction with another signature; a signature no epoch archives is answered with an error
// (NotFound when no read failed); a signature archived in an epoch whose reads all succeed is served
// with its own transaction, whatever false hits or read failures the other epochs have.
func VerifC03GrpcTxFaults() {
	ne := verifParam("epochs", 2)
	multi, eps := verifC03Multi(ne, 0, 1+verifChoice("ntxs", verifParam("maxtxs", 1)))
	q := verifC03Sig("sig")
	resp, err := multi.GetTransaction(context.Background(), &old_faithful_grpc.TransactionRequest{Signature: q[:]})
	archived := verifC03SigArchived(eps, q)
	healthyHome, anyFault := verifC03Health(eps)
	if err != nil {
		if archived == 0 && !anyFault {
			verifAssert(strings.Contains(err.Error(), "code = NotFound"), "C03.grpctxf: signature that is not archived is not answered with NotFound")
		}
		verifAssert(!healthyHome, "C03.grpctxf: a signature archived in an epoch whose index reads all succeeded is answered with an error")
	} else {
		verifAssert(resp != nil && resp.Transaction != nil, "C03.grpctxf: nil response without error")
		raw := resp.Transaction.Transaction
		verifAssert(len(raw) >= 65 && raw[0] == 1, "C03.grpctxf: malformed transaction bytes in the response")
		verifAssert(bytes.Equal(raw[1:65], q[:]), "C03.grpctxf: response carries a transaction with a different signature")
		verifAssert(archived == 1, "C03.grpctxf: a transaction is returned for a signature that is not archived")
	}
	verifReach("end")
}
