//go:build verif

package main

// Model of golang.org/x/sync/errgroup for the data-oriented C02 obligations (engine redirect
// c02Redirect): the closures handed to Group.Go run one at a time when Wait is called, in every
// order (one path per permutation); Wait returns the first error in that order; SetLimit has no
// effect. The interleavings of the real errgroup at synchronisation granularity, with the
// happens-before race detector, are explored by C02.blockSched.

import "golang.org/x/sync/errgroup"

type c02Group struct {
	g   *errgroup.Group
	fns []func() error
}

var c02Groups []*c02Group

func c02GroupOf(g *errgroup.Group) *c02Group {
	for _, s := range c02Groups {
		if s.g == g {
			return s
		}
	}
	s := &c02Group{g: g}
	c02Groups = append(c02Groups, s)
	return s
}

func c02Model_errgroupGo(g *errgroup.Group, f func() error) {
	s := c02GroupOf(g)
	s.fns = append(s.fns, f)
}

func c02Model_errgroupSetLimit(g *errgroup.Group, n int) {}

func c02Model_errgroupWait(g *errgroup.Group) error {
	s := c02GroupOf(g)
	var first error
	for len(s.fns) > 0 {
		k := verifChoice("runOrder", len(s.fns))
		f := s.fns[k]
		s.fns = append(append([]func() error{}, s.fns[:k]...), s.fns[k+1:]...)
		if err := f(); err != nil && first == nil {
			first = err
		}
	}
	return first
}
