//go:build verif

package main

// C02.blockTime — getBlockTime (gRPC GetBlockTime and JSON-RPC handleGetBlockTime) over 1..3 loaded
// epochs with real blocktimeindex.Index objects: for every slot covered by a loaded epoch's
// block-time index the answer is the value that index records for the slot (JSON: null when the
// recorded value is 0), whichever other epochs are loaded; also when the indexes were read back from
// their file form (real MarshalBinary / FromBytes), as a started server has them.
//
// Cut: parseGetBlockTimeRequest (renamed) returns the requested slot (request parsing: C08).

import (
	"context"
	"encoding/json"

	old_faithful_grpc "github.com/rpcpool/yellowstone-faithful/old-faithful-proto/old-faithful-grpc"
	"github.com/sourcegraph/jsonrpc2"
	"github.com/valyala/fasthttp"
)

func parseGetBlockTimeRequest(raw *json.RawMessage) (uint64, error) { return verifC02Req.slot, nil }

var verifC02BlockTimeEpochs = []uint64{0, 1, 7, 2}

func VerifC02BlockTime() {
	verifC02Reset()
	W := uint64(verifParam("window", 4))
	multi := NewMultiEpoch(&Options{EpochSearchConcurrency: 1})
	// loaded epochs: every non-empty subset of {0, 1, 7, 2} (first maxEpochs of them)
	n := verifParam("maxEpochs", 3)
	mask := 1 + verifChoice("loaded", (1<<n)-1)
	var loaded []*verifC02Archive
	for i := 0; i < n; i++ {
		if mask&(1<<i) == 0 {
			continue
		}
		a := verifC02NewEpoch(verifC02BlockTimeEpochs[i])
		if a.num == 0 && verifChoice("genesis", 2) == 1 {
			a.e.genesis = &GenesisContainer{}
		}
		a.setBlocktimeIndex(W)
		multi.epochs[a.num] = a.e
		loaded = append(loaded, a)
	}
	home := loaded[verifChoice("home", len(loaded))]
	off := verifU64("slotOffset")
	verifAssume(off < W)
	// the indexes are filled directly with arbitrary int64 values, or (viaFile) with archivable block
	// times (32-bit unsigned, as the index file stores them) and then read back from their file form
	viaFile := verifChoice("viaFile", verifParam("fileModes", 2)) == 1
	var want int64
	for _, a := range loaded {
		for k := uint64(0); k < W; k++ {
			v := verifI64("blocktimeIndexValue")
			if viaFile {
				verifAssume(v >= 0 && v <= 0xFFFFFFFF)
			}
			a.e.blocktimeindex.Set(a.lo()+k, v)
			if a == home {
				want = int64(verifIteU64(off == k, uint64(v), uint64(want)))
			}
		}
		if viaFile {
			a.reloadBlocktimeIndexFromFile()
		}
	}
	slot := home.lo() + off

	resp, err := multi.GetBlockTime(context.Background(), &old_faithful_grpc.BlockTimeRequest{Slot: slot})
	verifAssert(err == nil && resp != nil, "C02.blockTime: gRPC: archived slot is answered with an error")
	if err != nil || resp == nil {
		return
	}
	verifAssert(resp.BlockTime == want, "C02.blockTime: gRPC: block time differs from the value recorded for the slot")

	verifC02Req.slot = slot
	verifC02Replies = nil
	raw := json.RawMessage("[opaque]")
	req := &jsonrpc2.Request{Method: "getBlockTime", ID: jsonrpc2.ID{Num: 1}, Params: &raw}
	conn := &requestContext{ctx: &fasthttp.RequestCtx{}}
	errResp, err := multi.handleRequest(context.Background(), conn, req)
	verifAssert(errResp == nil && err == nil, "C02.blockTime: JSON: archived slot is answered with an error")
	if errResp != nil || err != nil {
		return
	}
	verifAssert(len(verifC02Replies) == 1, "C02.blockTime: JSON: not exactly one reply")
	if len(verifC02Replies) != 1 {
		return
	}
	if want != 0 {
		got, ok := verifC02Replies[0].(int64)
		verifAssert(ok && got == want, "C02.blockTime: JSON: block time differs from the value recorded for the slot")
	} else {
		verifAssert(verifC02Replies[0] == nil, "C02.blockTime: JSON: a recorded block time of 0 is not answered with null")
	}
	verifReach("end")
}
