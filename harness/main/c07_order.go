//go:build verif

package main

import (
	"context"
	"encoding/json"
	"errors"

	"github.com/gagliardetto/solana-go"
	"github.com/rpcpool/yellowstone-faithful/gsfa"
	"github.com/rpcpool/yellowstone-faithful/gsfa/linkedlog"
	"github.com/rpcpool/yellowstone-faithful/ipld/ipldbindcode"
	"github.com/sourcegraph/jsonrpc2"
)

// ---------------------------------------------------------------------------
// C07.order — the real handleGetSignaturesForAddress (signatures-only mode) and the real
// getGsfaReadersInEpochDescendingOrder over every map iteration order.
//
// Cuts (models below): parseGetSignaturesForAddressParams (table), the call
// gsfaMulti.GetBeforeUntil(...) (replaced at its call site by verifC07GetBeforeUntil, which also
// receives the reader list so that its order can be checked; the real function is decided by
// C07.iter), requestContext.ReplyRaw (records the reply).

type verifC07Found struct {
	epoch uint64
	sig   solana.Signature
	tx    *ipldbindcode.Transaction
}

var verifC07 struct {
	params      *GetSignaturesForAddressParams
	parseErr    error
	wantReaders []uint64 // epochs that have a gsfa reader, newest first
	result      gsfa.EpochToTransactionObjects
	resultErr   error
	gbuCalls    int
	replies     []interface{}
}

// model of parseGetSignaturesForAddressParams
func parseGetSignaturesForAddressParams(raw *json.RawMessage) (*GetSignaturesForAddressParams, error) {
	if verifC07.parseErr != nil {
		return nil, verifC07.parseErr
	}
	return verifC07.params, nil
}

// model of (*requestContext).ReplyRaw
func (c *requestContext) ReplyRaw(ctx context.Context, id jsonrpc2.ID, result interface{}) error {
	verifAssert(id.Num == 77 && !id.IsString, "C07.order: reply sent with a different request id")
	verifC07.replies = append(verifC07.replies, result)
	return nil
}

// model of (*gsfa.GsfaReaderMultiepoch).GetBeforeUntil at its call site in the handler
func verifC07GetBeforeUntil(
	multi *gsfa.GsfaReaderMultiepoch,
	readers []*gsfa.GsfaReader,
	ctx context.Context,
	pk solana.PublicKey,
	limit int,
	before *solana.Signature,
	until *solana.Signature,
	fetcher func(uint64, linkedlog.OffsetAndSizeAndSlot) (*ipldbindcode.Transaction, error),
) (gsfa.EpochToTransactionObjects, error) {
	verifC07.gbuCalls++
	verifAssert(multi != nil, "C07.order: nil multi-epoch reader")
	// the readers are handed over newest epoch first, each loaded epoch with a gsfa index exactly once
	verifAssert(len(readers) == len(verifC07.wantReaders), "C07.order: wrong number of gsfa readers")
	for i, r := range readers {
		e, ok := r.GetEpoch()
		verifAssert(ok, "C07.order: reader without epoch number")
		verifAssert(e == verifC07.wantReaders[i], "C07.order: gsfa readers not in epoch-descending order")
	}
	p := verifC07.params
	verifAssert(pk == p.Address, "C07.order: address not passed through")
	verifAssert(limit == p.Limit, "C07.order: limit not passed through")
	verifAssert(before == p.Before, "C07.order: `before` not passed through")
	verifAssert(until == p.Until, "C07.order: `until` not passed through")
	if verifC07.resultErr != nil {
		return nil, verifC07.resultErr
	}
	return verifC07.result, nil
}

func verifC07OrderSig(id int) (s solana.Signature) {
	s[0] = byte(id)
	s[5] = 0x33
	s[63] = byte(id) ^ 0x5A
	return
}

func verifC07OrderBody() {
	verifMapOrderNondet(true)
	verifC07.params, verifC07.parseErr, verifC07.wantReaders = nil, nil, nil
	verifC07.result, verifC07.resultErr, verifC07.gbuCalls, verifC07.replies = nil, nil, 0, nil

	m := NewMultiEpoch(&Options{GsfaOnlySignatures: true})
	nums := []uint64{5, 9, 2, 7} // loaded in no particular order
	minK := verifParam("min_epochs", 1)
	K := minK + verifChoice("epochs", verifParam("max_epochs", 3)-minK+1)
	withReader := map[uint64]bool{}
	for k := 0; k < K; k++ {
		ep := &Epoch{epoch: nums[k]}
		if verifParam("nil_readers", 1) == 0 || verifChoice("has_gsfa", 2) == 1 {
			ep.gsfaReader = &gsfa.GsfaReader{}
			withReader[nums[k]] = true
		}
		m.epochs[nums[k]] = ep
	}
	for _, e := range []uint64{9, 7, 5, 2} {
		if withReader[e] {
			verifC07.wantReaders = append(verifC07.wantReaders, e)
		}
	}

	// outcome of the (cut) parser
	outcome := verifChoice("outcome", 3) // 0 ok, 1 parse error, 2 GetBeforeUntil error
	if outcome == 1 {
		verifC07.parseErr = errors.New("bad params")
	}
	if outcome == 2 {
		verifC07.resultErr = errors.New("index read failed")
	}
	p := &GetSignaturesForAddressParams{Address: solana.PublicKey{3, 1, 4}, Limit: verifInt("limit")}
	if verifChoice("before", 2) == 1 {
		s := verifC07OrderSig(200)
		p.Before = &s
	}
	if verifChoice("until", 2) == 1 {
		s := verifC07OrderSig(201)
		p.Until = &s
	}
	verifC07.params = p

	// what GetBeforeUntil found: per epoch (newest first) 0..M transactions, newest first
	var want []*verifC07Found
	perEpoch := map[uint64][]*verifC07Found{}
	if outcome == 0 {
		id := 0
		for _, e := range verifC07.wantReaders {
			n := verifChoice("found", verifParam("max_found", 2)+1)
			for i := 0; i < n; i++ {
				id++
				sig := verifC07OrderSig(id)
				f := &verifC07Found{epoch: e, sig: sig, tx: &ipldbindcode.Transaction{Slot: 1000 - id, Data: ipldbindcode.DataFrame{Data: append([]byte{1}, sig[:]...)}}}
				want = append(want, f)
				perEpoch[e] = append(perEpoch[e], f)
			}
		}
	}
	verifC07.result = gsfa.EpochToTransactionObjects{}
	nonEmpty := 0
	for _, e := range []uint64{2, 5, 7, 9} { // filled oldest epoch first
		if l := perEpoch[e]; len(l) > 0 {
			nonEmpty++
			for _, f := range l {
				verifC07.result[e] = append(verifC07.result[e], f.tx)
			}
		}
	}

	raw := json.RawMessage(`[]`)
	req := &jsonrpc2.Request{Method: "getSignaturesForAddress", ID: jsonrpc2.ID{Num: 77}, Params: &raw}
	jerr, err := m.handleGetSignaturesForAddress(context.Background(), &requestContext{}, req)

	switch {
	case outcome == 1:
		verifAssert(jerr != nil && jerr.Code == jsonrpc2.CodeInvalidParams && err != nil, "C07.order: unparsable params must yield an invalid-params error")
		verifAssert(verifC07.gbuCalls == 0 && len(verifC07.replies) == 0, "C07.order: request with unparsable params was processed")
	case len(verifC07.wantReaders) == 0:
		verifAssert(jerr != nil && jerr.Code == jsonrpc2.CodeInternalError && err != nil, "C07.order: no gsfa index loaded must yield an error")
		verifAssert(verifC07.gbuCalls == 0 && len(verifC07.replies) == 0, "C07.order: request processed without gsfa indexes")
	case outcome == 2:
		verifAssert(jerr != nil && jerr.Code == jsonrpc2.CodeInternalError && err != nil, "C07.order: index failure must yield an internal error")
		verifAssert(verifC07.gbuCalls == 1 && len(verifC07.replies) == 0, "C07.order: reply sent although the index lookup failed")
	default:
		verifAssert(jerr == nil && err == nil, "C07.order: handler failed on a good request")
		verifAssert(verifC07.gbuCalls == 1, "C07.order: GetBeforeUntil not called exactly once")
		verifAssert(len(verifC07.replies) == 1, "C07.order: not exactly one reply")
		resp, ok := verifC07.replies[0].([]map[string]any)
		verifAssert(ok, "C07.order: reply is not a list of objects")
		verifAssert(len(resp) == len(want), "C07.order: reply has the wrong number of entries")
		sigAt := make([]string, len(resp))
		for i := range resp {
			verifAssert(resp[i] != nil, "C07.order: reply entry is null")
			sigAt[i], _ = resp[i]["signature"].(string)
		}
		// order-insensitive part: the reply consists of one contiguous block per epoch, each block
		// complete and newest transaction first
		for _, e := range verifC07.wantReaders {
			l := perEpoch[e]
			if len(l) == 0 {
				continue
			}
			p := -1
			for i := range sigAt {
				if sigAt[i] == l[0].sig.String() {
					p = i
				}
			}
			verifAssert(p >= 0 && p+len(l) <= len(sigAt), "C07.order: an epoch's transactions are missing from the reply")
			for j, f := range l {
				verifAssert(sigAt[p+j] == f.sig.String(), "C07.order: transactions of one epoch are not contiguous / newest first in the reply")
			}
		}
		// known finding S7: the response is assembled by ranging over the map keyed by epoch, so
		// the order of the epoch blocks is random when the result spans several epochs
		verifKnownFinding("C07-S7-response-map-order", nonEmpty >= 2)
		for i, f := range want {
			verifAssert(sigAt[i] == f.sig.String(), "C07.order: reply does not list the signatures newest epoch first / newest transaction first")
		}
	}
	verifReach("end")
}

// Natively Go picks the map iteration order at random: repeat the body so that a replayed
// counterexample that depends on the order shows up (under symgo the order is a recorded choice).
func VerifC07Order() {
	if verifSymbolic() {
		verifC07OrderBody()
		return
	}
	for i := 0; i < 64; i++ {
		verifReset()
		verifC07OrderBody()
	}
}

// ---------------------------------------------------------------------------
// C07.readers — getGsfaReadersInEpochDescendingOrderForSlotRange (streaming variant): the
// selected epochs are exactly the loaded epochs with a gsfa index that overlap
// [startSlot, endSlot], newest first, for every map iteration order.
func VerifC07Readers() {
	verifMapOrderNondet(true)
	m := NewMultiEpoch(&Options{})
	nums := []uint64{3, 0, 4, 1}
	minK := verifParam("min_epochs", 1)
	K := minK + verifChoice("epochs", verifParam("max_epochs", 3)-minK+1)
	withReader := map[uint64]bool{}
	for k := 0; k < K; k++ {
		ep := &Epoch{epoch: nums[k]}
		if verifChoice("has_gsfa", 2) == 1 {
			ep.gsfaReader = &gsfa.GsfaReader{}
			withReader[nums[k]] = true
		}
		m.epochs[nums[k]] = ep
	}
	start := verifU64("startSlot")
	end := verifU64("endSlot")
	const L = 432000
	// sane request: start <= end, both inside epochs 0..5 (reversed / huge ranges: C07.slotrange)
	verifAssume(start <= end && end < 6*L)
	multi, epochNums := m.getGsfaReadersInEpochDescendingOrderForSlotRange(context.Background(), start, end)
	verifAssert(multi != nil, "C07.readers: no multi-epoch reader returned")
	for i := 0; i+1 < len(epochNums); i++ {
		verifAssert(epochNums[i] > epochNums[i+1], "C07.readers: epochs not strictly descending")
	}
	for _, e := range nums[:K] {
		listed := false
		for _, x := range epochNums {
			if x == e {
				listed = true
			}
		}
		// epoch e covers slots [e*L, e*L+L-1]
		overlaps := verifIteU64(e*L+L > start, verifIteU64(e*L <= end, 1, 0), 0)
		expect := verifIteU64(withReader[e], overlaps, 0)
		verifAssert((expect != 0) == listed, "C07.readers: epoch selection differs from `has a gsfa index and overlaps the slot range`")
	}
	for _, x := range epochNums {
		_, ok := m.epochs[x]
		verifAssert(ok, "C07.readers: listed epoch is not loaded")
	}
	verifReach("end")
}

// ---------------------------------------------------------------------------
// C07.slotrange — crash-freedom of getGsfaReadersInEpochDescendingOrderForSlotRange over slot
// ranges a client can send (StreamTransactions passes start_slot / end_slot unchecked): short
// forward ranges, ranges reversed by more than one epoch, and forward ranges of >= 2^40 slots.
func VerifC07SlotRange() {
	verifMapOrderNondet(true)
	m := NewMultiEpoch(&Options{})
	nums := []uint64{3, 0, 4, 1}
	K := 1 + verifChoice("epochs", verifParam("max_epochs", 1))
	for k := 0; k < K; k++ {
		ep := &Epoch{epoch: nums[k]}
		if verifChoice("has_gsfa", 2) == 1 {
			ep.gsfaReader = &gsfa.GsfaReader{}
		}
		m.epochs[nums[k]] = ep
	}
	start := verifU64("startSlot")
	end := verifU64("endSlot")
	const L = 432000
	sane := verifIteU64(start <= end, verifIteU64(end-start < 6*L, 1, 0), 0)
	rev := verifIteU64(start > end, verifIteU64(start-end > L, 1, 0), 0)
	huge := verifIteU64(start <= end, verifIteU64(end-start >= 1<<40, 1, 0), 0)
	verifAssume(sane+rev+huge != 0)
	// known finding: the capacity endEpoch-startEpoch+1 of the epoch list is computed from the
	// request alone (wraps for reversed ranges, unbounded for long ones)
	verifKnownFinding("C07-slotrange-alloc", sane == 0)
	verifAllocLimit(1 << 20)
	_, epochNums := m.getGsfaReadersInEpochDescendingOrderForSlotRange(context.Background(), start, end)
	verifAssert(len(epochNums) <= K, "C07.slotrange: more epochs listed than loaded")
	verifReach("end")
}
