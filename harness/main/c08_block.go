//go:build verif

package main

import (
	"context"
	"encoding/json"

	"github.com/ipfs/go-cid"
	cidlink "github.com/ipld/go-ipld-prime/linking/cid"
	jsoniter "github.com/json-iterator/go"
	"github.com/multiformats/go-multihash"
	"github.com/rpcpool/yellowstone-faithful/ipld/ipldbindcode"
	"github.com/rpcpool/yellowstone-faithful/third_party/solana_proto/confirmed_block"
	"github.com/sourcegraph/jsonrpc2"
	"github.com/valyala/fasthttp"
)

// C08.getblock — getBlock end to end on the request side: the REAL parseGetBlockRequest / Validate
// feed the REAL handleGetBlock, which runs past a successful block fetch: header assembly, the
// `rewards` option (dereferenced unchecked), the rewards post-processing (commission / lamports /
// post_balance / reward_type rewriting, asFloat), the parent-block lookup and the Reply callback.
// Decides that no combination of request options and archived block shape makes this tail panic.
// (C02 decides what the answer contains, with the parser cut; C08.dispatch stops at a failing fetch;
// transactions of the block: C08.encode / C08.adapt.)
//
// Cuts: Epoch.GetBlock / GetRewardsByCid = archive models below (empty blocks: no entries);
// solanablockrewards.ParseRewards (protobuf) = {error, no rewards, rewards}; the JSON round trip of
// the rewards = the object an encoding/json-compatible encoder yields for that struct; Reply =
// counts the reply and runs the handler's callback on the answer object; lassie mode (no CAR prefetch).

var (
	verifC08BlkRewards     *confirmed_block.Rewards // what ParseRewards yields
	verifC08BlkRewardsFail bool
	verifC08BlkFetches     int
	verifC08BlkOtherCid    cid.Cid
)

// quick tier: the request options are varied against one archived block, and the archived block /
// rewards against one request (focus 0 / 1); thorough tier: the full product.
var verifC08BlkFocus int // 0: vary the request, 1: vary the archive, 2: both

func verifC08BlkArchive(name string, n int, def int) int {
	if verifC08BlkFocus == 0 {
		return def
	}
	return verifChoice(name, n)
}

func verifC08BlkRequest(name string, n int, def int) int {
	if verifC08BlkFocus == 1 {
		return def
	}
	return verifChoice(name, n)
}

func verifC08BlkCid() cid.Cid {
	mh, err := multihash.Encode([]byte{1, 2, 3}, multihash.IDENTITY)
	if err != nil {
		panic(err)
	}
	return cid.NewCidV1(cid.Raw, mh)
}

// archived block: no entries; parent in the same epoch (slot-1), slot 0, or the previous epoch;
// block time recorded or 0; height recorded or not; rewards link = DummyCID (none) or a node
func (ser *Epoch) GetBlock(ctx context.Context, slot uint64) (*ipldbindcode.Block, cid.Cid, error) {
	verifC08BlkFetches++
	b := &ipldbindcode.Block{Slot: int(slot), Rewards: cidlink.Link{Cid: DummyCID}}
	if verifC08BlkFetches > 1 {
		// the parent block, fetched for previousBlockhash
		if verifC08BlkArchive("parent.fetch", 2, 0) == 1 {
			return nil, cid.Cid{}, errVerifC08IO
		}
		return b, verifC08BlkOtherCid, nil
	}
	switch verifC08BlkArchive("block.parent", 3, 1) {
	case 0:
		b.Meta.Parent_slot = 0
	case 1:
		if slot > 0 {
			b.Meta.Parent_slot = int(slot) - 1
		}
	default:
		b.Meta.Parent_slot = int(ser.epoch*432000) - 1 // previous epoch (or -1 in epoch 0)
	}
	if verifC08BlkArchive("block.meta", 2, 1) == 1 {
		b.Meta.Blocktime = 1700000000
		h := 77
		ph := &h
		b.Meta.Block_height = &ph
	}
	if verifC08BlkArchive("block.rewards", 2, 1) == 1 {
		b.Rewards = cidlink.Link{Cid: verifC08BlkOtherCid}
	}
	return b, verifC08BlkOtherCid, nil
}

func (ser *Epoch) GetRewardsByCid(ctx context.Context, wantedCid cid.Cid) (*ipldbindcode.Rewards, error) {
	if verifC08BlkArchive("GetRewardsByCid", 2, 0) == 1 {
		return nil, errVerifC08IO
	}
	r := &ipldbindcode.Rewards{Slot: 1}
	r.Data.Data = []byte{1, 2, 3} // opaque: parsing is modelled by verifC08ParseRewards
	return r, nil
}

func verifC08ParseRewards(buf []byte) (*confirmed_block.Rewards, error) {
	if verifC08BlkRewardsFail {
		return nil, errVerifC08IO
	}
	return verifC08BlkRewards, nil
}

// the JSON round trip (fasterJson.Marshal + Unmarshal into map[string]any) of a Rewards message:
// `json:"rewards,omitempty"`, members `pubkey, lamports, post_balance, reward_type, commission` (omitempty)
func verifC08BlkRewardsJSON(r *confirmed_block.Rewards) map[string]any {
	out := map[string]any{}
	if r == nil {
		return out
	}
	if len(r.Rewards) > 0 {
		var list []any
		for _, rw := range r.Rewards {
			e := map[string]any{}
			if rw.Pubkey != "" {
				e["pubkey"] = rw.Pubkey
			}
			if rw.Lamports != 0 {
				e["lamports"] = float64(rw.Lamports)
			}
			if rw.PostBalance != 0 {
				e["post_balance"] = float64(rw.PostBalance)
			}
			if rw.RewardType != 0 {
				e["reward_type"] = float64(rw.RewardType)
			}
			if rw.Commission != "" {
				e["commission"] = rw.Commission
			}
			list = append(list, e)
		}
		out["rewards"] = list
	}
	return out
}

type verifC08BlkJSON struct{ verifC08JSON }

func (j verifC08BlkJSON) Unmarshal(data []byte, v interface{}) error {
	if p, ok := v.(*map[string]any); ok {
		*p = verifC08BlkRewardsJSON(verifC08BlkRewards)
		return nil
	}
	return j.verifC08JSON.Unmarshal(data, v)
}

// Reply: the answer is written (counted); the handler's callback runs on the answer object, whose
// "transactions" member is an empty list here (no entries)
func (c *requestContext) Reply(ctx context.Context, id jsonrpc2.ID, result interface{}, remapCallback func(map[string]any) map[string]any) error {
	verifC08Replies++
	if remapCallback != nil {
		m := map[string]any{"blockhash": "x", "parentSlot": 1.0, "rewards": []any{}}
		if verifC08BlkArchive("reply.transactions", 2, 0) == 0 {
			m["transactions"] = []any{}
		}
		remapCallback(m)
	}
	return nil
}

func verifC08DagHeader(conn *requestContext, c cid.Cid) {}

func VerifC08GetBlock() {
	fasterJson = verifC08BlkJSON{}
	jsoniter.ConfigCompatibleWithStandardLibrary = verifC08BlkJSON{}
	verifC08BlkOtherCid = verifC08BlkCid()
	verifC08BlkFetches = 0

	// epoch 0 or 1 loaded, lassie mode (no CAR prefetch), no genesis
	verifC08BlkFocus = verifParam("focus", -1)
	if verifC08BlkFocus < 0 {
		verifC08BlkFocus = verifChoice("focus", 2)
	}
	ep := uint64(verifC08BlkArchive("epoch", 2, 0))
	multi := verifC08Server(1, ep, 0, 1)
	multi.epochs[ep].lassieFetcher = &lassieWrapper{}
	slot := uint64(5) + ep*432000
	if ep == 0 {
		slot = []uint64{0, 1, 5}[verifC08BlkArchive("slot", 3, 2)] // slots 0 and 1 are special-cased by the handler
	}

	// archived rewards
	verifC08BlkRewardsFail, verifC08BlkRewards = false, &confirmed_block.Rewards{}
	switch verifC08BlkArchive("rewards.data", 4, 2) {
	case 0:
		verifC08BlkRewardsFail = true
	case 1:
	case 2:
		verifC08BlkRewards.Rewards = []*confirmed_block.Reward{{Pubkey: "k", Lamports: 5, PostBalance: 7, RewardType: 3, Commission: "8"}, {}}
	default:
		verifC08BlkRewards.Rewards = []*confirmed_block.Reward{{Pubkey: "k", RewardType: 1}}
	}

	// request: [slot] | [slot, {}] | [slot, {rewards, encoding}] through the real parser
	verifC08UnmarshalFails, verifC08ParamsMissing = false, false
	switch verifC08BlkRequest("options", 3, 2) {
	case 0:
		verifC08Params = []any{float64(slot)}
	case 1:
		verifC08Params = []any{float64(slot), map[string]any{}}
	default:
		o := map[string]any{}
		switch verifC08BlkRequest("options.rewards", 4, 1) {
		case 1:
			o["rewards"] = true
		case 2:
			o["rewards"] = false
		case 3:
			o["rewards"] = nil // explicit JSON null
		}
		switch verifC08BlkRequest("options.encoding", 3, 0) {
		case 1:
			o["encoding"] = "base64"
		case 2:
			o["encoding"] = "jsonParsed"
			o["transactionDetails"] = "none"
			o["maxSupportedTransactionVersion"] = 0.0
			o["commitment"] = "confirmed"
		}
		verifC08Params = []any{float64(slot), o}
	}
	raw := json.RawMessage("[opaque]")
	req := &jsonrpc2.Request{Method: "getBlock", ID: jsonrpc2.ID{Num: 1}, Params: &raw}
	ctx := setRequestIDToContext(context.Background(), "verif-request")
	conn := &requestContext{ctx: &fasthttp.RequestCtx{}}

	verifC08Replies = 0
	errResp, err := multi.handleRequest(ctx, conn, req)
	verifAssert(errResp != nil || err != nil || verifC08Replies >= 1, "C08.getblock: handler finished without a reply and without an error response")
	if verifC08Replies >= 1 {
		verifReach("replied")
	}

	verifAssert(multi.CountEpochs() == 1, "C08.getblock: epoch set changed by a query")
	multi.AddEpoch(999, verifC08Epoch(999))
	verifReach("end")
}
