//go:build verif

package main

import (
	"context"
	"encoding/json"
	"errors"

	"github.com/gagliardetto/solana-go"
	"github.com/ipfs/go-cid"
	jsoniter "github.com/json-iterator/go"
	"github.com/rpcpool/yellowstone-faithful/blocktimeindex"
	"github.com/rpcpool/yellowstone-faithful/compactindexsized"
	"github.com/rpcpool/yellowstone-faithful/gsfa"
	"github.com/rpcpool/yellowstone-faithful/gsfa/linkedlog"
	"github.com/rpcpool/yellowstone-faithful/indexes"
	"github.com/rpcpool/yellowstone-faithful/ipld/ipldbindcode"
	"github.com/sourcegraph/jsonrpc2"
	"github.com/valyala/fasthttp"
)

// C08.dispatch — handleRequest and every JSON-RPC method handler, from the decoded jsonrpc2.Request
// down to the first data access of the selected epoch, with zero, one and three epochs loaded:
// no panic, a reply or an error response is produced, and the epoch-set lock is free afterwards.
//
// Cuts (models, all in this file): the index/CAR accessors of Epoch (FindCidFromSlot,
// FindCidFromSignature, GetNodeByCid, GetNodeByOffsetAndSize, prefetchSubgraph,
// GetMostRecentAvailableBlock, GetFirstAvailableBlock), the signature-exists filter, the gsfa
// multi-epoch walk (GetBeforeUntil), the JSON encoder and replyJSON (fasthttp).

// --- epoch accessor models (the real ones are renamed to verifOrig_*) ---------------------------

var errVerifC08IO = errors.New("verif: i/o error")

func verifC08FindOutcome(what string) (cid.Cid, error) {
	switch verifChoice(what, 3) {
	case 0:
		return cid.Cid{}, compactindexsized.ErrNotFound
	case 1:
		return cid.Cid{}, errVerifC08IO
	}
	return cid.Cid{}, nil // found (the CID itself is opaque to the handlers)
}

func (ser *Epoch) FindCidFromSlot(ctx context.Context, slot uint64) (cid.Cid, error) {
	return verifC08FindOutcome("FindCidFromSlot")
}

func (ser *Epoch) FindCidFromSignature(ctx context.Context, sig solana.Signature) (cid.Cid, error) {
	return verifC08FindOutcome("FindCidFromSignature")
}

// Node data access is cut: it fails (not found / i/o error). Decoding stored nodes and assembling
// the responses from them is the subject of C02/C03/C07/C11/C12, not of C08.
func (s *Epoch) GetNodeByCid(ctx context.Context, wantedCid cid.Cid) ([]byte, error) {
	if verifChoice("GetNodeByCid", 2) == 0 {
		return nil, compactindexsized.ErrNotFound
	}
	return nil, errVerifC08IO
}

func (s *Epoch) GetNodeByOffsetAndSize(ctx context.Context, wantedCid *cid.Cid, offsetAndSize *indexes.OffsetAndSize) ([]byte, error) {
	return nil, errVerifC08IO
}

func (s *Epoch) prefetchSubgraph(ctx context.Context, wantedCid cid.Cid) error { return nil }

func verifC08EdgeBlock(what string) (*ipldbindcode.Block, error) {
	switch verifChoice(what, 3) {
	case 0:
		return nil, errVerifC08IO
	case 1:
		return &ipldbindcode.Block{Slot: 0}, nil
	}
	return &ipldbindcode.Block{Slot: int(verifU32("edge.slot"))}, nil
}

func (s *Epoch) GetMostRecentAvailableBlock(ctx context.Context) (*ipldbindcode.Block, error) {
	return verifC08EdgeBlock("GetMostRecentAvailableBlock")
}

func (s *Epoch) GetFirstAvailableBlock(ctx context.Context) (*ipldbindcode.Block, error) {
	return verifC08EdgeBlock("GetFirstAvailableBlock")
}

// signature-exists filter (bucketteer): any answer, or a read error
type verifC08SigExists struct{}

func (verifC08SigExists) Has(sig [64]byte) (bool, error) {
	switch verifChoice("sigExists.Has", 3) {
	case 0:
		return true, nil
	case 1:
		return false, nil
	}
	return false, errVerifC08IO
}

// verifC08GsfaFound, when set (C08.gsfa), supplies walks that found transactions.
var verifC08GsfaFound func(fetcher func(uint64, linkedlog.OffsetAndSizeAndSlot) (*ipldbindcode.Transaction, error)) (gsfa.EpochToTransactionObjects, error)

// gsfa walk over the loaded epochs (the call in handleGetSignaturesForAddress is rewritten to
// this function): an error, no transactions, or the fetcher's own failure.
func verifC08GetBeforeUntil(
	g *gsfa.GsfaReaderMultiepoch,
	ctx context.Context,
	pk solana.PublicKey,
	limit int,
	before *solana.Signature,
	until *solana.Signature,
	fetcher func(uint64, linkedlog.OffsetAndSizeAndSlot) (*ipldbindcode.Transaction, error),
) (gsfa.EpochToTransactionObjects, error) {
	verifAssert(g != nil && limit >= 1, "C08.dispatch: gsfa walk started without a reader / with a non-positive limit")
	if verifC08GsfaFound != nil {
		return verifC08GsfaFound(fetcher)
	}
	switch verifChoice("GetBeforeUntil", 4) {
	case 0:
		return nil, errVerifC08IO
	case 1:
		return nil, nil
	case 2:
		return gsfa.EpochToTransactionObjects{}, nil
	}
	// one location found in some epoch (loaded or not): the real walk calls the fetcher
	ep := uint64(verifChoice("GetBeforeUntil.epoch", 4))
	tx, err := fetcher(ep, linkedlog.OffsetAndSizeAndSlot{Offset: 100, Size: 10, Slot: ep * 432000})
	if err != nil {
		return nil, err
	}
	return gsfa.EpochToTransactionObjects{ep: {tx}}, nil
}

// --- reply side ---------------------------------------------------------------------------------

var verifC08Replies int

// replyJSON writes the response through fasthttp (library); the model counts it.
func replyJSON(ctx *fasthttp.RequestCtx, code int, v interface{}) { verifC08Replies++ }

// Marshal of a reply value: opaque bytes (jsoniter is library code).
func (verifC08JSON) Marshal(v interface{}) ([]byte, error) { return []byte("{}"), nil }

// --- server state -------------------------------------------------------------------------------

func verifC08Epoch(n uint64) *Epoch {
	return &Epoch{epoch: n, config: &Config{originalFilepath: "epoch.yml", hashOfConfigFile: "h"}}
}

// verifC08Server builds a MultiEpoch with 0, 1 or 3 epochs; `feature` selects which optional parts
// the epochs carry (bit 0: blocktime index, bit 1: signature-exists filter, bit 2: gsfa reader,
// bit 3: genesis on epoch 0).
func verifC08Server(nEpochs int, first uint64, feature int, conc int) *MultiEpoch {
	m := NewMultiEpoch(&Options{GsfaOnlySignatures: feature&4 != 0 && verifChoice("gsfaOnlySignatures", 2) == 1, EpochSearchConcurrency: conc})
	for i := 0; i < nEpochs; i++ {
		n := first + uint64(i)
		e := verifC08Epoch(n)
		if feature&1 != 0 {
			// a (short) blocktime index: slots [start, start+3] of the epoch are present, the
			// rest of the epoch reports out-of-range (a full index never does; superset)
			e.blocktimeindex = blocktimeindex.NewIndexer(n*432000, n*432000+3, 4)
		}
		if feature&2 != 0 {
			e.sigExists = verifC08SigExists{}
		}
		if feature&4 != 0 {
			e.gsfaReader = &gsfa.GsfaReader{}
		}
		if feature&8 != 0 && n == 0 {
			e.genesis = &GenesisContainer{}
		}
		m.epochs[n] = e
	}
	return m
}

// --- request shapes -----------------------------------------------------------------------------

// verifC08DispatchParams: representative params for the handlers (C08.parse explores the parsers
// in depth): missing, undecodable, empty, [first] with every pool value, [first, {}] and
// [first, {"encoding": e}] for every encoding.
func verifC08DispatchParams(first verifC08Key, withEncoding bool, parsed bool) *json.RawMessage {
	raw := verifC08RawParams(parsed)
	verifC08UnmarshalFails = false
	verifC08Params = nil
	if raw == nil {
		return nil
	}
	n := 5
	if withEncoding {
		n = 6
	}
	switch verifChoice("params.shape", n) {
	case 4:
		// a config object carrying one member of the Solana config vocabulary as an explicit null
		// (every member, whether this method's parser reads it today or not; all value types: C08.parse)
		v := verifC08OfType("first", first.want, first.strs[:1], first.nums[:1])
		verifC08Params = []any{v, map[string]any{verifC08ConfigVocabulary[verifChoice("config.null-member", len(verifC08ConfigVocabulary))]: nil}}
	case 0:
		verifC08UnmarshalFails = true
	case 1:
		verifC08Params = []any{}
	case 2:
		verifC08Params = []any{verifC08Value("first", first.strs, first.nums)}
	case 3:
		verifC08Params = []any{verifC08OfType("first", first.want, first.strs, first.nums), map[string]any{}}
	default:
		v := verifC08OfType("first", first.want, first.strs[:1], first.nums[:1])
		verifC08Params = []any{v, map[string]any{"encoding": verifC08Encodings[verifChoice("encoding", len(verifC08Encodings))]}}
	}
	return raw
}

var verifC08Methods = []string{
	"getBlock", "getTransaction", "getSignaturesForAddress", "getBlockTime",
	"getGenesisHash", "getFirstAvailableBlock", "getSlot",
	"getVersion", "", "getblock", "getBlock\x00", "gétSlot",
}

func VerifC08Dispatch() {
	fasterJson = verifC08JSON{}
	jsoniter.ConfigCompatibleWithStandardLibrary = verifC08JSON{}

	mi := verifParam("method", -1)
	if mi < 0 {
		mi = verifChoice("method", len(verifC08Methods))
	}
	method := verifC08Methods[mi]

	// epochs loaded: 0, 1 (epoch 0 or epoch 1) or 3 (epochs 0..2)
	nEpochs, first := 0, uint64(0)
	ec := verifParam("epochs", -1)
	if ec < 0 {
		if method == "getTransaction" {
			// the multi-epoch signature search (goroutines) is obligation C08.search
			ec = verifChoice("epochs", 3)
		} else {
			ec = verifChoice("epochs", 4)
		}
	}
	switch ec {
	case 1:
		nEpochs = 1
	case 2:
		nEpochs, first = 1, 1
	case 3:
		nEpochs = verifParam("several", 3)
	}

	req := &jsonrpc2.Request{Method: method, ID: jsonrpc2.ID{Num: 1}}
	feature := 0
	switch method {
	case "getBlock":
		req.Params = verifC08DispatchParams(verifC08Key{"slot", verifC08Number, []string{"1"}, []float64{1, 0, 432000, 432001, 1295999, 1296000, 1e300, -1, 1.5}}, true, true)
	case "getTransaction":
		if nEpochs >= 2 {
			// the request shapes are explored with 0 and 1 epochs; the epoch search itself
			// only runs for a well-formed request
			verifC08UnmarshalFails, verifC08ParamsMissing = false, false
			verifC08Params = []any{verifC08Sig64}
			raw := json.RawMessage("[opaque]")
			req.Params = &raw
		} else {
			req.Params = verifC08DispatchParams(verifC08SigArg, true, nEpochs > 0)
		}
		if nEpochs > 0 {
			feature = 2 * verifChoice("feature.sigExists", 2)
		}
	case "getSignaturesForAddress":
		req.Params = verifC08DispatchParams(verifC08AddrArg, false, true)
		if nEpochs > 0 {
			feature = 4 * verifChoice("feature.gsfa", 2)
		}
	case "getBlockTime":
		req.Params = verifC08DispatchParams(verifC08Key{"slot", verifC08Number, []string{"1"}, []float64{1, 0, 3, 4, 432000, 432003, 432004, 1295999, 1296000, 1e300, -1}}, false, true)
		if nEpochs > 0 {
			feature = verifChoice("feature.blocktime", 2)
		}
	case "getGenesisHash":
		if nEpochs > 0 && first == 0 {
			feature = 8 * verifChoice("feature.genesis", 2)
		}
		req.Params = verifC08RawParams(false)
	default:
		req.Params = verifC08RawParams(false)
	}

	multi := verifC08Server(nEpochs, first, feature, verifParam("search_concurrency", 1))
	ctx := setRequestIDToContext(context.Background(), "verif-request")
	conn := &requestContext{ctx: &fasthttp.RequestCtx{}}

	verifC08Replies = 0
	errResp, err := multi.handleRequest(ctx, conn, req)

	// a response is produced: a JSON-RPC error object for the caller to send, or a reply written
	verifAssert(errResp != nil || err != nil || verifC08Replies >= 1, "C08.dispatch: handler finished without a reply and without an error response")
	_ = sanitizeMethod(method)
	_ = isValidLocalMethod(method)

	// the server keeps serving: the epoch-set lock is free for readers and writers
	verifAssert(multi.CountEpochs() == nEpochs, "C08.dispatch: epoch set changed by a query")
	multi.AddEpoch(999, verifC08Epoch(999))
	verifReach("end")
}
