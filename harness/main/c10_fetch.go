//go:build verif

package main

import (
	"bytes"
	"context"
	"encoding/binary"
	"os"

	"github.com/allegro/bigcache/v3"
	"github.com/ipfs/go-cid"
	carv2 "github.com/ipld/go-car/v2"
	"github.com/rpcpool/yellowstone-faithful/compactindexsized"
	deprecatedcompactindex "github.com/rpcpool/yellowstone-faithful/deprecated/compactindex"
	hugecache "github.com/rpcpool/yellowstone-faithful/huge-cache"
	"github.com/rpcpool/yellowstone-faithful/indexes"
)

// ---------------------------------------------------------------------------------------------
// C10.fetch — the public fetch-by-CID entry point of an epoch (Epoch.GetNodeByCid, with the real
// FindOffsetAndSizeFromCid, index reader codecs, object cache, GetNodeByOffsetAndSize, section
// parser) when the CAR file behind the epoch is NOT the file its cid index was built from.
//
// The CAR on the memfs holds two sections (arbitrary payloads); each stores either the wanted
// CID or another CID. The cid index (hash container cut: answers come from the harness) answers
// the wanted CID with a location computed from the other CAR: the start of either section with
// either section's length, a location past the end of the file, or not found.
//
// Reference: a fetch may succeed only if the indexed location is the start of a section that
// stores the wanted CID, and then it returns exactly the bytes behind that CID up to the indexed
// length; if the location is such a section with its own length the fetch succeeds (so the
// refusals are not vacuous); in every other case it fails. A failed fetch leaves nothing in the
// cache: a second fetch answers the same.

func c10FetchCidBytes(variant int) []byte {
	b := []byte{0x01, 0x71, 0x12, 0x20}
	for j := 0; j < 32; j++ {
		b = append(b, byte(0x31+5*j))
	}
	switch variant {
	case 1: // differs from the wanted CID in the last digest byte only
		b[35] ^= 0x01
	case 2: // differs in every digest byte
		for j := 4; j < 36; j++ {
			b[j] = ^b[j]
		}
	case 3: // same digest, other codec (raw instead of dag-cbor)
		b[1] = 0x55
	}
	return b
}

type c10Answer struct {
	found  bool
	offset uint64
	size   uint64
}

var c10FetchAnswer c10Answer

func c10FetchNotFound() error { return compactindexsized.ErrNotFound }

// model (engine redirect, ext_C10.go) of compactindexsized.(*DB).Lookup behind
// CidToOffsetAndSize_Reader.Get: the value the index of the other CAR holds for the wanted CID.
func c10Model_DBLookup(db *compactindexsized.DB, key []byte) ([]byte, error) {
	if !c10FetchAnswer.found || !bytes.Equal(key, c10FetchCidBytes(0)) {
		return nil, c10FetchNotFound()
	}
	oas := indexes.OffsetAndSize{Offset: c10FetchAnswer.offset, Size: c10FetchAnswer.size}
	return oas.Bytes(), nil
}

// model of deprecated/compactindex.(*DB).Lookup behind Deprecated_CidToOffset_Reader.Get (offset only).
func c10Model_DeprecatedDBLookup(db *deprecatedcompactindex.DB, key []byte) (uint64, error) {
	if !c10FetchAnswer.found || !bytes.Equal(key, c10FetchCidBytes(0)) {
		return 0, deprecatedcompactindex.ErrNotFound
	}
	return c10FetchAnswer.offset, nil
}

// model (engine redirect, ext_C10.go) of carv2.(*Reader).DataReader for a local CARv1 file: the
// data payload of a CARv1 file is the file itself.
var c10FetchCarPath string

func c10Model_carv2DataReader(r *carv2.Reader) (carv2.SectionReader, error) {
	verifAssert(r != nil, "C10.fetch: DataReader on a nil reader")
	return os.Open(c10FetchCarPath)
}

func c10FetchSection(cidBytes, data []byte) []byte {
	var lb [binary.MaxVarintLen64]byte
	n := binary.PutUvarint(lb[:], uint64(len(cidBytes)+len(data)))
	out := append([]byte{}, lb[:n]...)
	out = append(out, cidBytes...)
	return append(out, data...)
}

// c10PrefixLen: number of bytes of the uvarint length prefix of a section built by c10FetchSection.
func c10PrefixLen(sec []byte) int {
	_, n := binary.Uvarint(sec)
	return n
}

func VerifC10Fetch() {
	want := c10FetchCidBytes(0)
	wantCid, err := cid.Cast(want)
	verifAssert(err == nil, "C10.fetch: harness CID")

	// the CAR the server has
	others := []int{0, 1, 2, 3}
	nv := verifParam("variants", 4)
	v1 := others[verifChoice("cid1", nv)]
	v2 := others[verifChoice("cid2", nv)]
	// payload lengths: short ones (1-byte length prefix) and, thorough, one needing a 2-byte prefix
	lens1 := []int{5, 100}
	d1 := verifBytes("data1", lens1[verifChoice("len1", verifParam("lens", 1))])
	d2 := verifBytes("data2", 3)
	s1 := c10FetchSection(c10FetchCidBytes(v1), d1)
	s2 := c10FetchSection(c10FetchCidBytes(v2), d2)
	before := verifBytes("before", 7)
	file := append(append([]byte{}, before...), s1...)
	off2 := uint64(len(file))
	file = append(file, s2...)
	file = append(file, verifBytes("after", 11)...)
	off1 := uint64(len(before))
	path := verifTempPath("served.car")
	verifMemFile(path, file)
	f, err := os.Open(path)
	verifAssert(err == nil, "C10.fetch: open")

	// what the cid index (built from another CAR) says about the wanted CID
	deprecated := verifParam("deprecated", 1) == 1 && verifChoice("deprecatedIndex", 2) == 1
	type loc struct {
		found     bool
		off, size uint64
	}
	locs := []loc{
		{true, off1, uint64(len(s1))},
		{true, off2, uint64(len(s2))},
		{true, off1, uint64(len(s2))}, // right place, the length the object has in the other CAR
		{true, off2, uint64(len(s1))},
		{true, uint64(len(file)) + 3, uint64(len(s1))}, // past the end of this CAR
		{false, 0, 0},
	}
	l := locs[verifChoice("indexAnswer", len(locs))]
	c10FetchAnswer = c10Answer{l.found, l.off, l.size}

	cfg := &Config{}
	if deprecated {
		cfg.Indexes.CidToOffset.URI = URI("/memfs/cid-to-offset.index")
	} else {
		cfg.Indexes.CidToOffsetAndSize.URI = URI("/memfs/cid-to-offset-and-size.index")
	}
	cache, err := hugecache.NewWithConfig(context.Background(), bigcache.Config{})
	verifAssert(err == nil && cache != nil, "C10.fetch: cache")
	// the CAR is served through the remote (ReaderAt) reader or as a local file through carv2
	local := verifParam("local", 1) == 1 && verifChoice("localCar", 2) == 1
	c10FetchCarPath = path
	ep := &Epoch{
		config:                      cfg,
		cidToOffsetAndSizeIndex:     &indexes.CidToOffsetAndSize_Reader{},
		deprecated_cidToOffsetIndex: &indexes.Deprecated_CidToOffset_Reader{},
		allCache:                    cache,
	}
	if local {
		ep.localCarReader = &carv2.Reader{Version: 1}
	} else {
		ep.remoteCarReader = f
	}

	// reference
	var expect []byte
	mayServe, mustServe := false, false
	if l.found {
		var sec []byte
		var v int
		switch l.off {
		case off1:
			sec, v = s1, v1
		case off2:
			sec, v = s2, v2
		}
		size := l.size
		if deprecated && sec != nil {
			size = uint64(len(sec)) // the deprecated index holds no size: it is read from the CAR's length prefix
		}
		if sec != nil && v == 0 && l.off+size <= uint64(len(file)) {
			mayServe = true
			plen := uint64(c10PrefixLen(sec))
			expect = file[l.off+plen+36 : l.off+size]
			mustServe = size == uint64(len(sec))
		}
	}

	ctx := context.Background()
	for round := 0; round < 2; round++ {
		got, err := ep.GetNodeByCid(ctx, wantCid)
		if err == nil {
			verifAssert(mayServe, "C10.fetch: GetNodeByCid returns bytes although the indexed location does not hold the wanted CID")
			verifAssert(bytes.Equal(got, expect), "C10.fetch: GetNodeByCid returns bytes that are not the bytes stored behind the wanted CID")
			ep.GetCache().PutRawCarObject(wantCid, got) // as the handlers do after a fetch
			verifReach("served")
		} else {
			verifAssert(!mustServe, "C10.fetch: GetNodeByCid fails although the indexed location holds the wanted CID")
			verifReach("refused")
		}
	}
	verifReach("end")
}
