//go:build verif

package main

import (
	"errors"

	"github.com/gagliardetto/solana-go"
	"github.com/ipfs/go-cid"
	cidlink "github.com/ipld/go-ipld-prime/linking/cid"
	"github.com/rpcpool/yellowstone-faithful/blocktimeindex"
	"github.com/rpcpool/yellowstone-faithful/ipld/ipldbindcode"
	"github.com/rpcpool/yellowstone-faithful/iplddecoders"
)

// ---------------------------------------------------------------------------------------------
// Shared model of an epoch's archive for the C03 obligations of package main.
//
// An epoch holds a few stored objects (blocks and transactions). Each has a concrete, distinct CID
// and symbolic content (slot, parent slot, first signature). The on-disk hash indexes are modelled
// as characterised by C03.lookup: a lookup of an inserted key returns its value; a lookup of an
// absent key returns ErrNotFound *or the value of any stored entry* (24-bit hash coincidence).
// The answers are functional (the same key gets the same answer within one path).

const (
	verifC03KindTx    = 0
	verifC03KindBlock = 2
)

type verifC03Obj struct {
	c         cid.Cid
	kind      int
	slot      uint64           // block: its slot; transaction: slot of its block
	parent    uint64           // block: parent slot
	sig       solana.Signature // transaction: first signature
	blocktime uint64           // block: distinct per stored block (identifies the block in JSON replies)
}

type verifC03Memo struct {
	slot uint64
	sig  solana.Signature
	hit  int // index into objs, -1 = ErrNotFound
}

type verifC03Store struct {
	objs     []*verifC03Obj
	s2c      []verifC03Memo // answers given by the slot-to-cid index so far
	g2c      []verifC03Memo // answers given by the sig-to-cid index so far
	collided bool           // some index answer was the entry of a different key
	// fault model (only with param "faults" = 1): what this epoch's index reads did for the request
	preFilter int  // sig-exists pre-filter: 0 not consulted, 1 answered yes, 2 answered no, 3 read failed
	idxFault  bool // some sig-to-cid read of this epoch failed
}

const (
	verifC03PreNone = iota
	verifC03PreYes
	verifC03PreNo
	verifC03PreFault
)

var verifC03Stores = map[*Epoch]*verifC03Store{}

// verifC03CollFinding: the known finding (if still listed as known) that a foreign-entry answer of the
// index model belongs to in the obligation at hand.
var verifC03CollFinding = "C03-S1-index-answer-unchecked"

// verifC03Cid builds the CIDv1 (dag-cbor, sha2-256) whose digest is filled with byte tag.
func verifC03Cid(tag byte) cid.Cid {
	raw := make([]byte, 36)
	raw[0], raw[1], raw[2], raw[3] = 0x01, 0x71, 0x12, 0x20
	for i := 4; i < 36; i++ {
		raw[i] = tag
	}
	c, err := cid.Cast(raw)
	if err != nil {
		panic(err)
	}
	return c
}

func verifC03Sig(name string) solana.Signature {
	var s solana.Signature
	s[0] = verifU8(name)
	s[1] = verifU8(name)
	s[63] = verifU8(name)
	return s
}

// verifC03NewEpoch creates an epoch (lassie mode: no CAR prefetch) holding nBlocks blocks with
// symbolic slots inside the epoch's slot range and nTxs transactions with symbolic signatures.
func verifC03NewEpoch(num uint64, nBlocks, nTxs int) *Epoch {
	e := &Epoch{epoch: num, isFilecoinMode: true, lassieFetcher: &lassieWrapper{}, config: &Config{}}
	st := &verifC03Store{}
	lo, hi := num*432000, num*432000+431999
	for i := 0; i < nBlocks; i++ {
		o := &verifC03Obj{c: verifC03Cid(byte(0x10*(num+1)) + byte(i)), kind: verifC03KindBlock, blocktime: 1700000000 + num*16 + uint64(i)}
		o.slot = verifU64("storedSlot")
		verifAssume(o.slot >= lo && o.slot <= hi)
		for _, p := range st.objs {
			verifAssume(p.slot != o.slot)
		}
		if verifParam("parents", 1) == 1 {
			o.parent = verifU64("storedParent")
			verifAssume(o.parent < o.slot || o.slot == 0)
		}
		st.objs = append(st.objs, o)
	}
	for i := 0; i < nTxs; i++ {
		o := &verifC03Obj{c: verifC03Cid(byte(0x10*(num+1)) + 8 + byte(i)), kind: verifC03KindTx}
		o.slot = lo + 3 + uint64(i) // concrete: only used to look up the block time
		o.sig = verifC03Sig("storedSig")
		for _, p := range st.objs {
			if p.kind == verifC03KindTx {
				verifAssume(p.sig != o.sig)
			}
		}
		st.objs = append(st.objs, o)
	}
	verifC03Stores[e] = st
	e.sigExists = &verifC03SigExists{st: st}
	e.blocktimeindex = blocktimeindex.NewIndexer(lo, lo+15, 16)
	for i := uint64(0); i < 16; i++ {
		e.blocktimeindex.Set(lo+i, int64(1700000000+i))
	}
	return e
}

// model of the sig-exists pre-filter (bucketteer.Reader.Has: 2-byte prefix bucket + 64-bit hash).
// Default: no false negatives, false positives arbitrary, reads never fail.
// With param "faults" = 1: exact answers (a 64-bit hash coincidence is ignored) and every read may
// fail (flaky remote index, file closed during a reload); the outcome is recorded per epoch.
type verifC03SigExists struct{ st *verifC03Store }

var verifC03ErrRead = errors.New("verif model: index read failed")

func (b *verifC03SigExists) Has(sig [64]byte) (bool, error) {
	faults := verifParam("faults", 0) == 1
	if faults && verifChoice("sigExistsReadFails", 2) == 1 {
		b.st.preFilter = verifC03PreFault
		return false, verifC03ErrRead
	}
	for _, o := range b.st.objs {
		if o.kind == verifC03KindTx && o.sig == solana.Signature(sig) {
			b.st.preFilter = verifC03PreYes
			return true, nil
		}
	}
	if faults {
		b.st.preFilter = verifC03PreNo
		return false, nil
	}
	return verifBool("sigExistsFalsePositive"), nil
}

// pick: answer of a keyless hash index for a key; same(i) tells whether stored entry i has this key.
func (st *verifC03Store) pick(name string, kind int, same func(o *verifC03Obj) bool) int {
	var cand []int
	for i, o := range st.objs {
		if o.kind == kind {
			cand = append(cand, i)
		}
	}
	k := verifChoice(name, len(cand)+1)
	if k == len(cand) {
		for _, i := range cand {
			verifAssume(!same(st.objs[i])) // inserted keys are always found (C04)
		}
		return -1
	}
	hit := cand[k]
	for _, i := range cand {
		if i != hit {
			verifAssume(!same(st.objs[i])) // an inserted key is answered with its own entry
		}
	}
	// absent key with equal 24-bit hash: the index answers with another key's entry
	coll := !same(st.objs[hit])
	verifKnownFinding(verifC03CollFinding, coll)
	if coll {
		st.collided = true
	}
	return hit
}

var verifC03EpochByNum = map[uint64]*Epoch{}

func verifC03ObjOf(data []byte, kind int) (*verifC03Obj, error) {
	if len(data) < 3 || int(data[0]) != kind {
		return nil, errors.New("verif model: node is not of the expected kind")
	}
	e := verifC03EpochByNum[uint64(data[2])]
	return verifC03Stores[e].objs[data[1]], nil
}

// models of iplddecoders.DecodeBlock / DecodeTransaction (CBOR decoding is out of scope): the
// decoded node carries the stored object's slot / parent / first signature.
func verifC03DecodeBlock(data []byte) (*ipldbindcode.Block, error) {
	o, err := verifC03ObjOf(data, verifC03KindBlock)
	if err != nil {
		return nil, err
	}
	return &ipldbindcode.Block{
		Kind:    verifC03KindBlock,
		Slot:    int(o.slot),
		Meta:    ipldbindcode.SlotMeta{Parent_slot: int(o.parent), Blocktime: int(o.blocktime)},
		Rewards: cidlink.Link{Cid: DummyCID},
	}, nil
}

func verifC03DecodeTransaction(data []byte) (*ipldbindcode.Transaction, error) {
	o, err := verifC03ObjOf(data, verifC03KindTx)
	if err != nil {
		return nil, err
	}
	buf := make([]byte, 1+64+3)
	buf[0] = 1 // compact-u16: one signature
	copy(buf[1:65], o.sig[:])
	return &ipldbindcode.Transaction{
		Kind: verifC03KindTx,
		Data: ipldbindcode.DataFrame{Kind: 6, Data: buf},
		Slot: int(o.slot),
	}, nil
}

func verifC03Install(epochs ...*Epoch) {
	iplddecoders.VerifDecodeBlock = verifC03DecodeBlock
	iplddecoders.VerifDecodeTransaction = verifC03DecodeTransaction
	for _, e := range epochs {
		verifC03EpochByNum[e.epoch] = e
	}
}
