//go:build verif

package main

import (
	"context"
	"errors"
	"fmt"
)

var verifC18Sentinel = errors.New("not found (shared sentinel)")

// identity of error values (ErrorSlice is not comparable: compare length and backing array)
func verifC18SameErr(a, b error) bool {
	as, aok := a.(ErrorSlice)
	bs, bok := b.(ErrorSlice)
	if aok || bok {
		return aok && bok && len(as) == len(bs) && (len(as) == 0 || &as[0] == &bs[0])
	}
	return a == b
}

// C18 — FirstSuccess under every completion order, outcome vector and concurrency limit.
func VerifC18FirstSuccess() {
	minJobs := verifParam("minjobs", 1)
	maxJobs := verifParam("jobs", 3)
	n := verifChoice("njobs", maxJobs-minJobs+1) + minJobs
	conc := verifParam("conc", 0) // 0 => every limit in {-1, 1..n}
	if conc == 0 {
		conc = verifChoice("concurrency", n+1) // 0 => -1 (unlimited), k => k
		if conc == 0 {
			conc = -1
		}
	}
	// what a failing job returns (always together with an arbitrary partial value):
	//  0 a plain error of its own; 1/2 an error that wraps context.DeadlineExceeded / context.Canceled
	//  from the job's OWN inner deadline (the request context stays live); 3 the SAME sentinel value
	//  for every failing job (as ErrNotFound in the epoch search); 4 job 0 fails with an ErrorSlice
	//  of a nested group (2 inner errors, or none for odd n); 5 job i fails with the sentinel
	//  wrapped i times
	errKind := verifChoice("errkind", verifParam("errkinds", 6))
	oks := make([]bool, n)
	vals := make([]uint64, n)
	partial := make([]uint64, n)
	errs := make([]error, n)
	var fns []JobFunc[uint64]
	for i := 0; i < n; i++ {
		i := i
		oks[i] = verifBool("ok")
		vals[i] = verifU64("val")
		partial[i] = verifU64("partial")
		switch errKind {
		case 1:
			errs[i] = fmt.Errorf("epoch lookup: %w", context.DeadlineExceeded)
		case 2:
			errs[i] = fmt.Errorf("epoch lookup: %w", context.Canceled)
		case 3:
			errs[i] = verifC18Sentinel
		case 4:
			if i == 0 && n%2 == 0 {
				errs[i] = ErrorSlice{errors.New("inner A"), errors.New("inner B")}
			} else if i == 0 {
				errs[i] = ErrorSlice{}
			} else {
				errs[i] = errors.New("job failed")
			}
		case 5:
			e := error(verifC18Sentinel)
			for k := 0; k < i; k++ {
				e = fmt.Errorf("epoch %d: %w", k, e)
			}
			errs[i] = e
		default:
			errs[i] = errors.New("job failed")
		}
		fns = append(fns, func(ctx context.Context) (uint64, error) {
			if oks[i] {
				return vals[i], nil
			}
			return partial[i], errs[i]
		})
	}
	got, err := FirstSuccess[uint64](context.Background(), conc, fns...)
	anyOK := false
	for i := 0; i < n; i++ {
		if oks[i] {
			anyOK = true
		}
	}
	if anyOK {
		verifAssert(err == nil, "C18: a job succeeded but FirstSuccess returned an error")
		produced := false
		for i := 0; i < n; i++ {
			if oks[i] && vals[i] == got {
				produced = true
			}
		}
		verifAssert(produced, "C18: returned value was produced by no successful job")
	} else {
		es, isSlice := err.(ErrorSlice)
		verifAssert(isSlice, "C18: all jobs failed but the error is not an ErrorSlice")
		verifAssert(len(es) == n, "C18: error list is not complete")
		for i := 0; i < n; i++ {
			cnt, want := 0, 0
			for _, e := range es {
				if verifC18SameErr(e, errs[i]) {
					cnt++
				}
			}
			for j := 0; j < n; j++ {
				if verifC18SameErr(errs[j], errs[i]) {
					want++
				}
			}
			verifAssert(cnt == want, "C18: a job's error is missing from / duplicated in the error list")
		}
	}
	verifReach("end")
}
