//go:build verif

package main

import (
	"context"
	"errors"
)

// C03.sigsearch — the real MultiEpoch.findEpochNumberFromSignature (behind JSON-RPC getTransaction,
// gRPC GetTransaction and /api/v1/sig-to-cid) with several epochs, every schedule of the per-epoch
// jobs, index false hits and failing index reads:
//   - an epoch is named only if its own pre-filter answered yes, hence only if it archives the
//     signature (never on the strength of the keyless index alone);
//   - ErrNotFound only if no loaded epoch archives the signature;
//   - a signature archived in an epoch whose reads all succeed is found, whatever the other epochs do.
func VerifC03SigSearch() {
	ne := verifParam("epochs", 2)
	multi, eps := verifC03Multi(ne, 0, 1+verifChoice("ntxs", verifParam("maxtxs", 1)))
	q := verifC03Sig("sig")
	num, err := multi.findEpochNumberFromSignature(context.Background(), q)
	healthyHome, _ := verifC03Health(eps)
	anyArchived := verifC03SigArchived(eps, q)
	if err == nil {
		e := multi.epochs[num]
		verifAssert(e != nil, "C03.sigsearch: the search names an epoch that is not loaded")
		verifAssert(verifC03ArchivedIn(e, q) == 1, "C03.sigsearch: the search names an epoch that does not archive the signature")
	} else {
		if errors.Is(err, ErrNotFound) {
			verifAssert(anyArchived == 0, "C03.sigsearch: not-found for a signature that a loaded epoch archives")
		}
		verifAssert(!healthyHome, "C03.sigsearch: a signature archived in an epoch whose index reads all succeeded is not found")
	}
	verifReach("end")
}
