//go:build verif

package main

import (
	"context"
	"encoding/json"
	"errors"

	"github.com/gagliardetto/solana-go"
	"github.com/ipfs/go-cid"
	jsoniter "github.com/json-iterator/go"
	"github.com/rpcpool/yellowstone-faithful/compactindexsized"
	"github.com/rpcpool/yellowstone-faithful/gsfa"
	"github.com/rpcpool/yellowstone-faithful/gsfa/linkedlog"
	"github.com/rpcpool/yellowstone-faithful/indexes"
	"github.com/rpcpool/yellowstone-faithful/ipld/ipldbindcode"
	"github.com/sourcegraph/jsonrpc2"
)

// ---------------------------------------------------------------------------
// C07.e2e — the public entry point end to end: the real handleGetSignaturesForAddress with the real
// parseGetSignaturesForAddressParams, getGsfaReadersInEpochDescendingOrder, NewGsfaReaderMultiepoch,
// GetBeforeUntil/iterBeforeUntil over real linked logs (LinkedLog.Put / ReadWithSize on memfs), the
// handler's real fetcher closure (epoch lookup, location -> node bytes -> transaction) and the real
// response assembly, for every map iteration order. Oracle: an independent reference slice of the
// newest-first history (after `before`, through `until`, cut to the effective limit).
//
// Cuts: JSON byte parsing (fasterJson replaced by a shape model), the per-epoch head lookup
// index.offsets.Get (hook injected into package gsfa), Epoch.GetNodeByOffsetAndSize (table: the
// CAR bytes of a location of THAT epoch), iplddecoders.DecodeTransaction at its call site (table),
// parseTransactionAndMetaFromNode (fails: err/memo stay null), requestContext.ReplyRaw (records).

type verifC07ETx struct {
	id    int // 1-based position in the complete newest-first history
	epoch uint64
	off   uint64
	size  uint64
	sig   solana.Signature
	tx    *ipldbindcode.Transaction
}

var verifC07E struct {
	pk      solana.PublicKey
	heads   map[*gsfa.GsfaReader]*indexes.OffsetAndSize
	byLoc   map[[3]uint64]*verifC07ETx // epoch, offset, size
	byRaw   map[string]*verifC07ETx
	params  []any
	replies []interface{}
	fetches int
}

type verifC07EJSON struct{ jsoniter.API }

func (verifC07EJSON) Unmarshal(data []byte, v interface{}) error {
	p, ok := v.(*[]any)
	if !ok {
		panic("verifC07EJSON.Unmarshal: unexpected target type")
	}
	*p = verifC07E.params
	return nil
}

// model of (*requestContext).ReplyRaw
func (c *requestContext) ReplyRaw(ctx context.Context, id jsonrpc2.ID, result interface{}) error {
	verifAssert(id.Num == 78 && !id.IsString, "C07.e2e: reply sent with a different request id")
	verifC07E.replies = append(verifC07E.replies, result)
	return nil
}

// model of (*Epoch).GetNodeByOffsetAndSize: the bytes stored at a location of this epoch's CAR
func (s *Epoch) GetNodeByOffsetAndSize(ctx context.Context, wantedCid *cid.Cid, oas *indexes.OffsetAndSize) ([]byte, error) {
	verifC07E.fetches++
	verifAssert(oas != nil, "C07.e2e: nil location")
	e := verifC07E.byLoc[[3]uint64{s.epoch, oas.Offset, oas.Size}]
	verifAssert(e != nil, "C07.e2e: the fetcher reads a location that is not a transaction of the address in that epoch (wrong epoch / offset / size)")
	return []byte{0xC7, byte(e.id)}, nil
}

// model of iplddecoders.DecodeTransaction at its call site in the handler
func verifC07EDecode(raw []byte, real func([]byte) (*ipldbindcode.Transaction, error)) (*ipldbindcode.Transaction, error) {
	e := verifC07E.byRaw[string(raw)]
	verifAssert(e != nil, "C07.e2e: decoding bytes that no location holds")
	return e.tx, nil
}

// model of parseTransactionAndMetaFromNode: undecodable payload (the handler logs and goes on)
func parseTransactionAndMetaFromNode(
	transactionNode *ipldbindcode.Transaction,
	dataFrameGetter func(ctx context.Context, wantedCid cid.Cid) (*ipldbindcode.DataFrame, error),
) (tx solana.Transaction, meta any, _ error) {
	return solana.Transaction{}, nil, errors.New("verif: payload not modelled")
}

func verifC07ESig(id int) (s solana.Signature) {
	s[0] = byte(id)
	s[7] = 0x44
	s[63] = byte(id) ^ 0x5A
	return
}

func verifC07EBody() {
	verifMapOrderNondet(true)
	E := &verifC07E
	E.pk = solana.PublicKey{9, 8, 7, 6}
	E.heads = map[*gsfa.GsfaReader]*indexes.OffsetAndSize{}
	E.byLoc = map[[3]uint64]*verifC07ETx{}
	E.byRaw = map[string]*verifC07ETx{}
	E.params, E.replies, E.fetches = nil, nil, 0
	gsfa.VerifC07Head = func(index *gsfa.GsfaReader, pk solana.PublicKey) (*indexes.OffsetAndSize, error) {
		// inside package gsfa the only map range is EpochToTransactionObjects.Count (a sum): its
		// iteration order is not enumerated (switched on again when GetBeforeUntil has returned)
		verifMapOrderNondet(false)
		verifAssert(pk == E.pk, "C07.e2e: index queried for another address")
		h, ok := E.heads[index]
		verifAssert(ok, "C07.e2e: unknown gsfa reader")
		if h == nil {
			return nil, compactindexsized.ErrNotFound
		}
		cp := *h
		return &cp, nil
	}
	fasterJson = verifC07EJSON{}
	limitChoice := verifChoice("limit", verifParam("limits", 3))
	// full: 0 = signatures only, 1 = both (choice), 2 = always full, 3 = full iff no limit is sent
	full := verifParam("full", 0) == 2 || (verifParam("full", 0) == 1 && verifChoice("full", 2) == 1) ||
		(verifParam("full", 0) == 3 && limitChoice == 0)
	m := NewMultiEpoch(&Options{GsfaOnlySignatures: !full})

	// world: 1..K loaded epochs (inserted in no particular order), address has 0..M entries in each
	nums := []uint64{5, 9, 2}
	names := []string{"e2e-ll-a", "e2e-ll-b", "e2e-ll-c"}
	minK := verifParam("min_epochs", 1)
	K := minK + verifChoice("epochs", verifParam("max_epochs", 2)-minK+1)
	perEpoch := map[uint64][]*verifC07ETx{}
	other := solana.PublicKey{1, 1, 1}
	for k := 0; k < K; k++ {
		epochNum := nums[k]
		n := verifChoice("entries", verifParam("max_entries", 2)+1)
		ll, err := linkedlog.NewLinkedLog(verifTempPath(names[k]))
		verifAssert(err == nil, "C07.e2e setup: NewLinkedLog")
		rd := gsfa.VerifC07NewReader(ll)
		m.epochs[epochNum] = &Epoch{epoch: epochNum, gsfaReader: rd}
		var prev indexes.OffsetAndSize
		put := func(pk solana.PublicKey, part []*verifC07ETx) { // part newest first
			vals := make([]*linkedlog.OffsetAndSizeAndSlot, len(part))
			for i := range part {
				e := part[len(part)-1-i]
				vals[i] = &linkedlog.OffsetAndSizeAndSlot{Offset: e.off, Size: e.size, Slot: uint64(e.tx.Slot)}
			}
			_, err := ll.Put(
				func(solana.PublicKey) (indexes.OffsetAndSize, error) {
					if pk == E.pk {
						return prev, nil
					}
					return indexes.OffsetAndSize{}, nil
				},
				func(_ solana.PublicKey, off uint64, ln uint32) error {
					if pk == E.pk {
						prev = indexes.OffsetAndSize{Offset: off, Size: uint64(ln)}
					}
					return nil
				},
				linkedlog.KeyToOffsetAndSizeAndBlocktime{Key: pk, Values: vals},
			)
			verifAssert(err == nil, "C07.e2e setup: LinkedLog.Put")
		}
		// another address's record may come first, so that the address's records do not start at offset 0
		allShapes := verifParam("shapes", 0) == 1
		if (allShapes && verifChoice("foreign_first", 2) == 1) || (!allShapes && k%2 == 0) {
			put(other, []*verifC07ETx{{off: 7777, size: 3, tx: &ipldbindcode.Transaction{Slot: 1}}})
		}
		if n == 0 {
			E.heads[rd] = nil
			verifAssert(ll.Flush() == nil, "C07.e2e setup: Flush")
			continue
		}
		ents := make([]*verifC07ETx, n)
		for i := 0; i < n; i++ {
			// offsets and sizes repeat across epochs: only (epoch, offset, size) identifies a transaction
			ents[i] = &verifC07ETx{epoch: epochNum, off: uint64(100 + i), size: uint64(10 + i)}
		}
		s := 0
		if n >= 2 {
			if allShapes {
				s = verifChoice("split", 2) * (n / 2)
			} else if k%2 == 0 {
				s = n / 2
			}
		}
		perEpoch[epochNum] = ents
		// ids / signatures are assigned below in history order; Put only needs the locations
		for _, e := range ents {
			e.tx = &ipldbindcode.Transaction{}
		}
		if s > 0 {
			put(E.pk, ents[n-s:])
		}
		put(E.pk, ents[:n-s])
		verifAssert(ll.Flush() == nil, "C07.e2e setup: Flush")
		head := prev
		E.heads[rd] = &head
	}
	// complete history, newest epoch first
	var hist []*verifC07ETx
	for _, ep := range []uint64{9, 5, 2} {
		for _, e := range perEpoch[ep] {
			e.id = len(hist) + 1
			e.sig = verifC07ESig(e.id)
			e.tx.Slot = int(ep)*432000 + 1000 - e.id
			e.tx.Data = ipldbindcode.DataFrame{Data: append([]byte{1}, e.sig[:]...)}
			E.byLoc[[3]uint64{e.epoch, e.off, e.size}] = e
			E.byRaw[string([]byte{0xC7, byte(e.id)})] = e
			hist = append(hist, e)
		}
	}
	N := len(hist)

	// request: [address, {limit?, before?, until?}]
	opts := map[string]interface{}{}
	start, end := 0, N
	if N > 0 {
		if b := verifChoice("before", N+1); b > 0 {
			opts["before"] = hist[b-1].sig.String()
			start = b
		}
	}
	// until: absent, any history entry (older than, equal to or newer than `before`), or a signature
	// that is not in the history; the run ends with it only if it lies in the run after `before`
	if u := verifChoice("until", N+2); u > 0 {
		if u <= N {
			opts["until"] = hist[u-1].sig.String()
			if u > start {
				end = u
			}
		} else {
			opts["until"] = verifC07ESig(200).String()
		}
	}
	effLimit := 1000
	switch limitChoice {
	case 1:
		opts["limit"] = float64(1)
		effLimit = 1
	case 2:
		opts["limit"] = float64(2)
		effLimit = 2
	case 3:
		opts["limit"] = float64(0) // out of range: default 1000
	case 4:
		opts["limit"] = float64(1001)
	}
	E.params = []any{E.pk.String(), opts}
	want := hist[start:end]
	if len(want) > effLimit {
		want = want[:effLimit]
	}

	raw := json.RawMessage(`[]`)
	req := &jsonrpc2.Request{Method: "getSignaturesForAddress", ID: jsonrpc2.ID{Num: 78}, Params: &raw}
	jerr, err := m.handleGetSignaturesForAddress(context.Background(), &requestContext{}, req)
	verifAssert(jerr == nil && err == nil, "C07.e2e: handler failed on a good request")
	verifAssert(len(E.replies) == 1, "C07.e2e: not exactly one reply")
	resp, ok := E.replies[0].([]map[string]any)
	verifAssert(ok, "C07.e2e: reply is not a list of objects")
	verifAssert(len(resp) == len(want), "C07.e2e: reply has the wrong number of entries (before/until/limit slice of the history)")
	for i, e := range want {
		verifAssert(resp[i] != nil, "C07.e2e: reply entry is null")
		got, _ := resp[i]["signature"].(string)
		verifAssert(got == e.sig.String(), "C07.e2e: reply is not the newest-first run of the history after `before`")
		if full {
			slot, _ := resp[i]["slot"].(uint64)
			verifAssert(slot == uint64(e.tx.Slot), "C07.e2e: entry carries the slot of another transaction")
			cs, _ := resp[i]["confirmationStatus"].(string)
			verifAssert(cs == "finalized", "C07.e2e: confirmationStatus missing")
			_, hasErr := resp[i]["err"]
			_, hasMemo := resp[i]["memo"]
			_, hasBT := resp[i]["blockTime"]
			verifAssert(hasErr && hasMemo && hasBT, "C07.e2e: err/memo/blockTime members missing")
		} else {
			verifAssert(len(resp[i]) == 1, "C07.e2e: signatures-only reply entry has extra members")
		}
	}
	verifReach("end")
}

// Natively Go picks map iteration orders at random: repeat the body (see C07.order).
func VerifC07E2E() {
	if verifSymbolic() {
		verifC07EBody()
		return
	}
	for i := 0; i < 32; i++ {
		verifReset()
		verifC07EBody()
	}
}
