//go:build verif

package main

import "github.com/rpcpool/yellowstone-faithful/blocktimeindex"

// C13.blocktime.server — the server path of NewEpochFromConfig for the slot-to-blocktime index:
// ReadAllFromReaderAt(file, <size of the complete index>) followed by blocktimeindex.FromBytes.
// (The real size is blocktimeindex.DefaultIndexByteSize = 46 + 4*432000; the harness index has a
// small capacity and passes its own complete size.)
func VerifC13BlocktimeServer() {
	capacity := uint64(verifParam("capacity", 3))
	epoch := uint64(verifChoice("epoch", 2))
	start := epoch * 432000
	idx := blocktimeindex.NewIndexer(start, start+431999, capacity)
	vals := make([]int64, capacity)
	for i := range vals {
		vals[i] = int64(verifU32("blocktime"))
		verifAssert(idx.Set(start+uint64(i), vals[i]) == nil, "C13.blocktime.server: Set failed")
	}
	img, err := idx.MarshalBinary()
	verifAssert(err == nil, "C13.blocktime.server: MarshalBinary failed")
	N := int64(len(img))

	buf, err := ReadAllFromReaderAt(&verifC13File{data: img, t: N}, uint64(N))
	verifAssert(err == nil, "C13.blocktime.server: complete file not read")
	full, err := blocktimeindex.FromBytes(buf)
	verifAssert(err == nil, "C13.blocktime.server: complete index does not decode")

	T := int64(verifU16("T"))
	verifAssume(T < N)
	buf, err = ReadAllFromReaderAt(&verifC13File{data: img, t: T, mmap: verifChoice("reader", 2) == 1}, uint64(N))
	if err != nil {
		verifAssert(buf == nil, "C13.blocktime.server: bytes returned together with an error")
		verifReach("read-error")
		verifReach("end")
		return
	}
	cut, err := blocktimeindex.FromBytes(buf)
	if err != nil {
		verifReach("decode-error")
		verifReach("end")
		return
	}
	verifAssert(cut.Epoch() == full.Epoch(), "C13.blocktime.server: truncated index loads with another epoch")
	for i := range vals {
		got, err := cut.Get(start + uint64(i))
		if err == nil {
			verifAssert(got == vals[i], "C13.blocktime.server: truncated index answers a slot with a different block time")
		}
	}
	verifReach("loaded")
	verifReach("end")
}
