//go:build verif

package main

// C19.faults — the real StreamTransactions (entry, block-scan branch) when something goes wrong while
// streaming: the k-th Send fails (client gone), the stream context is already cancelled, an epoch of
// the range is loaded without block-time index, the filter carries a malformed account string.
// The property's "exactly the matching transactions, ascending" is checked for the part of the
// stream that precedes the fault: the stream is the longest fault-free prefix of the reference
// stream, nothing is sent after the fault, and the fault is reported (never a nil result with a
// truncated stream, never a panic).

import (
	"context"

	old_faithful_grpc "github.com/rpcpool/yellowstone-faithful/old-faithful-proto/old-faithful-grpc"
	"google.golang.org/grpc/codes"
	"google.golang.org/grpc/status"
)

const (
	verifC19FaultSend = iota
	verifC19FaultCancelled
	verifC19FaultNoBlocktime
	verifC19FaultBadAccount
	verifC19FaultNone
	verifC19FaultCancelMid // the client cancels right after the first message
)

var verifC19BadAccounts = []string{"0OIl", "1", ""}

// verifC19CheckPrefix: `sent` (0/1 by id, already known to be ascending and well formed) must be the
// longest prefix of the reference stream over exam (ascending) that precedes the first "stopper":
// a matching transaction whose epoch has no block-time index, or the matching transaction whose
// Send is the one that fails. err reports whether the code stopped.
func verifC19CheckPrefix(oblig string, f *verifC19FilterSpec, exam []*verifC19Tx, sent []uint64, nsent, failAt int, stopped bool) {
	L := 0
	for i, t := range exam {
		if sent[t.id] == 1 {
			L = i + 1
		}
	}
	for i := 0; i < L; i++ {
		t := exam[i]
		verifAssert(sent[t.id] == f.matches(t), oblig+": before the fault the stream is not exactly the matching transactions")
		if sent[t.id] == 1 {
			verifAssert(int(verifC19EpochOf(t)) != verifC19NoBlocktimeEpoch, oblig+": transaction sent without a block time")
		}
	}
	sendFails := uint64(0)
	if failAt >= 0 && nsent == failAt {
		sendFails = 1
	}
	found, none := uint64(0), uint64(1)
	for i := L; i < len(exam); i++ {
		t := exam[i]
		m := f.matches(t)
		bad := sendFails
		if int(verifC19EpochOf(t)) == verifC19NoBlocktimeEpoch {
			bad = 1
		}
		found |= none & m & bad
		none &= 1 ^ m
	}
	if stopped {
		verifAssert(found == 1, oblig+": the stream stopped with an error although the next matching transaction could be sent")
	} else {
		verifAssert(none == 1, oblig+": result nil although matching transactions of the range were not sent")
	}
}

func verifC19EpochOf(t *verifC19Tx) uint64 { return (verifC19.start + uint64(t.slotIx)) / 432000 }

func verifC19ChooseFault(nfaults int) (fault, failAt int, cancelled bool, badList int, badAcct string) {
	fault = verifChoice("fault", nfaults)
	failAt, badList = -1, -1
	verifC19NoBlocktimeEpoch = -1
	switch fault {
	case verifC19FaultSend:
		failAt = verifChoice("send_fails_at", 2)
	case verifC19FaultCancelled:
		cancelled = true
	case verifC19FaultNoBlocktime:
		verifC19NoBlocktimeEpoch = verifChoice("epoch_without_blocktime", 2)
	case verifC19FaultBadAccount:
		badList = verifChoice("malformed_in_list", 3)
		badAcct = verifC19BadAccounts[verifChoice("malformed_account", len(verifC19BadAccounts))]
	}
	return
}

func VerifC19Faults() {
	const ob = "C19.faults"
	verifC19Reset(verifC19Base)
	fault, failAt, cancelled, badList, badAcct := verifC19ChooseFault(6)
	tpl := []string{"11", "2", "12"}[verifChoice("window", verifParam("templates", 2))]
	verifC19Window(tpl, func(t *verifC19Tx) { t.prog = 9 })

	f := &verifC19FilterSpec{}
	withGsfa := false
	f.vote = verifBool("filter.vote")
	f.failed = verifBool("filter.failed")
	nf := 3
	if fault == verifC19FaultBadAccount {
		nf = 2 // a filter is needed to carry the account
	}
	switch verifChoice("filter", nf) {
	case 0:
		f.incl = verifC19Lists[1] // include [A], no address index
	case 1:
		withGsfa = true
		f.excl = verifC19Lists[3] // exclude [B], address index loaded (scan because include is empty)
	default:
		f.nilFilter = true
	}
	var exam []*verifC19Tx
	for _, s := range verifC19.slots {
		exam = append(exam, s.txs...)
	}
	filter := f.build()
	switch badList {
	case 0:
		filter.AccountInclude = append([]string{verifC19AcctB}, badAcct)
	case 1:
		filter.AccountExclude = []string{badAcct}
	case 2:
		filter.AccountRequired = append([]string{verifC19AcctA}, badAcct)
	}

	end := verifC19.start + uint64(len(verifC19.slots)) - 1
	req := &old_faithful_grpc.StreamTransactionsRequest{StartSlot: verifC19.start, EndSlot: &end, Filter: filter}
	ser := &verifC19TxStream{ctx: context.Background(), failAt: failAt}
	if cancelled {
		ctx, cancel := context.WithCancel(context.Background())
		cancel()
		ser.ctx = ctx
	}
	if fault == verifC19FaultCancelMid {
		ser.ctx, ser.cancel = context.WithCancel(context.Background())
		ser.cancelAfter = 1
	}

	err := verifC19Multi(withGsfa).StreamTransactions(req, ser)

	sent := verifC19CheckStream(ob, ser.sent)
	for _, r := range ser.sent {
		t := verifC19.txs[int(r.Transaction.Transaction[0])]
		verifAssert(r.Slot == verifC19.start+uint64(t.slotIx), ob+": response does not carry the slot of the transaction")
	}
	switch fault {
	case verifC19FaultCancelled:
		verifAssert(err == context.Canceled, ob+": a cancelled stream does not end with the context's error")
		verifAssert(len(ser.sent) == 0 && verifC19.getBlockCalls == 0, ob+": work done for a cancelled stream")
	case verifC19FaultCancelMid:
		// the context is polled once per slot: the slot of the first message is completed, no later
		// slot is touched, and the result is the context's error unless that slot was the last one
		first := -1
		for _, t := range exam {
			if sent[t.id] == 1 && first < 0 {
				first = t.slotIx
			}
		}
		for _, t := range exam {
			if first < 0 || t.slotIx <= first {
				verifAssert(sent[t.id] == f.matches(t), ob+": up to the slot in which the client cancelled the stream is not exactly the matching transactions")
			} else {
				verifAssert(sent[t.id] == 0, ob+": transaction of a later slot sent after the client cancelled")
			}
		}
		if first >= 0 && first < len(verifC19.slots)-1 {
			verifAssert(err == context.Canceled, ob+": a stream cancelled by the client does not end with the context's error")
		} else {
			verifAssert(err == nil, ob+": unexpected error")
		}
	case verifC19FaultBadAccount:
		verifAssert(err != nil && status.Code(err) == codes.InvalidArgument, ob+": a malformed account in the filter is not rejected as InvalidArgument")
		verifAssert(len(ser.sent) == 0 && verifC19.getBlockCalls == 0, ob+": work done for an invalid request")
	default:
		if err != nil {
			if fault == verifC19FaultSend {
				verifAssert(err == verifC19SendErr, ob+": a failed Send is not reported as the result")
			} else {
				verifAssert(fault == verifC19FaultNoBlocktime && status.Code(err) == codes.Internal, ob+": unexpected error")
			}
		}
		verifC19CheckPrefix(ob, f, exam, sent, len(ser.sent), failAt, err != nil)
	}
	verifReach("end")
}
