//go:build verif

package main

import (
	"context"
	"errors"
	"hash/crc64"
	"hash/fnv"

	"github.com/ipfs/go-cid"
	cidlink "github.com/ipld/go-ipld-prime/linking/cid"
	"github.com/rpcpool/yellowstone-faithful/ipld/ipldbindcode"
)

// ---------------------------------------------------------------------------------------------
// C14 — multi-frame payloads reassemble to the original bytes or are rejected.
//
// Shared model: a payload of n frames laid out as a tree of `next` links (frame 0 is the frame
// embedded in the Transaction/Rewards object, every other frame is stored under its own CID and
// is fetched through the dataFrameGetter). The shape of the tree is enumerated (every ordered
// rooted tree with n nodes: node k, in pre-order, is attached below any node of the current
// right-most path), the assignment of frame indices to tree positions is enumerated (every
// permutation) and the index values themselves are symbolic (any strictly increasing chain of
// ints). Frame contents are symbolic bytes. The store is a table keyed by CID, so the order in
// which frames are stored is immaterial by construction; the order in which they are *fetched*
// is the pre-order of the tree, and all tree shapes x all index permutations covers every
// fetch order.

func c14Cid(i int) cid.Cid {
	raw := make([]byte, 36)
	raw[0], raw[1], raw[2], raw[3] = 0x01, 0x71, 0x12, 0x20
	for j := 4; j < 36; j++ {
		raw[j] = byte(0x30 + 5*i + j)
	}
	c, err := cid.Cast(raw)
	if err != nil {
		panic("c14: harness CID does not parse")
	}
	return c
}

func c14pp(v int) **int {
	p := &v
	return &p
}

type c14Payload struct {
	n      int
	parent []int
	rank   []int // rank[k]: position of tree node k in index order (concrete permutation)
	idx    []int // idx[k]: symbolic index value of tree node k
	data   [][]byte
	frames []*ipldbindcode.DataFrame
	cids   []cid.Cid
	orig   []byte // concatenation of the frames' data in index order (the writer's payload)
}

// c14Concrete: frame contents and index values are concrete (pairwise distinct) instead of
// symbolic. Used for the larger frame counts, where only the tree shape and the assignment of
// indices to tree positions are enumerated.
var c14Concrete bool

var errC14NotStored = errors.New("c14: frame not stored")

type c14Store struct {
	cids    []cid.Cid
	frames  []*ipldbindcode.DataFrame
	missing int // table slot that is absent from the store (-1: none)
	fetches int
}

func (s *c14Store) add(p *c14Payload) {
	// frame 0 is embedded in the parent object and is never fetched
	for k := 1; k < p.n; k++ {
		s.cids = append(s.cids, p.cids[k])
		s.frames = append(s.frames, p.frames[k])
	}
}

func (s *c14Store) get(ctx context.Context, want cid.Cid) (*ipldbindcode.DataFrame, error) {
	s.fetches++
	for i := range s.cids {
		if s.cids[i].Equals(want) {
			if i == s.missing {
				return nil, errC14NotStored
			}
			return s.frames[i], nil
		}
	}
	return nil, errC14NotStored
}

// c14Tree enumerates every ordered rooted tree with n nodes (pre-order numbering).
func c14Tree(n int) []int {
	parent := make([]int, n)
	path := []int{0}
	for k := 1; k < n; k++ {
		d := verifChoice("attach", len(path))
		parent[k] = path[d]
		path = append(append([]int{}, path[:d+1]...), k)
	}
	return parent
}

// c14Perm enumerates every permutation of 0..n-1.
func c14Perm(n int) []int {
	pool := make([]int, n)
	for i := range pool {
		pool[i] = i
	}
	out := make([]int, 0, n)
	for len(pool) > 0 {
		c := verifChoice("rank", len(pool))
		out = append(out, pool[c])
		pool = append(append([]int{}, pool[:c]...), pool[c+1:]...)
	}
	return out
}

// c14PermEnds: only the identity and the reversal (for obligations whose verdict cannot depend on
// the order: the fetch order is then pre-order or reverse pre-order).
func c14PermEnds(n int) []int {
	out := make([]int, n)
	rev := n > 1 && verifChoice("reverse", 2) == 1
	for i := range out {
		if rev {
			out[i] = n - 1 - i
		} else {
			out[i] = i
		}
	}
	return out
}

// c14NewPayload builds a well-formed payload of n frames: cidBase separates the CIDs of
// different payloads, lens(k) is the concrete data length of the frame at tree position k.
func c14NewPayload(n int, cidBase int, lens func(k int) int, perm func(n int) []int) *c14Payload {
	parent := c14Tree(n)
	return c14BuildPayload(n, parent, perm(n), cidBase, lens)
}

// c14RevLinks: the next lists name the children in reverse order.
var c14RevLinks bool

// c14BuildPayload: parent[k] < k is the frame whose next list names frame k; rank is the
// permutation assigning index positions to tree positions.
func c14BuildPayload(n int, parent []int, rank []int, cidBase int, lens func(k int) int) *c14Payload {
	p := &c14Payload{n: n}
	p.parent = parent
	p.rank = rank
	// index values: any strictly increasing chain v[0] < v[1] < ... ; idx[k] = v[rank[k]]
	// (concrete mode: -7, 3, 13, ... so that negative values and gaps still occur)
	v := make([]int, n)
	for r := 0; r < n; r++ {
		if c14Concrete {
			v[r] = 10*r - 7
			continue
		}
		v[r] = verifInt("indexValue")
		if r > 0 {
			verifAssume(v[r-1] < v[r])
		}
	}
	p.idx = make([]int, n)
	p.data = make([][]byte, n)
	p.cids = make([]cid.Cid, n)
	p.frames = make([]*ipldbindcode.DataFrame, n)
	for k := 0; k < n; k++ {
		p.idx[k] = v[p.rank[k]]
		if c14Concrete {
			// pairwise distinct concrete bytes: any misplaced, lost or repeated frame changes the result
			p.data[k] = make([]byte, lens(k))
			for j := range p.data[k] {
				p.data[k][j] = byte(0x11*(cidBase+k+1) + 0x80*j)
			}
		} else {
			p.data[k] = verifBytes("data", lens(k))
		}
		p.cids[k] = c14Cid(cidBase + k)
	}
	byRank := make([]int, n)
	for k := 0; k < n; k++ {
		byRank[p.rank[k]] = k
	}
	for r := 0; r < n; r++ {
		p.orig = append(p.orig, p.data[byRank[r]]...)
	}
	for k := 0; k < n; k++ {
		f := &ipldbindcode.DataFrame{Kind: 6, Data: ipldbindcode.Buffer(append([]byte{}, p.data[k]...))}
		f.Index = c14pp(p.idx[k])
		p.frames[k] = f
	}
	// next links, children in pre-order; leaves alternate between an absent and an empty list
	emptyPar := verifChoice("emptyNextParity", verifParam("emptyPars", 2))
	for k := 0; k < n; k++ {
		var next ipldbindcode.List__Link
		for c := k + 1; c < n; c++ {
			if p.parent[c] == k {
				if c14RevLinks {
					next = append(ipldbindcode.List__Link{cidlink.Link{Cid: p.cids[c]}}, next...)
				} else {
					next = append(next, cidlink.Link{Cid: p.cids[c]})
				}
			}
		}
		if len(next) > 0 {
			np := &next
			p.frames[k].Next = &np
		} else if (k+emptyPar)%2 == 0 {
			// a leaf may carry an empty list instead of an absent one (schema example: `next: []`)
			next = ipldbindcode.List__Link{}
			np := &next
			p.frames[k].Next = &np
		}
	}
	return p
}

// setMeta stores total and hash on every frame, as the writer does.
func (p *c14Payload) setMeta(total int, hasHash bool, hash int) {
	for _, f := range p.frames {
		f.Total = c14pp(total)
		if hasHash {
			f.Hash = c14pp(hash)
		}
	}
}

func c14Crc(b []byte) uint64 { return crc64.Checksum(b, crc64.MakeTable(crc64.ISO)) }

func c14Fnv(b []byte) uint64 {
	h := fnv.New64a()
	h.Write(b)
	return h.Sum64()
}

func c14Lens(shift int) func(int) int {
	return func(k int) int { return (k + shift) % 3 }
}

// c14HubChain builds a concrete well-formed payload of n frames in the hub-chain layout of the
// schema comment (frame 0 links the next f frames, the last of them links the following f, ...;
// f >= n: the head links every frame), cidBase separates payloads. reversed: links of every list
// and the numbering of the frames run against the layout order. Frame k carries lens(k)
// position-dependent bytes. total = n and the checksum (CRC64, or FNV-1a when fnv) are set on
// every frame.
func c14HubChain(n, f int, reversed bool, cidBase int, lens func(k int) int, fnv bool) *c14Payload {
	saveC, saveR := c14Concrete, c14RevLinks
	c14Concrete, c14RevLinks = true, reversed
	parent := make([]int, n)
	hub, inHub := 0, 0
	for k := 1; k < n; k++ {
		parent[k] = hub
		inHub++
		if inHub == f {
			hub, inHub = k, 0
		}
	}
	rank := make([]int, n)
	for k := range rank {
		rank[k] = k
		if reversed {
			rank[k] = n - 1 - k
		}
	}
	p := c14BuildPayload(n, parent, rank, cidBase, lens)
	for k := 0; k < n; k++ {
		for j := range p.data[k] {
			b := byte(4*k + 2*j + 1 + j/251 + 3*cidBase)
			p.data[k][j] = b
			p.frames[k].Data[j] = b
		}
	}
	p.orig = p.orig[:0]
	for r := 0; r < n; r++ {
		k := r
		if reversed {
			k = n - 1 - r
		}
		p.orig = append(p.orig, p.data[k]...)
	}
	h := c14Crc(p.orig)
	if fnv {
		h = c14Fnv(p.orig)
	}
	p.setMeta(n, true, int(h))
	c14Concrete, c14RevLinks = saveC, saveR
	return p
}
