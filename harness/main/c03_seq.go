//go:build verif

package main

import (
	"bytes"
	"context"
	"encoding/json"
	"errors"
	"strings"

	"github.com/rpcpool/yellowstone-faithful/compactindexsized"
	old_faithful_grpc "github.com/rpcpool/yellowstone-faithful/old-faithful-proto/old-faithful-grpc"
	"github.com/sourcegraph/jsonrpc2"
)

// Request HISTORY. A server answers many requests from the same Epoch / MultiEpoch objects; whatever a
// request leaves behind (a memo of the last decoded block, a per-epoch "last answer", a cache keyed by
// something other than the request key) must not change what a later request for ANOTHER key is
// answered with. The single-request obligations cannot see such state; these obligations issue R
// consecutive requests with independent symbolic keys against the same server objects and apply the
// C03 oracle to every answer. Because stored parent slots are symbolic too, "the previous request
// decoded T's child and therefore T last" is one of the histories.
//
// C03.seqblock — R getBlock requests (each through Epoch.GetBlock, gRPC GetBlock or JSON-RPC
// handleGetBlock, chosen per path or per request): every answer is the block of the slot of THAT request
// or not-found.
func VerifC03SeqBlock() {
	ne := verifParam("epochs", 1)
	nb := verifParam("blocks", 2)
	multi, eps := verifC03Multi(ne, nb, 0)
	ctx := context.Background()
	rounds := verifParam("rounds", 2)
	perRequest := verifParam("handler_per_request", 0) == 1
	h := verifChoice("handler", 3)
	for r := 0; r < rounds; r++ {
		if perRequest && r > 0 {
			h = verifChoice("handler", 3)
		}
		q := verifU64("slot")
		archived := verifC03Archived(eps, q)
		switch h {
		case 0: // the accessor every handler and /api/v1/slot-to-cid go through
			e := eps[0]
			block, c, err := e.GetBlock(WithSubrapghPrefetch(ctx, false), q)
			if err != nil {
				verifAssert(verifC03Archived([]*Epoch{e}, q) == 0 || verifC03AnyCollision(eps), "C03.seqblock: archived slot not served (Epoch.GetBlock)")
				verifAssert(errors.Is(err, compactindexsized.ErrNotFound), "C03.seqblock: slot that is not archived is not reported as ErrNotFound")
			} else {
				verifAssert(uint64(block.Slot) == q, "C03.seqblock: Epoch.GetBlock returned the block of a different slot (request history)")
				ok := uint64(0)
				for _, o := range verifC03Stores[e].objs {
					if o.c.Equals(c) {
						ok |= verifIteU64(o.slot == q, 1, 0)
					}
				}
				verifAssert(ok == 1, "C03.seqblock: Epoch.GetBlock returned the CID of another slot's block")
			}
		case 1:
			resp, err := multi.GetBlock(ctx, &old_faithful_grpc.BlockRequest{Slot: q})
			if err != nil {
				if archived == 0 {
					verifAssert(strings.Contains(err.Error(), "code = NotFound"), "C03.seqblock: slot that is not archived is not answered with NotFound (gRPC)")
				} else if !verifC03AnyCollision(eps) {
					verifAssert(strings.Contains(err.Error(), "parent"), "C03.seqblock: archived slot answered with an error (gRPC)")
				}
			} else {
				verifAssert(resp != nil && resp.Slot == q, "C03.seqblock: gRPC GetBlock answered with the block of a different slot (request history)")
				verifAssert(archived == 1, "C03.seqblock: gRPC GetBlock answered for a slot that is not archived")
			}
		case 2:
			verifC03JSONSlot, verifC03JSONReply, verifC03JSONHeader = q, nil, nil
			raw := json.RawMessage(nil)
			rpcErr, err := multi.handleGetBlock(ctx, &requestContext{}, &jsonrpc2.Request{Method: "getBlock", Params: &raw})
			if rpcErr != nil || err != nil {
				verifAssert(rpcErr != nil && len(verifC03JSONReply) == 0, "C03.seqblock: JSON-RPC error without error object / with a result")
				if archived == 0 {
					verifAssert(rpcErr.Code == CodeNotFound, "C03.seqblock: slot that is not archived is not answered with the not-found code (JSON-RPC)")
				} else if !verifC03AnyCollision(eps) {
					verifAssert(rpcErr.Code == jsonrpc2.CodeInternalError, "C03.seqblock: archived slot answered with not-found (JSON-RPC)")
				}
			} else {
				verifAssert(len(verifC03JSONReply) == 1 && archived == 1, "C03.seqblock: JSON-RPC getBlock replied for a slot that is not archived")
				resp, ok := verifC03JSONReply[0].(GetBlockResponse)
				verifAssert(ok && resp.BlockTime != nil, "C03.seqblock: result is not a block object")
				okBlock := uint64(0)
				for _, e := range eps {
					for _, o := range verifC03Stores[e].objs {
						okBlock |= verifIteU64(o.slot == q && *resp.BlockTime == o.blocktime && resp.ParentSlot == o.parent, 1, 0)
					}
				}
				verifAssert(okBlock == 1, "C03.seqblock: JSON-RPC getBlock replied with the block of a different slot (request history)")
			}
		}
	}
	verifReach("end")
}

// C03.seqtx — R getTransaction requests (Epoch.GetTransaction or gRPC GetTransaction) with independent
// symbolic signatures on the same server: every answer carries the signature of THAT request or is
// not-found.
func VerifC03SeqTx() {
	ne := verifParam("epochs", 1)
	nt := verifParam("txs", 2)
	multi, eps := verifC03Multi(ne, 0, nt)
	ctx := context.Background()
	rounds := verifParam("rounds", 2)
	h := verifChoice("handler", 2)
	for r := 0; r < rounds; r++ {
		q := verifC03Sig("sig")
		archived := verifC03SigArchived(eps, q)
		if h == 0 {
			e := eps[0]
			tx, _, err := e.GetTransaction(WithSubrapghPrefetch(ctx, false), q)
			if err != nil {
				verifAssert(verifC03SigArchived([]*Epoch{e}, q) == 0 || verifC03AnyCollision(eps), "C03.seqtx: archived signature not served (Epoch.GetTransaction)")
				verifAssert(errors.Is(err, compactindexsized.ErrNotFound), "C03.seqtx: signature that is not archived is not reported as ErrNotFound")
			} else {
				got, serr := tx.Signature()
				verifAssert(serr == nil && got == q, "C03.seqtx: Epoch.GetTransaction returned a transaction with a different signature (request history)")
			}
		} else {
			resp, err := multi.GetTransaction(ctx, &old_faithful_grpc.TransactionRequest{Signature: q[:]})
			if err != nil {
				if archived == 0 {
					verifAssert(strings.Contains(err.Error(), "code = NotFound"), "C03.seqtx: signature that is not archived is not answered with NotFound (gRPC)")
				} else {
					verifAssert(verifC03AnyCollision(eps), "C03.seqtx: archived signature answered with an error (gRPC)")
				}
			} else {
				verifAssert(resp != nil && resp.Transaction != nil, "C03.seqtx: nil response without error")
				raw := resp.Transaction.Transaction
				verifAssert(len(raw) >= 65 && raw[0] == 1 && bytes.Equal(raw[1:65], q[:]), "C03.seqtx: gRPC GetTransaction answered with a transaction with a different signature (request history)")
				verifAssert(archived == 1, "C03.seqtx: a transaction is returned for a signature that is not archived")
			}
		}
	}
	verifReach("end")
}
