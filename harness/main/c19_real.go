//go:build verif

package main

// C19.getblock / C19.realblocks — the contract the other C19 obligations assume of the gRPC
// (*MultiEpoch).GetBlock (they replace it by a table model: block / NotFound / Internal), decided on the
// REAL GetBlock (epoch routing, Epoch.GetBlock, parent lookup, response assembly) over the archive model
// of property C03 (c03_model.go / c03_cuts.go: keyless slot-to-cid index, node store, block decoder).
//
// Both streams treat codes.NotFound as "slot without a block" and pass over it. Hence the property needs:
//   an archived block of a loaded epoch is NEVER answered with NotFound (whatever its parent slot: same
//   epoch, previous epoch loaded or not loaded, parent archived or not), and a slot that is not archived
//   is answered with NotFound (not with another error that would end the stream).
// C19.realblocks drives the real StreamBlocks over the real GetBlock and states the property itself:
// without error, the blocks sent are exactly the archived blocks of the range, ascending.

import (
	"context"

	old_faithful_grpc "github.com/rpcpool/yellowstone-faithful/old-faithful-proto/old-faithful-grpc"
	"google.golang.org/grpc/codes"
	"google.golang.org/grpc/status"
)

func VerifC19GetBlockContract() {
	ne := verifParam("epochs", 2) // epochs 6, 4 (, 7): epoch 5, the predecessor of 6, is never loaded
	nb := 1 + verifChoice("nblocks", verifParam("maxblocks", 2))
	multi, eps := verifC03Multi(ne, nb, 0)
	q := verifU64("slot")
	resp, err := multi.GetBlock(context.Background(), &old_faithful_grpc.BlockRequest{Slot: q})
	archived := verifC03Archived(eps, q)
	collided := verifC03AnyCollision(eps) // a 24-bit hash coincidence in the keyless index: C03's known finding
	if err != nil {
		if archived == 1 && !collided {
			verifAssert(status.Code(err) != codes.NotFound, "C19.getblock: an archived block of a loaded epoch is answered with NotFound (the streams would silently omit it)")
		}
		if archived == 0 {
			verifAssert(status.Code(err) == codes.NotFound, "C19.getblock: a slot without archived block is not answered with NotFound (the streams would end instead of passing over it)")
		}
	} else {
		verifAssert(resp != nil && resp.Slot == q, "C19.getblock: the response is not the block of the requested slot")
		verifAssert(archived == 1, "C19.getblock: a block is returned for a slot that is not archived")
	}
	verifReach("end")
}

func VerifC19RealBlocks() {
	ne := verifParam("epochs", 2)
	nb := 1 + verifChoice("nblocks", verifParam("maxblocks", 2))
	multi, eps := verifC03Multi(ne, nb, 0)
	start := verifU64("start")
	span := uint64(verifParam("span", 2))
	verifAssume(start < 1<<40)
	end := start + span - 1
	st := &verifC03BlockStream{}
	err := multi.StreamBlocks(&old_faithful_grpc.StreamBlocksRequest{StartSlot: start, EndSlot: &end}, st)
	prev := uint64(0)
	for i, b := range st.sent {
		verifAssert(b != nil && b.Slot >= start && b.Slot <= end, "C19.realblocks: a block outside the requested range is sent")
		verifAssert(verifC03Archived(eps, b.Slot) == 1, "C19.realblocks: a block is sent for a slot that is not archived")
		verifAssert(i == 0 || b.Slot > prev, "C19.realblocks: blocks not in ascending slot order")
		prev = b.Slot
	}
	if err != nil {
		// the only legitimate failure: a block of the range whose parent block cannot be fetched
		verifAssert(status.Code(err) != codes.NotFound, "C19.realblocks: the stream ends with NotFound")
	} else if !verifC03AnyCollision(eps) {
		n := uint64(0)
		for s := start; s <= end; s++ {
			n += verifC03Archived(eps, s)
		}
		verifAssert(uint64(len(st.sent)) == n, "C19.realblocks: an archived block of the range is missing from the stream")
	}
	verifReach("end")
}
