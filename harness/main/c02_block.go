//go:build verif

package main

// C02.grpcBlock — the real gRPC (*MultiEpoch).GetBlock (grpc-server.go) over the archive model of
// c02_model.go: for every archived block of a loaded epoch the response carries that block's slot,
// parent slot, block time, block height, blockhash (hash of its last entry), previous blockhash
// (hash of the last entry of the parent block, when the parent is in the same epoch), rewards
// bytes and all its transactions, each once, in recorded position order with their own payloads.

import (
	"bytes"
	"context"

	"github.com/gagliardetto/solana-go"
	old_faithful_grpc "github.com/rpcpool/yellowstone-faithful/old-faithful-proto/old-faithful-grpc"
	"github.com/rpcpool/yellowstone-faithful/radiance/genesis"
)

// verifC02Scene is one generated server state with a designated archived block.
type verifC02Scene struct {
	multi  *MultiEpoch
	a      *verifC02Archive // the epoch holding the block
	b      *verifC02Block   // the requested block
	parent *verifC02Block   // the block archived at b.parent (found by this epoch's index only if in range)
	txs    []*verifC02Tx    // all transactions of b in archive (entry, then in-entry) order
	hasPos bool
}

// verifC02TargetEpochs: epoch numbers the requested block may live in.
var verifC02TargetEpochs = []uint64{0, 1, 7}

// verifC02BuildBlock archives a block with the given entry shape (number of transactions per entry).
func verifC02BuildBlock(a *verifC02Archive, b *verifC02Block, shape []int, hasPos bool, plan int, nData, nMeta int, withHash bool, symHash bool) []*verifC02Tx {
	var all []*verifC02Tx
	for ei, ntx := range shape {
		en := &verifC02Entry{}
		if symHash {
			en.hash = verifBytes("entryHash", 32)
		} else {
			en.hash = make([]byte, 32)
			for i := range en.hash {
				en.hash[i] = byte(0x11*(ei+1) + i + int(a.num) + len(a.nodes))
			}
		}
		for j := 0; j < ntx; j++ {
			k := len(all)
			t := &verifC02Tx{slot: b.slot, hasPos: hasPos}
			if hasPos {
				t.pos = verifU64("position")
				for _, o := range all {
					verifAssume(o.pos != t.pos) // positions within a block are distinct
				}
			}
			// concrete, pairwise distinct signatures (the block handlers do not look at them)
			t.sig = solana.Signature{0: 0xB1, 1: byte(a.num), 2: byte(len(a.nodes)), 63: 0x7E}
			t.data = a.txDataPayload(t.sig, "txData", nData, (plan+k)%verifC02NumLayouts, withHash)
			t.meta = a.payload("txMeta", nMeta, (plan+k+2)%verifC02NumLayouts, withHash)
			a.addTx(t)
			en.txs = append(en.txs, t)
			all = append(all, t)
		}
		a.addEntry(en)
		b.entries = append(b.entries, en)
	}
	a.addBlock(b)
	return all
}

// verifC02Shape enumerates entry shapes: 1..maxEntries entries with 0..maxTxs transactions each,
// at most maxTotal transactions in the block.
func verifC02Shape(maxEntries, maxTxs, maxTotal int) []int {
	n := 1 + verifChoice("entries", maxEntries)
	shape := make([]int, n)
	for i := range shape {
		room := maxTxs
		if maxTotal < room {
			room = maxTotal
		}
		shape[i] = verifChoice("ntx", room+1)
		maxTotal -= shape[i]
	}
	return shape
}

// verifC02BlockScene builds the server: the target epoch with the requested block and its parent,
// plus neighbour epochs, each holding a block of its own. Two scenarios split the enumeration:
//
//	header (0): every epoch configuration (target epoch 0 / 1 / 7; neighbours selected by `others`,
//	  bit 0: the previous epoch, bit 1: the next one, bit 2: one three further), slot 0 or an arbitrary
//	  slot of the epoch, arbitrary parent slot below it, height recorded or not, arbitrary block time,
//	  parent block with 1..2 entries, rewards absent / in one frame / in two frames; the block itself
//	  has one entry with one transaction.
//	transactions (1): epoch 1 loaded alone or with epoch 0 and 2, parent in the previous epoch; every entry
//	  shape (1..maxEntries entries x 0..maxTxs transactions, at most maxTotal transactions), positions
//	  recorded (arbitrary distinct values) or not, metadata present or empty, payload layout plans
//	  (plan k stores the data of transaction i in layout (k+i) mod 5 and its metadata in layout
//	  (k+i+2) mod 5; odd plans record the CRC64 of every payload in its first frame).
func verifC02BlockScene(symHash bool) *verifC02Scene {
	verifC02Reset()
	sc := &verifC02Scene{}
	sc.multi = NewMultiEpoch(&Options{EpochSearchConcurrency: 1})
	scen := verifParam("scenario", -1)
	if scen < 0 {
		scen = verifChoice("scenario", 2)
	}
	header := scen == 0
	E, others := uint64(1), 0
	if header {
		E = verifC02TargetEpochs[verifChoice("epoch", verifParam("epochs", len(verifC02TargetEpochs)))]
		others = verifChoice("others", verifParam("others", 8))
	} else {
		others = 3 * verifChoice("others", verifParam("others", 2))
	}
	a := verifC02NewEpoch(E)
	sc.a = a
	sc.multi.epochs[E] = a.e
	for bit, num := range []uint64{E - 1, E + 1, E + 3} {
		if others&(1<<bit) == 0 || (E == 0 && bit == 0) {
			continue
		}
		o := verifC02NewEpoch(num)
		ob := &verifC02Block{slot: verifU64("otherSlot"), parent: o.lo(), blocktime: 77}
		verifAssume(ob.slot >= o.lo() && ob.slot <= o.hi())
		verifC02BuildBlock(o, ob, []int{1}, true, 0, 1, 1, false, false)
		sc.multi.epochs[num] = o.e
	}

	b := &verifC02Block{}
	genesisBlock := header && E == 0 && verifChoice("slot0", 2) == 1
	if E == 0 && (!genesisBlock || verifChoice("genesis", 2) == 1) {
		// epoch 0 loaded with its genesis (only block 0's block time depends on it; not asserted:
		// time.Time.Unix is an engine model)
		a.e.genesis = &GenesisContainer{Config: &genesis.Genesis{}}
	}
	if genesisBlock {
		b.slot, b.parent = 0, 0
	} else {
		b.slot = verifU64("slot")
		verifAssume(b.slot >= a.lo() && b.slot <= a.hi() && b.slot != 0)
		b.parent = verifU64("parentSlot")
		verifAssume(b.parent < b.slot)
	}
	nData, nMeta := verifParam("dataLen", 2), verifParam("metaLen", 2)
	if header {
		b.blocktime = uint64(verifU32("blocktime"))
		b.hasHeight = verifChoice("hasHeight", verifParam("heightModes", 2)) == 1
		if b.hasHeight {
			b.height = verifU64("height")
			verifAssume(b.height < 1<<62)
		}
		if k := verifChoice("rewards", 1+verifParam("rewardsLayouts", 2)); k > 0 {
			r := a.payload("rewards", verifParam("rewardsLen", 2), (k-1)*2, false)
			b.rewards = &r
		}
	} else {
		verifAssume(b.parent < a.lo()) // parent in the previous epoch
		b.blocktime, b.hasHeight, b.height = 1700000000, true, 200000000
	}

	// the parent block (found by this epoch's index when its slot is in this epoch's range)
	if !genesisBlock {
		p := &verifC02Block{slot: b.parent, parent: 0, blocktime: 5}
		pshape := []int{1}
		if header && verifChoice("parentEntries", verifParam("parentEntryModes", 2)) == 1 {
			pshape = []int{0, 1}
		}
		verifC02BuildBlock(a, p, pshape, true, 0, 1, 0, false, symHash)
		sc.parent = p
	}

	if header {
		sc.hasPos = true
		sc.txs = verifC02BuildBlock(a, b, []int{1}, true, 0, nData, nMeta, false, symHash)
	} else {
		sc.hasPos = verifChoice("positions", verifParam("positionModes", 2)) == verifParam("positionModes", 2)-1
		shape := verifC02Shape(verifParam("maxEntries", 2), verifParam("maxTxs", 2), verifParam("maxTotal", 4))
		plan := verifChoice("layoutPlan", verifParam("layoutPlans", 1))
		sc.txs = verifC02BuildBlock(a, b, shape, sc.hasPos, plan, nData, nMeta*(verifChoice("metaPresent", verifParam("metaModes", 2))+2-verifParam("metaModes", 2)), plan%2 == 1, symHash)
	}
	sc.b = b
	return sc
}

func VerifC02GrpcBlock() {
	sc := verifC02BlockScene(true)
	if verifC02GrpcBlockOracle(sc) {
		verifReach("end")
	}
}

// verifC02GrpcBlockOracle calls the real gRPC GetBlock for the scene's block and checks the answer
// against the archive; it returns false when the path ended early (after a failed assertion).
func verifC02GrpcBlockOracle(sc *verifC02Scene) bool {
	b := sc.b
	sameEpochParent := b.slot != 0 && b.parent >= sc.a.lo()
	// S13: a block above slot 1 whose parent is slot 0 gets no previous blockhash
	verifKnownFinding("C02-S13-prevhash-parent-slot0", sameEpochParent && b.parent == 0 && b.slot > 1)

	resp, err := sc.multi.GetBlock(context.Background(), &old_faithful_grpc.BlockRequest{Slot: b.slot})
	verifAssert(err == nil, "C02.grpcBlock: archived block is answered with an error")
	if err != nil {
		return false
	}
	verifAssert(resp.Slot == b.slot, "C02.grpcBlock: wrong slot")
	verifAssert(resp.ParentSlot == b.parent, "C02.grpcBlock: wrong parent slot")
	if b.slot != 0 || sc.a.e.genesis == nil {
		verifAssert(resp.BlockTime == int64(b.blocktime), "C02.grpcBlock: wrong block time")
	}
	if b.hasHeight {
		verifAssert(resp.BlockHeight == b.height, "C02.grpcBlock: wrong block height")
	} else {
		verifAssert(resp.BlockHeight == 0, "C02.grpcBlock: block height reported although none is recorded")
	}
	last := b.entries[len(b.entries)-1]
	verifAssert(bytes.Equal(resp.Blockhash, last.hash), "C02.grpcBlock: blockhash is not the hash of the block's last entry")
	if sameEpochParent {
		if len(sc.parent.entries) > 0 {
			pl := sc.parent.entries[len(sc.parent.entries)-1]
			verifAssert(bytes.Equal(resp.PreviousBlockhash, pl.hash), "C02.grpcBlock: previous blockhash is not the hash of the parent block's last entry (parent in the same epoch)")
		}
	}
	if b.rewards != nil {
		verifAssert(bytes.Equal(resp.Rewards, b.rewards.want), "C02.grpcBlock: rewards bytes differ from the archived rewards")
	} else {
		verifAssert(len(resp.Rewards) == 0, "C02.grpcBlock: rewards reported although the block has none")
	}

	// transactions: all of them, each once, in recorded position order, with their own payloads
	verifAssert(len(resp.Transactions) == len(sc.txs), "C02.grpcBlock: number of transactions differs from the archive")
	if len(resp.Transactions) != len(sc.txs) {
		return false
	}
	for i, r := range resp.Transactions {
		if sc.hasPos {
			verifAssert(r.Index != nil, "C02.grpcBlock: recorded position missing from the response")
			if r.Index == nil {
				return false
			}
			if i > 0 {
				verifAssert(*resp.Transactions[i-1].Index < *r.Index, "C02.grpcBlock: transactions not in ascending position order")
			}
			match := uint64(0)
			for _, t := range sc.txs {
				match |= verifC02B(t.pos == *r.Index) & verifC02B(bytes.Equal(r.Transaction, t.data.want)) & verifC02B(bytes.Equal(r.Meta, t.meta.want))
			}
			verifAssert(match == 1, "C02.grpcBlock: a response transaction does not carry the payloads archived for its position")
		} else {
			// no recorded positions: archive order (entry order, then order within the entry)
			t := sc.txs[i]
			verifAssert(r.Index == nil, "C02.grpcBlock: position reported although none is recorded")
			verifAssert(bytes.Equal(r.Transaction, t.data.want), "C02.grpcBlock: transaction bytes differ from the archive")
			verifAssert(bytes.Equal(r.Meta, t.meta.want), "C02.grpcBlock: metadata bytes differ from the archive")
		}
	}
	return true
}

// C02.grpcBlockFetchFail — a transaction node of the requested block cannot be read (I/O error of the
// CAR / remote storage): the answer must be an error; not a crash, and not a block that silently
// lacks the transaction.
func VerifC02GrpcBlockFetchFail() {
	sc := verifC02BlockScene(true)
	if len(sc.txs) == 0 {
		return
	}
	verifKnownFinding("C02-getblock-tx-fetch-failure-nil-deref", true)
	sc.a.failing = &sc.txs[verifChoice("failingTx", len(sc.txs))].c
	resp, err := sc.multi.GetBlock(context.Background(), &old_faithful_grpc.BlockRequest{Slot: sc.b.slot})
	verifAssert(err != nil && resp == nil, "C02.grpcBlockFetchFail: a block whose transaction could not be read is answered without an error")
	verifReach("end")
}
