//go:build verif

package main

// C02.jsonParse — the real JSON-RPC parameter parsers on well-formed requests (the request side of
// C02's "the answer is for the requested key in the requested encoding"): parseGetBlockRequest,
// parseGetTransactionRequest, parseGetBlockTimeRequest and both Validate methods hand the handlers
// exactly the requested slot / signature / encoding / rewards flag, with the documented defaults.
//
// JSON shape model (as C08): `fasterJson` is a package variable of interface type jsoniter.API; the
// harness installs an implementation whose Unmarshal yields the list a JSON decoder produces for
// `[<slot or signature>, {<options>}]` (numbers are float64). jsoniter itself is library code.

import (
	"encoding/json"

	"github.com/gagliardetto/solana-go"
	"github.com/gagliardetto/solana-go/rpc"
	jsoniter "github.com/json-iterator/go"
)

type verifC02JSON struct{ jsoniter.API }

var verifC02Params []any

func (verifC02JSON) Unmarshal(data []byte, v interface{}) error {
	p, ok := v.(*[]any)
	if !ok {
		panic("verifC02JSON.Unmarshal: target type outside the C02 shape model")
	}
	*p = verifC02Params
	return nil
}

var verifC02ParseEncodings = []solana.EncodingType{solana.EncodingJSON, solana.EncodingBase58, solana.EncodingBase64, solana.EncodingBase64Zstd}

var verifC02Slots = []uint64{0, 1, 2, 431999, 432000, 432001, 3023999, 1 << 32, 1<<53 - 1}

// two signatures with known bytes: 1..64, and 0,0,(7i+3) mod 256
const (
	verifC02SigText1 = "2Ana1pUpv2ZbMVkwF5FXapYeBEjdxDatLn7nvJkhgTSXbs59SyZSx866bXirPgj8QQVB57uxHJBG1YFvkRbFj4T"
	verifC02SigText2 = "11BVamrZv9RuzHtGgBZZrSP17yCeApiJyykNZXviTvG5s8r1ahSZGbtKn8tHikUVN8Xinvoj2SGWSmVyF8nwg9"
)

func VerifC02JsonParse() {
	fasterJson = verifC02JSON{}
	raw := json.RawMessage("[opaque]")

	// options object: absent, empty, or with encoding / rewards members
	var opts map[string]any
	wantEnc := solana.EncodingJSON // defaultEncoding
	wantRewards := true
	optShape := verifChoice("options", 3)
	if optShape >= 1 {
		opts = map[string]any{}
	}
	if optShape == 2 {
		if k := verifChoice("encoding", len(verifC02ParseEncodings)+1); k > 0 {
			wantEnc = verifC02ParseEncodings[k-1]
			opts["encoding"] = string(wantEnc)
		}
		if k := verifChoice("rewards", 3); k > 0 {
			wantRewards = k == 1
			opts["rewards"] = wantRewards
		}
		if verifChoice("commitment", 2) == 1 {
			opts["commitment"] = "confirmed"
		}
		if verifChoice("maxVersion", 2) == 1 {
			opts["maxSupportedTransactionVersion"] = float64(0)
		}
	}
	mk := func(first any) {
		verifC02Params = []any{first}
		if opts != nil {
			verifC02Params = append(verifC02Params, opts)
		}
	}

	switch verifChoice("method", 3) {
	case 0: // getBlock
		slot := verifC02Slots[verifChoice("slot", len(verifC02Slots))]
		mk(float64(slot))
		req, err := parseGetBlockRequest(&raw)
		verifAssert(err == nil && req != nil, "C02.jsonParse: well-formed getBlock params rejected")
		if err != nil || req == nil {
			return
		}
		verifAssert(req.Validate() == nil, "C02.jsonParse: well-formed getBlock request fails validation")
		verifAssert(req.Slot == slot, "C02.jsonParse: getBlock: parsed slot differs from the requested slot")
		verifAssert(req.Options.Encoding != nil && *req.Options.Encoding == wantEnc, "C02.jsonParse: getBlock: encoding differs from the requested / default encoding")
		verifAssert(req.Options.Rewards != nil && *req.Options.Rewards == wantRewards, "C02.jsonParse: getBlock: rewards flag differs from the requested / default flag")
		verifAssert(req.Options.Commitment != nil && req.Options.TransactionDetails != nil, "C02.jsonParse: getBlock: defaults not filled in")
		if _, ok := opts["commitment"]; ok {
			verifAssert(*req.Options.Commitment == rpc.CommitmentConfirmed, "C02.jsonParse: getBlock: commitment differs")
		}
	case 1: // getTransaction
		text, want := verifC02SigText1, solana.Signature{}
		if verifChoice("sig", 2) == 1 {
			text = verifC02SigText2
			for i := 2; i < 64; i++ {
				want[i] = byte(7*(i-2) + 3)
			}
		} else {
			for i := range want {
				want[i] = byte(i + 1)
			}
		}
		mk(text)
		req, err := parseGetTransactionRequest(&raw)
		verifAssert(err == nil && req != nil, "C02.jsonParse: well-formed getTransaction params rejected")
		if err != nil || req == nil {
			return
		}
		verifAssert(req.Validate() == nil, "C02.jsonParse: well-formed getTransaction request fails validation")
		verifAssert(req.Signature == want, "C02.jsonParse: getTransaction: parsed signature differs from the requested signature")
		verifAssert(req.Options.Encoding != nil && *req.Options.Encoding == wantEnc, "C02.jsonParse: getTransaction: encoding differs from the requested / default encoding")
	default: // getBlockTime
		slot := verifC02Slots[verifChoice("slot", len(verifC02Slots))]
		mk(float64(slot))
		got, err := parseGetBlockTimeRequest(&raw)
		verifAssert(err == nil && got == slot, "C02.jsonParse: getBlockTime: parsed slot differs from the requested slot")
	}
	verifReach("end")
}
