//go:build verif

package main

import (
	"context"
	"encoding/json"

	bin "github.com/gagliardetto/binary"
	"github.com/gagliardetto/solana-go"
	"github.com/ipfs/go-cid"
	jsoniter "github.com/json-iterator/go"
	"github.com/rpcpool/yellowstone-faithful/ipld/ipldbindcode"
	"github.com/rpcpool/yellowstone-faithful/third_party/solana_proto/confirmed_block"
	"github.com/sourcegraph/jsonrpc2"
	"github.com/valyala/fasthttp"
)

// C08.gettx — getTransaction end to end on the request side: the REAL parseGetTransactionRequest /
// Validate feed the REAL handleGetTransaction, which runs past a successful transaction fetch:
// slot / block-time lookup, position, version, the unchecked *Options.Encoding handed to the REAL
// encodeTransactionResponseBasedOnWantedEncoding, and the Reply callback
// (adaptTransactionMetaToExpectedOutput). No combination of request options and archived
// transaction makes this tail panic. (C02 decides what the answer contains, with parser and
// encoder cut; C08.dispatch stops at a failing fetch.)
//
// Cuts: Epoch.GetTransaction and parseTransactionAndMetaFromNode = archive models below;
// requestContext.Reply counts the reply and runs the handler's callback on an answer object;
// jsoniter, zstd and the FFI instruction parser as in C08.encode.

func verifC08TxWire(vote bool) []byte {
	var b []byte
	b = append(b, 1) // one signature
	sig := make([]byte, 64)
	sig[0] = 7
	b = append(b, sig...)
	b = append(b, 1, 0, 1, 2) // header, two account keys
	payer := solana.MustPublicKeyFromBase58(verifC08Key32b)
	prog := solana.SystemProgramID
	if vote {
		prog = solana.VoteProgramID
	}
	b = append(b, payer[:]...)
	b = append(b, prog[:]...)
	b = append(b, make([]byte, 32)...) // recent blockhash
	b = append(b, 1, 1, 1, 0, 2, 9, 9) // one instruction
	return b
}

// archived transaction node: slot inside / outside the block-time index window, position recorded or not
func (ser *Epoch) GetTransaction(ctx context.Context, sig solana.Signature) (*ipldbindcode.Transaction, cid.Cid, error) {
	n := &ipldbindcode.Transaction{Slot: []int{2, 400000}[verifChoice("node.slot", 2)]}
	if verifChoice("node.index", 2) == 1 {
		i := 3
		pi := &i
		n.Index = &pi
	}
	return n, cid.Cid{}, nil
}

func parseTransactionAndMetaFromNode(
	transactionNode *ipldbindcode.Transaction,
	dataFrameGetter func(ctx context.Context, wantedCid cid.Cid) (*ipldbindcode.DataFrame, error),
) (tx solana.Transaction, meta any, _ error) {
	k := verifChoice("parseTransactionAndMetaFromNode", 4)
	if k == 0 {
		return solana.Transaction{}, nil, errVerifC08IO
	}
	t := new(solana.Transaction)
	if err := t.UnmarshalWithDecoder(bin.NewBinDecoder(verifC08TxWire(k == 2))); err != nil {
		verifFail("C08.gettx: harness transaction bytes do not decode")
	}
	switch k {
	case 1:
		return *t, nil, nil // no metadata
	case 2:
		return *t, &confirmed_block.TransactionStatusMeta{}, nil
	}
	return *t, &confirmed_block.TransactionStatusMeta{Fee: 5000, InnerInstructions: []*confirmed_block.InnerInstructions{{Index: 0, Instructions: []*confirmed_block.InnerInstruction{{ProgramIdIndex: 1, Accounts: []byte{0}}}}}}, nil
}

type verifC08TxJSON struct{ verifC08JSON }

// toMapAny(meta) of the jsonParsed branch: the members the code reads
func (j verifC08TxJSON) Unmarshal(data []byte, v interface{}) error {
	if p, ok := v.(*map[string]any); ok {
		*p = map[string]any{"fee": 5000.0, "inner_instructions": []any{map[string]any{"instructions": []any{map[string]any{"program_id_index": 1.0, "accounts": "AA=="}}}}}
		return nil
	}
	return j.verifC08JSON.Unmarshal(data, v)
}

func verifC08TxDagHeader(conn *requestContext, c cid.Cid) {}

// Reply: the answer is written (counted); the handler's callback runs on an answer object
func (c *requestContext) Reply(ctx context.Context, id jsonrpc2.ID, result interface{}, remapCallback func(map[string]any) map[string]any) error {
	verifC08Replies++
	if remapCallback != nil {
		m := map[string]any{"slot": 2.0, "transaction": []any{"AQ==", "base64"}, "version": "legacy"}
		switch verifChoice("reply.meta", 3) {
		case 0:
			m["meta"] = nil
		case 1:
			m["meta"] = map[string]any{"fee": 5000.0}
			m["blockTime"] = 1700000000.0
		default:
			m["meta"] = map[string]any{"err": map[string]any{"err": "AQ=="}, "loadedWritableAddresses": []any{"AQI="}, "innerInstructions": []any{map[string]any{"instructions": []any{map[string]any{"accounts": "AA=="}}}}}
		}
		remapCallback(m)
	}
	return nil
}

func verifC08ParseTxError(v any) (map[string]any, error) { return nil, nil }

func VerifC08GetTx() {
	fasterJson = verifC08TxJSON{}
	jsoniter.ConfigCompatibleWithStandardLibrary = verifC08TxJSON{}

	// epoch 0 loaded, with or without block-time index
	multi := verifC08Server(1, 0, verifChoice("feature.blocktime", 2), 1)

	verifC08UnmarshalFails, verifC08ParamsMissing = false, false
	switch verifChoice("options", 3) {
	case 0:
		verifC08Params = []any{verifC08Sig64}
	case 1:
		verifC08Params = []any{verifC08Sig64, map[string]any{}}
	default:
		o := map[string]any{}
		switch e := verifChoice("options.encoding", 9); e {
		case 0:
		case 8:
			o["encoding"] = nil // explicit JSON null
		default:
			o["encoding"] = verifC08Encodings[e-1]
		}
		if verifChoice("options.more", 2) == 1 {
			o["commitment"] = "confirmed"
			o["maxSupportedTransactionVersion"] = 0.0
		}
		verifC08Params = []any{verifC08Sig64, o}
	}
	raw := json.RawMessage("[opaque]")
	req := &jsonrpc2.Request{Method: "getTransaction", ID: jsonrpc2.ID{Num: 1}, Params: &raw}
	ctx := setRequestIDToContext(context.Background(), "verif-request")
	conn := &requestContext{ctx: &fasthttp.RequestCtx{}}

	verifC08Replies = 0
	errResp, err := multi.handleRequest(ctx, conn, req)
	verifAssert(errResp != nil || err != nil || verifC08Replies >= 1, "C08.gettx: handler finished without a reply and without an error response")
	if verifC08Replies >= 1 {
		verifReach("replied")
	}
	verifAssert(multi.CountEpochs() == 1, "C08.gettx: epoch set changed by a query")
	multi.AddEpoch(999, verifC08Epoch(999))
	verifReach("end")
}
