//go:build verif

package main

import (
	"bytes"
	"encoding/binary"
	"io"

	splitcarfetcher "github.com/rpcpool/yellowstone-faithful/split-car-fetcher"
)

// C13.car.split — the CAR assembled from pieces (splitcarfetcher.MultiReaderAt over
// io.SectionReader(piece file, piece header, content size), exactly as NewSplitCarReader builds
// it; epoch.go hands it *readCloserWrapper values, for which NewSplitCarReader's size checks do
// not run) with ONE piece file cut short at a symbolic offset: Epoch.GetNodeByOffsetAndSize /
// ReadAtFromCar / getNodeSize answer the same or fail.
func VerifC13CarSplit() {
	lens := []int{4, 3, 5}
	img, nodes := verifC13CarImage(verifParam("hdr", 6), lens)
	N := int64(len(img))
	// piece 0 = original CAR header (in memory, never short); pieces 1.. = content split at node
	// boundaries k1 (between node 0 and 1) and possibly inside node 1
	hdrLen := int64(nodes[0].off)
	splitAt := []int64{int64(nodes[1].off), int64(nodes[1].off) + 9}[verifChoice("split", 2)]
	const ph = 3 // each piece file starts with its own 3-byte header that is skipped
	mk := func(content []byte) []byte { return append([]byte{0xC1, 0xC2, 0xC3}, content...) }
	p1 := mk(img[hdrLen:splitAt])
	p2 := mk(img[splitAt:])
	short := 1 + verifChoice("short_piece", 2)
	T := int64(verifU16("T"))
	f1 := &verifC13File{data: p1, t: int64(len(p1))}
	f2 := &verifC13File{data: p2, t: int64(len(p2))}
	if short == 1 {
		verifAssume(T < int64(len(p1)))
		f1.t = T
	} else {
		verifAssume(T < int64(len(p2)))
		f2.t = T
	}
	build := func(a, b io.ReaderAt) ReaderAtCloser {
		readers := []io.ReaderAt{bytes.NewReader(img[:hdrLen]), io.NewSectionReader(a, ph, int64(len(p1)-ph)), io.NewSectionReader(b, ph, int64(len(p2)-ph))}
		sizes := []int64{hdrLen, int64(len(p1) - ph), int64(len(p2) - ph)}
		return verifC13RAC{splitcarfetcher.NewMultiReaderAt(readers, sizes)}
	}
	nd := nodes[verifChoice("node", len(nodes))]
	op := verifChoice("op", 3)
	if op == 1 && int64(nd.off)+binary.MaxVarintLen64 > N {
		verifReach("end")
		return
	}
	full := build(&verifC13File{data: p1, t: int64(len(p1))}, &verifC13File{data: p2, t: int64(len(p2))})
	wantB, wantSz, err := verifC13CarOp(op, full, N, nd)
	verifAssert(err == nil, "C13.car.split: the complete pieces do not answer")
	if op == 0 {
		verifAssert(bytes.Equal(wantB, nd.data), "C13.car.split: the complete pieces answer with other bytes")
	}
	// known finding (S15, same root cause as C16-short-piece-silent): a short NON-LAST piece
	verifKnownFinding("C13-car-split-short-piece", short == 1)
	gotB, gotSz, err := verifC13CarOp(op, build(f1, f2), N, nd)
	if err != nil {
		verifReach("error")
	} else {
		verifAssert(len(gotB) == len(wantB) && bytes.Equal(gotB, wantB) && gotSz == wantSz, "C13.car.split: CAR with a short piece answers with different bytes / size")
		verifReach("same")
	}
	verifReach("end")
}

type verifC13RAC struct{ io.ReaderAt }

func (verifC13RAC) Close() error { return nil }
