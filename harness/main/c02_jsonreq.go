//go:build verif

package main

// JSON-RPC request models and reply recorders shared by the JSON-side C02 obligations:
//
//   - parseGetBlockRequest / parseGetTransactionRequest (renamed): the decoded request with the
//     parser's defaults (request parsing: C08, C02.jsonParse); the slot / signature stays symbolic.
//   - (*requestContext).Reply / ReplyRaw (renamed): recorders of the result value (jsoniter, fasthttp).
//   - (*fasthttp.ResponseHeader).Set: no-op (engine redirect).

import (
	"context"
	"encoding/json"

	"github.com/gagliardetto/solana-go"
	"github.com/gagliardetto/solana-go/rpc"
	"github.com/sourcegraph/jsonrpc2"
	"github.com/valyala/fasthttp"
)

// --- request models -----------------------------------------------------------------------------

var verifC02Req struct {
	slot     uint64
	sig      solana.Signature
	encoding solana.EncodingType
	rewards  bool
}

var verifC02Encodings = []solana.EncodingType{solana.EncodingJSON, solana.EncodingBase58, solana.EncodingBase64, solana.EncodingBase64Zstd}

func parseGetBlockRequest(raw *json.RawMessage) (*GetBlockRequest, error) {
	out := &GetBlockRequest{Slot: verifC02Req.slot}
	commitment := rpc.CommitmentFinalized
	out.Options.Commitment = &commitment
	enc := verifC02Req.encoding
	out.Options.Encoding = &enc
	details := "full"
	out.Options.TransactionDetails = &details
	rewards := verifC02Req.rewards
	out.Options.Rewards = &rewards
	return out, nil
}

func parseGetTransactionRequest(raw *json.RawMessage) (*GetTransactionRequest, error) {
	out := &GetTransactionRequest{Signature: verifC02Req.sig}
	enc := verifC02Req.encoding
	out.Options.Encoding = &enc
	return out, nil
}

// --- reply recorders -------------------------------------------------------------------------------

var verifC02Replies []any

func (c *requestContext) Reply(ctx context.Context, id jsonrpc2.ID, result interface{}, remapCallback func(map[string]any) map[string]any) error {
	verifC02Replies = append(verifC02Replies, result)
	return nil
}

func (c *requestContext) ReplyRaw(ctx context.Context, id jsonrpc2.ID, result interface{}) error {
	verifC02Replies = append(verifC02Replies, result)
	return nil
}

func c02Model_headerSet(h *fasthttp.ResponseHeader, key, value string) {}
