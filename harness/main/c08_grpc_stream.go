//go:build verif

package main

import (
	"context"
	"errors"

	bin "github.com/gagliardetto/binary"
	"github.com/gagliardetto/solana-go"
	"github.com/ipfs/go-cid"
	"github.com/rpcpool/yellowstone-faithful/gsfa"
	"github.com/rpcpool/yellowstone-faithful/gsfa/linkedlog"
	"github.com/rpcpool/yellowstone-faithful/ipld/ipldbindcode"
	old_faithful_grpc "github.com/rpcpool/yellowstone-faithful/old-faithful-proto/old-faithful-grpc"
	metalatest "github.com/rpcpool/yellowstone-faithful/parse_legacy_transaction_status_meta/v-latest"
	metaoldest "github.com/rpcpool/yellowstone-faithful/parse_legacy_transaction_status_meta/v-oldest"
	"github.com/rpcpool/yellowstone-faithful/slottools"
	solanatxmetaparsers "github.com/rpcpool/yellowstone-faithful/solana-tx-meta-parsers"
	"github.com/rpcpool/yellowstone-faithful/third_party/solana_proto/confirmed_block"
	"google.golang.org/grpc/codes"
	"google.golang.org/grpc/status"
)

// C08.grpc_stream — StreamBlocks, StreamTransactions, processSlotTransactions (both branches),
// blockContainsAccounts and the txBuffer never panic, for every shape of the request message
// (optional EndSlot / Filter / Filter.Vote / Filter.Failed unset or set, account strings valid or
// malformed, slot ranges that are empty, reversed, epoch-crossing or overflowing) and every
// outcome of the per-slot block fetch.
//
// Cuts: MultiEpoch.GetBlock (gRPC) -> block model below; solana.TransactionFromDecoder -> the
// non-reflective Transaction.UnmarshalWithDecoder on the same decoder (real code, concrete bytes);
// the three transaction-meta format parsers -> accept/reject (engine model); getErr,
// parseTransactionAndMetaFromNode, getTransactionAndMetaFromNode, gsfa GetBeforeUntilSlot -> models
// below; stream transport -> doubles of c08_grpc_unary.go.

// --- transactions served by the block model ----------------------------------------------------------

var (
	verifC08Payer  = solana.MustPublicKeyFromBase58(verifC08Key32b)
	verifC08Absent = "Stake11111111111111111111111111111111111111"
)

// a well-formed legacy transaction: one signature, accounts [payer, program], one instruction
func verifC08TxBytes(vote bool) []byte {
	var b []byte
	b = append(b, 1) // one signature
	sig := make([]byte, 64)
	sig[0] = 7
	b = append(b, sig...)
	b = append(b, 1, 0, 1) // message header
	b = append(b, 2)       // two account keys
	prog := solana.SystemProgramID
	if vote {
		prog = solana.VoteProgramID
	}
	b = append(b, verifC08Payer[:]...)
	b = append(b, prog[:]...)
	b = append(b, make([]byte, 32)...) // recent blockhash
	b = append(b, 1)                   // one instruction
	b = append(b, 1)                   // program id index
	b = append(b, 1, 0)                // one account: index 0
	b = append(b, 2, 9, 9)             // data
	return b
}

// replacement of solana.TransactionFromDecoder (reflection-driven bin.Decoder.Decode): the decoder
// dispatches to Transaction.UnmarshalWithDecoder, which is called here directly.
func verifC08TxFromDecoder(decoder *bin.Decoder) (*solana.Transaction, error) {
	tx := new(solana.Transaction)
	if err := tx.UnmarshalWithDecoder(decoder); err != nil {
		return nil, err
	}
	return tx, nil
}

func verifC08GrpcTx(kind int, withMeta bool, index *uint64) *old_faithful_grpc.Transaction {
	t := &old_faithful_grpc.Transaction{Index: index}
	switch kind {
	case 0:
		t.Transaction = verifC08TxBytes(false)
	case 1:
		t.Transaction = verifC08TxBytes(true)
	default:
		t.Transaction = []byte{1, 2, 3} // undecodable
	}
	if withMeta {
		t.Meta = []byte{0x0a, 0x00} // opaque to the harness: the meta parsers are modelled
	}
	return t
}

// --- block fetch model (the real MultiEpoch.GetBlock is renamed) --------------------------------------

var (
	verifC08BlockCalls int
	verifC08Rpc        int // 0 StreamBlocks, 1 StreamTransactions
	verifC08Focus      int // 0 slot ranges, 1 filters, 2 cancelled stream
)

func (multi *MultiEpoch) GetBlock(ctx context.Context, params *old_faithful_grpc.BlockRequest) (*old_faithful_grpc.BlockResponse, error) {
	verifAssert(params != nil, "C08.grpc_stream: GetBlock called without a request")
	verifC08BlockCalls++
	if verifC08BlockCalls > verifParam("forking_blocks", 1) {
		// later slots of the range: skipped slots
		return nil, status.Errorf(codes.NotFound, "Slot %d was skipped, or missing in long-term storage", params.Slot)
	}
	outcome := 3
	if verifC08Focus != 1 {
		// (the filter-focused runs always serve a block with transactions)
		outcome = verifChoice("GetBlock", 4)
	}
	switch outcome {
	case 0:
		return nil, status.Errorf(codes.NotFound, "Slot %d was skipped, or missing in long-term storage", params.Slot)
	case 1:
		return nil, status.Errorf(codes.Internal, "Failed to get block: %v", errVerifC08IO)
	case 2:
		return &old_faithful_grpc.BlockResponse{Slot: params.Slot}, nil
	}
	b := &old_faithful_grpc.BlockResponse{Slot: params.Slot}
	zero := uint64(0)
	withMeta := true // the meta bytes are opaque; what the parsers make of them is chosen by verifC08ParseAnyMeta
	nShapes := 4
	if verifC08Focus == 1 {
		nShapes = 3 // single-transaction blocks
	}
	switch verifChoice("block.txs", nShapes) {
	case 0:
		b.Transactions = []*old_faithful_grpc.Transaction{verifC08GrpcTx(0, withMeta, &zero)}
	case 1:
		b.Transactions = []*old_faithful_grpc.Transaction{verifC08GrpcTx(1, withMeta, &zero)}
	case 2:
		b.Transactions = []*old_faithful_grpc.Transaction{verifC08GrpcTx(2, withMeta, &zero)}
	default:
		b.Transactions = []*old_faithful_grpc.Transaction{verifC08GrpcTx(1, withMeta, &zero), verifC08GrpcTx(0, withMeta, nil)}
	}
	return b, nil
}

// --- models of data-side helpers ---------------------------------------------------------------------

// transaction-status-meta parsing (protobuf, then two bincode formats; library code). The stored
// meta bytes are opaque, so the parser may yield any of the three formats or reject the bytes.
// Installed through the hook variable that the overlay adds to ParseAnyTransactionStatusMeta.
var verifC08MetaErrorIsFatal bool

func verifC08ParseAnyMeta(buf []byte) (any, error) {
	var outcome int
	if verifC08Rpc == 1 {
		// loaded addresses are only read by StreamBlocks
		outcome = []int{0, 2, 3}[verifChoice("ParseAnyTransactionStatusMeta", 3)]
	} else {
		outcome = verifChoice("ParseAnyTransactionStatusMeta", 4)
	}
	switch outcome {
	case 0:
		return &confirmed_block.TransactionStatusMeta{}, nil
	case 1:
		return &confirmed_block.TransactionStatusMeta{LoadedReadonlyAddresses: [][]byte{verifC08Payer[:]}, LoadedWritableAddresses: [][]byte{{1, 2, 3}}}, nil
	case 2:
		if verifChoice("legacy-meta", 2) == 1 {
			return &metaoldest.TransactionStatusMeta{}, nil
		}
		return &metalatest.TransactionStatusMeta{}, nil
	}
	// blockContainsAccounts logs the error and goes on to use the nil container
	verifKnownFinding("C08-blockfilter-nil-meta", verifC08MetaErrorIsFatal)
	return nil, errors.New("verif: failed to parse tx meta")
}

// getErr(meta): the transaction succeeded (nil) or failed (some error object)
func getErr(meta any) any {
	if verifChoice("getErr", 2) == 1 {
		return map[string]any{"InstructionError": []any{0, "Custom"}}
	}
	return nil
}

func parseTransactionAndMetaFromNode(
	transactionNode *ipldbindcode.Transaction,
	dataFrameGetter func(ctx context.Context, wantedCid cid.Cid) (*ipldbindcode.DataFrame, error),
) (tx solana.Transaction, meta any, _ error) {
	switch verifChoice("parseTransactionAndMetaFromNode", 3) {
	case 0:
		return solana.Transaction{}, nil, errVerifC08IO
	case 1:
		t, err := verifC08TxFromDecoder(bin.NewBinDecoder(verifC08TxBytes(false)))
		verifAssume(err == nil)
		return *t, nil, nil
	}
	t, err := verifC08TxFromDecoder(bin.NewBinDecoder(verifC08TxBytes(true)))
	verifAssume(err == nil)
	return *t, &confirmed_block.TransactionStatusMeta{}, nil
}

func getTransactionAndMetaFromNode(
	transactionNode *ipldbindcode.Transaction,
	dataFrameGetter func(ctx context.Context, wantedCid cid.Cid) (*ipldbindcode.DataFrame, error),
) ([]byte, []byte, error) {
	if verifChoice("getTransactionAndMetaFromNode", 2) == 1 {
		return nil, nil, errVerifC08IO
	}
	return verifC08TxBytes(false), nil, nil
}

var verifC08NodeWithoutIndex bool

// gsfa walk for one account over a slot window (the call in processSlotTransactions is rewritten
// to this function): an error, nothing, or one transaction node in a loaded / not loaded epoch,
// with or without a position index.
func verifC08GetBeforeUntilSlot(
	g *gsfa.GsfaReaderMultiepoch,
	ctx context.Context,
	pk solana.PublicKey,
	limit int,
	before uint64,
	until uint64,
	fetcher func(uint64, linkedlog.OffsetAndSizeAndSlot) (*ipldbindcode.Transaction, error),
) (gsfa.EpochToTransactionObjects, error) {
	verifAssert(g != nil, "C08.grpc_stream: indexed branch entered without a gsfa reader")
	verifTrace("GetBeforeUntilSlot", limit, before, until)
	switch verifChoice("GetBeforeUntilSlot", 5) {
	case 0:
		return nil, errVerifC08IO
	case 1:
		return gsfa.EpochToTransactionObjects{}, nil
	case 2:
		// the real walk calls the fetcher for every location found
		tx, err := fetcher(0, linkedlog.OffsetAndSizeAndSlot{Offset: 100, Size: 10, Slot: until})
		if err != nil {
			return nil, err
		}
		return gsfa.EpochToTransactionObjects{0: {tx}}, nil
	case 3:
		return gsfa.EpochToTransactionObjects{7: {&ipldbindcode.Transaction{Slot: 7 * 432000}}}, nil // epoch unloaded meanwhile
	}
	node := &ipldbindcode.Transaction{Slot: int(until)}
	if verifChoice("node.index", 2) == 1 {
		i := 3
		pi := &i
		node.Index = &pi
	} else {
		verifC08NodeWithoutIndex = true
		verifKnownFinding("C08-stream-nil-index", true)
	}
	return gsfa.EpochToTransactionObjects{0: {node}}, nil
}

// --- stream doubles ------------------------------------------------------------------------------------

type verifC08TxStream struct{ *verifC08Stream }

func (s verifC08TxStream) Send(m *old_faithful_grpc.TransactionResponse) error { return s.send() }

type verifC08BlockStream struct{ *verifC08Stream }

func (s verifC08BlockStream) Send(m *old_faithful_grpc.BlockResponse) error { return s.send() }

// --- request shapes ------------------------------------------------------------------------------------

type verifC08Range struct {
	start  uint64
	hasEnd bool
	end    uint64
}

var verifC08Ranges = []verifC08Range{
	{2, true, 2},                     // one slot
	{2, true, 3},                     // two slots
	{5, true, 4},                     // reversed: empty
	{0, false, 0},                    // default window (100 slots)
	{431999, true, 432000},           // crosses an epoch boundary
	{432000, true, 0},                // reversed across one epoch boundary
	{864000, true, 0},                // reversed across two epoch boundaries
	{18446744073709551566, false, 0}, // start+100 overflows: window wraps to [2^64-50, 49]
	{18446744073709551615, true, 18446744073709551615}, // last slot only (slot++ wraps)
	{0, true, 1 << 62}, // very large window
}

func verifC08BoolPtr(name string) *bool {
	switch verifChoice(name, 3) {
	case 0:
		return nil
	case 1:
		f := false
		return &f
	}
	t := true
	return &t
}

// account list shapes: key present in the served transactions, key absent, malformed, mixed
func verifC08Accounts(name string) ([]string, bool) { return verifC08AccountsN(name, 5) }

func verifC08AccountsN(name string, shapes int) ([]string, bool) {
	switch verifChoice(name, shapes) {
	case 0:
		return nil, false
	case 1:
		return []string{verifC08Key32b}, false
	case 2:
		return []string{verifC08Absent}, false
	case 3:
		return []string{"not-a-base58-key"}, true
	}
	return []string{verifC08Absent, ""}, true
}

func VerifC08GrpcStream() {
	fasterJson = verifC08JSON{}
	solanatxmetaparsers.VerifParseAnyHook = verifC08ParseAnyMeta
	verifC08MetaErrorIsFatal = false
	verifAllocLimit(1 << 27)
	rpc := verifParam("rpc", -1)
	if rpc < 0 {
		rpc = verifChoice("rpc", 2)
	}
	focus := verifParam("focus", -1)
	if focus < 0 {
		focus = verifChoice("focus", 2) // 0: slot ranges, 1: filters
	}

	// server: no epoch; epoch 0 with / without blocktime index; epoch 0 with a gsfa reader
	nEpochs, feature := 0, 0
	sc := verifParam("server", -1)
	if sc < 0 {
		sc = verifChoice("server", 4)
	}
	switch sc {
	case 1:
		nEpochs, feature = 1, 0
	case 2:
		nEpochs, feature = 1, 1
	case 3:
		nEpochs, feature = 1, 1|4
	}
	multi := verifC08Server(nEpochs, 0, feature, 1)
	verifC08BlockCalls = 0
	verifC08Rpc = rpc
	base := &verifC08Stream{ctx: verifC08StreamCtx()}
	if base.ctx.Err() != nil {
		// client already gone: explored with one plain request per server state
		focus = 2
	}

	verifC08Focus = focus
	rg := verifC08Ranges[0]
	if focus == 0 {
		rg = verifC08Ranges[verifChoice("range", len(verifC08Ranges))]
	}
	var endSlot *uint64
	if rg.hasEnd {
		e := rg.end
		endSlot = &e
	}

	if rpc == 0 {
		// StreamBlocks: with EndSlot = 2^64-1 the loop `slot <= endSlot` cannot terminate by itself
		// (every skipped slot continues); that request is not a panic and is excluded here
		verifAssume(!(rg.hasEnd && rg.end == 18446744073709551615))
		verifAssume(!(rg.hasEnd && rg.end == 1<<62))
		req := &old_faithful_grpc.StreamBlocksRequest{StartSlot: rg.start, EndSlot: endSlot}
		if focus == 1 {
			switch verifChoice("blocks.filter", 3) {
			case 1:
				req.Filter = &old_faithful_grpc.StreamBlocksFilter{}
			case 2:
				acc, _ := verifC08Accounts("blocks.filter.include")
				req.Filter = &old_faithful_grpc.StreamBlocksFilter{AccountInclude: acc}
				verifC08MetaErrorIsFatal = len(acc) > 0
			}
		}
		_ = multi.StreamBlocks(req, verifC08BlockStream{base})
	} else {
		// StreamTransactions (scan branch) skips slots without a block like StreamBlocks does
		// (fix C19-S17): with EndSlot = 2^64-1 or 2^62 the slot-by-slot loop is a very long loop that
		// only the client's cancellation ends; it is not a panic and is excluded here as for StreamBlocks.
		// (The allocation these windows used to drive is decided by the reversed / epoch-crossing windows.)
		verifAssume(!(rg.hasEnd && rg.end == 18446744073709551615))
		verifAssume(!(rg.hasEnd && rg.end == 1<<62))
		req := &old_faithful_grpc.StreamTransactionsRequest{StartSlot: rg.start, EndSlot: endSlot}
		malformed := false
		if focus == 1 && nEpochs*feature == 0 {
			// no epoch / no blocktime index: what follows a transaction that the filter lets
			// through does not depend on the filter; one filter that lets vote transactions through
			f, t := false, true
			req.Filter = &old_faithful_grpc.StreamTransactionsFilter{Vote: &f, Failed: &t}
		} else if focus == 1 {
			txf := 2
			if verifParam("two_accounts", 0) == 0 {
				txf = verifChoice("tx.filter", 3)
			}
			switch txf {
			case 0:
				// no filter
			case 1:
				// Vote / Failed unset, false or true
				req.Filter = &old_faithful_grpc.StreamTransactionsFilter{Vote: verifC08BoolPtr("filter.vote"), Failed: verifC08BoolPtr("filter.failed")}
			default:
				t1, t2 := verifChoice("filter.vote", 2) == 1, true
				f := &old_faithful_grpc.StreamTransactionsFilter{Vote: &t1, Failed: &t2}
				lst := 0
				if verifParam("two_accounts", 0) == 0 {
					lst = verifChoice("tx.filter.accounts", 3)
				}
				switch lst {
				case 0:
					if feature&4 != 0 {
						// gsfa branch: one goroutine per account, accounts are independent
						if verifParam("two_accounts", 0) == 1 {
							f.AccountInclude = []string{verifC08Key32b, verifC08Absent}
						} else {
							f.AccountInclude, malformed = verifC08AccountsN("filter.include", 4)
						}
					} else {
						f.AccountInclude, malformed = verifC08Accounts("filter.include")
					}
				case 1:
					f.AccountExclude, malformed = verifC08Accounts("filter.exclude")
				default:
					f.AccountRequired, malformed = verifC08Accounts("filter.required")
				}
				req.Filter = f
			}
		}
		if f := req.Filter; f != nil {
			// proto3 `optional bool vote/failed`: unset -> nil pointer, dereferenced by the filter
			verifKnownFinding("C08-stream-filter-unset", f.Vote == nil || f.Failed == nil)
			verifKnownFinding("C08-stream-bad-account", malformed)
		}
		// capacity computed from the requested window: endEpoch-startEpoch+1 in uint64
		end := rg.start + maxSlotsToStream
		if rg.hasEnd {
			end = rg.end
		}
		capWords := slottools.CalcEpochForSlot(end) - slottools.CalcEpochForSlot(rg.start) + 1
		verifKnownFinding("C08-stream-range-cap", capWords > 1<<24)
		_ = multi.StreamTransactions(req, verifC08TxStream{base})
	}

	// the server keeps serving
	verifAssert(multi.CountEpochs() == nEpochs, "C08.grpc_stream: epoch set changed by a query")
	multi.AddEpoch(999, verifC08Epoch(999))
	verifReach("end")
}
