//go:build verif

package main

import (
	"strconv"

	"github.com/gagliardetto/solana-go"
	"github.com/valyala/fasthttp"
)

// C03.api — the real apiHandler (GET /api/v1/slot-to-cid/{slot} and /api/v1/sig-to-cid/{sig}, documented
// as "200 with the CID, 404 if the slot or sig is not found") over the keyless-index model: a 200 answer
// names the CID of the block of the requested slot / of the transaction with the requested signature; a
// key that is not archived (skipped slot, colliding hash, epoch not loaded) is answered 404; an archived
// key is answered 200.
// The fasthttp.RequestCtx accessors used by apiHandler (IsGet, Path, SetStatusCode, SetBodyString) are
// redirected by textual rewrites to the functions below (fasthttp is library code).

var (
	verifC03ApiPathStr string
	verifC03ApiCode    int
	verifC03ApiBodyStr string
	verifC03ApiBodySet int
)

func verifC03ApiIsGet(ctx *fasthttp.RequestCtx) bool       { return true }
func verifC03ApiPath(ctx *fasthttp.RequestCtx) []byte      { return []byte(verifC03ApiPathStr) }
func verifC03ApiStatus(ctx *fasthttp.RequestCtx, code int) { verifC03ApiCode = code }
func verifC03ApiBody(ctx *fasthttp.RequestCtx, body string) {
	verifC03ApiBodyStr = body
	verifC03ApiBodySet++
}

func VerifC03Api() {
	verifC03CollFinding = "C03-S22-api-raw-index-answer"
	ne := verifParam("epochs", 1)
	if verifChoice("endpoint", 2) == 0 {
		nb := 1 + verifChoice("nblocks", verifParam("maxblocks", 2))
		multi, eps := verifC03Multi(ne, nb, 0)
		// the slot is part of the URL text: concrete representatives; the stored slots stay symbolic
		qs := []uint64{6*432000 + 5, 6*432000 + 431999, 5*432000 + 7, 0}
		q := qs[verifChoice("slot", len(qs))]
		verifC03ApiPathStr = "/api/v1/slot-to-cid/" + strconv.FormatUint(q, 10)
		multi.apiHandler(&fasthttp.RequestCtx{})
		archived := verifC03Archived(eps, q)
		if verifC03ApiCode == fasthttp.StatusOK {
			verifAssert(verifC03ApiBodySet == 1, "C03.api: 200 without exactly one body")
			ok := uint64(0)
			for _, e := range eps {
				for _, o := range verifC03Stores[e].objs {
					if o.kind == verifC03KindBlock && o.c.String() == verifC03ApiBodyStr {
						ok |= verifIteU64(o.slot == q, 1, 0)
					}
				}
			}
			verifAssert(ok == 1, "C03.api: slot-to-cid answers 200 with the CID of a block of a different slot")
		} else {
			verifAssert(verifC03ApiBodySet == 0, "C03.api: error status with a body")
			if archived == 0 {
				verifAssert(verifC03ApiCode == fasthttp.StatusNotFound, "C03.api: slot that is not archived is not answered 404")
			} else {
				verifAssert(verifC03AnyCollision(eps), "C03.api: archived slot not answered 200")
			}
		}
	} else {
		nt := 1 + verifChoice("ntxs", verifParam("maxtxs", 2))
		multi, eps := verifC03Multi(ne, 0, nt)
		var q solana.Signature
		q[0], q[1], q[63] = byte(1+verifChoice("sigbyte", 2)), 0, 7 // part of the URL text: concrete; stored signatures stay symbolic
		verifC03ApiPathStr = "/api/v1/sig-to-cid/" + q.String()
		multi.apiHandler(&fasthttp.RequestCtx{})
		archived := verifC03SigArchived(eps, q)
		if verifC03ApiCode == fasthttp.StatusOK {
			verifAssert(verifC03ApiBodySet == 1, "C03.api: 200 without exactly one body")
			ok := uint64(0)
			for _, e := range eps {
				for _, o := range verifC03Stores[e].objs {
					if o.kind == verifC03KindTx && o.c.String() == verifC03ApiBodyStr {
						ok |= verifIteU64(o.sig == q, 1, 0)
					}
				}
			}
			verifAssert(ok == 1, "C03.api: sig-to-cid answers 200 with the CID of a transaction with a different signature")
		} else {
			verifAssert(verifC03ApiBodySet == 0, "C03.api: error status with a body")
			if archived == 0 {
				verifAssert(verifC03ApiCode == fasthttp.StatusNotFound, "C03.api: signature that is not archived is not answered 404")
			} else {
				verifAssert(verifC03AnyCollision(eps), "C03.api: archived signature not answered 200")
			}
		}
	}
	verifReach("end")
}
