//go:build verif

package main

import (
	"context"

	"github.com/fsnotify/fsnotify"
)

// Model of *fsnotify.Watcher for onFileChanged (cmd-rpc.go): the event source of --watch.
type verifC09Watcher struct {
	Events chan fsnotify.Event
	Errors chan error
	done   chan struct{}
}

func (w *verifC09Watcher) Add(string) error { return nil }
func (w *verifC09Watcher) Close() error     { close(w.done); return nil }

var verifC09W *verifC09Watcher

func verifC09NewWatcher() (*verifC09Watcher, error) {
	verifC09W = &verifC09Watcher{Events: make(chan fsnotify.Event), Errors: make(chan error), done: make(chan struct{})}
	return verifC09W, nil
}

// C09.watch — the --watch reload loop: the real onFileChanged (event goroutine, errgroup with the
// epoch-load concurrency limit, fileProcessingTracker) dispatching k file events to a callback that
// performs the reload actions of cmd-rpc.go on the real MultiEpoch (ReplaceOrAddEpoch / AddEpoch /
// RemoveEpochByConfigFilepath; NewEpochFromConfig is cut), while a client query runs concurrently.
// Under every interleaving: nothing deadlocks, the loop winds down after cancellation (or after the
// event source closes) only when every started reload has finished, no event is lost (with
// concurrency 1 every event is processed; with 2 at least one event per file and never two reloads
// of the same file at once), and the epoch listing stays duplicate-free and sorted.
func VerifC09Watch() {
	m := NewMultiEpoch(&Options{})
	m.epochs[5] = verifC09Epoch(5, "five.yml")
	m.epochs[7] = verifC09Epoch(7, "seven.yml")
	limit := 1 + verifChoice("limit", 2)
	minEv := verifParam("min_events", 1)
	k := minEv + verifChoice("events", verifParam("max_events", 2)-minEv+1)
	files := []string{"five.yml", "nine.yml"}
	nums := []uint64{5, 9}
	ops := []fsnotify.Op{fsnotify.Write, fsnotify.Create, fsnotify.Remove}
	evFile := make([]int, k)
	evs := make([]fsnotify.Event, k)
	for i := range evs {
		evFile[i] = verifChoice("file", len(files))
		evs[i] = fsnotify.Event{Name: files[evFile[i]], Op: ops[verifChoice("op", len(ops))]}
	}

	// per-event cells (no harness lock: the event index travels in the upper bits of Op, which
	// onFileChanged never inspects). began[j]/ended[j] of another event of the SAME file are read
	// at the start of a reload: the tracker must order same-file reloads, so these reads are
	// race-free exactly when no two reloads of one file overlap (the race detector is on).
	began := make([]bool, k)
	ended := make([]bool, k)
	overlap := make([]bool, k)
	for i := range evs {
		evs[i].Op |= fsnotify.Op(i+1) << 8
	}
	ctx, cancel := context.WithCancel(context.Background())
	err := onFileChanged(ctx, limit, []string{"dir"}, func(ev fsnotify.Event) {
		i := int(ev.Op>>8) - 1
		fi := evFile[i]
		for j := range evs {
			if j != i && evFile[j] == fi && began[j] && !ended[j] {
				overlap[i] = true
			}
		}
		began[i] = true
		switch ev.Op & 0xff {
		case fsnotify.Write:
			m.ReplaceOrAddEpoch(nums[fi], verifC09Epoch(nums[fi], ev.Name))
		case fsnotify.Create:
			m.AddEpoch(nums[fi], verifC09Epoch(nums[fi], ev.Name))
		case fsnotify.Remove:
			m.RemoveEpochByConfigFilepath(ev.Name)
		}
		ended[i] = true
	})
	verifAssert(err == nil, "C09.watch: onFileChanged failed")
	w := verifC09W

	qdone := make(chan struct{})
	go func() { // a client query during the reloads
		m.GetEpochNumbers()
		close(qdone)
	}()
	for i := range evs {
		w.Events <- evs[i]
	}
	if verifChoice("end", 2) == 0 {
		cancel()
	} else {
		close(w.Events)
	}
	<-w.done // deferred watcher.Close runs after the deferred wg.Wait
	<-qdone
	cancel()

	calls := 0
	perFile := make([]int, len(files))
	for i := range evs {
		verifAssert(began[i] == ended[i], "C09.watch: the watch loop wound down while a reload was still running")
		verifAssert(!overlap[i], "C09.watch: two reloads of the same config file ran at once")
		if began[i] {
			calls++
			perFile[evFile[i]]++
		}
	}
	if limit == 1 {
		verifAssert(calls == k, "C09.watch: an event was dropped although no reload of that file was in flight")
	}
	for _, f := range evFile {
		verifAssert(perFile[f] >= 1, "C09.watch: no event of a changed file was processed")
	}

	// the server keeps serving and the listing is consistent
	e7, gerr := m.GetEpoch(7)
	verifAssert(gerr == nil && e7 != nil, "C09.watch: an epoch that stayed loaded is gone")
	ns := m.GetEpochNumbers()
	for i := 0; i+1 < len(ns); i++ {
		verifAssert(ns[i] > ns[i+1], "C09.watch: listing not strictly descending")
	}
	m.AddEpoch(100, verifC09Epoch(100, "hundred.yml"))
	verifReach("end")
}
