//go:build verif

package main

// Shared model of an archive for the C19 obligations (streaming a slot range).
//
// The archive is a window of consecutive slots [start, start+len(slots)). Each slot is either
//   - found: a block with 0..T transactions,
//   - skipped: the gRPC GetBlock answers codes.NotFound, or
//   - broken: GetBlock answers codes.Internal (e.g. a failed CAR read).
//
// Cuts (every one is listed in the registry):
//   - (*MultiEpoch).GetBlock (gRPC flavour) is replaced by the table-driven model below (rename);
//     the real one is decided by C02/C03.
//   - solana.TransactionFromDecoder(decoder) is replaced at its call sites (rewrite) by
//     verifC19TxFromDecoder: the wire form of a model transaction is the one byte <id>, the decoded
//     transaction is built with solana-go's own types, so the real Message.HasAccount /
//     IsVersioned / Program / GetAllKeys run on it.
//   - solanatxmetaparsers.ParseAnyTransactionStatusMeta is replaced (rewrite) by
//     verifC19ParseAnyMeta: the stored meta of a model transaction is the one byte <id>|0x80; the decoded
//     value is a real *confirmed_block.TransactionStatusMeta (protobuf era) or a real
//     metalatest/metaoldest.TransactionStatusMeta (bincode eras), so the real getErr runs on it.
//   - solanaerrors.ParseTransactionError (jsoniter + base64 + bincode) is replaced inside getErr by
//     verifC19ParseTxErr (nil *TransactionError -> (nil, nil) as natively observed; otherwise a
//     non-empty map).
//   - context.WithTimeout -> the parent context (the 60 s / 30 s timers never fire during a run).

import (
	"context"
	"errors"

	bin "github.com/gagliardetto/binary"
	"github.com/gagliardetto/solana-go"
	old_faithful_grpc "github.com/rpcpool/yellowstone-faithful/old-faithful-proto/old-faithful-grpc"
	metalatest "github.com/rpcpool/yellowstone-faithful/parse_legacy_transaction_status_meta/v-latest"
	metaoldest "github.com/rpcpool/yellowstone-faithful/parse_legacy_transaction_status_meta/v-oldest"
	"github.com/rpcpool/yellowstone-faithful/third_party/solana_proto/confirmed_block"
	"google.golang.org/grpc"
	"google.golang.org/grpc/codes"
	"google.golang.org/grpc/status"
)

// account universe: three keys that differ in their last byte only (so that membership of a
// transaction's account in a filter list can be left to the solver: the last byte is symbolic).
const (
	verifC19AcctA = "BqrkUCsLR44RNXwcwDRych2zFS6NpV9pKumFB1GXEdap" // a1 19 00 .. 00 01
	verifC19AcctB = "BqrkUCsLR44RNXwcwDRych2zFS6NpV9pKumFB1GXEdaq" // a1 19 00 .. 00 02
	verifC19AcctC = "BqrkUCsLR44RNXwcwDRych2zFS6NpV9pKumFB1GXEdar" // a1 19 00 .. 00 03 (never in a filter)
)

func verifC19Key(last byte) (k solana.PublicKey) {
	k[0], k[1], k[31] = 0xA1, 0x19, last
	return
}

// verifC19ProgKey is the Vote program id with its last byte (0 in the real id) replaced.
func verifC19ProgKey(last byte) solana.PublicKey {
	k := solana.VoteProgramID
	k[31] = last
	return k
}

var (
	verifC19Payer = solana.PublicKey{0x50, 0x41, 0x59}
	verifC19Table = solana.PublicKey{0x54, 0x42, 0x4C}
)

const (
	verifC19MetaSerdeLatest = iota
	verifC19MetaSerdeOldest
	verifC19MetaProtobuf
)

const (
	verifC19Found = iota
	verifC19Skipped
	verifC19Broken
)

type verifC19Tx struct {
	id     int
	slotIx int // index of its slot in the window
	pos    int // position in its block

	// shape (concrete)
	v0       bool // versioned (v0) message
	lookup   bool // v0 only: one address-table lookup, unresolved (as decoded from the archive)
	nsig     int
	ninstr   int // 1: [prog]; 2: [system, prog]
	metaKind int
	badWire  bool // TransactionFromDecoder fails
	badMeta  bool // the meta parser fails

	// content (may be symbolic)
	key1, key2 byte   // last byte of the two variable static account keys
	loaded     byte   // lookup only: last byte of the address loaded through the table (recorded in the protobuf meta as writable)
	loadedW    []byte // lookup only: further writable addresses loaded through the table (last bytes), after `loaded`
	loadedRO   []byte // lookup only: readonly addresses loaded through the table (last bytes)
	prog       byte   // last byte of the program id of the last instruction (0 = the Vote program)
	failed     bool   // the archived status is an error

	wire *old_faithful_grpc.Transaction
}

type verifC19Slot struct {
	outcome int
	block   *old_faithful_grpc.BlockResponse
	txs     []*verifC19Tx
	err     error
}

var verifC19 struct {
	start         uint64
	slots         []*verifC19Slot
	txs           []*verifC19Tx // by id
	openEnded     bool          // the request has no end slot: GetBlock is asked beyond the window
	openLimit     int           // open-ended request: the last slot visited is start+openLimit (set by the harness that uses it)
	getBlockCalls int
}

func verifC19Reset(start uint64) {
	verifC19.start = start
	verifC19.slots = nil
	verifC19.txs = nil
	verifC19.openEnded = false
	verifC19.openLimit = 0
	verifC19.getBlockCalls = 0
}

func verifC19NewTx(slotIx, pos int) *verifC19Tx {
	t := &verifC19Tx{id: len(verifC19.txs), slotIx: slotIx, pos: pos, nsig: 1, ninstr: 1, key1: 3, key2: 3, prog: 9}
	p := uint64(pos)
	t.wire = &old_faithful_grpc.Transaction{Transaction: []byte{byte(t.id)}, Meta: []byte{byte(t.id) | 0x80}, Index: &p}
	verifC19.txs = append(verifC19.txs, t)
	return t
}

func verifC19AddSlot(outcome int) *verifC19Slot {
	ix := len(verifC19.slots)
	s := &verifC19Slot{outcome: outcome}
	switch outcome {
	case verifC19Found:
		s.block = &old_faithful_grpc.BlockResponse{Slot: verifC19.start + uint64(ix)}
	case verifC19Skipped:
		s.err = status.Errorf(codes.NotFound, "Slot %d was skipped, or missing in long-term storage", ix)
	default:
		s.err = status.Errorf(codes.Internal, "Failed to get block %d", ix)
	}
	verifC19.slots = append(verifC19.slots, s)
	return s
}

func (s *verifC19Slot) addTx() *verifC19Tx {
	t := verifC19NewTx(len(verifC19.slots)-1, len(s.txs))
	s.txs = append(s.txs, t)
	s.block.Transactions = append(s.block.Transactions, t.wire)
	return t
}

// ---------------------------------------------------------------------------------------------
// model of the gRPC (*MultiEpoch).GetBlock

func (multi *MultiEpoch) GetBlock(ctx context.Context, params *old_faithful_grpc.BlockRequest) (*old_faithful_grpc.BlockResponse, error) {
	k := verifC19.getBlockCalls
	verifC19.getBlockCalls++
	verifAssert(params != nil, "C19: GetBlock called without a request")
	verifAssert(params.Slot == verifC19.start+uint64(k), "C19: blocks are not requested slot by slot in ascending order from the start of the range")
	if k >= len(verifC19.slots) {
		verifAssert(verifC19.openEnded, "C19: a block beyond the end of the range is requested")
		verifAssert(k <= verifC19.openLimit, "C19: more slots beyond the start are requested than an open-ended request covers")
		return nil, status.Errorf(codes.NotFound, "Epoch is not available")
	}
	s := verifC19.slots[k]
	return s.block, s.err
}

// ---------------------------------------------------------------------------------------------
// model of solana.TransactionFromDecoder

func (t *verifC19Tx) build() *solana.Transaction {
	tx := &solana.Transaction{}
	tx.Signatures = make([]solana.Signature, t.nsig)
	for i := range tx.Signatures {
		tx.Signatures[i][0] = byte(t.id + 1)
		tx.Signatures[i][1] = byte(i)
	}
	m := &tx.Message
	m.Header.NumRequiredSignatures = uint8(t.nsig)
	m.AccountKeys = solana.PublicKeySlice{verifC19Payer, verifC19Key(t.key1), verifC19Key(t.key2), verifC19ProgKey(t.prog), solana.SystemProgramID}
	if t.ninstr == 2 {
		m.Instructions = append(m.Instructions, solana.CompiledInstruction{ProgramIDIndex: 4, Accounts: []uint16{0}})
	}
	m.Instructions = append(m.Instructions, solana.CompiledInstruction{ProgramIDIndex: 3, Accounts: []uint16{0, 1, 2}})
	if t.v0 {
		m.SetVersion(solana.MessageVersionV0)
		if t.lookup {
			m.SetAddressTableLookups([]solana.MessageAddressTableLookup{{AccountKey: verifC19Table, WritableIndexes: []uint8{0}}})
		}
	}
	return tx
}

func verifC19TxFromDecoder(d *bin.Decoder) (*solana.Transaction, error) {
	b, err := d.ReadByte()
	if err != nil {
		return nil, err
	}
	if int(b) >= len(verifC19.txs) {
		return nil, errors.New("verif: not a transaction of the model")
	}
	t := verifC19.txs[int(b)]
	if t.badWire {
		return nil, errors.New("verif: undecodable transaction")
	}
	return t.build(), nil
}

// ---------------------------------------------------------------------------------------------
// model of solanatxmetaparsers.ParseAnyTransactionStatusMeta and solanaerrors.ParseTransactionError

func (t *verifC19Tx) meta() any {
	switch t.metaKind {
	case verifC19MetaProtobuf:
		m := &confirmed_block.TransactionStatusMeta{}
		if t.failed {
			m.Err = &confirmed_block.TransactionError{Err: []byte{8, 0, 0, 0, 0, 0, 0, 0, 0}}
		}
		if t.lookup {
			for _, l := range t.loadedWritable() {
				k := verifC19Key(l)
				m.LoadedWritableAddresses = append(m.LoadedWritableAddresses, k[:])
			}
			for _, l := range t.loadedRO {
				k := verifC19Key(l)
				m.LoadedReadonlyAddresses = append(m.LoadedReadonlyAddresses, k[:])
			}
		}
		return m
	case verifC19MetaSerdeOldest:
		m := &metaoldest.TransactionStatusMeta{Status: &metaoldest.Result__Ok{}}
		if t.failed {
			m.Status = &metaoldest.Result__Err{Value: &metaoldest.TransactionError__AccountInUse{}}
		}
		return m
	default:
		m := &metalatest.TransactionStatusMeta{Status: &metalatest.Result__Ok{}}
		if t.failed {
			m.Status = &metalatest.Result__Err{Value: &metalatest.TransactionError__AccountInUse{}}
		}
		return m
	}
}

// loadedWritable / loadedAll: last bytes of the addresses the transaction loads through its address table.
func (t *verifC19Tx) loadedWritable() []byte {
	var out []byte
	if t.loaded != 0 {
		out = append(out, t.loaded)
	}
	return append(out, t.loadedW...)
}

func (t *verifC19Tx) loadedAll() []byte {
	if !t.lookup {
		return nil
	}
	return append(t.loadedWritable(), t.loadedRO...)
}

func verifC19ParseAnyMeta(buf []byte) (any, error) {
	if len(buf) != 1 {
		return nil, errors.New("verif: meta outside the model")
	}
	if buf[0]&0x80 == 0 || int(buf[0]&0x7f) >= len(verifC19.txs) {
		return nil, errors.New("verif: not a meta of the model")
	}
	t := verifC19.txs[int(buf[0]&0x7f)]
	if t.badMeta {
		return nil, errors.New("verif: failed to parse tx meta")
	}
	return t.meta(), nil
}

// verifC19ParseTxErr replaces solanaerrors.ParseTransactionError(metaValue.Err) in getErr. Natively,
// ParseTransactionError((*TransactionError)(nil)) returns (nil, nil) (json "null" decodes into a nil
// map); for a stored error it returns a map naming the error (or an error, which getErr drops).
func verifC19ParseTxErr(e *confirmed_block.TransactionError, _ func(any) (map[string]any, error)) (map[string]any, error) {
	if e == nil {
		return nil, nil
	}
	return map[string]any{"InstructionError": []any{0, "Custom"}}, nil
}

// verifC19WithTimeout replaces context.WithTimeout: the timer never fires during a run, the derived
// context is the parent itself.
func verifC19WithTimeout(ctx context.Context, _ any) (context.Context, context.CancelFunc) {
	return ctx, func() {}
}

// ---------------------------------------------------------------------------------------------
// stream recorders

type verifC19BlockStream struct {
	grpc.ServerStream
	ctx    context.Context
	sent   []*old_faithful_grpc.BlockResponse
	failAt int // the Send call with this index fails (-1: never)
}

var verifC19SendErr = errors.New("verif: client went away")

func (s *verifC19BlockStream) Context() context.Context { return s.ctx }

func (s *verifC19BlockStream) Send(b *old_faithful_grpc.BlockResponse) error {
	if len(s.sent) == s.failAt {
		return verifC19SendErr
	}
	s.sent = append(s.sent, b)
	return nil
}

type verifC19TxStream struct {
	grpc.ServerStream
	ctx         context.Context
	sent        []*old_faithful_grpc.TransactionResponse
	failAt      int
	cancelAfter int                // the client cancels the stream right after this many messages were sent (0: never)
	cancel      context.CancelFunc // cancels ctx
}

func (s *verifC19TxStream) Context() context.Context { return s.ctx }

func (s *verifC19TxStream) Send(r *old_faithful_grpc.TransactionResponse) error {
	if len(s.sent) == s.failAt {
		return verifC19SendErr
	}
	s.sent = append(s.sent, r)
	if s.cancelAfter > 0 && len(s.sent) == s.cancelAfter && s.cancel != nil {
		s.cancel()
	}
	return nil
}
