//go:build verif

package main

// C02.grpcGet — the bidirectional gRPC stream (*MultiEpoch).Get (grpc-server.go), the second gRPC
// entry point of getBlock / getTransaction / getBlockTime: for every sequence of requests the stream
// answers each request exactly once, in request order, under the request's own id, with the answer
// of the right kind carrying the archived data (same oracle as the unary calls); a request that
// cannot be served (epoch not loaded, unknown signature) is answered with an error message of code
// NOT_FOUND under its id and the stream goes on with the next request.

import (
	"bytes"
	"context"
	"io"

	old_faithful_grpc "github.com/rpcpool/yellowstone-faithful/old-faithful-proto/old-faithful-grpc"
	"google.golang.org/grpc"
)

type verifC02GetStream struct {
	grpc.ServerStream // nil: only Context / Recv / Send are used by the code under test
	ctx               context.Context
	reqs              []*old_faithful_grpc.GetRequest
	next              int
	sent              []*old_faithful_grpc.GetResponse
}

func (s *verifC02GetStream) Context() context.Context { return s.ctx }

func (s *verifC02GetStream) Recv() (*old_faithful_grpc.GetRequest, error) {
	if s.next < len(s.reqs) {
		s.next++
		return s.reqs[s.next-1], nil
	}
	return nil, io.EOF // the client closed its side
}

func (s *verifC02GetStream) Send(m *old_faithful_grpc.GetResponse) error {
	s.sent = append(s.sent, m)
	return nil
}

const (
	verifC02GetBlock = iota
	verifC02GetTx
	verifC02GetBlockTime
	verifC02GetBlockNoEpoch // a slot of an epoch that is not loaded
	verifC02GetTxUnknown    // a signature that is archived nowhere
	verifC02GetVersion
	verifC02GetKinds
)

func VerifC02GrpcGet() {
	ne := verifParam("epochs", 2)
	sc := verifC02NewTxScene(ne, verifChoice("home", ne), 1)
	t := sc.t
	// the block holding the transaction: one entry, parent in the previous epoch
	en := &verifC02Entry{hash: make([]byte, 32), txs: []*verifC02Tx{t}}
	for i := range en.hash {
		en.hash[i] = byte(0xE0 + i)
	}
	sc.a.addEntry(en)
	b := &verifC02Block{slot: t.slot, parent: sc.a.lo() - 1, blocktime: 1600000000, entries: []*verifC02Entry{en}}
	sc.a.addBlock(b)

	unknown := t.sig
	unknown[7] = 0x5D // differs from every archived signature (all have 0x5C there)

	n := 1 + verifChoice("requests", verifParam("maxRequests", 2))
	st := &verifC02GetStream{ctx: context.Background()}
	kinds := make([]int, n)
	ids := make([]uint64, n)
	for i := 0; i < n; i++ {
		kinds[i] = verifChoice("kind", verifC02GetKinds)
		ids[i] = verifU64("id")
		r := &old_faithful_grpc.GetRequest{Id: ids[i]}
		switch kinds[i] {
		case verifC02GetBlock:
			r.Request = &old_faithful_grpc.GetRequest_Block{Block: &old_faithful_grpc.BlockRequest{Slot: t.slot}}
		case verifC02GetTx:
			r.Request = &old_faithful_grpc.GetRequest_Transaction{Transaction: &old_faithful_grpc.TransactionRequest{Signature: t.sig[:]}}
		case verifC02GetBlockTime:
			r.Request = &old_faithful_grpc.GetRequest_BlockTime{BlockTime: &old_faithful_grpc.BlockTimeRequest{Slot: t.slot}}
		case verifC02GetBlockNoEpoch:
			r.Request = &old_faithful_grpc.GetRequest_Block{Block: &old_faithful_grpc.BlockRequest{Slot: 100*432000 + 17}}
		case verifC02GetTxUnknown:
			r.Request = &old_faithful_grpc.GetRequest_Transaction{Transaction: &old_faithful_grpc.TransactionRequest{Signature: unknown[:]}}
		default:
			r.Request = &old_faithful_grpc.GetRequest_Version{Version: &old_faithful_grpc.VersionRequest{}}
		}
		st.reqs = append(st.reqs, r)
	}

	err := sc.multi.Get(st)
	verifAssert(err == nil, "C02.grpcGet: the stream ends with an error although every request was answerable or not-found")
	verifAssert(len(st.sent) == n, "C02.grpcGet: number of responses differs from the number of requests")
	if err != nil || len(st.sent) != n {
		return
	}
	for i, r := range st.sent {
		verifAssert(r != nil && r.Id == ids[i], "C02.grpcGet: response does not carry the id of the request it answers")
		if r == nil {
			return
		}
		switch kinds[i] {
		case verifC02GetBlock:
			x, ok := r.Response.(*old_faithful_grpc.GetResponse_Block)
			verifAssert(ok && x.Block != nil, "C02.grpcGet: block request not answered with a block")
			if !ok || x.Block == nil {
				return
			}
			blk := x.Block
			verifAssert(blk.Slot == b.slot && blk.ParentSlot == b.parent && blk.BlockTime == int64(b.blocktime), "C02.grpcGet: block answer differs from the archived block")
			verifAssert(bytes.Equal(blk.Blockhash, en.hash), "C02.grpcGet: blockhash differs from the archive")
			verifAssert(len(blk.Transactions) == 1, "C02.grpcGet: transaction list of the block differs from the archive")
			if len(blk.Transactions) == 1 {
				verifAssert(bytes.Equal(blk.Transactions[0].Transaction, t.data.want) && bytes.Equal(blk.Transactions[0].Meta, t.meta.want), "C02.grpcGet: block's transaction payloads differ from the archive")
			}
		case verifC02GetTx:
			x, ok := r.Response.(*old_faithful_grpc.GetResponse_Transaction)
			verifAssert(ok && x.Transaction != nil && x.Transaction.Transaction != nil, "C02.grpcGet: transaction request not answered with a transaction")
			if !ok || x.Transaction == nil || x.Transaction.Transaction == nil {
				return
			}
			tr := x.Transaction
			verifAssert(tr.Slot == t.slot && tr.BlockTime == sc.blocktime, "C02.grpcGet: slot / block time of the transaction answer differ from the archive")
			verifAssert(tr.Index != nil && *tr.Index == t.pos, "C02.grpcGet: position of the transaction answer differs from the archive")
			verifAssert(bytes.Equal(tr.Transaction.Transaction, t.data.want) && bytes.Equal(tr.Transaction.Meta, t.meta.want), "C02.grpcGet: transaction payloads differ from the archive")
		case verifC02GetBlockTime:
			x, ok := r.Response.(*old_faithful_grpc.GetResponse_BlockTime)
			verifAssert(ok && x.BlockTime != nil && x.BlockTime.BlockTime == sc.blocktime, "C02.grpcGet: block-time request not answered with the recorded block time")
		case verifC02GetBlockNoEpoch, verifC02GetTxUnknown:
			x, ok := r.Response.(*old_faithful_grpc.GetResponse_Error)
			verifAssert(ok && x.Error != nil && x.Error.Code == old_faithful_grpc.GetResponseErrorCode_NOT_FOUND, "C02.grpcGet: unanswerable request not answered with a NOT_FOUND error message")
		default:
			_, ok := r.Response.(*old_faithful_grpc.GetResponse_Version)
			verifAssert(ok, "C02.grpcGet: version request not answered with a version")
		}
	}
	verifReach("end")
}
