//go:build verif

package main

import (
	"context"
	"errors"
	"fmt"
	"io"

	"github.com/gagliardetto/solana-go"
	"github.com/ipfs/go-cid"
	"github.com/rpcpool/yellowstone-faithful/compactindexsized"
)

// C13.sigepoch — the multi-epoch signature search (findEpochNumberFromSignature, behind
// getTransaction): when the signature IS archived in an epoch (its sig-exists index says so) but
// that epoch's sig-to-cid index is truncated, the lookup fails with a read error (what a cut
// compact index does for a stored key: C13.cidx). The search must then surface an error that is
// not ErrNotFound (handleGetTransaction turns ErrNotFound into the JSON-RPC answer
// "Transaction not found"), unless another epoch answers the signature.
//
// Cuts: SigExistsIndex = table; Epoch.FindCidFromSignature (renamed away) = table of outcomes.

type verifC13SigIdx struct {
	has bool
	err error
}

func (s verifC13SigIdx) Has(sig [64]byte) (bool, error) { return s.has, s.err }

const (
	verifC13FindOK = iota
	verifC13FindNotFound
	verifC13FindReadErr
)

var verifC13Find = map[uint64]int{}

var verifC13ReadErr = fmt.Errorf("failed to read entry: %w", io.ErrUnexpectedEOF)

// model of (*Epoch).FindCidFromSignature (the real one is renamed verifOrig_FindCidFromSignature)
func (ser *Epoch) FindCidFromSignature(ctx context.Context, sig solana.Signature) (cid.Cid, error) {
	switch verifC13Find[ser.epoch] {
	case verifC13FindOK:
		return cid.Cid{}, nil
	case verifC13FindNotFound:
		return cid.Undef, compactindexsized.ErrNotFound
	default:
		return cid.Undef, verifC13ReadErr
	}
}

func VerifC13SigEpoch() {
	n := verifParam("epochs", 2)
	multi := NewMultiEpoch(&Options{EpochSearchConcurrency: verifParam("concurrency", 1)})
	anyOK, anyCut, anyHasErr := false, false, false
	hasErr := errors.New("sig-exists read error")
	for e := uint64(0); e < uint64(n); e++ {
		// per epoch: 0 absent (sig-exists says no), 1 archived and found, 2 sig-exists says yes
		// but sig-to-cid says not found (hash coincidence), 3 archived but the sig-to-cid index
		// is cut (read error), 4 the sig-exists index itself fails
		kind := verifChoice("epochkind", 5)
		ep := &Epoch{epoch: 100 + e}
		switch kind {
		case 0:
			ep.sigExists = verifC13SigIdx{has: false}
		case 1:
			ep.sigExists = verifC13SigIdx{has: true}
			verifC13Find[ep.epoch] = verifC13FindOK
			anyOK = true
		case 2:
			ep.sigExists = verifC13SigIdx{has: true}
			verifC13Find[ep.epoch] = verifC13FindNotFound
		case 3:
			ep.sigExists = verifC13SigIdx{has: true}
			verifC13Find[ep.epoch] = verifC13FindReadErr
			anyCut = true
		case 4:
			ep.sigExists = verifC13SigIdx{err: hasErr}
			anyHasErr = true
		}
		verifAssert(multi.AddEpoch(ep.epoch, ep) == nil, "C13.sigepoch: AddEpoch failed")
	}
	var sig solana.Signature
	sig[0] = 9
	// known finding: a failed sig-to-cid lookup is reported as "not found" (unless another
	// epoch's sig-exists index fails too, which makes the whole search fail loudly)
	verifKnownFinding("C13-sigepoch-readerror-notfound", anyCut && !anyOK && !anyHasErr)
	got, err := multi.findEpochNumberFromSignature(context.Background(), sig)
	if err == nil {
		verifAssert(anyOK && verifC13Find[got] == verifC13FindOK, "C13.sigepoch: search names an epoch that does not answer the signature")
		verifReach("found")
	} else if anyOK {
		verifFail("C13.sigepoch: an epoch answers the signature but the search fails")
	} else if anyCut || anyHasErr {
		verifAssert(!errors.Is(err, ErrNotFound), "C13.sigepoch: signature archived in an epoch with a truncated index is reported as 'not found'")
		verifReach("loud-error")
	} else {
		verifAssert(errors.Is(err, ErrNotFound), "C13.sigepoch: signature absent everywhere is not reported as 'not found'")
		verifReach("not-found")
	}
	verifReach("end")
}
