//go:build verif

package main

// C02.firstSig — the first-signature readers that look at the FIRST data frame of a transaction node
// only: ipldbindcode.Transaction.Signature() (used by (*Epoch).GetTransaction, the gsfa readers and
// getSignaturesForAddress to check / report a node's signature) and package main's own
// readFirstSignature (used by the sig-to-cid and sig-exists index builders). For every transaction
// with 1..3 signatures and every length of the first frame from "count byte + first signature" up to
// the whole payload - in particular first frames that end inside the signature array - both return
// the transaction's first signature; a first frame shorter than that is refused with an error
// (no panic, no wrong signature). Transaction.Signatures() (all signatures) answers with every
// signature when the first frame holds them all and with an error otherwise.

import (
	"github.com/gagliardetto/solana-go"
	"github.com/rpcpool/yellowstone-faithful/ipld/ipldbindcode"
)

func VerifC02FirstSig() {
	nsig := 1 + verifChoice("signatures", verifParam("maxSigs", 3))
	nmsg := verifParam("messageLen", 4)
	sigs := make([]solana.Signature, nsig)
	wire := []byte{byte(nsig)}
	for i := range sigs {
		for j := range sigs[i] {
			sigs[i][j] = byte(0x20*i + j)
		}
		sigs[i][0], sigs[i][33], sigs[i][63] = verifU8("sig"), verifU8("sig"), verifU8("sig")
		wire = append(wire, sigs[i][:]...)
	}
	wire = append(wire, verifBytes("message", nmsg)...)

	// length of the first frame: every boundary of interest
	var lens []int
	for _, l := range []int{0, 1, 2, 64, 65, 66, 65 + 31, 128, 129, 130, 129 + 40, 192, 193, 194, len(wire) - 1, len(wire)} {
		if l >= 0 && l <= len(wire) {
			dup := false
			for _, x := range lens {
				dup = dup || x == l
			}
			if !dup {
				lens = append(lens, l)
			}
		}
	}
	l := lens[verifChoice("firstFrameLen", len(lens))]
	first := append([]byte{}, wire[:l]...)
	node := ipldbindcode.Transaction{Kind: 0, Data: ipldbindcode.DataFrame{Kind: 6, Data: first}}

	got, err := node.Signature()
	got2, err2 := readFirstSignature(first)
	if l >= 65 {
		verifAssert(err == nil && got == sigs[0], "C02.firstSig: Transaction.Signature() does not return the first signature although the first frame holds it")
		verifAssert(err2 == nil && got2 == sigs[0], "C02.firstSig: readFirstSignature (index builders) does not return the first signature although the first frame holds it")
	} else {
		verifAssert(err != nil, "C02.firstSig: Transaction.Signature() answers although the first frame does not hold a whole signature")
		verifAssert(err2 != nil, "C02.firstSig: readFirstSignature answers although the first frame does not hold a whole signature")
	}
	all, err3 := node.Signatures()
	if l >= 1+64*nsig {
		ok := err3 == nil && len(all) == nsig
		verifAssert(ok, "C02.firstSig: Transaction.Signatures() fails although the first frame holds every signature")
		if ok {
			for i := range sigs {
				verifAssert(all[i] == sigs[i], "C02.firstSig: Transaction.Signatures() returns a wrong signature")
			}
		}
	} else {
		verifAssert(err3 != nil, "C02.firstSig: Transaction.Signatures() answers although the first frame does not hold every signature")
	}
	verifReach("end")
}
