//go:build verif

package ipldbindcode

import (
	"bytes"
	"errors"
	"hash/crc64"
	"hash/fnv"

	"github.com/gagliardetto/solana-go"
)

// C14.single — Transaction.GetSolanaTransaction, the single-frame reader of a transaction payload
// (used by accum.ObjectsToTransactionsAndMetadata, the index builders and the CLI tools). It has
// its own copy of the "one frame or many" decision and of the checksum verification:
//
//   - a payload that says it has more than one frame (total >= 2) is never decoded from the head
//     frame alone: an error is reported;
//   - total absent or 1: the decoder receives exactly the bytes of the frame; with a recorded
//     checksum h (any 64-bit value) the call succeeds iff h is the CRC64-ISO or the FNV-1a of those
//     bytes (unless the package-level switch DisableHashVerification is set);
//   - a decoded transaction without signatures is an error.
//
// Cut: bin.UnmarshalBin (reflection-driven) records the bytes it is given and yields 0 or 1 signature.

var (
	c14Seen  [][]byte
	c14NSigs int
)

func c14Model_UnmarshalBin(v interface{}, b []byte) error {
	tx, ok := v.(*solana.Transaction)
	if !ok {
		return errors.New("c14: UnmarshalBin model: unexpected target")
	}
	c14Seen = append(c14Seen, append([]byte{}, b...))
	tx.Signatures = make([]solana.Signature, c14NSigs)
	for i := range tx.Signatures {
		tx.Signatures[i][0] = byte(i + 1)
	}
	return nil
}

func c14pp(v int) **int {
	p := &v
	return &p
}

func VerifC14Single() {
	c14Seen = nil
	c14NSigs = verifChoice("signatures", 2)
	DisableHashVerification = verifChoice("disableHashVerification", 2) == 1
	defer func() { DisableHashVerification = false }()
	nl := 1 + verifParam("maxLen", 3)
	var data []byte
	if l := verifChoice("len", nl+2); l < nl {
		data = verifBytes("data", l)
	} else {
		// the largest transaction (1232 bytes) and a 64 KiB frame, concrete position-dependent bytes
		data = make([]byte, []int{1232, 65536}[l-nl])
		for j := range data {
			data[j] = byte(3*j + 1 + j/251)
		}
	}
	tx := Transaction{Kind: 0, Slot: 9}
	tx.Data = DataFrame{Kind: 6, Data: Buffer(append([]byte{}, data...))}
	hasHash := verifChoice("checksum", 2) == 1
	h := 0
	if hasHash {
		h = verifInt("hash")
		tx.Data.Hash = c14pp(h)
	}
	if verifChoice("index", 2) == 1 {
		tx.Data.Index = c14pp(0)
	}
	multi := false
	switch verifChoice("total", 3) {
	case 1:
		tx.Data.Total = c14pp(1)
	case 2:
		t := verifInt("total")
		verifAssume(t >= 2)
		tx.Data.Total = c14pp(t)
		multi = true
	}
	got, err := tx.GetSolanaTransaction()

	table := crc64.MakeTable(crc64.ISO)
	f := fnv.New64a()
	f.Write(data)
	isCrc := uint64(h) == crc64.Checksum(data, table)
	isFnv := uint64(h) == f.Sum64()
	switch {
	case multi:
		verifAssert(err != nil, "C14.single: a transaction split over several frames was decoded from its head frame alone")
	case err == nil:
		verifAssert(got != nil && len(got.Signatures) == 1 && c14NSigs == 1, "C14.single: transaction without signatures returned")
		verifAssert(len(c14Seen) == 1 && bytes.Equal(c14Seen[0], data), "C14.single: the decoder was not given exactly the frame's bytes")
		if hasHash && !DisableHashVerification {
			verifAssert(verifIteU64(isCrc, 1, 0)|verifIteU64(isFnv, 1, 0) != 0, "C14.single: payload accepted although the recorded checksum is neither its CRC64 nor its FNV-1a")
		}
	default:
		if c14NSigs == 1 {
			verifAssert(hasHash && !DisableHashVerification, "C14.single: well-formed single-frame transaction rejected")
			verifAssert(!isCrc, "C14.single: single-frame transaction with CRC64 checksum rejected")
			verifAssert(!isFnv, "C14.single: single-frame transaction with legacy FNV-1a checksum rejected")
		}
	}
	verifReach("end")
}
