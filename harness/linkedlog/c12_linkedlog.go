//go:build verif

package linkedlog

import (
	"bytes"
	"os"

	"github.com/rpcpool/yellowstone-faithful/indexes"
)

// C12.linkedlog.frame — LinkedLog.ReadWithSize on a log file of N arbitrary bytes with an
// arbitrary (offset, size) pair, as it comes out of the pubkey index of a third-party file.
// The payload decoder (decompressIndexes: zstd + C12.linkedlog.parse) is cut and records the
// slice it is given. Error or (entries, next pointer); no panic; allocation bounded.

var verifC12PayloadLen int

// model of decompressIndexes (the real one is renamed to verifOrig_decompressIndexes)
func decompressIndexes(data []byte) ([]OffsetAndSizeAndSlot, error) {
	verifC12PayloadLen = len(data)
	if verifChoice("decompress", 2) == 0 {
		return nil, os.ErrInvalid
	}
	return []OffsetAndSizeAndSlot{}, nil
}

func VerifC12LinkedLogFrame() {
	N := verifParam("N", 24)
	const mib256 = 256 * 1024 * 1024
	verifAllocLimit(mib256 + 64) // ReadWithSize caps the record size at 256 MiB itself
	path := verifTempPath("linked.log")
	content := verifBytes("log", N)
	verifMemFile(path, content)
	f, err := os.OpenFile(path, os.O_RDWR, 0o644)
	verifAssert(err == nil, "C12.linkedlog.frame: cannot open the log")
	ll := &LinkedLog{file: f}

	offCands := []uint64{0, 1<<63 - 1, 1 << 63, 1<<64 - 1}
	var offset uint64
	if k := verifChoice("offsetKind", 1+len(offCands)); k == 0 {
		offset = verifU64("offset")
		verifAssume(offset <= uint64(N+1))
		if verifParam("edgeoffsets", 0) == 1 { // quick tier: offsets at both ends of the file only
			verifAssume(offset <= 1 || offset >= uint64(N-1))
		}
	} else {
		offset = offCands[k-1]
	}
	size := verifU64("size")
	// sizes in (N+12, 256 MiB] only allocate, read short and return the read error
	verifAssume(size <= uint64(N+12) || size > mib256)
	prefix := uint64(sizeOfLengthPrefix(size))
	// known defect: a record size smaller than prefix + 9 (next pointer)
	verifKnownFinding("C12-linkedlog-short-size", size < prefix+9)
	verifC12PayloadLen = -1
	got, next, err := ll.ReadWithSize(offset, size)
	if err != nil {
		verifAssert(got == nil && next.IsZero(), "C12.linkedlog.frame: ReadWithSize returned data together with an error")
		verifReach("read-error")
	} else {
		verifAssert(uint64(verifC12PayloadLen) == size-prefix-9, "C12.linkedlog.frame: payload handed to the decoder is not size - prefix - 9 bytes")
		verifAssert(offset+size <= uint64(N), "C12.linkedlog.frame: ReadWithSize succeeded beyond the end of the file")
		verifAssert(next.IsValid(), "C12.linkedlog.frame: next pointer outside the 48/24-bit range")
		verifReach("read-ok")
	}
	verifReach("end")
}

// C12.linkedlog.read — LinkedLog.Read(offset): the record size is the uvarint stored at offset
// in a log of arbitrary bytes. Error or (entries, next pointer); no panic; no endless loop.
// Every byte of the log is symbolic and <= 31 (so every stored length is a single-byte uvarint
// and the buffer Read allocates takes few concrete sizes), or the log is one of two concrete
// malformed prefixes (overflowing / truncated uvarint). Payload decoder cut as in C12.linkedlog.frame.
func VerifC12LinkedLogRead() {
	N := verifParam("N", 14)
	verifAllocLimit(1 << 20)
	var content []byte
	switch verifChoice("shape", 3) {
	case 0:
		content = verifBytes("log", N)
		for _, b := range content {
			verifAssume(b <= 31)
		}
	case 1:
		content = append(bytes.Repeat([]byte{0xff}, 11), verifBytes("log", 3)...)
	case 2:
		content = bytes.Repeat([]byte{0x80}, 10)
	}
	path := verifTempPath("linked.log")
	verifMemFile(path, content)
	f, err := os.OpenFile(path, os.O_RDWR, 0o644)
	verifAssert(err == nil, "C12.linkedlog.read: cannot open the log")
	ll := &LinkedLog{file: f}
	offset := verifU64("offset")
	verifAssume(offset <= uint64(len(content)+1))
	verifC12PayloadLen = -1
	got, next, err := ll.Read(offset)
	if err != nil {
		verifAssert(got == nil && next.IsZero(), "C12.linkedlog.read: Read returned data together with an error")
		verifReach("read-error")
	} else {
		// the record (1-byte prefix + payload) lies inside the file
		verifAssert(verifC12PayloadLen >= 0 && offset+1+uint64(verifC12PayloadLen)+9 <= uint64(len(content)), "C12.linkedlog.read: Read succeeded on a record that does not lie inside the file")
		verifAssert(next.IsValid(), "C12.linkedlog.read: next pointer outside the 48/24-bit range")
		// exact framing: the stored (single-byte) length covers the payload and the 9-byte pointer
		verifAssert(uint64(verifC12PayloadLen)+9 == uint64(content[offset]), "C12.linkedlog.read: payload handed to the decoder is not the stored length - 9 bytes")
		verifReach("read-ok")
	}
	verifReach("end")
}

var _ = indexes.OffsetAndSize{}
