//go:build verif

package linkedlog

import (
	"os"

	"github.com/rpcpool/yellowstone-faithful/indexes"
)

// C12.linkedlog.frame — LinkedLog.ReadWithSize on a log file of N arbitrary bytes with an
// arbitrary (offset, size) pair, as it comes out of the pubkey index of a third-party file.
// The payload decoder (decompressIndexes: zstd + C12.linkedlog.parse) is cut and records the
// slice it is given. Error or (entries, next pointer); no panic; allocation bounded.

var verifC12PayloadLen int

// model of decompressIndexes (the real one is renamed to verifOrig_decompressIndexes)
func decompressIndexes(data []byte) ([]OffsetAndSizeAndSlot, error) {
	verifC12PayloadLen = len(data)
	if verifChoice("decompress", 2) == 0 {
		return nil, os.ErrInvalid
	}
	return []OffsetAndSizeAndSlot{}, nil
}

func VerifC12LinkedLogFrame() {
	N := verifParam("N", 24)
	const mib256 = 256 * 1024 * 1024
	verifAllocLimit(mib256 + 64) // ReadWithSize caps the record size at 256 MiB itself
	path := verifTempPath("linked.log")
	content := verifBytes("log", N)
	verifMemFile(path, content)
	f, err := os.OpenFile(path, os.O_RDWR, 0o644)
	verifAssert(err == nil, "C12.linkedlog.frame: cannot open the log")
	ll := &LinkedLog{file: f}

	offCands := []uint64{0, 1<<63 - 1, 1 << 63, 1<<64 - 1}
	var offset uint64
	if k := verifChoice("offsetKind", 1+len(offCands)); k == 0 {
		offset = verifU64("offset")
		verifAssume(offset <= uint64(N+1))
	} else {
		offset = offCands[k-1]
	}
	size := verifU64("size")
	// sizes in (N+12, 256 MiB] only allocate, read short and return the read error
	verifAssume(size <= uint64(N+12) || size > mib256)
	prefix := uint64(sizeOfLengthPrefix(size))
	// known defect: a record size smaller than prefix + 9 (next pointer)
	verifKnownFinding("C12-linkedlog-short-size", size < prefix+9)
	verifC12PayloadLen = -1
	got, next, err := ll.ReadWithSize(offset, size)
	if err != nil {
		verifAssert(got == nil && next.IsZero(), "C12.linkedlog.frame: ReadWithSize returned data together with an error")
		verifReach("read-error")
	} else {
		verifAssert(uint64(verifC12PayloadLen) == size-prefix-9, "C12.linkedlog.frame: payload handed to the decoder is not size - prefix - 9 bytes")
		verifAssert(offset+size <= uint64(N), "C12.linkedlog.frame: ReadWithSize succeeded beyond the end of the file")
		verifAssert(next.IsValid(), "C12.linkedlog.frame: next pointer outside the 48/24-bit range")
		verifReach("read-ok")
	}
	verifReach("end")
}

// C12.linkedlog.parse — the decoders of the (decompressed) payload and of single entries over
// arbitrary bytes: OffsetAndSizeAndSlotSliceFromBytes, OffsetAndSizeAndSlot.FromBytes /
// FromReader, uvarintReader.
func VerifC12LinkedLogParse() {
	P := verifParam("P", 7)
	n := verifChoice("len", P+1)
	buf := verifBytes("payload", n)
	if verifChoice("api", 2) == 0 {
		out, err := OffsetAndSizeAndSlotSliceFromBytes(buf)
		if err != nil {
			verifAssert(out == nil, "C12.linkedlog.parse: SliceFromBytes returned entries together with an error")
			verifReach("parse-error")
		} else {
			// every entry takes at least 4 bytes
			verifAssert(len(out)*4 <= n, "C12.linkedlog.parse: more entries than the payload can hold")
			// re-encoding the entries gives back the payload when every uvarint is minimal;
			// in any case it is never longer than the payload
			total := 0
			for _, e := range out {
				total += len(e.Bytes())
			}
			verifAssert(total <= n, "C12.linkedlog.parse: decoded entries re-encode to more bytes than the payload")
			verifReach("parse-ok")
		}
	} else {
		var e OffsetAndSizeAndSlot
		long := verifChoice("long", 2) == 1
		if long {
			// 40 bytes: longer than any encoding (3 uvarints of at most 10 bytes + flags)
			buf = append(buf, make([]byte, 40-n)...)
		}
		err := e.FromBytes(buf)
		if long {
			verifAssert(err != nil, "C12.linkedlog.parse: FromBytes accepted an over-long buffer")
		}
		if err == nil {
			verifAssert(len(e.Bytes()) <= len(buf), "C12.linkedlog.parse: FromBytes read more than the buffer holds")
			verifReach("parse-ok")
		} else {
			verifReach("parse-error")
		}
	}
	verifReach("end")
}

// C12.linkedlog.varint — the same decoders on payloads that contain a LONG uvarint: a run of
// 8..11 continuation bytes (high bit set, low bits symbolic) followed by 0..T arbitrary bytes,
// after a prefix of 0, 1, 4 or 12 single-byte varints (symbolic values < 0x80; 12 = three
// complete entries). Such runs cover the maximal valid encodings (10 bytes, last byte <= 1), the
// 64-bit overflow cases of binary.Uvarint (10th byte > 1, 11 continuation bytes: n < 0) and the
// truncated case (n == 0). Oracle: no panic; the element decoder driven one element at a time
// keeps its cursor inside the buffer and advances by at least 4 bytes per decoded element (so
// every decoding loop is bounded by the input length); the slice decoder returns at most
// len/4 entries.
func VerifC12LinkedLogVarint() {
	pres := []int{0, 1, 4, 12}
	p := pres[verifParam("prefixfrom", 0)+verifChoice("prefix", len(pres)-verifParam("prefixfrom", 0))]
	R := 8 + verifChoice("run", 4)
	T := verifChoice("tail", verifParam("tail", 2)+1)
	buf := verifBytes("payload", p+R+T)
	for i := 0; i < p; i++ {
		verifAssume(buf[i] < 0x80)
	}
	for i := p; i < p+R; i++ {
		verifAssume(buf[i] >= 0x80)
	}
	n := len(buf)
	if verifChoice("api", 2) == 0 {
		// the element decoder, one element at a time (what SliceFromBytes iterates), under a
		// step bound; only an input on which it behaves is handed to the real loop below (a
		// decoder that does not advance would otherwise never return)
		r := &uvarintReader{buf: buf}
		for steps := 0; ; steps++ {
			verifAssert(steps <= n/4, "C12.linkedlog.varint: more elements decoded than the payload can hold (the decoding loop is not bounded by the input)")
			before := r.pos
			var e OffsetAndSizeAndSlot
			err := e.FromReader(r)
			verifAssert(r.pos >= 0 && r.pos <= n, "C12.linkedlog.varint: the read cursor left the buffer")
			if err != nil {
				break
			}
			verifAssert(r.pos >= before+4, "C12.linkedlog.varint: an element was decoded without consuming at least 4 bytes")
		}
		out, err := OffsetAndSizeAndSlotSliceFromBytes(buf)
		if err != nil {
			verifAssert(out == nil, "C12.linkedlog.varint: SliceFromBytes returned entries together with an error")
			verifReach("parse-error")
		} else {
			verifAssert(len(out)*4 <= n, "C12.linkedlog.varint: more entries than the payload can hold")
			verifReach("parse-ok")
		}
	} else {
		var e OffsetAndSizeAndSlot
		if err := e.FromBytes(buf); err == nil {
			verifAssert(len(e.Bytes()) <= n, "C12.linkedlog.varint: FromBytes read more than the buffer holds")
			verifReach("parse-ok")
		} else {
			verifReach("parse-error")
		}
	}
	verifReach("end")
}

var _ = indexes.OffsetAndSize{}
