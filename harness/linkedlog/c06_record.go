//go:build verif

package linkedlog

import (
	"github.com/gagliardetto/solana-go"
	"github.com/rpcpool/yellowstone-faithful/indexes"
)

// C06.record — the real LinkedLog.Put followed by the real ReadWithSize on the same file
// returns the written entries (newest first) and the previous-record pointer, for record
// sizes on both sides of the uvarint-width boundaries.
// K-1 entries are concrete 4-byte records, the last entry is symbolic (fields < 2^14, so its
// encoding is 4..7 bytes and the total record size sweeps across the boundary).
func VerifC06Record() {
	ks := []int{1, 2, 3, 26, 27, 28, 29}
	if verifParam("big", 0) == 1 {
		ks = []int{4090, 4091, 4092, 4093, 4094}
	}
	K := ks[verifChoice("entries", len(ks))]
	path := verifTempPath("linked.log")
	ll, err := NewLinkedLog(path)
	verifAssert(err == nil, "C06.record: NewLinkedLog failed")
	vals := make([]*OffsetAndSizeAndSlot, K)
	for i := 0; i < K-1; i++ {
		vals[i] = &OffsetAndSizeAndSlot{Offset: uint64(i % 100), Size: uint64(i % 50), Slot: uint64(i % 120), Flags: Bitmap(i % 8)}
	}
	so, ss, sl, sf := verifU64("offset"), verifU64("size"), verifU64("slot"), verifU8("flags")
	verifAssume(so < 1<<14 && ss < 1<<14 && sl < 1<<14)
	vals[K-1] = &OffsetAndSizeAndSlot{Offset: so, Size: ss, Slot: sl, Flags: Bitmap(sf)}
	want := make([]OffsetAndSizeAndSlot, K)
	for i := range vals {
		want[K-1-i] = *vals[i] // newest first
	}
	prev := indexes.OffsetAndSize{Offset: verifU64("prevOffset"), Size: verifU64("prevSize")}
	verifAssume(prev.Offset < 1<<48 && prev.Size < 1<<24)
	var pk solana.PublicKey
	pk[0] = 7
	var recOff uint64
	var recLen uint32
	_, err = ll.Put(
		func(solana.PublicKey) (indexes.OffsetAndSize, error) { return prev, nil },
		func(_ solana.PublicKey, off uint64, ln uint32) error { recOff, recLen = off, ln; return nil },
		KeyToOffsetAndSizeAndBlocktime{Key: pk, Values: vals},
	)
	verifAssert(err == nil, "C06.record: Put failed")
	verifAssert(ll.Flush() == nil, "C06.record: Flush failed")
	got, next, err := ll.ReadWithSize(recOff, uint64(recLen))
	verifAssert(err == nil, "C06.record: ReadWithSize failed on a record that Put wrote")
	verifAssert(len(got) == K, "C06.record: wrong number of entries read back")
	for i := range got {
		verifAssert(got[i] == want[i], "C06.record: entry read back differs from the entry written (or order is not newest first)")
	}
	verifAssert(next.Offset == prev.Offset && next.Size == prev.Size, "C06.record: previous-record pointer not preserved")
	verifReach("end")
}
