//go:build verif

package linkedlog

import (
	"encoding/binary"

	"github.com/rpcpool/yellowstone-faithful/indexes"
)

// C06.frame — writer/reader agreement on the length prefix of a linked-log record.
// Writer side (LinkedLog.Put): payloadLen = len(compressed)+9, prefix = uvarint(payloadLen),
// callbackAfter records total = len(prefix)+payloadLen. Reader side (ReadWithSize(offset,total)):
// skips sizeOfLengthPrefix(total) bytes and reads the remaining bytes.
// The writer's prefix is the format's uvarint (encoding/binary); the real Put (whatever helper it
// uses to produce the prefix) is driven end to end by C06.record and C12.linkedlog.varint, so this
// lemma does not name the writer's private helper and survives its replacement.
func VerifC06Frame() {
	L := verifU64("compressedLen")
	verifAssume(L < 1<<28) // stated bound
	payloadLen := L + indexes.IndexValueSize_CidToOffsetAndSize
	prefix := binary.AppendUvarint(nil, payloadLen) // the format: uvarint length prefix
	total := uint64(len(prefix)) + payloadLen
	readerSkip := uint64(sizeOfLengthPrefix(total)) // real code, as ReadWithSize uses it
	readerLen := total - readerSkip
	verifAssert(readerSkip == uint64(len(prefix)) && readerLen == payloadLen, "C06.frame: reader skips the writer's prefix and reads the writer's payload")
	verifReach("end")
}
