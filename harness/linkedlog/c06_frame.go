//go:build verif

package linkedlog

import "github.com/rpcpool/yellowstone-faithful/indexes"

// C06.frame — writer/reader agreement on the length prefix of a linked-log record.
// Writer side (LinkedLog.Put): payloadLen = len(compressed)+9, prefix = uvarint(payloadLen),
// callbackAfter records total = len(prefix)+payloadLen. Reader side (ReadWithSize(offset,total)):
// skips sizeOfUvarint(total) bytes and reads total-sizeOfUvarint(total) bytes.
func VerifC06Frame() {
	L := verifU64("compressedLen")
	verifAssume(L < 1<<28) // stated bound
	payloadLen := L + indexes.IndexValueSize_CidToOffsetAndSize
	prefix := encodeUvarint(payloadLen) // real code
	total := uint64(len(prefix)) + payloadLen
	verifKnownFinding("C06-S5-readwithsize-prefix-width", total == 128 || total == 16384 || total == 16385 || total == 2097152 || total == 2097153 || total == 2097154 || total == 268435456 || total == 268435457 || total == 268435458 || total == 268435459)
	readerSkip := uint64(sizeOfUvarint(total)) // real code, as ReadWithSize uses it
	readerLen := total - readerSkip
	verifAssert(readerSkip == uint64(len(prefix)) && readerLen == payloadLen, "C06.frame: reader skips the writer's prefix and reads the writer's payload")
	verifReach("end")
}
