//go:build verif

package linkedlog

import (
	"github.com/gagliardetto/solana-go"
	"github.com/rpcpool/yellowstone-faithful/indexes"
)

// C13.gsfa.ll — gsfa linked log: a log of two records for one address (the newer points to the
// older) written by the real Put, then cut at EVERY byte offset T (memfs file holding the first T
// bytes, opened with the real NewLinkedLog): ReadWithSize of either record returns the
// entries and previous pointer of the complete log, or an error. Entry fields are arbitrary
// (one-byte uvarints, so record sizes are fixed).

type verifC13Rec struct {
	off  uint64
	size uint64
	want []OffsetAndSizeAndSlot // newest first
	prev indexes.OffsetAndSize
}

func verifC13WriteLog(path string, counts []int) []verifC13Rec {
	ll, err := NewLinkedLog(path)
	verifAssert(err == nil, "C13.gsfa.ll: NewLinkedLog failed")
	var pk solana.PublicKey
	pk[0] = 7
	var recs []verifC13Rec
	prev := indexes.OffsetAndSize{}
	for _, k := range counts {
		vals := make([]*OffsetAndSizeAndSlot, k)
		want := make([]OffsetAndSizeAndSlot, k)
		for i := range vals {
			o, s, sl := uint64(verifU8("offset")), uint64(verifU8("size")), uint64(verifU8("slot"))
			verifAssume(o < 128 && s < 128 && sl < 128)
			vals[i] = &OffsetAndSizeAndSlot{Offset: o, Size: s, Slot: sl, Flags: Bitmap(verifU8("flags"))}
			want[k-1-i] = *vals[i]
		}
		var recOff uint64
		var recLen uint32
		p := prev
		_, err = ll.Put(
			func(solana.PublicKey) (indexes.OffsetAndSize, error) { return p, nil },
			func(_ solana.PublicKey, off uint64, ln uint32) error { recOff, recLen = off, ln; return nil },
			KeyToOffsetAndSizeAndBlocktime{Key: pk, Values: vals},
		)
		verifAssert(err == nil, "C13.gsfa.ll: Put failed")
		recs = append(recs, verifC13Rec{off: recOff, size: uint64(recLen), want: want, prev: p})
		prev = indexes.OffsetAndSize{Offset: recOff, Size: uint64(recLen)}
	}
	verifAssert(ll.Close() == nil, "C13.gsfa.ll: Close failed")
	return recs
}

func verifC13CheckRec(got []OffsetAndSizeAndSlot, next indexes.OffsetAndSize, r verifC13Rec, label string) {
	verifAssert(len(got) == len(r.want), label+": different number of entries")
	for i := range got {
		if i < len(r.want) {
			verifAssert(got[i] == r.want[i], label+": different entry")
		}
	}
	verifAssert(next == r.prev, label+": different previous-record pointer")
}

func VerifC13LinkedLog() {
	shapes := [][]int{{2, 1}, {1, 3}, {1, 1, 1}, {30, 1}} // {30,1}: first record 131 bytes (2-byte length prefix)
	counts := shapes[verifChoice("shape", verifParam("shapes", 2))]
	path := verifTempPath("linked-log")
	recs := verifC13WriteLog(path, counts)
	raw := verifMemFileBytes(path)
	N := len(raw)
	last := recs[len(recs)-1]
	verifAssert(uint64(N) == last.off+last.size, "C13.gsfa.ll: log length is not the end of the last record")

	r := recs[verifChoice("record", len(recs))]
	// ReadWithSize is the path of the server (GsfaReader.Get). LinkedLog.Read (which probes the
	// size from the log) has no caller and is wrong on complete logs already (known finding
	// C06-read-passes-payload-length), so it is not exercised here.

	full, err := NewLinkedLog(path)
	verifAssert(err == nil, "C13.gsfa.ll: complete log does not open")
	read := func(ll *LinkedLog) ([]OffsetAndSizeAndSlot, indexes.OffsetAndSize, error) {
		return ll.ReadWithSize(r.off, r.size)
	}
	got, next, err := read(full)
	verifAssert(err == nil, "C13.gsfa.ll: complete log does not answer")
	verifC13CheckRec(got, next, r, "C13.gsfa.ll: complete log")

	T := verifChoice("T", N) // the first T bytes are present, 0 <= T < N
	cutPath := verifTempPath("linked-log.cut")
	verifMemFile(cutPath, raw[:T])
	cut, err := NewLinkedLog(cutPath)
	if err != nil {
		verifReach("open-error")
		verifReach("end")
		return
	}
	got, next, err = read(cut)
	if err != nil {
		verifAssert(got == nil, "C13.gsfa.ll: entries returned together with an error")
		verifReach("read-error")
	} else {
		verifC13CheckRec(got, next, r, "C13.gsfa.ll: truncated log answers differently:")
		verifReach("read-same")
	}
	verifReach("end")
}
