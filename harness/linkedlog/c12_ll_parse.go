//go:build verif

package linkedlog

// C12.linkedlog.parse — the decoders of the (decompressed) payload and of single entries over
// arbitrary bytes: OffsetAndSizeAndSlotSliceFromBytes, OffsetAndSizeAndSlot.FromBytes /
// FromReader, uvarintReader.
func VerifC12LinkedLogParse() {
	P := verifParam("P", 7)
	n := verifChoice("len", P+1)
	buf := verifBytes("payload", n)
	if verifChoice("api", 2) == 0 {
		out, err := OffsetAndSizeAndSlotSliceFromBytes(buf)
		if err != nil {
			verifAssert(out == nil, "C12.linkedlog.parse: SliceFromBytes returned entries together with an error")
			verifReach("parse-error")
		} else {
			// every entry takes at least 4 bytes
			verifAssert(len(out)*4 <= n, "C12.linkedlog.parse: more entries than the payload can hold")
			// re-encoding the entries gives back the payload when every uvarint is minimal;
			// in any case it is never longer than the payload
			total := 0
			for _, e := range out {
				total += len(e.Bytes())
			}
			verifAssert(total <= n, "C12.linkedlog.parse: decoded entries re-encode to more bytes than the payload")
			verifReach("parse-ok")
		}
	} else {
		var e OffsetAndSizeAndSlot
		long := verifChoice("long", 2) == 1
		if long {
			// 40 bytes: longer than any encoding (3 uvarints of at most 10 bytes + flags)
			buf = append(buf, make([]byte, 40-n)...)
		}
		err := e.FromBytes(buf)
		if long {
			verifAssert(err != nil, "C12.linkedlog.parse: FromBytes accepted an over-long buffer")
		}
		if err == nil {
			verifAssert(len(e.Bytes()) <= len(buf), "C12.linkedlog.parse: FromBytes read more than the buffer holds")
			verifReach("parse-ok")
		} else {
			verifReach("parse-error")
		}
	}
	verifReach("end")
}
