//go:build verif

package linkedlog

import (
	"github.com/gagliardetto/solana-go"
	"github.com/rpcpool/yellowstone-faithful/indexes"
)

// C06.readoff — LinkedLog.Read(offset), which takes the record length from the length prefix
// stored in the file, returns the same entries and previous pointer as ReadWithSize(offset, size)
// with the size reported by Put. (Read has no caller in the repository; the index reader uses
// ReadWithSize with the size kept in the pubkey index / in the previous-record pointer.)
func VerifC06ReadOff() {
	K := 1 + verifChoice("entries", verifParam("maxentries", 3))
	path := verifTempPath("linked.log")
	ll, err := NewLinkedLog(path)
	verifAssert(err == nil, "C06.readoff: NewLinkedLog failed")
	vals := make([]*OffsetAndSizeAndSlot, K)
	for i := range vals {
		o, s, l, f := verifU64("offset"), verifU64("size"), verifU64("slot"), verifU8("flags")
		verifAssume(o < 1<<7)
		verifAssume(s < 1<<7)
		verifAssume(l < 1<<7)
		vals[i] = &OffsetAndSizeAndSlot{Offset: o, Size: s, Slot: l, Flags: Bitmap(f)}
	}
	prev := indexes.OffsetAndSize{Offset: verifU64("prevOffset"), Size: verifU64("prevSize")}
	verifAssume(prev.Offset < 1<<48)
	verifAssume(prev.Size < 1<<24)
	var pk solana.PublicKey
	pk[0] = 7
	var recOff uint64
	var recLen uint32
	_, err = ll.Put(
		func(solana.PublicKey) (indexes.OffsetAndSize, error) { return prev, nil },
		func(_ solana.PublicKey, off uint64, ln uint32) error { recOff, recLen = off, ln; return nil },
		KeyToOffsetAndSizeAndBlocktime{Key: pk, Values: vals},
	)
	verifAssert(err == nil, "C06.readoff: Put failed")
	verifAssert(ll.Flush() == nil, "C06.readoff: Flush failed")
	want, wantNext, err := ll.ReadWithSize(recOff, uint64(recLen))
	verifAssert(err == nil && len(want) == K, "C06.readoff: ReadWithSize failed on a record that Put wrote")
	verifReach("record written and read back with ReadWithSize")
	// Known finding: Read hands the payload length (the value of the prefix) to ReadWithSize,
	// which expects the total record size (prefix included) - every record is affected.
	verifKnownFinding("C06-read-passes-payload-length", true)
	got, next, err := ll.Read(recOff)
	verifAssert(err == nil, "C06.readoff: Read fails on a record that Put wrote")
	verifAssert(len(got) == K, "C06.readoff: Read returns a different number of entries than ReadWithSize")
	for i := range got {
		verifAssert(got[i] == want[i], "C06.readoff: Read returns different entries than ReadWithSize")
	}
	verifAssert(next == wantNext, "C06.readoff: Read returns a different previous-record pointer than ReadWithSize")
	verifReach("end")
}
