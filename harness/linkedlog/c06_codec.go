//go:build verif

package linkedlog

// C06.codec — the per-transaction record codec of the address index.
//
// part 0 (records): OffsetAndSizeAndSlot.Bytes followed by FromBytes (one record) and by
//   OffsetAndSizeAndSlotSliceFromBytes/FromReader (the concatenation of 1..2 records, which is
//   what LinkedLog.Put writes and ReadWithSize parses) gives back offset, size, slot and flags.
// part 1 (flags): the flag setters/getters used by GsfaWriter.Push touch exactly their bit.
// part 2 (bitmap): Bitmap.Set/Get for every index 0..7, every start byte, both values.
// part 3 (edge): one record whose three fields are all >= 2^63 (the 31-byte encoding).
// part 4 (thorough): one record, every field over the full 64-bit range.
func VerifC06Codec() {
	switch verifChoice("part", 4+verifParam("full", 0)) {
	case 0:
		verifC06CodecRecords(verifParam("recs", 2), uint(verifParam("bits", 21)), 0)
	case 1:
		verifC06CodecFlags()
	case 2:
		verifC06CodecBitmap()
	case 3: // the longest encoding: every field >= 2^63 (10 uvarint bytes each, 31 bytes in all)
		verifC06CodecRecords(1, 64, 63)
	case 4: // thorough: one record over the full 64-bit range of every field (10^3 width combinations)
		verifC06CodecRecords(1, 64, 0)
	}
	verifReach("end")
}

func verifC06CodecRecords(maxRecs int, bits uint, minBits uint) {
	n := 1 + verifChoice("records", maxRecs)
	recs := make([]OffsetAndSizeAndSlot, n)
	var all []byte
	for i := 0; i < n; i++ {
		o, s, l, f := verifU64("offset"), verifU64("size"), verifU64("slot"), verifU8("flags")
		if bits < 64 {
			verifAssume(o < 1<<bits) // one assume per field: `&&` on symbolic operands would fork
			verifAssume(s < 1<<bits)
			verifAssume(l < 1<<bits)
		}
		if minBits > 0 {
			verifAssume(o >= 1<<minBits)
			verifAssume(s >= 1<<minBits)
			verifAssume(l >= 1<<minBits)
		}
		r := OffsetAndSizeAndSlot{Offset: o, Size: s, Slot: l, Flags: Bitmap(f)}
		recs[i] = r
		b := r.Bytes()
		// Bytes() of a record whose three fields all need 10 uvarint bytes is 31 bytes long and
		// FromBytes rejects everything longer than 30 (the index read path uses FromReader, which
		// has no such limit).
		verifKnownFinding("C06-codec-frombytes-len31", o >= 1<<63 && s >= 1<<63 && l >= 1<<63)
		var back OffsetAndSizeAndSlot
		err := back.FromBytes(b)
		verifAssert(err == nil, "C06.codec: FromBytes rejects the output of Bytes")
		verifAssert(back == r, "C06.codec: FromBytes(Bytes(r)) != r")
		all = append(all, b...)
	}
	got, err := OffsetAndSizeAndSlotSliceFromBytes(all)
	verifAssert(err == nil, "C06.codec: SliceFromBytes rejects a concatenation of encoded records")
	verifAssert(len(got) == n, "C06.codec: SliceFromBytes returns a different number of records")
	for i := 0; i < n; i++ {
		verifAssert(got[i] == recs[i], "C06.codec: record decoded from the concatenation differs (field, flags or order)")
	}
}

func verifC06CodecFlags() {
	f0 := verifU8("flags0")
	r := OffsetAndSizeAndSlot{Flags: Bitmap(f0)}
	hasMeta, isSuccess, isVote := verifBool("hasMeta"), verifBool("isSuccess"), verifBool("isVote")
	r.SetHasMeta(hasMeta)
	r.SetIsSuccess(isSuccess)
	r.SetIsVote(isVote)
	verifAssert(r.HasMeta() == hasMeta, "C06.codec: HasMeta differs from what SetHasMeta stored")
	verifAssert(r.IsSuccess() == isSuccess, "C06.codec: IsSuccess differs from what SetIsSuccess stored")
	verifAssert(r.IsVote() == isVote, "C06.codec: IsVote differs from what SetIsVote stored")
	verifAssert(uint8(r.Flags)&^7 == f0&^7, "C06.codec: a flag setter changed a bit other than 0..2")
	// the three flags are independent: setting them in the opposite order gives the same byte
	q := OffsetAndSizeAndSlot{Flags: Bitmap(f0)}
	q.SetIsVote(isVote)
	q.SetIsSuccess(isSuccess)
	q.SetHasMeta(hasMeta)
	verifAssert(q.Flags == r.Flags, "C06.codec: flag setters are order dependent")
	// and the record codec keeps them
	var back OffsetAndSizeAndSlot
	verifAssert(back.FromBytes(r.Bytes()) == nil, "C06.codec: FromBytes failed on a flags-only record")
	verifAssert(back.HasMeta() == hasMeta && back.IsSuccess() == isSuccess && back.IsVote() == isVote, "C06.codec: flags lost by the codec")
}

func verifC06CodecBitmap() {
	b0 := verifU8("bitmap0")
	idx := verifInt("index")
	val := verifBool("value")
	verifAssume(idx >= 0 && idx < 8)
	bm := Bitmap(b0)
	bm.Set(idx, val)
	verifAssert(bm.Get(idx) == val, "C06.codec: Bitmap.Get differs from the value Set stored")
	mask := uint8(1) << uint(idx)
	verifAssert(uint8(bm)&^mask == b0&^mask, "C06.codec: Bitmap.Set changed another bit")
	verifAssert(Bitmap(b0).Get(idx) == (b0&mask != 0), "C06.codec: Bitmap.Get reads the wrong bit")
	verifAssert(Bitmap(b0).IsEmpty() == (b0 == 0), "C06.codec: IsEmpty wrong")
	v := [3]bool{verifBool("v0"), verifBool("v1"), verifBool("v2")}
	nb := NewBitmapFromValues(v[0], v[1], v[2])
	verifAssert(nb.Get(0) == v[0] && nb.Get(1) == v[1] && nb.Get(2) == v[2] && uint8(nb)&^7 == 0, "C06.codec: NewBitmapFromValues wrong")
}
