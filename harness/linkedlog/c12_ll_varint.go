//go:build verif

package linkedlog

// C12.linkedlog.varint — the same decoders on payloads that contain a LONG uvarint: a run of
// 8..11 continuation bytes (high bit set, low bits symbolic) followed by 0..T arbitrary bytes,
// after a prefix of 0, 1, 4 or 12 single-byte varints (symbolic values < 0x80; 12 = three
// complete entries). Such runs cover the maximal valid encodings (10 bytes, last byte <= 1), the
// 64-bit overflow cases of binary.Uvarint (10th byte > 1, 11 continuation bytes: n < 0) and the
// truncated case (n == 0). Oracle: no panic; the element decoder driven one element at a time
// keeps its cursor inside the buffer and advances by at least 4 bytes per decoded element (so
// every decoding loop is bounded by the input length); the slice decoder returns at most
// len/4 entries.
func VerifC12LinkedLogVarint() {
	pres := []int{0, 1, 4, 12}
	p := pres[verifParam("prefixfrom", 0)+verifChoice("prefix", len(pres)-verifParam("prefixfrom", 0))]
	R := 8 + verifChoice("run", 4)
	T := verifChoice("tail", verifParam("tail", 2)+1)
	buf := verifBytes("payload", p+R+T)
	for i := 0; i < p; i++ {
		verifAssume(buf[i] < 0x80)
	}
	for i := p; i < p+R; i++ {
		verifAssume(buf[i] >= 0x80)
	}
	n := len(buf)
	if verifChoice("api", 2) == 0 {
		// the element decoder, one element at a time (what SliceFromBytes iterates), under a
		// step bound; only an input on which it behaves is handed to the real loop below (a
		// decoder that does not advance would otherwise never return)
		r := &uvarintReader{buf: buf}
		for steps := 0; ; steps++ {
			verifAssert(steps <= n/4, "C12.linkedlog.varint: more elements decoded than the payload can hold (the decoding loop is not bounded by the input)")
			before := r.pos
			var e OffsetAndSizeAndSlot
			err := e.FromReader(r)
			verifAssert(r.pos >= 0 && r.pos <= n, "C12.linkedlog.varint: the read cursor left the buffer")
			if err != nil {
				break
			}
			verifAssert(r.pos >= before+4, "C12.linkedlog.varint: an element was decoded without consuming at least 4 bytes")
		}
		out, err := OffsetAndSizeAndSlotSliceFromBytes(buf)
		if err != nil {
			verifAssert(out == nil, "C12.linkedlog.varint: SliceFromBytes returned entries together with an error")
			verifReach("parse-error")
		} else {
			verifAssert(len(out)*4 <= n, "C12.linkedlog.varint: more entries than the payload can hold")
			verifReach("parse-ok")
		}
	} else {
		var e OffsetAndSizeAndSlot
		if err := e.FromBytes(buf); err == nil {
			verifAssert(len(e.Bytes()) <= n, "C12.linkedlog.varint: FromBytes read more than the buffer holds")
			verifReach("parse-ok")
		} else {
			verifReach("parse-error")
		}
	}
	verifReach("end")
}
