//go:build verif

package splitcarfetcher

import (
	"bytes"
	"encoding/base64"
	"fmt"
	"io"

	"github.com/anjor/carlet"
	rangecache "github.com/rpcpool/yellowstone-faithful/range-cache"
)

// C16.remote — the documented size validation of NewSplitCarReader for remote pieces
// (*HTTPSingleFileRemoteReaderAt handed in directly): the piece set is rejected iff some remote
// file is shorter than HeaderSize+ContentSize; longer (padded) remote files are accepted.
// Only construction is exercised (no HTTP): the reader objects carry a content length and nothing else.
func VerifC16Remote() {
	K := 1 + verifChoice("pieces", verifParam("maxK", 2))
	header := c16Header(3)
	meta := &carlet.CarPiecesAndMetadata{
		OriginalCarHeader:     base64.StdEncoding.EncodeToString(header),
		OriginalCarHeaderSize: 4,
	}
	sizes := make([]int64, K)
	noneShort := uint64(1)
	for k := 0; k < K; k++ {
		sizes[k] = int64(verifU16("remote_size"))
		hs := uint64(verifU16("piece_header_size"))
		cs := uint64(verifU16("piece_content_size"))
		meta.CarPieces = append(meta.CarPieces, carlet.CarFile{Name: fmt.Sprintf("%d", k), HeaderSize: hs, ContentSize: cs})
		noneShort &= verifIteU64(hs+cs <= uint64(sizes[k]), 1, 0)
	}
	scr, err := NewSplitCarReader(meta, func(cf carlet.CarFile) (ReaderAtCloserSize, error) {
		k := int(cf.Name[0] - '0')
		return &HTTPSingleFileRemoteReaderAt{url: "http://piece/" + cf.Name, contentLength: sizes[k]}, nil
	})
	if err != nil {
		verifAssert(noneShort == 0, "C16.remote: NewSplitCarReader rejected remote pieces that are at least HeaderSize+ContentSize long")
		verifReach("rejected")
		return
	}
	verifAssert(noneShort == 1, "C16.remote: NewSplitCarReader accepted a remote piece shorter than HeaderSize+ContentSize")
	verifAssert(scr != nil, "C16.remote: nil reader without error")
	verifReach("end")
}

// C16.remoteread — the production reader type for remote pieces: NewSplitCarReader over real
// *HTTPSingleFileRemoteReaderAt values whose real RangeCache is fed by a model of the HTTP range
// fetch (an in-memory remote file). Padded remote files (longer than HeaderSize+ContentSize) are
// accepted, and every ReadAt — a window, the whole stream, the window again (cache: superset hit), the
// whole stream again (cache: exact hit) — returns header ‖ content regions with the io.ReaderAt contract.
func VerifC16RemoteRead() {
	header := c16Header(3)
	prefixed := append([]byte{3}, header...)
	K := 1 + verifChoice("pieces", verifParam("maxK", 2))
	meta := &carlet.CarPiecesAndMetadata{
		OriginalCarHeader:     base64.StdEncoding.EncodeToString(header),
		OriginalCarHeaderSize: uint64(len(prefixed)),
	}
	contentLens := []int{0, 3}
	if verifParam("rich", 0) == 1 {
		contentLens = []int{0, 1, 3}
	}
	remote := make([][]byte, K)
	whole := append([]byte{}, prefixed...)
	for k := 0; k < K; k++ {
		hs := 2 * verifChoice("piece_header_size", 2)
		cs := contentLens[verifChoice("piece_content_size", len(contentLens))]
		pad := 1
		if verifParam("rich", 0) == 1 {
			pad = verifChoice("padding", 2)
			if hs+cs+pad == 0 {
				pad = 1 // NewRemoteHTTPFileAsIoReaderAt refuses empty remote files
			}
		}
		remote[k] = verifBytes(fmt.Sprintf("remote%d", k), hs+cs+pad)
		meta.CarPieces = append(meta.CarPieces, carlet.CarFile{Name: fmt.Sprintf("%d", k), HeaderSize: uint64(hs), ContentSize: uint64(cs)})
		whole = append(whole, remote[k][hs:hs+cs]...)
	}
	fetches := 0
	scr, err := NewSplitCarReader(meta, func(cf carlet.CarFile) (ReaderAtCloserSize, error) {
		k := int(cf.Name[0] - '0')
		data := remote[k]
		rr := &HTTPSingleFileRemoteReaderAt{url: "http://piece/" + cf.Name, contentLength: int64(len(data))}
		// model of remoteReadAt: the server answers a range inside the file completely
		rr.ca = rangecache.NewRangeCache(int64(len(data)), cf.Name, func(p []byte, off int64) (int, error) {
			fetches++
			if off < 0 || off+int64(len(p)) > int64(len(data)) {
				return 0, io.ErrUnexpectedEOF
			}
			return copy(p, data[off:]), nil
		})
		return rr, nil
	})
	verifAssert(err == nil, "C16.remoteread: NewSplitCarReader rejected remote pieces that are at least HeaderSize+ContentSize long")
	if err != nil {
		return
	}
	total := len(whole)
	check := func(off, L int) {
		p := make([]byte, L)
		n, rerr := scr.ReadAt(p, int64(off))
		want := total - off
		if want < 0 {
			want = 0
		}
		if want > L {
			want = L
		}
		verifAssert(n == want, "C16.remoteread: n differs from min(len(p), total-off)")
		if n == want && n > 0 {
			verifAssert(bytes.Equal(p[:n], whole[off:off+n]), "C16.remoteread: bytes differ from header followed by the piece contents")
		}
		if want < L {
			verifAssert(rerr == io.EOF, "C16.remoteread: short read without io.EOF")
		} else {
			verifAssert(rerr == nil, "C16.remoteread: full read returned an error")
		}
	}
	base := len(prefixed) - 1
	off := base + verifChoice("off", total-base+2)
	L := verifChoice("len", verifParam("maxLen", 3)+1)
	check(off, L)
	check(0, total+1)
	check(off, L)   // served from cached supersets
	check(0, total) // served from exact cache entries
	verifReach("end")
}
