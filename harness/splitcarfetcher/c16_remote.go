//go:build verif

package splitcarfetcher

import (
	"encoding/base64"
	"fmt"

	"github.com/anjor/carlet"
)

// C16.remote — the documented size validation of NewSplitCarReader for remote pieces
// (*HTTPSingleFileRemoteReaderAt handed in directly): the piece set is rejected iff some remote
// file is shorter than HeaderSize+ContentSize; longer (padded) remote files are accepted.
// Only construction is exercised (no HTTP): the reader objects carry a content length and nothing else.
func VerifC16Remote() {
	K := 1 + verifChoice("pieces", verifParam("maxK", 2))
	header := c16Header(3)
	meta := &carlet.CarPiecesAndMetadata{
		OriginalCarHeader:     base64.StdEncoding.EncodeToString(header),
		OriginalCarHeaderSize: 4,
	}
	sizes := make([]int64, K)
	noneShort := uint64(1)
	for k := 0; k < K; k++ {
		sizes[k] = int64(verifU16("remote_size"))
		hs := uint64(verifU16("piece_header_size"))
		cs := uint64(verifU16("piece_content_size"))
		meta.CarPieces = append(meta.CarPieces, carlet.CarFile{Name: fmt.Sprintf("%d", k), HeaderSize: hs, ContentSize: cs})
		noneShort &= verifIteU64(hs+cs <= uint64(sizes[k]), 1, 0)
	}
	scr, err := NewSplitCarReader(meta, func(cf carlet.CarFile) (ReaderAtCloserSize, error) {
		k := int(cf.Name[0] - '0')
		return &HTTPSingleFileRemoteReaderAt{url: "http://piece/" + cf.Name, contentLength: sizes[k]}, nil
	})
	if err != nil {
		verifAssert(noneShort == 0, "C16.remote: NewSplitCarReader rejected remote pieces that are at least HeaderSize+ContentSize long")
		verifReach("rejected")
		return
	}
	verifAssert(noneShort == 1, "C16.remote: NewSplitCarReader accepted a remote piece shorter than HeaderSize+ContentSize")
	verifAssert(scr != nil, "C16.remote: nil reader without error")
	verifReach("end")
}
