//go:build verif

package splitcarfetcher

import (
	"bytes"
	"errors"
	"io"

	rangecache "github.com/rpcpool/yellowstone-faithful/range-cache"
)

// c17Remote models the remote file behind remoteReadAt (HTTP range request + io.ReadFull):
// a fetch either fills all of p with the remote bytes at off, or fails having filled nothing;
// a request that is not inside the file can only fail. Whether a fetch fails is arbitrary.
type c17Remote struct {
	size    int64
	data    []byte
	mayFail bool
	fails   int
}

var c17ErrRemote = errors.New("c17: remote fetch failed")

func (m *c17Remote) fetch(p []byte, off int64) (int, error) {
	if off < 0 || off > m.size || int64(len(p)) > m.size-off {
		m.fails++
		return 0, io.ErrUnexpectedEOF
	}
	if m.mayFail {
		// a failing fetch reports what io.ReadFull reports for an empty / short body, or any other error
		if k := verifChoice("fetch_outcome", 3); k != 0 {
			m.fails++
			return 0, []error{nil, io.EOF, c17ErrRemote}[k]
		}
	}
	o := verifConcInt(int(off))
	copy(p, m.data[o:o+len(p)])
	return len(p), nil
}

// C17.readat — HTTPSingleFileRemoteReaderAt.ReadAt (the io.ReaderAt the CAR readers use) over
// the real range cache: a history of H reads, each with any buffer length 0..size+1 and either
// any offset 0..size+1 or an arbitrary 64-bit offset outside the file. A read inside the file
// returns (len(p), nil) and exactly the remote bytes, or (0, err) when its fetch failed; a read
// reaching past the end (or starting before 0) returns n == 0 with an error - never fewer bytes
// with a nil error, never padding. The caller scribbles over its buffer between reads.
func VerifC17ReadAt() {
	const id = "C17.readat"
	size := verifParam("size", 3)
	H := verifParam("ops", 2)
	m := &c17Remote{size: int64(size), data: verifBytes("remote", size), mayFail: verifParam("fail", 1) == 1}
	rc := rangecache.NewRangeCache(int64(size), "c17", m.fetch)
	r := &HTTPSingleFileRemoteReaderAt{url: "c17", contentLength: int64(size), ca: rc}
	verifMapOrderNondet(true)
	verifAssert(r.Size() == int64(size), id+": Size differs from the content length")

	for step := 0; step < H; step++ {
		L := verifChoice("len", size+2)
		var off int64
		oc := verifChoice("off", size+3)
		if oc == size+2 {
			off = verifI64("off")
			verifAssume(off < 0 || off > int64(size)+1)
		} else {
			off = int64(oc)
		}
		p := make([]byte, L)
		for i := range p {
			p[i] = 0x5A
		}
		fails0 := m.fails
		n, err := r.ReadAt(p, off)
		inside := off >= 0 && off <= int64(size) && int64(L) <= int64(size)-off
		switch {
		case !inside:
			verifAssert(err != nil, id+": a read reaching outside the file was not refused")
			verifAssert(n == 0, id+": a refused read reports bytes read")
		case L == 0:
			// zero bytes inside the file (also at the very end, where this reader answers io.EOF):
			// nothing to deliver, an error or none are both "exactly the bytes the remote holds"
			verifAssert(n == 0, id+": a zero-length read reports bytes read")
		case m.fails > fails0:
			verifAssert(err != nil, id+": the remote fetch failed but ReadAt returned no error")
			verifAssert(n == 0, id+": a failed read reports bytes read")
		default:
			verifAssert(err == nil, id+": a read inside the file failed although no remote fetch failed")
			verifAssert(n == L, id+": short read")
			o := verifConcInt(int(off))
			verifAssert(bytes.Equal(p, m.data[o:o+L]), id+": bytes read differ from the remote bytes at that offset")
		}
	}
	verifReach("end")
}
