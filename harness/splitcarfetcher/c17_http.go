//go:build verif

package splitcarfetcher

import (
	"bytes"
	"context"
	"errors"
	"io"
	"net/http"

	rangecache "github.com/rpcpool/yellowstone-faithful/range-cache"
)

// HTTP layer of the remote file. The real remoteReadAt (Range header, retryExpotentialBackoff,
// io.ReadFull) runs against a reference model of the HTTP server; only the three library calls
// are cut by overlay rewrites: http.NewRequest -> verifC17NewRequest, req.Header.Set ->
// verifC17HeaderSet, client.Do -> verifC17Do.
//
// The model server holds `size` arbitrary bytes and answers every attempt in one of these ways
// (arbitrary per attempt):
//
//	0  well-behaved: 206 Partial Content with the requested bytes data[a:min(b+1,size)]
//	   (RFC 9110: last-byte-pos is inclusive and clamped), 416 with a short text if a >= size
//	1  transport failure: Do returns an error (the real code retries, 3 attempts in all)
//	2  connection cut: 206 whose body ends one byte early
//	3  failure status: 503 with an error page at least as long as the read (arbitrary bytes)
//	4  server without range support: 200 with the whole file
type c17hServer struct {
	size     int64
	data     []byte
	kinds    int
	chunk    int
	attempts int
	lastKind int
	lastA    int64
	lastB    int64
	lastOK   bool
	lastGood bool // the last attempt was answered with 206 and all the requested bytes
}

var c17hSrv *c17hServer

var c17hErrNet = errors.New("c17: connection refused")

type c17hBody struct {
	b      []byte
	pos    int
	chunk  int
	endErr error
	closed int
}

func (r *c17hBody) Read(p []byte) (int, error) {
	if r.pos >= len(r.b) {
		return 0, r.endErr
	}
	n := len(r.b) - r.pos
	if n > len(p) {
		n = len(p)
	}
	if r.chunk > 0 && n > r.chunk {
		n = r.chunk
	}
	copy(p, r.b[r.pos:r.pos+n])
	r.pos += n
	return n, nil
}

func (r *c17hBody) Close() error { r.closed++; return nil }

func verifC17NewRequest(method, url string, body io.Reader) (*http.Request, error) {
	return &http.Request{Method: method, Header: http.Header{}}, nil
}

func verifC17NewRequestCtx(ctx context.Context, method, url string, body io.Reader) (*http.Request, error) {
	return verifC17NewRequest(method, url, body)
}

func verifC17HeaderSet(req *http.Request, key, value string) {
	req.Header[key] = []string{value}
}

// c17hParseRange parses "bytes=<a>-<b>" (both decimal, b inclusive).
func c17hParseRange(h []string) (a, b int64, ok bool) {
	if len(h) != 1 {
		return 0, 0, false
	}
	s := h[0]
	const pre = "bytes="
	if len(s) < len(pre) || s[:len(pre)] != pre {
		return 0, 0, false
	}
	i := len(pre)
	num := func() (int64, bool) {
		start := i
		var v int64
		for i < len(s) && s[i] >= '0' && s[i] <= '9' {
			v = v*10 + int64(s[i]-'0')
			i++
		}
		return v, i > start
	}
	a, ok = num()
	if !ok || i >= len(s) || s[i] != '-' {
		return 0, 0, false
	}
	i++
	b, ok = num()
	if !ok || i != len(s) {
		return 0, 0, false
	}
	return a, b, true
}

func verifC17Do(c *http.Client, req *http.Request) (*http.Response, error) {
	s := c17hSrv
	s.attempts++
	kind := verifChoice("http_outcome", s.kinds)
	s.lastKind = kind
	a, b, ok := c17hParseRange(req.Header["Range"])
	s.lastA, s.lastB, s.lastOK, s.lastGood = a, b, ok, false
	// known finding: remoteReadAt never looks at the response status
	verifKnownFinding("C17-http-status-ignored", kind == 3 || kind == 4)
	body := &c17hBody{chunk: s.chunk, endErr: io.EOF}
	resp := &http.Response{Body: body, Request: req}
	if kind == 1 {
		return nil, c17hErrNet
	}
	if kind == 4 || !ok || a > b {
		// no (valid) range: the whole representation
		resp.StatusCode = http.StatusOK
		body.b = s.data
		return resp, nil
	}
	if kind == 3 {
		resp.StatusCode = http.StatusServiceUnavailable
		body.b = verifBytes("error_page", int(b-a)+2)
		return resp, nil
	}
	if a >= s.size {
		resp.StatusCode = http.StatusRequestedRangeNotSatisfiable
		body.b = []byte("416")
		return resp, nil
	}
	end := b + 1
	if end > s.size {
		end = s.size
	}
	resp.StatusCode = http.StatusPartialContent
	body.b = s.data[a:end]
	if kind == 2 {
		body.b = s.data[a : end-1]
		body.endErr = io.ErrUnexpectedEOF
	} else {
		s.lastGood = true
	}
	return resp, nil
}

func c17hNewServer(size int) *c17hServer {
	s := &c17hServer{size: int64(size), data: verifBytes("remote", size), kinds: verifParam("http_kinds", 5), chunk: verifParam("chunk", -1)}
	if s.chunk < 0 {
		// the body arrives in one piece or byte by byte (io.Reader may return fewer bytes than asked)
		s.chunk = verifChoice("chunk", 2)
	}
	c17hSrv = s
	return s
}

// C17.http — one remoteReadAt(client, url, p, off) against the model server: for every offset
// and length inside the file, every outcome of each of the up to 3 attempts:
//   - a nil error comes with n == len(p) and p == exactly the remote bytes at [off, off+len(p));
//   - an error comes with n == 0;
//   - when the attempt that ended the retry loop was answered with 206 and the requested bytes,
//     the read succeeds (a working remote is not reported as failed);
//   - the Range header sent starts at off and covers the read.
func VerifC17HTTP() {
	const id = "C17.http"
	size := verifParam("size", 3)
	s := c17hNewServer(size)
	off := int64(verifChoice("off", size+1))
	L := verifChoice("len", size-int(off)+1)
	p := make([]byte, L)
	client := &http.Client{}
	n, err := remoteReadAt(client, "http://c17/f", p, off)
	if err != nil {
		verifAssert(n == 0, id+": a failed remote read reports bytes read")
		verifAssert(!s.lastGood, id+": the server delivered the requested bytes (206) but the remote read failed")
	} else {
		verifAssert(n == L, id+": a remote read without error is short")
		verifAssert(bytes.Equal(p, s.data[off:off+int64(L)]), id+": a remote read without error delivered bytes that differ from the remote file (a failed fetch passed as data)")
	}
	if s.attempts > 0 {
		// what the real code asked the server for covers the read
		verifAssert(s.lastOK, id+": the request carries no well-formed Range header")
		verifAssert(s.lastA == off, id+": the Range header does not start at the requested offset")
		verifAssert(s.lastB+1 >= off+int64(L), id+": the Range header asks for fewer bytes than the read needs")
	}
	verifReach("end")
}

// C17.httpcache — the full stack as NewRemoteHTTPFileAsIoReaderAt wires it (reader -> range cache
// -> remoteReadAt -> HTTP), two ReadAt calls at arbitrary offsets/lengths while the server
// misbehaves arbitrarily, then the server recovers and EVERY range of the file is read again:
// each ReadAt returns exactly the remote bytes or (0, err), and nothing a failing server sent is
// served later from the cache (a failed fetch is not cached).
func VerifC17HTTPCache() {
	const id = "C17.httpcache"
	size := verifParam("size", 3)
	H := verifParam("ops", 2)
	s := c17hNewServer(size)
	rr := &HTTPSingleFileRemoteReaderAt{url: "http://c17/f", contentLength: int64(size), client: &http.Client{}}
	// the wiring of NewRemoteHTTPFileAsIoReaderAt (its size discovery, URL parsing and GC ticker are not part of this check)
	rr.ca = rangecache.NewRangeCache(int64(size), "/f", func(p []byte, off int64) (int, error) {
		return remoteReadAt(rr.client, rr.url, p, off)
	})
	check := func(off int64, L int, what string) {
		p := make([]byte, L)
		n, err := rr.ReadAt(p, off)
		if err != nil {
			verifAssert(n == 0, id+what+": a failed read reports bytes read")
			return
		}
		verifAssert(n == L, id+what+": short read without error")
		verifAssert(bytes.Equal(p, s.data[off:off+int64(L)]), id+what+": bytes read differ from the remote file")
	}
	for step := 0; step < H; step++ {
		off := int64(verifChoice("off", size))
		L := 1 + verifChoice("len", size-int(off))
		check(off, L, "")
	}
	// the server works again
	s.kinds = 1
	for off := 0; off < size; off++ {
		for L := 1; off+L <= size; L++ {
			p := make([]byte, L)
			n, err := rr.ReadAt(p, int64(off))
			verifAssert(err == nil && n == L, id+": after the outage a read inside the file fails")
			verifAssert(bytes.Equal(p, s.data[off:off+L]), id+": after the outage the cache serves bytes that differ from the remote file (a failed fetch was cached)")
		}
	}
	verifReach("end")
}
