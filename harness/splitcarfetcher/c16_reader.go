//go:build verif

package splitcarfetcher

import (
	"bytes"
	"encoding/base64"
	"encoding/binary"
	"fmt"
	"io"

	"github.com/anjor/carlet"
)

// c16Header returns a concrete original-CAR header body of n bytes (strings are concrete in
// the engine, and the metadata carries the header base64-encoded in a string).
func c16Header(n int) []byte {
	h := make([]byte, n)
	for i := range h {
		h[i] = byte(0xA0 + i%7*13 + i/7)
	}
	return h
}

// C16.reader — the real NewSplitCarReader over local piece files (real NewFileSplitCarReader on
// the in-memory file system, real errgroup fan-out, real io.SectionReader / bytes.Reader /
// MultiReaderAt): if it accepts the metadata, every ReadAt(p, off) returns exactly
//
//	uvarint(len(header)) ‖ header ‖ file_1[HeaderSize_1:] ‖ … ‖ file_K[HeaderSize_K:]
//
// It must accept when OriginalCarHeaderSize is the size of the prefixed header and every local
// file is exactly HeaderSize+ContentSize long, and must reject a wrong header size or a local
// file shorter than HeaderSize+ContentSize.
func VerifC16Reader() {
	hdrLens := []int{3, 130}
	if verifParam("only_long_header", 0) == 1 {
		hdrLens = []int{130} // quick tier: the 3-byte header is exercised by C16.remote / C16.remoteread
	}
	H := hdrLens[verifChoice("header_len", len(hdrLens))]
	header := c16Header(H)
	prefixed := binary.AppendUvarint(nil, uint64(H))
	prefixed = append(prefixed, header...)

	minK, maxK := verifParam("minK", 1), verifParam("maxK", 2)
	K := minK + verifChoice("pieces", maxK-minK+1)
	fileLens := []int{0, 2}
	if verifParam("files", 0) == 1 {
		fileLens = []int{0, 1, 3}
	}

	meta := &carlet.CarPiecesAndMetadata{
		OriginalCarHeader:     base64.StdEncoding.EncodeToString(header),
		OriginalCarHeaderSize: verifU64("original_header_size"),
	}
	files := make([][]byte, K)
	hs := make([]uint64, K)
	cs := make([]uint64, K)
	hdrOK := verifIteU64(meta.OriginalCarHeaderSize == uint64(len(prefixed)), 1, 0)
	allExact, noneShort := uint64(1), uint64(1)
	for k := 0; k < K; k++ {
		F := fileLens[verifChoice("file_len", len(fileLens))]
		files[k] = verifBytes(fmt.Sprintf("file%d", k), F)
		name := verifTempPath(fmt.Sprintf("piece-%d.car", k))
		verifMemFile(name, files[k])
		hs[k] = uint64(verifU8("piece_header_size"))
		cs[k] = uint64(verifU8("piece_content_size"))
		meta.CarPieces = append(meta.CarPieces, carlet.CarFile{Name: name, HeaderSize: hs[k], ContentSize: cs[k]})
		allExact &= verifIteU64(hs[k]+cs[k] == uint64(F), 1, 0)
		noneShort &= verifIteU64(hs[k]+cs[k] <= uint64(F), 1, 0)
	}

	scr, err := NewSplitCarReader(meta, func(cf carlet.CarFile) (ReaderAtCloserSize, error) {
		return NewFileSplitCarReader(cf.Name)
	})
	if err != nil {
		verifAssert(hdrOK&allExact == 0, "C16.reader: NewSplitCarReader rejected metadata whose sizes match the header and the files")
		verifReach("rejected")
		return
	}
	// a wrong header size or a local file shorter than HeaderSize+ContentSize must be rejected; a
	// longer file (padding, or the subset node split-car appends) may be accepted or rejected
	verifAssert(hdrOK&noneShort == 1, "C16.reader: NewSplitCarReader accepted a wrong header size or a local file shorter than HeaderSize+ContentSize")

	// the expected stream: the declared content region of every piece
	whole := append([]byte{}, prefixed...)
	for k := 0; k < K; k++ {
		h := int(verifConcU64(hs[k]))
		c := int(verifConcU64(cs[k]))
		whole = append(whole, files[k][h:h+c]...)
	}
	total := len(whole)
	// offsets: the window from two bytes before the end of the header to one past the end,
	// plus (last alternative) one read of the whole stream from offset 0
	base := len(prefixed) - 2
	nOff := total - base + 2
	off := nOff
	if verifParam("windows", 1) == 1 {
		off = verifChoice("off", nOff+1)
	}
	L := 0
	if off == nOff {
		off, L = 0, total+1
	} else {
		off += base
		L = verifChoice("len", verifParam("maxLen", 4)+1)
	}
	p := make([]byte, L)
	n, rerr := scr.ReadAt(p, int64(off))
	want := total - off
	if want < 0 {
		want = 0
	}
	if want > L {
		want = L
	}
	verifAssert(n == want, "C16.reader: n differs from min(len(p), total-off)")
	if n == want && n > 0 {
		verifAssert(bytes.Equal(p[:n], whole[off:off+n]), "C16.reader: bytes differ from header followed by the piece contents")
	}
	if want < L {
		verifAssert(rerr == io.EOF, "C16.reader: short read without io.EOF")
	} else {
		verifAssert(rerr == nil, "C16.reader: full read returned an error")
	}
	verifAssert(scr.Close() == nil, "C16.reader: Close failed")
	verifReach("end")
}
