//go:build verif

package splitcarfetcher

import (
	"bytes"
	"errors"
	"fmt"
	"io"
)

// c16File is the model of one piece's backing store (a local file or a remote HTTP file):
// an io.ReaderAt over `size` arbitrary bytes with the documented io.ReaderAt contract
// (os.File.ReadAt / bytes.Reader.ReadAt): n = min(len(p), size-off) bytes are copied, and
// n < len(p) comes with io.EOF. The size is symbolic; the content is the uninterpreted byte
// array verifUF8(name, position).
type c16File struct {
	name string
	size int64
}

var c16ErrNegative = errors.New("c16File.ReadAt: negative offset")

func (f *c16File) ReadAt(p []byte, off int64) (int, error) {
	// common case decided with a single branch: the whole request lies inside the file
	if verifIteU64(off >= 0, 1, 0)&verifIteU64(off+int64(len(p)) <= f.size, 1, 0) == 1 {
		for i := range p {
			p[i] = verifUF8(f.name, uint64(off)+uint64(i))
		}
		return len(p), nil
	}
	if off < 0 {
		return 0, c16ErrNegative
	}
	avail := f.size - off
	if avail <= 0 {
		return 0, io.EOF
	}
	n := len(p)
	if int64(n) > avail {
		n = verifConcInt(int(avail))
	}
	for i := 0; i < n; i++ {
		p[i] = verifUF8(f.name, uint64(off)+uint64(i))
	}
	if n < len(p) {
		return n, io.EOF
	}
	return n, nil
}

func (f *c16File) Close() error { return nil }
func (f *c16File) Size() int64  { return f.size }

// c16Layout describes the pieces handed to NewMultiReaderAt exactly as NewSplitCarReader
// builds them: piece k is io.NewSectionReader(file_k, hdr_k, size_k).
type c16Layout struct {
	n     int
	files []*c16File
	hdr   []int64
	size  []int64
	start []int64 // start[k] = size_0 + ... + size_{k-1}
	total int64
}

// c16Expect is the byte of the concatenation at global offset g (branch-free ite chain).
func (l *c16Layout) expect(g int64) uint64 {
	var v uint64
	for k := l.n - 1; k >= 0; k-- {
		in := g < l.start[k]+l.size[k]
		v = verifIteU64(in, uint64(verifUF8(l.files[k].name, uint64(l.hdr[k]+g-l.start[k]))), v)
	}
	return v
}

func c16MakeLayout(n int, maxSize int64, deficitPiece int) (*c16Layout, []io.ReaderAt, []int64) {
	l := &c16Layout{n: n}
	readers := make([]io.ReaderAt, 0, n)
	sizes := make([]int64, 0, n)
	for k := 0; k < n; k++ {
		// 8-bit nondets widened to int64: same value sets, much cheaper solver queries
		sz := int64(verifU8("size"))
		hd := int64(verifU8("hdr"))
		pad := int64(verifU8("pad"))
		verifAssume(sz >= 0 && sz <= maxSize)
		verifAssume(hd >= 0 && hd <= 3)
		verifAssume(pad >= 0 && pad <= 2)
		fsize := hd + sz + pad
		if k == deficitPiece {
			// the backing file is shorter than the metadata declares (by 1..size bytes)
			verifAssume(sz >= 1)
			fsize = int64(verifU8("short_file_size"))
			verifAssume(fsize >= hd && fsize < hd+sz)
		}
		f := &c16File{name: fmt.Sprintf("piece%d", k), size: fsize}
		l.files = append(l.files, f)
		l.hdr = append(l.hdr, hd)
		l.size = append(l.size, sz)
		l.start = append(l.start, l.total)
		l.total += sz
		readers = append(readers, io.NewSectionReader(f, hd, sz))
		sizes = append(sizes, sz)
	}
	return l, readers, sizes
}

// C16.multi — MultiReaderAt.ReadAt over 1..N pieces (each the io.SectionReader that
// NewSplitCarReader builds: own header skipped, content size from the metadata, backing file
// possibly padded) returns exactly concatenation[off : off+len(p)], n = min(len(p), total-off),
// io.EOF iff fewer than len(p) bytes exist, never a short read with a nil error.
func VerifC16Multi() {
	minN := verifParam("minN", 1)
	maxN := verifParam("maxN", 3)
	n := minN + verifChoice("pieces", maxN-minN+1)
	L := verifChoice("len", verifParam("maxLen", 6)+1)
	l, readers, sizes := c16MakeLayout(n, int64(verifParam("maxSize", 6)), -1)

	off := int64(verifU8("off")) - 2
	verifAssume(off <= l.total+2)
	// known finding: a negative offset is answered with (0, nil) instead of an error
	verifKnownFinding("C16-negative-offset", off < 0)

	m := NewMultiReaderAt(readers, sizes)
	p := make([]byte, L)
	got, err := m.ReadAt(p, off)

	if off < 0 {
		verifAssert(L == 0 || err != nil, "C16.multi: negative offset: ReadAt returned fewer than len(p) bytes with a nil error")
		verifReach("end-negative")
		return
	}
	rem := l.total - off
	rem = int64(verifIteU64(rem < 0, 0, uint64(rem)))
	want := int64(verifIteU64(rem < int64(L), uint64(rem), uint64(L)))
	verifAssert(int64(got) == want, "C16.multi: n differs from min(len(p), total-off)")
	gotB, wantB := make([]byte, L), make([]byte, L)
	for i := 0; i < L; i++ {
		in := int64(i) < want
		gotB[i] = byte(verifIteU64(in, uint64(p[i]), 0))
		wantB[i] = byte(verifIteU64(in, l.expect(off+int64(i)), 0))
	}
	verifAssert(bytes.Equal(gotB, wantB), "C16.multi: bytes differ from the concatenation of the pieces")
	if got < L {
		verifAssert(err == io.EOF, "C16.multi: short read without io.EOF")
	} else {
		verifAssert(err == nil, "C16.multi: full read returned an error")
	}
	verifReach("end")
}

// C16.short — one piece's backing file is shorter than HeaderSize+ContentSize of the metadata
// (nothing in NewSplitCarReader rejects this for the reader types epoch.go passes in). The
// io.ReaderAt contract must still hold: fewer than len(p) bytes only together with an error.
func VerifC16Short() {
	minN := verifParam("minN", 1)
	maxN := verifParam("maxN", 3)
	n := minN + verifChoice("pieces", maxN-minN+1)
	L := verifChoice("len", verifParam("maxLen", 6)+1)
	bad := verifChoice("short_piece", n)
	l, readers, sizes := c16MakeLayout(n, int64(verifParam("maxSize", 6)), bad)

	off := int64(verifU8("off"))
	verifAssume(off <= l.total+2)
	verifKnownFinding("C16-short-piece-silent", bad < n-1)

	m := NewMultiReaderAt(readers, sizes)
	p := make([]byte, L)
	got, err := m.ReadAt(p, off)
	verifAssert(got == L || err != nil, "C16.short: a piece shorter than declared yields a short read with a nil error")
	// bytes delivered before the gap are still the right ones
	wantB := make([]byte, got)
	for i := 0; i < got; i++ {
		wantB[i] = byte(l.expect(off + int64(i)))
	}
	verifAssert(bytes.Equal(p[:got], wantB), "C16.short: bytes differ from the piece content")
	verifReach("end")
}
