//go:build verif

package splitcarfetcher

import (
	"encoding/base64"
	"fmt"
	"io"

	"github.com/anjor/carlet"
)

// c16Wrapped stands for the wrapper epoch.go puts around every remote piece reader
// (*readCloserWrapper in package main): a ReaderAtCloserSize that is neither a
// *FileSplitCarReader nor a *HTTPSingleFileRemoteReaderAt.
type c16Wrapped struct{ size int64 }

func (w *c16Wrapped) ReadAt(p []byte, off int64) (int, error) { return 0, io.EOF }
func (w *c16Wrapped) Close() error                            { return nil }
func (w *c16Wrapped) Size() int64                             { return w.size }

// C16.wrapped — NewSplitCarReader as the server uses it: both creators in epoch.go return the remote
// reader wrapped in another type. Wrapped pieces that are at least HeaderSize+ContentSize long are
// never refused. (Observation, not a C16 claim: the size checks are keyed on the two concrete reader
// types, so a wrapped piece SHORTER than declared is accepted at start-up; reads that touch the
// missing range then fail with io.ErrUnexpectedEOF — decided by C16.short — which is what C16 asks
// for. See proposed-fixes/not-applied/C16-size-check-skips-wrapped-readers.md.)
func VerifC16Wrapped() {
	K := 1 + verifChoice("pieces", verifParam("maxK", 2))
	header := []byte{0xA1, 0xA2, 0xA3}
	meta := &carlet.CarPiecesAndMetadata{
		OriginalCarHeader:     base64.StdEncoding.EncodeToString(header),
		OriginalCarHeaderSize: 4,
	}
	sizes := make([]int64, K)
	noneShort := uint64(1)
	for k := 0; k < K; k++ {
		sizes[k] = int64(verifU16("remote_size"))
		hs := uint64(verifU16("piece_header_size"))
		cs := uint64(verifU16("piece_content_size"))
		meta.CarPieces = append(meta.CarPieces, carlet.CarFile{Name: fmt.Sprintf("%d", k), HeaderSize: hs, ContentSize: cs})
		noneShort &= verifIteU64(hs+cs <= uint64(sizes[k]), 1, 0)
	}
	scr, err := NewSplitCarReader(meta, func(cf carlet.CarFile) (ReaderAtCloserSize, error) {
		k := int(cf.Name[0] - '0')
		return &c16Wrapped{size: sizes[k]}, nil
	})
	if err != nil {
		verifAssert(noneShort == 0, "C16.wrapped: NewSplitCarReader rejected wrapped remote pieces that are at least HeaderSize+ContentSize long")
		verifReach("rejected")
		return
	}
	verifAssert(scr != nil, "C16.wrapped: nil reader without error")
	verifReach("end")
}
