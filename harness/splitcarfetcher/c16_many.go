//go:build verif

package splitcarfetcher

import (
	"bytes"
	"encoding/base64"
	"fmt"
	"io"

	"github.com/anjor/carlet"
)

// C16.many — more pieces than the fan-out limit of NewSplitCarReader (errgroup.SetLimit(10)) and
// two-digit piece numbers: N local piece files named piece-1 … piece-N (no zero padding, like
// split-car's epoch-E-N.car), each 1 own header byte + 1..2 content bytes. The reader must
// concatenate them in metadata order (not in name order, not in completion order): one read of
// the whole stream and one read across the boundary between pieces 9, 10 and 11.
func VerifC16Many() {
	N := verifParam("pieces", 11)
	header := []byte{0xA1, 0xA2, 0xA3}
	whole := append([]byte{3}, header...)
	meta := &carlet.CarPiecesAndMetadata{
		OriginalCarHeader:     base64.StdEncoding.EncodeToString(header),
		OriginalCarHeaderSize: 4,
	}
	starts := make([]int, N+1)
	for k := 0; k < N; k++ {
		cs := 1 + k%2
		file := verifBytes(fmt.Sprintf("file%d", k+1), 1+cs)
		name := verifTempPath(fmt.Sprintf("piece-%d.car", k+1))
		verifMemFile(name, file)
		meta.CarPieces = append(meta.CarPieces, carlet.CarFile{Name: name, HeaderSize: 1, ContentSize: uint64(cs)})
		starts[k] = len(whole)
		whole = append(whole, file[1:]...)
	}
	starts[N] = len(whole)
	scr, err := NewSplitCarReader(meta, func(cf carlet.CarFile) (ReaderAtCloserSize, error) {
		return NewFileSplitCarReader(cf.Name)
	})
	verifAssert(err == nil, "C16.many: NewSplitCarReader failed on well-formed pieces")
	if err != nil {
		return
	}
	p := make([]byte, len(whole)+1)
	n, rerr := scr.ReadAt(p, 0)
	verifAssert(n == len(whole) && rerr == io.EOF, "C16.many: whole read ends at the wrong offset")
	verifAssert(n == len(whole) && bytes.Equal(p[:n], whole), "C16.many: pieces are not concatenated in metadata order")
	if N >= 11 {
		lo, hi := starts[8]+1, starts[11]
		q := make([]byte, hi-lo)
		n, rerr = scr.ReadAt(q, int64(lo))
		verifAssert(n == len(q) && rerr == nil && bytes.Equal(q, whole[lo:hi]), "C16.many: read across pieces 9, 10, 11 differs from the concatenation")
	}
	verifAssert(scr.Close() == nil, "C16.many: Close failed")
	verifReach("end")
}
