//go:build verif

package splitcarfetcher

import (
	"bytes"
	"encoding/base64"
	"fmt"
	"io"

	"github.com/anjor/carlet"
)

// C16.many — more pieces than the fan-out limit of NewSplitCarReader (errgroup.SetLimit, rewritten
// 10 -> 2 in the overlay so that 3..4 pieces exceed it) and piece numbers that cross a decimal digit
// boundary: local piece files named piece-9, piece-10, piece-11, … (no zero padding, like
// split-car's epoch-E-N.car), each 1 own header byte + 1..2 content bytes. The reader must
// concatenate them in metadata order (not in name order, not in completion order) under every
// interleaving of the creators: one read of the whole stream and one read across all boundaries.
func VerifC16Many() {
	N := verifParam("pieces", 3)
	header := []byte{0xA1, 0xA2, 0xA3}
	whole := append([]byte{3}, header...)
	meta := &carlet.CarPiecesAndMetadata{
		OriginalCarHeader:     base64.StdEncoding.EncodeToString(header),
		OriginalCarHeaderSize: 4,
	}
	first := len(whole)
	for k := 0; k < N; k++ {
		cs := 1 + k%2
		file := verifBytes(fmt.Sprintf("file%d", 9+k), 1+cs)
		name := verifTempPath(fmt.Sprintf("piece-%d.car", 9+k))
		verifMemFile(name, file)
		meta.CarPieces = append(meta.CarPieces, carlet.CarFile{Name: name, HeaderSize: 1, ContentSize: uint64(cs)})
		whole = append(whole, file[1:]...)
	}
	scr, err := NewSplitCarReader(meta, func(cf carlet.CarFile) (ReaderAtCloserSize, error) {
		return NewFileSplitCarReader(cf.Name)
	})
	verifAssert(err == nil, "C16.many: NewSplitCarReader failed on well-formed pieces")
	if err != nil {
		return
	}
	p := make([]byte, len(whole)+1)
	n, rerr := scr.ReadAt(p, 0)
	verifAssert(n == len(whole) && rerr == io.EOF, "C16.many: whole read ends at the wrong offset")
	verifAssert(n == len(whole) && bytes.Equal(p[:n], whole), "C16.many: pieces are not concatenated in metadata order")
	q := make([]byte, len(whole)-first-1)
	n, rerr = scr.ReadAt(q, int64(first))
	verifAssert(n == len(q) && rerr == nil && bytes.Equal(q, whole[first:len(whole)-1]), "C16.many: read across all piece boundaries differs from the concatenation")
	verifAssert(scr.Close() == nil, "C16.many: Close failed")
	verifReach("end")
}
