//go:build verif

package splitcarfetcher

import (
	"bytes"
	"context"
	"errors"
	"net/http"
	"net/url"
	"time"
)

// Cuts of the wiring obligation (models of callees of NewRemoteHTTPFileAsIoReaderAt):
//   - GetContentSizeWithHeadOrZeroRange (HEAD / zero-range request): answers the file size, 0
//     (no Content-Length) or an error, by choice;
//   - NewHTTPClient (transport construction): an empty http.Client (its Do is cut as in C17.http);
//   - urlx.Parse: a URL with path "/f";
//   - time.NewTicker / Ticker.Stop (engine redirect, ext_C17.go): the GC ticker fires `ticks`
//     times at arbitrary scheduling points.
var c17wSizeAnswer int // 0: the size, 1: zero, 2: error

var c17wErrHead = errors.New("c17: HEAD failed")

func GetContentSizeWithHeadOrZeroRange(u string) (int64, error) {
	switch c17wSizeAnswer {
	case 1:
		return 0, nil
	case 2:
		return 0, c17wErrHead
	}
	return c17hSrv.size, nil
}

func NewHTTPClient() *http.Client { return &http.Client{} }

func verifC17ParseURL(u string) (*url.URL, error) { return &url.URL{Path: "/f"}, nil }

func verifC17NewTicker(d time.Duration) *time.Ticker {
	ch := make(chan time.Time, 1)
	n := verifParam("ticks", 1)
	go func() {
		for i := 0; i < n; i++ {
			select {
			case ch <- time.Time{}:
			default: // like the runtime's ticker: a tick nobody waits for is dropped
			}
		}
	}()
	return &time.Ticker{C: ch}
}

func verifC17TickerStop(t *time.Ticker) {}

// C17.wiring — the public constructor NewRemoteHTTPFileAsIoReaderAt (size discovery result,
// cache construction, fetcher closure, StartCacheGC goroutine with its ticker) and then reads
// through the returned reader while the GC goroutine expires entries at arbitrary points, under
// the race detector; finally the context is cancelled (the GC goroutine must stop).
func VerifC17Wiring() {
	const id = "C17.wiring"
	size := verifParam("size", 2)
	H := verifParam("ops", 2)
	s := c17hNewServer(size)
	c17wSizeAnswer = verifChoice("size_answer", 3)
	ctx, cancel := context.WithCancel(context.Background())
	ra, n, err := NewRemoteHTTPFileAsIoReaderAt(ctx, "http://c17/f")
	if c17wSizeAnswer != 0 {
		verifAssert(err != nil, id+": a file whose size cannot be determined was opened")
		cancel()
		verifReach("end-nosize")
		return
	}
	verifAssert(err == nil, id+": opening the remote file failed although the server answered")
	verifAssert(n == int64(size) && ra.Size() == int64(size), id+": reported size differs from the size of the remote file")
	verifMapOrderNondet(true)
	for step := 0; step < H; step++ {
		off := int64(verifChoice("off", size+1))
		L := verifChoice("len", size+2)
		p := make([]byte, L)
		attempts0 := s.attempts
		k, err := ra.ReadAt(p, off)
		inside := int64(L) <= int64(size)-off
		switch {
		case !inside:
			verifAssert(err != nil && k == 0, id+": a read reaching past the end of the file was not refused")
		case err != nil:
			verifAssert(k == 0, id+": a failed read reports bytes read")
			// only a failing answer of the server to a request made for THIS read explains an error
			verifAssert(L == 0 || (s.attempts > attempts0 && !s.lastGood), id+": a read inside the file failed although the server did not fail")
		default:
			verifAssert(k == L, id+": short read without error")
			verifAssert(bytes.Equal(p, s.data[off:off+int64(L)]), id+": bytes read differ from the remote file")
		}
	}
	cancel()
	verifReach("end")
}
