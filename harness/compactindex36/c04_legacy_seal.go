//go:build verif

package compactindex36

import (
	"bytes"
	"context"
	"errors"
	"io"
	"os"
)

// verifC04Attempts is the attempt bound the registry rewrites mineAttempts to.
const verifC04Attempts = 2

// verifC04AllNoncesCollide returns 1 iff for every nonce < verifC04Attempts two keys of the same
// bucket have equal masked entry hashes (branch-free).
func verifC04AllNoncesCollide(numBuckets uint32, keys [][]byte) uint64 {
	h := &Header{NumBuckets: numBuckets}
	all := uint64(1)
	for nonce := uint32(0); nonce < verifC04Attempts; nonce++ {
		var coll uint64
		for i := range keys {
			for j := 0; j < i; j++ {
				sameBucket := verifIteU64(h.BucketHash(keys[i]) == h.BucketHash(keys[j]), 1, 0)
				sameHash := verifIteU64(EntryHash64(nonce, keys[i])&0xffffff == EntryHash64(nonce, keys[j])&0xffffff, 1, 0)
				coll |= sameBucket & sameHash
			}
		}
		all &= coll
	}
	return all
}

func verifC04LegacyBuild(path string, declared uint, fileSize uint64, keys [][]byte, vals [][36]byte, order []int) error {
	b, err := NewBuilder("", declared, fileSize)
	verifAssert(err == nil, "C04.legacy36.seal: NewBuilder failed")
	defer b.Close()
	for _, i := range order {
		if err := b.Insert(keys[i], vals[i]); err != nil {
			return err
		}
	}
	f, err := os.OpenFile(path, os.O_CREATE|os.O_RDWR|os.O_TRUNC, 0o666)
	verifAssert(err == nil, "C04.legacy36.seal: create")
	defer f.Close()
	return b.Seal(context.Background(), f)
}

// C04.legacy36.seal — real NewBuilder / Insert / Seal / Open / DB.Lookup of the legacy format compactindex36 on
// the in-memory file system: k distinct keys in every insertion order, arbitrary values,
// arbitrary hash functions (uninterpreted, low bits bounded), 1 or 2 buckets. Seal succeeds iff a
// nonce within the attempt bound separates the keys; then every inserted key is found with
// exactly its value and another insertion order yields identical bytes; a duplicate key makes
// Seal fail with ErrCollision.
func VerifC04LegacySeal() {
	k := 1 + verifChoice("keys", verifParam("maxkeys", 3))
	verifC04HashRange = uint64(verifParam("hashrange", 3))
	decls := []uint{1, 10000, 10001}
	declared := decls[verifChoice("declared", len(decls))]
	fileSize := verifC04FileSize()
	dup := verifChoice("duplicate", 2) == 1
	if verifParam("fewshapes", 0) == 1 {
		// reader-side / width obligations: the builder-side shapes are covered by the .seal obligation
		verifAssume(!dup && declared != 10000)
	}
	symkeys := verifParam("symkeys", 0) == 1
	keys := make([][]byte, k)
	vals := make([][36]byte, k)
	for i := range keys {
		keys[i] = verifC04Key(i)
		if symkeys {
			keys[i] = verifBytes("key", i+1) // arbitrary content; keys differ by length
		}
		vals[i] = verifC04Val(fileSize)
	}
	if dup {
		keys = append(keys, keys[k-1])
		vals = append(vals, verifC04Val(fileSize))
	}
	n := len(keys)
	order := verifC04Perm(n, verifChoice("order", verifC04NumPerms(n, 3)))
	id := make([]int, n)
	for i := range id {
		id[i] = i
	}
	p1 := verifTempPath("a.idx")
	err := verifC04LegacyBuild(p1, declared, fileSize, keys, vals, order)
	if dup {
		verifAssert(err != nil, "C04.legacy36.seal: duplicate key accepted (Seal succeeded)")
		verifAssert(errors.Is(err, ErrCollision), "C04.legacy36.seal: duplicate key fails with an error other than ErrCollision")
		verifReach("dup-rejected")
		verifReach("end")
		return
	}
	if err != nil {
		verifAssert(errors.Is(err, ErrCollision), "C04.legacy36.seal: Seal failed with an error other than ErrCollision")
		verifAssert(verifC04AllNoncesCollide(uint32((declared+9999)/10000), keys) == 1, "C04.legacy36.seal: Seal reported ErrCollision although a nonce within the attempt bound separates all keys")
		verifReach("mining-failed")
		verifReach("end")
		return
	}
	p2 := verifTempPath("b.idx")
	verifAssert(verifC04LegacyBuild(p2, declared, fileSize, keys, vals, id) == nil, "C04.legacy36.seal: the same inserts in another order fail to seal")
	verifAssert(bytes.Equal(verifMemFileBytes(p1), verifMemFileBytes(p2)), "C04.legacy36.seal: sealed files differ for the same inserts")
	// reader side: 0 = *os.File, 1 = *os.File with Prefetch(true) (what the server does),
	// 2 = Prefetch(true) over a ReaderAt that reports io.EOF together with a read that ends
	// exactly at the end of the data (allowed by the io.ReaderAt contract)
	readerMode := 0
	if verifParam("readers", 0) == 1 {
		readerMode = verifChoice("reader", 3)
	}
	f, err := os.Open(p1)
	verifAssert(err == nil, "C04.legacy36.seal: reopen")
	var rd io.ReaderAt = f
	if readerMode == 2 {
		rd = &verifC04EOFReader{data: verifMemFileBytes(p1)}
	}
	db, err := Open(rd)
	verifAssert(err == nil, "C04.legacy36.seal: Open failed on a freshly sealed index")
	if readerMode >= 1 {
		db.Prefetch(true)
	}
	verifAssert(db.Header.NumBuckets == uint32((declared+9999)/10000), "C04.legacy36.seal: bucket count")
	verifAssert(db.Header.FileSize == verifC04EffFileSize(fileSize), "C04.legacy36.seal: target file size in the header (0 = unknown must become MaxUint64)")
	for i := range keys {
		got, err := db.Lookup(keys[i])
		verifAssert(err == nil, "C04.legacy36.seal: inserted key not found")
		verifAssert(got == vals[i], "C04.legacy36.seal: inserted key found with another value")
	}
	// a key that was never inserted: ErrNotFound, unless it shares bucket and masked hash with
	// an inserted key (the index stores no keys), in which case that key's value is returned
	if verifParam("absent", 0) == 1 {
		absent := make([]byte, len(keys)+2)
		absent[0] = 0xee
		bkt, err := db.LookupBucket(absent)
		verifAssert(err == nil, "C04.legacy36.seal: LookupBucket failed for an absent key")
		got, err := db.Lookup(absent)
		h := &Header{NumBuckets: db.Header.NumBuckets}
		var alias, aliasOK uint64
		for i := range keys {
			same := verifIteU64(h.BucketHash(keys[i]) == h.BucketHash(absent), 1, 0) &
				verifIteU64(EntryHash64(bkt.HashDomain, keys[i])&0xffffff == EntryHash64(bkt.HashDomain, absent)&0xffffff, 1, 0)
			alias |= same
			aliasOK |= same & verifIteU64(got == vals[i], 1, 0)
		}
		if err != nil {
			verifAssert(errors.Is(err, ErrNotFound), "C04.legacy36.seal: absent key fails with an error other than ErrNotFound")
			verifAssert(alias == 0, "C04.legacy36.seal: a key aliasing an inserted key (same bucket, same masked hash) is reported not found")
			verifReach("absent-notfound")
		} else {
			verifAssert(alias == 1 && aliasOK == 1, "C04.legacy36.seal: absent key found with a value that belongs to no aliasing inserted key")
			verifReach("absent-alias")
		}
	}
	verifReach("sealed")
	verifReach("end")
}

// verifC04EOFReader is an io.ReaderAt over a byte slice that returns io.EOF together with
// the data whenever a read ends exactly at (or beyond) the end of the data.
type verifC04EOFReader struct{ data []byte }

func (r *verifC04EOFReader) ReadAt(p []byte, off int64) (int, error) {
	if off < 0 {
		return 0, errors.New("negative offset")
	}
	if off >= int64(len(r.data)) {
		return 0, io.EOF
	}
	n := copy(p, r.data[off:])
	if off+int64(n) >= int64(len(r.data)) {
		return n, io.EOF
	}
	return n, nil
}

// verifC04KeyLens: supported key lengths around the 8-bit, bufio-buffer (4096) and 16-bit
// boundaries, and unsupported ones whose 16-bit truncation is 0, small, buffer sized or maximal.
func verifC04KeyLens() (supported, unsupported []int) {
	if verifParam("alllens", 0) == 1 {
		return []int{0, 1, 255, 256, 4095, 4096, 4097, 8192, 65534, 65535},
			[]int{65536, 65537, 65538, 65791, 69632, 131071, 131072, 131073, 196608}
	}
	return []int{0, 4097, 65535}, []int{65536, 65537, 131072}
}

// verifC04LongKey: a key of n bytes with markers at the start, in the middle and at the end.
func verifC04LongKey(n int) []byte {
	k := make([]byte, n)
	if n > 0 {
		k[0] = 0x11
	}
	if n > 4 {
		k[n/2] = 0x5a
		k[n-1] = 0xa5
	}
	return k
}

// C04.legacy36.keylen — key-size class, end to end on the real builder and reader: for a key A of ANY length
// in the boundary set (supported: 0 .. 65535; unsupported: 65536 .. 196608) inserted before or
// after a short key B, with arbitrary values and arbitrary hash functions:
//   - a supported length is never refused: Insert succeeds and Seal fails only with a genuine
//     (bounded) mining collision;
//   - for EVERY length: either building fails with an error (Insert or Seal), or the sealed
//     index returns for both keys exactly the values inserted with them. An index that was
//     sealed without error but loses or corrupts an entry is a violation, whatever the length.
func VerifC04LegacyKeyLen() {
	sup, unsup := verifC04KeyLens()
	lens := append(append([]int{}, sup...), unsup...)
	li := verifChoice("keyLen", len(lens))
	n := lens[li]
	supported := li < len(sup)
	verifC04HashRange = 2
	keys := [][]byte{verifC04LongKey(n), {0x22, 0x33}}
	fileSize := uint64(0)
	vals := [][36]byte{verifC04Val(fileSize), verifC04Val(fileSize)}
	order := []int{0, 1}
	if verifChoice("order", 2) == 1 {
		order = []int{1, 0} // the long key is the last tuple of the spill file
	}
	declared := []uint{1, 10001}[verifChoice("declared", 2)]
	path := verifTempPath("keylen.idx")
	err := verifC04LegacyBuild(path, declared, fileSize, keys, vals, order)
	if err != nil {
		if supported {
			verifAssert(errors.Is(err, ErrCollision), "C04.legacy36.keylen: a key of a supported length (<= 65535 bytes) was refused")
			verifAssert(verifC04AllNoncesCollide(uint32((declared+9999)/10000), keys) == 1, "C04.legacy36.keylen: ErrCollision although a nonce within the attempt bound separates the keys")
			verifReach("mining-failed")
		} else {
			verifReach("refused")
		}
		verifReach("end")
		return
	}
	f, err := os.Open(path)
	verifAssert(err == nil, "C04.legacy36.keylen: reopen")
	db, err := Open(f)
	verifAssert(err == nil, "C04.legacy36.keylen: Open failed on an index that was sealed without error")
	for i := range keys {
		got, err := db.Lookup(keys[i])
		verifAssert(err == nil, "C04.legacy36.keylen: building succeeded but an inserted key is not found (entry lost)")
		verifAssert(got == vals[i], "C04.legacy36.keylen: building succeeded but an inserted key is found with another value")
	}
	if supported {
		verifReach("sealed")
	} else {
		verifReach("sealed-unsupported-length")
	}
	verifReach("end")
}
