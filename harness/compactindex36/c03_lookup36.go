//go:build verif

package compactindex36

import (
	"bytes"
	"errors"
)

// C03.lookup36 — characterisation of the keyless index (premise of C03.block/tx/gsfa):
// DB.Lookup(q) for a key q that was never inserted returns the value stored for key j
// exactly when q falls into j's bucket and the masked (24-bit) per-bucket hash of q equals the
// stored hash of j; otherwise it returns ErrNotFound. It never returns a value of an entry with a
// different hash, never a mix of two entries, and never another error.
//
// Real code: DB.Lookup, DB.LookupBucket, DB.GetBucket, BucketHeader.readFrom/Load, Bucket.Lookup,
// BucketHeader.Hash, Bucket.loadEntry, unmarshalEntry, uintLe, searchEytzinger, and (for the layout
// of the file) BucketHeader.Store, marshalEntry, putUintLe and the builder's eytzinger().
// Cut: EntryHash64 and Header.BucketHash (xxhash) are uninterpreted: a table indexed by the first
// key byte (every key of the harness has a distinct first byte).

var verifC03d36Hash [16]uint64 // EntryHash64 of the key whose first byte is i
var verifC03d36Bucket [16]uint // Header.BucketHash of the key whose first byte is i

// model of EntryHash64 (the real one is renamed to verifOrig_EntryHash64)
func EntryHash64(prefix uint32, key []byte) uint64 {
	return verifC03d36Hash[key[0]]
}

// model of (*Header).BucketHash (the real one is renamed)
func (h *Header) BucketHash(key []byte) uint {
	return verifC03d36Bucket[key[0]]
}

func verifC03d36B2U(b bool) uint64 { return verifIteU64(b, 1, 0) }

func VerifC03Lookup36() {
	maxN := verifParam("N", 4)
	const V = 36                                                  // fixed value size of this format
	nb := 1 + verifChoice("buckets", verifParam("maxbuckets", 2)) // number of buckets 1..2
	n := verifChoice("n", maxN+1)                                 // entries in the queried bucket: 0..N
	const mask = uint64(1)<<24 - 1

	// stored keys 0..n-1 live in bucket 0; a second bucket (if any) holds one more key (index n+1)
	hs := make([]uint64, n)
	vals := make([][36]byte, n)
	entries := make([]Entry, n)
	for j := 0; j < n; j++ {
		H := verifU64("H") // full 64-bit hash of stored key j
		verifC03d36Hash[j] = H
		verifC03d36Bucket[j] = 0
		hs[j] = H & mask
		if j > 0 {
			verifAssume(hs[j-1] < hs[j]) // the builder mines a collision-free domain and sorts
		}
		copy(vals[j][:], verifBytes("val", V))
		entries[j] = Entry{Hash: hs[j], Value: vals[j]}
	}
	laid := make([]Entry, n)
	eytzinger(entries, laid, 0, 1) // the builder's own layout function

	// file image: [header padding][bucket headers][entries of bucket 0][entries of bucket 1]
	const hdrSize = headerSize
	stride := 3 + V
	file := make([]byte, hdrSize+nb*bucketHdrLen+(n+1)*stride)
	db := &DB{Header: Header{FileSize: 1 << 30, NumBuckets: uint32(nb)}, Stream: bytes.NewReader(file)}
	desc := BucketDescriptor{Stride: uint8(stride), OffsetWidth: uint8(V)}
	desc.HashLen = 3
	off0 := hdrSize + nb*bucketHdrLen
	for i, e := range laid {
		desc.marshalEntry(file[off0+i*stride:off0+(i+1)*stride], e)
	}
	var hb [bucketHdrLen]byte
	bh := BucketHeader{HashDomain: 7, NumEntries: uint32(n), HashLen: 3, FileOffset: uint64(off0)}
	bh.Store(&hb)
	copy(file[hdrSize:], hb[:])
	var otherVal [36]byte
	var otherH uint64
	if nb == 2 {
		otherH = verifU64("Hother")
		copy(otherVal[:], verifBytes("valother", V))
		verifC03d36Hash[n+1] = otherH
		verifC03d36Bucket[n+1] = 1
		off1 := off0 + n*stride
		desc.marshalEntry(file[off1:off1+stride], Entry{Hash: otherH & mask, Value: otherVal})
		bh1 := BucketHeader{HashDomain: 9, NumEntries: 1, HashLen: 3, FileOffset: uint64(off1)}
		bh1.Store(&hb)
		copy(file[hdrSize+bucketHdrLen:], hb[:])
	}

	// the absent key: arbitrary hash, arbitrary bucket
	q := []byte{byte(n), 0xAA, 0xBB}
	Hq := verifU64("Hq")
	verifC03d36Hash[n] = Hq
	qb := uint(0)
	if nb == 2 {
		qb = uint(verifChoice("qbucket", 2))
	}
	verifC03d36Bucket[n] = qb

	got, err := db.Lookup(q)

	if qb == 0 {
		hit := uint64(0)
		for j := 0; j < n; j++ {
			hit |= verifC03d36B2U(Hq&mask == hs[j])
		}
		if err != nil {
			verifAssert(errors.Is(err, ErrNotFound), "C03.lookup36: absent key yields an error other than ErrNotFound")
			verifAssert(hit == 0, "C03.lookup36: ErrNotFound although the masked hash equals a stored hash")
		} else {
			verifAssert(hit == 1, "C03.lookup36: a value is returned although no stored entry has the masked hash of the key")
			for j := 0; j < n; j++ {
				m := verifC03d36B2U(Hq&mask == hs[j])
				eq := verifC03d36B2U(got == vals[j])
				verifAssert(m&^eq == 0, "C03.lookup36: returned value is not the value of the entry with the equal hash")
			}
		}
	} else {
		m := Hq&mask == otherH&mask
		if err != nil {
			verifAssert(errors.Is(err, ErrNotFound), "C03.lookup36: absent key yields an error other than ErrNotFound")
			verifAssert(!m, "C03.lookup36: ErrNotFound although the masked hash equals the stored hash (bucket 1)")
		} else {
			verifAssert(m, "C03.lookup36: value returned from bucket 1 without hash match")
			verifAssert(got == otherVal, "C03.lookup36: value is not the one stored in the key's own bucket")
		}
	}
	verifReach("end")
}
