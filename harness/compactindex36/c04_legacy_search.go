//go:build verif

package compactindex36

import (
	"bytes"
	"errors"
	"os"
)

// C04.legacy36.search — per-bucket lemma for the legacy format compactindex36: n entries with arbitrary
// pairwise distinct 24-bit hashes (inserted in several orders) and arbitrary values, laid out by
// the real sortWithCompare/eytzinger (with hashBucket's three-way comparator) + marshalEntry and
// read back through BucketHeader.readFrom + Bucket.loadEntry/unmarshalEntry + searchEytzinger
// over an io.SectionReader: a lookup of ANY 24-bit hash returns the value stored with it, or
// ErrNotFound if it is not stored; the bytes do not depend on the insertion order.
func VerifC04LegacySearch() {
	nmin, nmax := verifParam("nmin", 1), verifParam("nmax", 8)
	n := nmin + verifChoice("n", nmax-nmin+1)
	fileSize := verifC04FileSize()
	perm := verifC04Perm(n, verifChoice("order", verifC04NumPerms(n, verifParam("orders", 3))))
	h := make([]uint64, n)
	vals := make([][36]byte, n)
	for i := range h {
		h[i] = uint64(verifU32("hash"))
		verifAssume(h[i] < 1<<24)
		for j := 0; j < i; j++ {
			verifAssume(h[j] < h[i])
		}
		vals[i] = verifC04Val(fileSize)
	}
	write := func(path string, order []int) *os.File {
		entries := make([]Entry, n)
		for k, i := range order {
			entries[k] = Entry{Hash: h[i], Value: vals[i]}
		}
		sortWithCompare(entries, func(i, j int) int {
			if entries[i].Hash < entries[j].Hash {
				return -1
			} else if entries[i].Hash > entries[j].Hash {
				return 1
			}
			return 0
		})
		f, err := os.OpenFile(path, os.O_CREATE|os.O_RDWR|os.O_TRUNC, 0o666)
		verifAssert(err == nil, "C04.legacy36.search: create")
		desc := BucketDescriptor{
			BucketHeader: BucketHeader{HashDomain: 7, NumEntries: uint32(n), HashLen: 3, FileOffset: uint64(headerSize + bucketHdrLen)},
			Stride:      3 + verifC04Width(fileSize),
			OffsetWidth: verifC04Width(fileSize),
		}
		_, err = f.Write(make([]byte, headerSize+bucketHdrLen))
		verifAssert(err == nil, "C04.legacy36.search: write")
		buf := make([]byte, desc.Stride)
		for _, e := range entries {
			desc.marshalEntry(buf, e)
			_, err = f.Write(buf)
			verifAssert(err == nil, "C04.legacy36.search: write")
		}
		verifAssert(desc.BucketHeader.writeTo(f, 0) == nil, "C04.legacy36.search: bucket header write")
		return f
	}
	p1, p2 := verifTempPath("b1.idx"), verifTempPath("b2.idx")
	f := write(p1, perm)
	id := make([]int, n)
	for i := range id {
		id[i] = i
	}
	write(p2, id)
	img := verifMemFileBytes(p1)
	verifAssert(len(img) == headerSize+bucketHdrLen+n*(3+int(verifC04Width(fileSize))), "C04.legacy36.search: file size")
	verifAssert(bytes.Equal(img, verifMemFileBytes(p2)), "C04.legacy36.search: bucket bytes depend on the insertion order")

	db := &DB{Header: Header{FileSize: fileSize, NumBuckets: 1}, Stream: f}
	b, err := db.GetBucket(0)
	verifAssert(err == nil, "C04.legacy36.search: GetBucket")
	verifAssert(b.NumEntries == uint32(n) && b.HashLen == 3 && b.HashDomain == 7, "C04.legacy36.search: bucket header round trip")
	x := uint64(verifU32("x"))
	verifAssume(x < 1<<24)
	got, err := searchEytzinger(0, int(b.NumEntries), x, b.loadEntry)
	var member uint64
	for i := range h {
		member |= verifIteU64(x == h[i], 1, 0)
	}
	if err != nil {
		verifAssert(errors.Is(err, ErrNotFound), "C04.legacy36.search: error other than ErrNotFound")
		verifAssert(member == 0, "C04.legacy36.search: stored hash not found (entry lost)")
		verifReach("notfound")
	} else {
		verifAssert(member == 1, "C04.legacy36.search: absent hash reported as found")
		var bad uint64
		for i := range h {
			bad |= verifIteU64(x == h[i], 1, 0) &^ verifIteU64(got == vals[i], 1, 0)
		}
		verifAssert(bad == 0, "C04.legacy36.search: lookup returned a value other than the one inserted with the hash")
		verifReach("found")
	}
	verifReach("end")
}

