//go:build verif

package compactindex36

import "os"

// ---- models (see harness/compactindexsized/c04_models.go for the rationale) ----

func verifC04KeyID(key []byte) uint64 {
	n := len(key)
	id := uint64(n) << 32
	for i := 0; i < 4 && i < n; i++ {
		id |= uint64(key[i]) << (8 * i)
	}
	if n <= 4 {
		return id
	}
	// checksum over bytes 4..67, the middle byte and the last 64 bytes (harness keys are zero elsewhere)
	var sum uint64
	for i := 4; i < n && i < 68; i++ {
		sum += uint64(i+1) * uint64(key[i])
	}
	if n/2 >= 68 {
		sum += uint64(n/2+1) * uint64(key[n/2])
	}
	for i := n - 64; i < n; i++ {
		if i >= 68 && i != n/2 {
			sum += uint64(i+1) * uint64(key[i])
		}
	}
	return id | (sum%31+1)<<50
}

var verifC04HashRange uint64

// EntryHash64 (model; real one renamed verifOrig_EntryHash64): arbitrary function of (prefix, key),
// low 24 bits restricted to [0, verifC04HashRange) when that is non-zero.
func EntryHash64(prefix uint32, key []byte) uint64 {
	verifAssert(prefix < 1<<9, "C04 model: hash prefix (nonce) >= 512")
	v := verifUF64("entryhash", uint64(prefix)<<55^verifC04KeyID(key))
	if verifC04HashRange != 0 {
		verifAssume(v&0xffffff < verifC04HashRange)
	}
	return v
}

// verifC04Sum64 replaces xxhash.Sum64 in Header.BucketHash (rewrite).
func verifC04Sum64(key []byte) uint64 { return verifUF64("sum64", verifC04KeyID(key)) }

// fallocate (model; linux syscall renamed away): the portable implementation of the repo.
func fallocate(f *os.File, offset int64, size int64) error { return fake_fallocate(f, offset, size) }

func verifC04Perm(n, which int) []int {
	p := make([]int, n)
	for i := range p {
		p[i] = i
	}
	if n <= 3 {
		all := [][]int{{0, 1, 2}, {0, 2, 1}, {1, 0, 2}, {1, 2, 0}, {2, 0, 1}, {2, 1, 0}}
		if n == 3 {
			return all[which%6]
		}
		if n == 2 && which%2 == 1 {
			return []int{1, 0}
		}
		return p
	}
	switch which {
	case 1:
		for i := range p {
			p[i] = n - 1 - i
		}
	case 2:
		for i := range p {
			p[i] = (i + n/2) % n
		}
	}
	return p
}

func verifC04NumPerms(n, want int) int {
	switch {
	case n <= 1:
		return 1
	case n == 2:
		return 2
	case n == 3:
		return 6
	}
	return want
}

func verifC04Key(i int) []byte {
	k := make([]byte, i+1)
	k[0] = byte(i + 1)
	return k
}

// values of the 36-byte format: arbitrary 36-byte arrays (the file-size argument is unused).
func verifC04FileSize() uint64 { return 0 }

func verifC04Width(fileSize uint64) uint8 { return valueLength() }

func verifC04Val(fileSize uint64) [36]byte {
	var v [36]byte
	copy(v[:], verifBytes("value", 36))
	return v
}



// verifC04EffFileSize is the file size NewBuilder records for a declared target file size.
func verifC04EffFileSize(fileSize uint64) uint64 { return verifIteU64(fileSize == 0, 1<<64-1, fileSize) }
