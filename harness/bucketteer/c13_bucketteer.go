//go:build verif

package bucketteer

// Injected into bucketteer (current sig-exists format, version 2) AND deprecated/bucketteer
// (version 1): both are `package bucketteer`; the format-specific header builder lives in
// c13_cur.go / c13_dep.go.
//
// C13 — sig-exists index: a file cut short at ANY byte offset either fails NewReader, or answers
// Has(sig) for a stored signature with true, or fails Has with an error. It never answers a
// stored signature with (false, nil).
//
// Storage model: verifC13File (see compactindexsized/c13_cidx.go): io.ReaderAt over the complete
// image with a symbolic visible length. Cut: Hash (xxhash) = table indexed by sig[2].

import (
	"encoding/binary"
	"errors"
	"io"
)

type verifC13File struct {
	data []byte
	t    int64 // visible length (symbolic for the truncated view)
	mmap bool
}

var verifC13ErrOffset = errors.New("mmap: invalid ReadAt offset")

func (f *verifC13File) ReadAt(p []byte, off int64) (int, error) {
	if off < 0 {
		return 0, verifC13ErrOffset
	}
	if off+int64(len(p)) <= f.t { // whole request inside the visible part
		copy(p, f.data[off:])
		return len(p), nil
	}
	if f.mmap && off > f.t {
		return 0, verifC13ErrOffset
	}
	avail := f.t - off
	n := int64(verifIteU64(avail > 0, uint64(avail), 0))
	for i := range p {
		if j := off + int64(i); j < int64(len(f.data)) {
			p[i] = byte(verifIteU64(int64(i) < n, uint64(f.data[j]), uint64(p[i])))
		}
	}
	return int(n), io.EOF
}

var verifC13H [16]uint64

// Hash: model of the real Hash (renamed verifOrig_Hash): arbitrary value per stored signature.
func Hash(sig [64]byte) uint64 { return verifC13H[sig[2]] }

var verifC13PrefixA = [2]byte{0x01, 0x00}
var verifC13PrefixB = [2]byte{0xff, 0xff}

// verifC13Eytzinger: the eytzinger (BFS) order of a sorted slice - harness copy of the layout the
// format defines (the writer's own function is exercised by C05).
func verifC13Eytzinger(in, out []uint64, i, k int) int {
	if k <= len(in) {
		i = verifC13Eytzinger(in, out, i, 2*k)
		out[k-1] = in[i]
		i++
		i = verifC13Eytzinger(in, out, i, 2*k+1)
	}
	return i
}

// verifC13Content: bucket A (n strictly increasing arbitrary hashes, eytzinger order) then bucket B (one hash); returns content bytes, the two bucket offsets (relative to
// the content area) and the stored signatures.
func verifC13Content(n int) (content []byte, offA, offB uint64, sigs [][64]byte) {
	hs := make([]uint64, n)
	for i := range hs {
		hs[i] = verifU64("h")
		if i > 0 {
			verifAssume(hs[i-1] < hs[i])
		}
		var s [64]byte
		s[0], s[1], s[2] = verifC13PrefixA[0], verifC13PrefixA[1], byte(i)
		verifC13H[i] = hs[i]
		sigs = append(sigs, s)
	}
	laid := make([]uint64, n)
	verifC13Eytzinger(hs, laid, 0, 1)
	put := func(count int, hashes []uint64) {
		var b [8]byte
		binary.LittleEndian.PutUint32(b[:4], uint32(count))
		content = append(content, b[:4]...)
		for _, h := range hashes {
			binary.LittleEndian.PutUint64(b[:], h)
			content = append(content, b[:]...)
		}
	}
	offA = 0
	put(n, laid)
	offB = uint64(len(content))
	hb := verifU64("h")
	verifC13H[n] = hb
	var s [64]byte
	s[0], s[1], s[2] = verifC13PrefixB[0], verifC13PrefixB[1], byte(n)
	sigs = append(sigs, s)
	put(1, []uint64{hb})
	return
}

func VerifC13Bucketteer() {
	minN := verifParam("minN", 1)
	n := minN + verifChoice("n", verifParam("N", 3)-minN+1)
	content, offA, offB, sigs := verifC13Content(n)
	hdr := verifC13Header(offA, offB)
	img := append(append([]byte(nil), hdr...), content...)
	N := int64(len(img))
	q := sigs[verifChoice("key", len(sigs))]

	full, err := NewReader(&verifC13File{data: img, t: N})
	verifAssert(err == nil, "C13.bucketteer: the complete file does not open")
	ok, err := full.Has(q)
	verifAssert(err == nil && ok, "C13.bucketteer: the complete file does not report a stored signature")

	T := int64(verifU16("T"))
	verifAssume(T < N)
	r, err := NewReader(&verifC13File{data: img, t: T, mmap: verifChoice("reader", verifParam("readers", 2)) == 1})
	if err != nil {
		verifAssert(r == nil, "C13.bucketteer: NewReader returned both a reader and an error")
		verifReach("open-error")
		verifReach("end")
		return
	}
	verifC13CheckMeta(r)
	ok, err = r.Has(q)
	if err != nil {
		verifAssert(!ok, "C13.bucketteer: Has returned true together with an error")
		verifReach("has-error")
	} else {
		verifAssert(ok, "C13.bucketteer: truncated sig-exists index reports a stored signature as absent")
		verifReach("has-true")
	}
	verifReach("end")
}
