//go:build verif

package bucketteer

import (
	"encoding/binary"

	"github.com/rpcpool/yellowstone-faithful/indexmeta"
)

// verifC13Header: current format header as the writer lays it out (u32 size, magic, u64
// version, metadata, u64 count, (prefix, u64 offset) pairs) with TWO prefixes instead of the
// writer's 65 536 (readHeader accepts any count; prefixes without a pair stay "absent").
func verifC13Header(offA, offB uint64) []byte {
	var meta indexmeta.Meta
	meta.Add([]byte("epoch"), []byte{7, 0, 0, 0, 0, 0, 0, 0})
	mb, _ := meta.MarshalBinary()
	var body []byte
	mg := Magic()
	body = append(body, mg[:]...)
	body = binary.LittleEndian.AppendUint64(body, Version)
	body = append(body, mb...)
	body = binary.LittleEndian.AppendUint64(body, 2)
	body = append(body, verifC13PrefixA[:]...)
	body = binary.LittleEndian.AppendUint64(body, offA)
	body = append(body, verifC13PrefixB[:]...)
	body = binary.LittleEndian.AppendUint64(body, offB)
	return append(binary.LittleEndian.AppendUint32(nil, uint32(len(body))), body...)
}

func verifC13CheckMeta(r *Reader) {
	e, ok := r.Meta().GetUint64([]byte("epoch"))
	verifAssert(ok && e == 7, "C13.bucketteer: truncated index opens with different metadata")
}
