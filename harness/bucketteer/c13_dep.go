//go:build verif

package bucketteer

import "encoding/binary"

// verifC13Header: legacy (version 1) header as the legacy writer lays it out: u32 size, magic, u64
// version, u64 number of metadata pairs, (borsh string key, borsh string value) pairs, u64 number
// of prefixes, (prefix, u64 offset) pairs sorted by prefix.
func verifC13Header(offA, offB uint64) []byte {
	str := func(b []byte, s string) []byte {
		b = binary.LittleEndian.AppendUint32(b, uint32(len(s)))
		return append(b, s...)
	}
	mg := Magic()
	var body []byte
	body = append(body, mg[:]...)
	body = binary.LittleEndian.AppendUint64(body, Version)
	body = binary.LittleEndian.AppendUint64(body, 1)
	body = str(str(body, "epoch"), "7")
	body = binary.LittleEndian.AppendUint64(body, 2)
	body = append(body, verifC13PrefixA[:]...) // 0x0100 sorts before 0xffff
	body = binary.LittleEndian.AppendUint64(body, offA)
	body = append(body, verifC13PrefixB[:]...)
	body = binary.LittleEndian.AppendUint64(body, offB)
	return append(binary.LittleEndian.AppendUint32(nil, uint32(len(body))), body...)
}

// the legacy readHeader drops the metadata (returns a nil map): nothing to compare
func verifC13CheckMeta(r *Reader) {}
