//go:build verif

package bucketteer

// verifC13Header: legacy header produced by the real createHeader of deprecated/bucketteer.
func verifC13Header(offA, offB uint64) []byte {
	m := map[[2]byte]uint64{verifC13PrefixA: offA, verifC13PrefixB: offB}
	draft, err := createHeader(_Magic, Version, 0, map[string]string{"epoch": "7"}, m)
	verifAssert(err == nil, "C13.bucketteer.dep: createHeader failed")
	hdr, err := createHeader(_Magic, Version, uint32(len(draft)-4), map[string]string{"epoch": "7"}, m)
	verifAssert(err == nil, "C13.bucketteer.dep: createHeader failed")
	return hdr
}

// the legacy readHeader drops the metadata (returns a nil map): nothing to compare
func verifC13CheckMeta(r *Reader) {}
