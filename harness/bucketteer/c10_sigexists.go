//go:build verif

package bucketteer

import (
	"bufio"
	"bytes"

	"github.com/ipfs/go-cid"
	"github.com/rpcpool/yellowstone-faithful/indexmeta"
)

func c10RootBytes(i int) []byte {
	b := []byte{0x01, 0x71, 0x12, 0x20}
	for j := 0; j < 32; j++ {
		b = append(b, byte(0xA0+0x10*i+j%7))
	}
	return b
}

var c10Networks = []string{"mainnet", "testnet", "devnet"}

// VerifC10SigExists — identity metadata of the sig-exists index: what the builder records
// (cmd-x-index-sig-exists.go / cmd-x-index-all.go: AddUint64(epoch), AddCid(rootCid),
// AddString(network), Writer.Seal(meta) -> seal() -> createHeader) is what the loader reads
// (NewReader -> readHeader, Meta().GetUint64 / GetCid / GetString as in NewEpochFromConfig).
func VerifC10SigExists() {
	epoch := verifU64("epoch")
	ri := verifChoice("root", verifParam("roots", 2))
	ni := verifChoice("network", verifParam("networks", len(c10Networks)))
	root, err := cid.Cast(c10RootBytes(ri))
	verifAssert(err == nil, "C10.sigexists: harness CID")

	var meta indexmeta.Meta
	verifAssert(meta.AddUint64(indexmeta.MetadataKey_Epoch, epoch) == nil, "C10.sigexists: AddUint64")
	verifAssert(meta.AddCid(indexmeta.MetadataKey_RootCid, root) == nil, "C10.sigexists: AddCid")
	verifAssert(meta.AddString(indexmeta.MetadataKey_Network, c10Networks[ni]) == nil, "C10.sigexists: AddString")

	var img []byte
	if verifParam("fullseal", 1) == 1 {
		// the writer's sealing step with no signatures put: draft header, 65536 empty buckets, final header
		var file bytes.Buffer
		out := bufio.NewWriter(&file)
		var p2h prefixToHashes
		finalHeader, total, err := seal(out, &p2h, meta)
		verifAssert(err == nil, "C10.sigexists: seal failed")
		img = file.Bytes()
		verifAssert(int64(len(img)) == total, "C10.sigexists: seal size")
		copy(img, finalHeader) // Writer.Seal: overwriteFileContentAt(destination, 0, newHeader)
	} else {
		// quick tier: only the two header constructions of seal() (draft with size 0, final with the
		// draft's size), no bucket area
		var p2o bucketToOffset
		draft, err := createHeader(_Magic, Version, 0, meta, p2o)
		verifAssert(err == nil, "C10.sigexists: createHeader failed")
		img, err = createHeader(_Magic, Version, uint32(len(draft)-4), meta, p2o)
		verifAssert(err == nil && len(img) == len(draft), "C10.sigexists: createHeader (final) failed")
	}

	r, err := NewReader(bytes.NewReader(img))
	verifAssert(err == nil, "C10.sigexists: the reader refuses the file the writer sealed")
	m := r.Meta()
	verifAssert(m != nil, "C10.sigexists: no metadata")
	e, ok := m.GetUint64(indexmeta.MetadataKey_Epoch)
	verifAssert(ok, "C10.sigexists: epoch entry lost")
	verifAssert(e == epoch, "C10.sigexists: epoch not read back unchanged")
	c, ok := m.GetCid(indexmeta.MetadataKey_RootCid)
	verifAssert(ok && c.Equals(root), "C10.sigexists: root CID not read back unchanged")
	s, ok := m.GetString(indexmeta.MetadataKey_Network)
	verifAssert(ok && s == c10Networks[ni], "C10.sigexists: network not read back unchanged")
	verifReach("end")
}
