//go:build verif

package bucketteer

// Shared by the current (bucketteer) and the legacy (deprecated/bucketteer) package: both are
// `package bucketteer` and carry their own copies of getCleanSet / sortWithCompare / eytzinger /
// searchEytzinger / readUint64Le, so this file is injected into either of them.

import (
	"encoding/binary"
	"io"
)

// Hash is the CUT of the real Hash (xxhash.Sum64 over the 64 signature bytes, not encodable):
// an arbitrary but fixed function of the signature. Harness signatures vary only in their first
// 8 bytes (2 prefix bytes + 6 identity bytes), so the uninterpreted function takes those.
// Signatures whose last byte is verifC05Concrete get a CONCRETE hash (5 + 3*identity, identity =
// bytes 2..7): used for large bucket populations and fixed put orders, where symbolic hashes
// would fork the sort model n! ways. Hash stays one deterministic function of the signature.
func Hash(sig [64]byte) uint64 {
	if sig[63] == verifC05Concrete {
		return 5 + 3*(binary.LittleEndian.Uint64(sig[:8])>>16)
	}
	return verifUF64("xxhash", binary.LittleEndian.Uint64(sig[:8]))
}

const verifC05Concrete = 0xC5

// verifC05ConcSig: signature under prefix p whose hash is the concrete value 5+3*id.
func verifC05ConcSig(p [2]byte, id uint64) [64]byte {
	var s [64]byte
	binary.LittleEndian.PutUint64(s[:8], id<<16)
	s[0], s[1] = p[0], p[1]
	s[63] = verifC05Concrete
	return s
}

// branch-free connectives under symgo (engine intrinsics, ext_C05.go); plain Go natively
func verifC05Or(a, b bool) bool  { return a || b }
func verifC05And(a, b bool) bool { return a && b }

// boundary prefixes: both byte orders of 1 and 0xff, zero, all ones, an asymmetric value
var verifC05Prefixes = [][2]byte{{0x00, 0x00}, {0x01, 0x00}, {0x00, 0x01}, {0xff, 0xff}, {0xff, 0x00}, {0x00, 0xff}, {0x12, 0x34}, {0x34, 0x12}}

// verifC05Sig: signature with a prefix chosen among the first np boundary prefixes and six
// arbitrary identity bytes (bytes 8..63 are zero).
func verifC05Sig(name string, np int) [64]byte {
	var s [64]byte
	p := verifC05Prefixes[verifChoice(name+".prefix", np)]
	s[0], s[1] = p[0], p[1]
	copy(s[2:8], verifBytes(name, 6))
	return s
}

// verifC05Hashes: n arbitrary 64-bit hashes; if ordered they are assumed strictly increasing
// (then the sort model never forks: the order of every pair is implied by the path condition).
func verifC05Hashes(n int, ordered bool) []uint64 {
	h := make([]uint64, n)
	for i := range h {
		h[i] = verifU64("h")
	}
	if ordered {
		for i := 1; i < n; i++ {
			verifAssume(h[i-1] < h[i])
		}
	}
	return h
}

// the three-way comparator of seal (harness copy; the real closure is exercised by C05.file.*)
func verifC05Cmp(e []uint64) func(i, j int) int {
	return func(i, j int) int {
		if e[i] < e[j] {
			return -1
		} else if e[i] > e[j] {
			return 1
		}
		return 0
	}
}

// verifC05RefLayout: REFERENCE definition of the on-disk order of a bucket (independent of the
// code under test): the strictly increasing hashes are the in-order traversal of the implicit
// complete binary tree stored breadth-first (node k has children 2k and 2k+1, 1-based).
func verifC05RefLayout(sorted []uint64) []uint64 {
	out := make([]uint64, len(sorted))
	next := 0
	var walk func(k int)
	walk = func(k int) {
		if k > len(sorted) {
			return
		}
		walk(2 * k)
		out[k-1] = sorted[next]
		next++
		walk(2*k + 1)
	}
	walk(1)
	return out
}

// verifC05RefBucket: reference serialisation of one bucket: u32 LE count, then u64 LE hashes in
// the reference layout.
func verifC05RefBucket(sorted []uint64) []byte {
	lay := verifC05RefLayout(sorted)
	out := make([]byte, 4+8*len(lay))
	binary.LittleEndian.PutUint32(out, uint32(len(lay)))
	for i, h := range lay {
		binary.LittleEndian.PutUint64(out[4+8*i:], h)
	}
	return out
}

// verifC05RA: array-backed io.ReaderAt (a second ReaderAt implementation besides *os.File / mmap)
type verifC05RA struct{ data []byte }

func (r *verifC05RA) ReadAt(p []byte, off int64) (int, error) {
	if off < 0 || off >= int64(len(r.data)) {
		return 0, io.EOF
	}
	n := copy(p, r.data[off:])
	if n < len(p) {
		return n, io.EOF
	}
	return n, nil
}
