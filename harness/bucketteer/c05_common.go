//go:build verif

package bucketteer

// Shared by the current (bucketteer) and the legacy (deprecated/bucketteer) package: both are
// `package bucketteer` and carry their own copies of getCleanSet / sortWithCompare / eytzinger /
// searchEytzinger / readUint64Le, so this file is injected into either of them.

import "encoding/binary"

// Hash is the CUT of the real Hash (xxhash.Sum64 over the 64 signature bytes, not encodable):
// an arbitrary but fixed function of the signature. Harness signatures vary only in their first
// 8 bytes (2 prefix bytes + 6 identity bytes), so the uninterpreted function takes those.
func Hash(sig [64]byte) uint64 {
	return verifUF64("xxhash", binary.LittleEndian.Uint64(sig[:8]))
}

func verifC05b2u(c bool) uint64 { return verifIteU64(c, 1, 0) }

// boundary prefixes: both byte orders of 1 and 0xff, zero, all ones, an asymmetric value
var verifC05Prefixes = [][2]byte{{0x00, 0x00}, {0x01, 0x00}, {0x00, 0x01}, {0xff, 0xff}, {0xff, 0x00}, {0x00, 0xff}, {0x12, 0x34}, {0x34, 0x12}}

// verifC05Sig: signature with a prefix chosen among the first np boundary prefixes and six
// arbitrary identity bytes (bytes 8..63 are zero).
func verifC05Sig(name string, np int) [64]byte {
	var s [64]byte
	p := verifC05Prefixes[verifChoice(name+".prefix", np)]
	s[0], s[1] = p[0], p[1]
	copy(s[2:8], verifBytes(name, 6))
	return s
}

// verifC05Hashes: n arbitrary 64-bit hashes; if ordered they are assumed strictly increasing
// (then the sort model never forks: the order of every pair is implied by the path condition).
func verifC05Hashes(n int, ordered bool) []uint64 {
	h := make([]uint64, n)
	for i := range h {
		h[i] = verifU64("h")
	}
	if ordered {
		for i := 1; i < n; i++ {
			verifAssume(h[i-1] < h[i])
		}
	}
	return h
}

// the three-way comparator of seal (harness copy; the real closure is exercised by C05.file.*)
func verifC05Cmp(e []uint64) func(i, j int) int {
	return func(i, j int) int {
		if e[i] < e[j] {
			return -1
		} else if e[i] > e[j] {
			return 1
		}
		return 0
	}
}

// C05.clean — getCleanSet returns a strictly increasing slice holding exactly the values of the
// input multiset (arbitrary order, duplicates allowed).
func VerifC05Clean() {
	n := verifChoice("n", verifParam("N", 4)+1)
	in := verifC05Hashes(n, false)
	orig := append([]uint64(nil), in...)
	out := getCleanSet(in)
	verifAssert(len(out) <= n && (n == 0 || len(out) >= 1), "C05.clean: output length out of range")
	for i := 1; i < len(out); i++ {
		verifAssert(out[i-1] < out[i], "C05.clean: output not strictly increasing")
	}
	for _, x := range orig { // no input value is lost
		var hit uint64
		for _, y := range out {
			hit |= verifC05b2u(x == y)
		}
		verifAssert(hit != 0, "C05.clean: an input hash is missing from the clean set (false negative)")
	}
	for _, y := range out { // nothing is invented
		var hit uint64
		for _, x := range orig {
			hit |= verifC05b2u(x == y)
		}
		verifAssert(hit != 0, "C05.clean: clean set holds a value that was never added")
	}
	verifReach("end")
}

// C05.search — the in-memory bucket pipeline of seal (getCleanSet, sortWithCompare with the
// three-way comparator, eytzinger) followed by the reader's searchEytzinger:
// for EVERY 64-bit x: found (nil error, returned value x) iff x is one of the added hashes,
// otherwise ErrNotFound. x ranges over all values, so "every added hash is found" is the
// x == h[i] instance.
func VerifC05Search() {
	n := verifChoice("n", verifParam("N", 16)+1)
	minN := verifParam("minN", 0)
	verifAssume(n >= minN)
	ordered := n > verifParam("perm", 4)
	h := verifC05Hashes(n, ordered)
	orig := append([]uint64(nil), h...)
	entries := getCleanSet(h)
	sortWithCompare(entries, verifC05Cmp(entries))
	reads := 0
	x := verifU64("x")
	got, err := searchEytzinger(0, len(entries), x, func(i int) (uint64, error) {
		reads++
		return entries[i], nil
	})
	var in uint64
	for _, y := range orig {
		in |= verifC05b2u(x == y)
	}
	if err == nil {
		verifAssert(got == x, "C05.search: search returned a value different from the wanted hash")
		verifAssert(in != 0, "C05.search: search found a hash that was never added")
		verifReach("found")
	} else {
		verifAssert(err == ErrNotFound, "C05.search: unexpected error")
		verifAssert(in == 0, "C05.search: an added hash is not found in its own bucket (false negative)")
		verifReach("notfound")
	}
	// the descent reads at most floor(log2 n)+1 elements
	lim := 0
	for m := len(entries); m > 0; m >>= 1 {
		lim++
	}
	verifAssert(reads <= lim, "C05.search: more reads than the tree depth")
	verifReach("end")
}
