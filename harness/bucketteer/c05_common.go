//go:build verif

package bucketteer

// Shared by the current (bucketteer) and the legacy (deprecated/bucketteer) package: both are
// `package bucketteer` and carry their own copies of getCleanSet / sortWithCompare / eytzinger /
// searchEytzinger / readUint64Le, so this file is injected into either of them.

import "encoding/binary"

// Hash is the CUT of the real Hash (xxhash.Sum64 over the 64 signature bytes, not encodable):
// an arbitrary but fixed function of the signature. Harness signatures vary only in their first
// 8 bytes (2 prefix bytes + 6 identity bytes), so the uninterpreted function takes those.
func Hash(sig [64]byte) uint64 {
	return verifUF64("xxhash", binary.LittleEndian.Uint64(sig[:8]))
}

// branch-free connectives under symgo (engine intrinsics, ext_C05.go); plain Go natively
func verifC05Or(a, b bool) bool  { return a || b }
func verifC05And(a, b bool) bool { return a && b }

// boundary prefixes: both byte orders of 1 and 0xff, zero, all ones, an asymmetric value
var verifC05Prefixes = [][2]byte{{0x00, 0x00}, {0x01, 0x00}, {0x00, 0x01}, {0xff, 0xff}, {0xff, 0x00}, {0x00, 0xff}, {0x12, 0x34}, {0x34, 0x12}}

// verifC05Sig: signature with a prefix chosen among the first np boundary prefixes and six
// arbitrary identity bytes (bytes 8..63 are zero).
func verifC05Sig(name string, np int) [64]byte {
	var s [64]byte
	p := verifC05Prefixes[verifChoice(name+".prefix", np)]
	s[0], s[1] = p[0], p[1]
	copy(s[2:8], verifBytes(name, 6))
	return s
}

// verifC05Hashes: n arbitrary 64-bit hashes; if ordered they are assumed strictly increasing
// (then the sort model never forks: the order of every pair is implied by the path condition).
func verifC05Hashes(n int, ordered bool) []uint64 {
	h := make([]uint64, n)
	for i := range h {
		h[i] = verifU64("h")
	}
	if ordered {
		for i := 1; i < n; i++ {
			verifAssume(h[i-1] < h[i])
		}
	}
	return h
}

// the three-way comparator of seal (harness copy; the real closure is exercised by C05.file.*)
func verifC05Cmp(e []uint64) func(i, j int) int {
	return func(i, j int) int {
		if e[i] < e[j] {
			return -1
		} else if e[i] > e[j] {
			return 1
		}
		return 0
	}
}

// C05.clean — getCleanSet returns a strictly increasing slice holding exactly the values of the
// input multiset (arbitrary order, duplicates allowed).
func VerifC05Clean() {
	n := verifChoice("n", verifParam("N", 4)+1)
	in := verifC05Hashes(n, false)
	orig := append([]uint64(nil), in...)
	out := getCleanSet(in)
	verifAssert(len(out) <= n && (n == 0 || len(out) >= 1), "C05.clean: output length out of range")
	for i := 1; i < len(out); i++ {
		verifAssert(out[i-1] < out[i], "C05.clean: output not strictly increasing")
	}
	for _, x := range orig { // no input value is lost
		hit := false
		for _, y := range out {
			hit = verifC05Or(hit, x == y)
		}
		verifAssert(hit, "C05.clean: an input hash is missing from the clean set (false negative)")
	}
	for _, y := range out { // nothing is invented
		hit := false
		for _, x := range orig {
			hit = verifC05Or(hit, x == y)
		}
		verifAssert(hit, "C05.clean: clean set holds a value that was never added")
	}
	verifReach("end")
}

// verifC05Pops: bucket populations for the concrete-key mode: every n in 0..N plus the
// 2^k-1, 2^k, 2^k+1 boundaries up to big.
func verifC05Pops(N, big int) []int {
	var out []int
	for n := 0; n <= N; n++ {
		out = append(out, n)
	}
	for k := 64; k <= big; k *= 2 {
		for _, n := range []int{k - 1, k, k + 1} {
			if n > N {
				out = append(out, n)
			}
		}
	}
	return out
}

// verifC05ConcreteKeys: n distinct concrete hashes 5, 8, 11, ... fed in the order (1,0,3,2,...)
// plus one duplicate, so that the real dedup and both sorts have work to do but nothing forks.
func verifC05ConcreteKeys(n int) []uint64 {
	h := make([]uint64, 0, n+1)
	for i := 0; i < n; i++ {
		j := i ^ 1
		if j >= n {
			j = i
		}
		h = append(h, uint64(3*j+5))
	}
	if n > 0 {
		h = append(h, h[n/2])
	}
	return h
}

// C05.search.* — the in-memory bucket pipeline of seal (getCleanSet, sortWithCompare with the
// three-way comparator, eytzinger) followed by the reader's searchEytzinger:
// for EVERY 64-bit x: found (nil error, returned value x) iff x is one of the added hashes,
// otherwise ErrNotFound. x ranges over all values, so "every added hash is found" is the
// x == h[i] instance.
// mode 0: the hashes are symbolic (n <= perm: arbitrary order with duplicates; larger n: assumed
// strictly increasing). mode 1: concrete hashes, population n up to thousands; the code under
// test only compares hashes, so x symbolic covers each of the 2n+1 order positions of x.
func VerifC05Search() {
	var h []uint64
	if verifParam("conc", 0) == 1 {
		pops := verifC05Pops(verifParam("N", 16), verifParam("big", 0))
		h = verifC05ConcreteKeys(pops[verifChoice("n", len(pops))])
	} else {
		minN := verifParam("minN", 0)
		n := minN + verifChoice("n", verifParam("N", 8)-minN+1)
		h = verifC05Hashes(n, n > verifParam("perm", 3))
	}
	orig := append([]uint64(nil), h...)
	entries := getCleanSet(h)
	sortWithCompare(entries, verifC05Cmp(entries))
	x := verifU64("x")
	got, err := searchEytzinger(0, len(entries), x, func(i int) (uint64, error) {
		return entries[i], nil
	})
	in := false
	for _, y := range orig {
		in = verifC05Or(in, x == y)
	}
	if err == nil {
		verifAssert(got == x, "C05.search: search returned a value different from the wanted hash")
		verifAssert(in, "C05.search: search found a hash that was never added")
		verifReach("found")
	} else {
		verifAssert(err == ErrNotFound, "C05.search: unexpected error")
		verifAssert(!in, "C05.search: an added hash is not found in its own bucket (false negative)")
		verifReach("notfound")
	}
	verifReach("end")
}
