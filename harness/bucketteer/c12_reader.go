//go:build verif

package bucketteer

import (
	"bytes"
	"encoding/binary"
)

// C12.bucketteer — NewReader (readHeaderSize/readHeader) and Reader.Has on a signature-existence
// file made of arbitrary bytes: error or answer; no panic, no allocation out of proportion.
// Layout: headerSize u32 | magic(8) version u64 meta numPrefixes u64 (prefix u16, offset u64)* |
// buckets: numHashes u32, hashes u64*.
// Symbolic: header size, version, numPrefixes, bucket offsets, every content byte, the
// key hash. Structure-aware candidates: the magic (right / one byte off), the 2-byte prefixes (they index a 65536-entry table and
// are concretised). The metadata section is empty (arbitrary metadata is C12.meta.decode).

var verifC12SigHash uint64

// model of Hash (xxhash of the signature; the real one is renamed to verifOrig_Hash)
func Hash(sig [64]byte) uint64 { return verifC12SigHash }

func VerifC12Bucketteer() {
	K := verifParam("prefixes", 1)
	C := verifParam("content", 20)
	limit := verifParam("alloc", 1<<20) + 2*8*65536 // 1 MiB + the two fixed 512 KiB prefix tables
	verifAllocLimit(int64(limit))
	H := 8 + 8 + 1 + 8 + 10*K
	lens := []int{4 + H + C, 0, 3, 4, 4 + 16, 4 + H - 1}
	n := lens[verifChoice("len", verifParam("lens", len(lens)))]
	data := verifBytes("file", n)
	prefCands := [][2]byte{{0, 0}, {1, 0}, {0xff, 0xff}}
	if n >= 4 {
		hs := binary.LittleEndian.Uint32(data[:4])
		verifAssume(hs <= uint32(H+4) || hs > uint32(limit))
		// known defect: the header is allocated from the size field before anything is checked
		verifKnownFinding("C12-bucketteer-header-alloc", hs > uint32(limit))
	}
	if n >= 4+8 {
		// the magic is printed with string(magicBuf) in the error path (strings are concrete
		// in the engine): correct magic, or one byte off
		copy(data[4:12], _Magic[:])
		if verifChoice("magic", 2) == 1 {
			data[4+7] ^= 1
		}
	}
	if n >= 4+17 {
		verifAssume(data[4+16] == 0) // no metadata pairs
	}
	if n >= 4+H {
		for k := 0; k < K; k++ {
			p := prefCands[verifChoice("prefix", verifParam("prefcands", len(prefCands)))]
			copy(data[4+25+10*k:], p[:])
		}
	}
	r, err := NewReader(bytes.NewReader(data))
	if err != nil {
		verifAssert(r == nil, "C12.bucketteer: NewReader returned both a reader and an error")
		verifReach("open-error")
		verifReach("end")
		return
	}
	verifAssert(r != nil && r.prefixToOffset != nil && r.contentReader != nil && r.meta != nil, "C12.bucketteer: NewReader returned an incomplete reader")
	_ = r.Meta()
	var sig [64]byte
	p := prefCands[verifChoice("sigprefix", verifParam("prefcands", len(prefCands)))]
	sig[0], sig[1] = p[0], p[1]
	verifC12SigHash = verifU64("sighash")
	has, err := r.Has(sig)
	if err != nil {
		verifAssert(!has, "C12.bucketteer: Has returned true together with an error")
		verifReach("has-error")
	} else {
		verifReach("has-answer")
	}
	verifAssert(r.Close() == nil, "C12.bucketteer: Close failed")
	verifReach("end")
}
