//go:build verif

package bucketteer

// Lemmas about a Reader shared between lookups and about failing reads; injected into the
// current and the legacy package (verifC05ReaderOver is provided by c05_cur.go / c05_dep.go).

import (
	"errors"
	"io"
)

func verifC05MkSig(p [2]byte, name string) [64]byte {
	var s [64]byte
	s[0], s[1] = p[0], p[1]
	copy(s[2:8], verifBytes(name, 6))
	return s
}

// C05.conc — two lookups on ONE shared Reader running concurrently (the server shares an epoch's
// sig-exists reader between request handlers): both added signatures are reported present under
// every interleaving, and the lookups do not write shared state (happens-before race check).
func VerifC05Conc() {
	pA, pB := verifC05Prefixes[1], verifC05Prefixes[2]
	n := 1 + verifChoice("n", 2)
	sa := make([][64]byte, n)
	ha := make([]uint64, n)
	for i := range sa {
		sa[i] = verifC05MkSig(pA, "a")
		ha[i] = Hash(sa[i])
	}
	for i := 1; i < n; i++ {
		verifAssume(ha[i-1] < ha[i])
	}
	sb := verifC05MkSig(pB, "b")
	bucketA := verifC05RefBucket(ha)
	bucketB := verifC05RefBucket([]uint64{Hash(sb)})
	content := append(append([]byte(nil), bucketA...), bucketB...)
	r := verifC05ReaderOver(&verifC05YieldRA{data: content}, map[[2]byte]uint64{pA: 0, pB: uint64(len(bucketA))})

	done := make(chan int, 2)
	var gotA, gotB bool
	var errA, errB error
	go func() { gotA, errA = r.Has(sa[n-1]); done <- 1 }()
	go func() { gotB, errB = r.Has(sb); done <- 2 }()
	<-done
	<-done
	verifAssert(errA == nil && errB == nil, "C05.conc: concurrent Reader.Has failed on a well-formed file")
	verifAssert(gotA && gotB, "C05.conc: a signature that was added is reported absent by a concurrent lookup (false negative)")
	verifReach("end")
}

// verifC05YieldRA: array-backed ReaderAt whose reads are scheduling points (as real I/O is), so that
// lookups interleave between a read and the decoding of what was read.
type verifC05YieldRA struct{ data []byte }

func (r *verifC05YieldRA) ReadAt(p []byte, off int64) (int, error) {
	verifYield()
	ra := verifC05RA{data: r.data}
	n, err := ra.ReadAt(p, off)
	verifYield()
	return n, err
}

// verifC05FaultRA: array-backed ReaderAt whose k-th read fails (an I/O fault, or a file that
// ends early), optionally after delivering part of the data.
type verifC05FaultRA struct {
	data    []byte
	failAt  int
	partial int
	err     error
	reads   int
}

func (r *verifC05FaultRA) ReadAt(p []byte, off int64) (int, error) {
	r.reads++
	if r.reads == r.failAt {
		n := r.partial
		if n > len(p) {
			n = len(p)
		}
		for i := 0; i < n; i++ {
			p[i] = 0
		}
		return n, r.err
	}
	ra := verifC05RA{data: r.data}
	return ra.ReadAt(p, off)
}

var verifC05ErrFault = errors.New("verif: injected I/O fault")

// C05.has.fault — a read that fails during a lookup (storage fault, remote index, truncated
// file) must surface as an error: Reader.Has never answers (false, nil) for a signature that is
// in the file, and never (true, nil) for one that is not.
func VerifC05HasFault() {
	pA := verifC05Prefixes[1]
	n := verifParam("N", 3)
	sa := make([][64]byte, n)
	ha := make([]uint64, n)
	for i := range sa {
		sa[i] = verifC05MkSig(pA, "a")
		ha[i] = Hash(sa[i])
	}
	for i := 1; i < n; i++ {
		verifAssume(ha[i-1] < ha[i])
	}
	ra := &verifC05FaultRA{data: verifC05RefBucket(ha)}
	ra.failAt = 1 + verifChoice("failAt", 3) // the count, the root, a child
	ra.partial = []int{0, 3}[verifChoice("partial", 2)]
	ra.err = []error{verifC05ErrFault, io.ErrUnexpectedEOF, io.EOF}[verifChoice("err", 3)]
	r := verifC05ReaderOver(ra, map[[2]byte]uint64{pA: 0})
	var q [64]byte
	present := verifChoice("present", 2) == 1
	if present {
		q = sa[verifChoice("which", n)]
	} else {
		q = verifC05MkSig(pA, "q")
		for i := range ha {
			verifAssume(Hash(q) != ha[i])
		}
	}
	got, err := r.Has(q)
	if err == nil {
		verifAssert(got == present, "C05.has.fault: a failed read is turned into a wrong answer without an error (silent false negative / positive)")
		verifReach("answered")
	} else {
		verifAssert(!got, "C05.has.fault: an error is returned together with a positive answer")
		verifReach("error")
	}
	verifReach("end")
}

// verifC05EOFRA: contract-conforming io.ReaderAt that reports io.EOF TOGETHER WITH a complete
// read when the read ends exactly at the end of the data ("If the n = len(p) bytes returned by
// ReadAt are at the end of the input source, ReadAt may return either err == EOF or err == nil").
type verifC05EOFRA struct{ data []byte }

func (r *verifC05EOFRA) ReadAt(p []byte, off int64) (int, error) {
	if off < 0 || off > int64(len(r.data)) {
		return 0, io.EOF
	}
	n := copy(p, r.data[off:])
	if n < len(p) || off+int64(n) == int64(len(r.data)) {
		return n, io.EOF
	}
	return n, nil
}

// C05.has.eof — "any ReaderAt": over a ReaderAt that reports io.EOF with a complete final read,
// the signature whose hash occupies the last 8 bytes of the bucket (and a lookup in an empty
// bucket) is still answered correctly, whether the bucket is the last thing in the input
// (tail = 0: known finding C05-readat-eof) or is followed by more data.
func VerifC05HasEOF() {
	pA := verifC05Prefixes[3]
	n := verifChoice("n", verifParam("N", 3)+1)
	tail := verifChoice("tail", 2)
	verifKnownFinding("C05-readat-eof", tail == 0)
	sa := make([][64]byte, n)
	ha := make([]uint64, n)
	idx := make([]uint64, n)
	for i := range sa {
		sa[i] = verifC05MkSig(pA, "a")
		ha[i] = Hash(sa[i])
		idx[i] = uint64(i)
	}
	for i := 1; i < n; i++ {
		verifAssume(ha[i-1] < ha[i])
	}
	content := verifC05RefBucket(ha)
	content = append(content, verifBytes("tail", tail)...)
	r := verifC05ReaderOver(&verifC05EOFRA{data: content}, map[[2]byte]uint64{pA: 0})
	if n == 0 {
		got, err := r.Has(verifC05MkSig(pA, "q"))
		verifAssert(err == nil && !got, "C05.has.eof: lookup in an empty bucket at the end of the input fails")
	} else {
		last := int(verifC05RefLayout(idx)[n-1]) // rank of the hash stored in the bucket's last 8 bytes
		got, err := r.Has(sa[last])
		verifAssert(err == nil, "C05.has.eof: Reader.Has fails on a complete read that is reported together with io.EOF")
		verifAssert(got, "C05.has.eof: added signature reported absent (false negative)")
	}
	verifReach("end")
}
