//go:build verif

package bucketteer

// Obligations for the LEGACY file format (package deprecated/bucketteer, version 1: only the
// non-empty prefixes are listed in the header; maps keyed by the 2-byte prefix).

import (
	"encoding/binary"
	"io"
	"os"
)

// C05.prefix.dep — Writer.Put / Writer.Has of the legacy writer: Has(q) iff a signature with
// q's prefix and q's hash was put; the hash sits under the key the reader selects.
func VerifC05PrefixDep() {
	w := &Writer{prefixToHashes: make(map[[2]byte][]uint64)}
	np := verifParam("prefixes", 4)
	k := verifParam("K", 2)
	sigs := make([][64]byte, k)
	for i := range sigs {
		sigs[i] = verifC05Sig("s", np)
		w.Put(sigs[i])
	}
	for _, s := range sigs {
		b := w.prefixToHashes[[2]byte{s[0], s[1]}]
		hit := false
		for _, h := range b {
			hit = verifC05Or(hit, h == Hash(s))
		}
		verifAssert(hit, "C05.prefix.dep: put hash not under the prefix the reader would select")
	}
	q := verifC05Sig("q", np)
	exp := false
	for _, s := range sigs {
		if s[0] == q[0] && s[1] == q[1] {
			exp = verifC05Or(exp, Hash(s) == Hash(q))
		}
	}
	verifAssert(w.Has(q) == exp, "C05.prefix.dep: Writer.Has disagrees with (same prefix and same hash was put)")
	for _, s := range sigs {
		verifAssert(w.Has(s), "C05.prefix.dep: Writer.Has false for a signature that was put")
	}
	verifReach("end")
}

// verifC05RA: array-backed io.ReaderAt (a second ReaderAt implementation besides *os.File)
type verifC05RA struct{ data []byte }

func (r *verifC05RA) ReadAt(p []byte, off int64) (int, error) {
	if off < 0 || off >= int64(len(r.data)) {
		return 0, io.EOF
	}
	n := copy(p, r.data[off:])
	if n < len(p) {
		return n, io.EOF
	}
	return n, nil
}

func verifC05Bucket(hashes []uint64) []byte {
	entries := getCleanSet(hashes)
	sortWithCompare(entries, verifC05Cmp(entries))
	out := make([]byte, 4+8*len(entries))
	binary.LittleEndian.PutUint32(out, uint32(len(entries)))
	for i, h := range entries {
		binary.LittleEndian.PutUint64(out[4+8*i:], h)
	}
	return out
}

// C05.has.dep — the legacy Reader.Has over an array-backed content area (junk, bucket A with n
// hashes, bucket B with one, junk): Has(q) iff q's prefix is listed and q's hash is in THAT
// bucket; the bytes around the buckets are arbitrary, so the answer cannot depend on them.
func VerifC05HasDep() {
	minN := verifParam("minN", 0)
	n := minN + verifChoice("n", verifParam("N", 6)-minN+1)
	pad := []int{0, 5}[verifChoice("pad", 2)]
	pA, pB, pC := verifC05Prefixes[1], verifC05Prefixes[2], verifC05Prefixes[3]
	mk := func(p [2]byte, name string) [64]byte {
		var s [64]byte
		s[0], s[1] = p[0], p[1]
		copy(s[2:8], verifBytes(name, 6))
		return s
	}
	ha := make([]uint64, n)
	for i := range ha {
		ha[i] = Hash(mk(pA, "a"))
	}
	if n > verifParam("perm", 2) {
		for i := 1; i < n; i++ {
			verifAssume(ha[i-1] < ha[i])
		}
	}
	sb := mk(pB, "b")
	content := verifBytes("junk.before", pad) // arbitrary bytes around the buckets: the answer must not depend on them
	bucketA := verifC05Bucket(append([]uint64(nil), ha...))
	bucketB := verifC05Bucket([]uint64{Hash(sb)})
	offA := uint64(len(content))
	content = append(content, bucketA...)
	offB := uint64(len(content))
	content = append(content, bucketB...)
	content = append(content, verifBytes("junk.after", 9)...)
	ra := &verifC05RA{data: content}
	r := &Reader{contentReader: ra, prefixToOffset: map[[2]byte]uint64{pA: offA, pB: offB}}

	var q [64]byte
	exp := false
	switch verifChoice("q.prefix", 3) {
	case 0:
		q = mk(pA, "q")
		for i := range ha {
			exp = verifC05Or(exp, Hash(q) == ha[i])
		}
	case 1:
		q = mk(pB, "q")
		exp = Hash(q) == Hash(sb)
	default:
		q = mk(pC, "q")
	}
	got, err := r.Has(q)
	verifAssert(err == nil, "C05.has.dep: Reader.Has failed on a well-formed file")
	verifAssert(got == exp, "C05.has.dep: Reader.Has differs from (hash stored in the bucket of the signature's prefix)")
	if got {
		verifReach("present")
	} else {
		verifReach("absent")
	}
	verifReach("end")
}

var verifC05DepMetas = []map[string]string{
	nil,
	{},
	{"epoch": "123"},
	{"a": "", "root": "bafyrei-xyz", "": "v"},
}

// shapes: prefix index (into verifC05Prefixes) of each put signature
var verifC05Shapes = [][]int{
	0: {0, 0, 3},             // two under 0x0000, one under 0xffff
	1: {},                    // empty index
	2: {1},                   // single signature
	3: {1, 2, 1, 2, 1},       // 3 + 2 under the two byte orders of 1
	4: {3, 3, 3, 3},          // four under 0xffff
	5: {5, 4, 3, 2, 1, 0},    // one each under six prefixes, put in descending prefix order
	6: {4, 4, 4, 4, 4, 4, 4, 5}, // 7 + 1
	7: {2, 1, 2},             // arbitrary order candidates
}

// C05.file.dep — end to end, legacy format, on the in-memory file system: NewWriter, Put, Seal
// (real seal, getSortedPrefixes, createHeader, header rewrite), NewReader (readHeader) over the
// sealed file, Reader.Has.
func VerifC05FileDep() {
	path := verifTempPath("sig-exists-v1.index")
	w, err := NewWriter(path)
	verifAssert(err == nil, "C05.file.dep: NewWriter failed")
	var avail []int
	for i := range verifC05Shapes {
		if verifParam("shapes", 1)&(1<<i) != 0 {
			avail = append(avail, i)
		}
	}
	shape := verifC05Shapes[avail[verifChoice("shape", len(avail))]]
	sigs := make([][64]byte, len(shape))
	for i, pi := range shape {
		var s [64]byte
		p := verifC05Prefixes[pi]
		s[0], s[1] = p[0], p[1]
		copy(s[2:8], verifBytes("s", 6))
		sigs[i] = s
		w.Put(s)
	}
	if verifParam("ordered", 1) == 1 {
		for i := range sigs {
			for j := i + 1; j < len(sigs); j++ {
				if shape[i] == shape[j] {
					verifAssume(Hash(sigs[i]) < Hash(sigs[j]))
					break
				}
			}
		}
	}
	meta := verifC05DepMetas[verifChoice("meta", verifParam("metas", 1))]
	qset := []int{7}
	for _, pi := range shape {
		dup := false
		for _, x := range qset {
			dup = dup || x == pi
		}
		if !dup {
			qset = append(qset, pi)
		}
	}
	var q [64]byte
	if verifParam("query", 0) == 1 {
		p := verifC05Prefixes[qset[verifChoice("q.prefix", len(qset))]]
		q[0], q[1] = p[0], p[1]
		copy(q[2:8], verifBytes("q", 6))
	} else if len(sigs) > 0 {
		q = sigs[len(sigs)/2]
	}
	wHas := w.Has(q)

	size, err := w.Seal(meta)
	verifAssert(err == nil, "C05.file.dep: Seal failed")
	verifAssert(w.Close() == nil, "C05.file.dep: Close failed")
	_ = size

	f, err := os.Open(path)
	verifAssert(err == nil, "C05.file.dep: open failed")
	r, err := NewReader(f)
	verifAssert(err == nil, "C05.file.dep: NewReader failed on a file the writer sealed")
	for _, s := range sigs {
		ok, err := r.Has(s)
		verifAssert(err == nil, "C05.file.dep: Reader.Has failed")
		verifAssert(ok, "C05.file.dep: signature put before sealing is reported absent (false negative)")
	}
	exp := false
	for _, s := range sigs {
		if s[0] == q[0] && s[1] == q[1] {
			exp = verifC05Or(exp, Hash(s) == Hash(q))
		}
	}
	got, err := r.Has(q)
	verifAssert(err == nil, "C05.file.dep: Reader.Has(q) failed")
	verifAssert(got == exp, "C05.file.dep: Reader.Has(q) differs from (a signature with q's prefix and q's hash was put)")
	verifAssert(got == wHas, "C05.file.dep: Writer.Has and the sealed file disagree")
	{
		var s [64]byte
		s[0], s[1] = 0xab, 0xcd
		ok, err := r.Has(s)
		verifAssert(err == nil && !ok, "C05.file.dep: unlisted prefix reports a signature / fails")
	}
	verifReach("end")
}
