//go:build verif

package bucketteer

// Obligations for the LEGACY file format (package deprecated/bucketteer, version 1: only the
// non-empty prefixes are listed in the header; maps keyed by the 2-byte prefix).

import (
	"io"
	"os"
)

// C05.prefix.dep — Writer.Put / Writer.Has of the legacy writer: Has(q) iff a signature with
// q's prefix and q's hash was put; the hash sits under the key the reader selects.
func VerifC05PrefixDep() {
	w := &Writer{prefixToHashes: make(map[[2]byte][]uint64)}
	np := verifParam("prefixes", 4)
	k := verifParam("K", 2)
	sigs := make([][64]byte, k)
	for i := range sigs {
		sigs[i] = verifC05Sig("s", np)
		w.Put(sigs[i])
	}
	for _, s := range sigs {
		b := w.prefixToHashes[[2]byte{s[0], s[1]}]
		hit := false
		for _, h := range b {
			hit = verifC05Or(hit, h == Hash(s))
		}
		verifAssert(hit, "C05.prefix.dep: put hash not under the prefix the reader would select")
	}
	q := verifC05Sig("q", np)
	exp := false
	for _, s := range sigs {
		if s[0] == q[0] && s[1] == q[1] {
			exp = verifC05Or(exp, Hash(s) == Hash(q))
		}
	}
	verifAssert(w.Has(q) == exp, "C05.prefix.dep: Writer.Has disagrees with (same prefix and same hash was put)")
	for _, s := range sigs {
		verifAssert(w.Has(s), "C05.prefix.dep: Writer.Has false for a signature that was put")
	}
	verifReach("end")
}

// verifC05OneBucketReader: a legacy Reader whose content area is exactly one bucket, listed
// under prefix p (used by the pipeline lemmas in c05_pipeline.go).
func verifC05OneBucketReader(bucket []byte, p [2]byte) *Reader {
	return &Reader{contentReader: &verifC05RA{data: bucket}, prefixToOffset: map[[2]byte]uint64{p: 0}}
}

// verifC05ReaderOver: a legacy Reader over an arbitrary content ReaderAt with the given
// prefix -> offset entries.
func verifC05ReaderOver(ra io.ReaderAt, offs map[[2]byte]uint64) *Reader {
	m := make(map[[2]byte]uint64, len(offs))
	for p, o := range offs {
		m[p] = o
	}
	return &Reader{contentReader: ra, prefixToOffset: m}
}

// C05.has.dep — the legacy Reader.Has over an array-backed content area (junk, bucket A with n
// hashes, bucket B with one, junk): Has(q) iff q's prefix is listed and q's hash is in THAT
// bucket; the bytes around the buckets are arbitrary, so the answer cannot depend on them.
func VerifC05HasDep() {
	minN := verifParam("minN", 0)
	n := minN + verifChoice("n", verifParam("N", 6)-minN+1)
	pad := []int{0, 5}[verifChoice("pad", 2)]
	pA, pB, pC := verifC05Prefixes[1], verifC05Prefixes[2], verifC05Prefixes[3]
	mk := func(p [2]byte, name string) [64]byte {
		var s [64]byte
		s[0], s[1] = p[0], p[1]
		copy(s[2:8], verifBytes(name, 6))
		return s
	}
	ha := make([]uint64, n)
	for i := range ha {
		ha[i] = Hash(mk(pA, "a"))
	}
	for i := 1; i < n; i++ {
		verifAssume(ha[i-1] < ha[i]) // the bucket holds a clean set: strictly increasing
	}
	sb := mk(pB, "b")
	content := verifBytes("junk.before", pad) // arbitrary bytes around the buckets: the answer must not depend on them
	bucketA := verifC05RefBucket(ha)
	bucketB := verifC05RefBucket([]uint64{Hash(sb)})
	offA := uint64(len(content))
	content = append(content, bucketA...)
	offB := uint64(len(content))
	content = append(content, bucketB...)
	content = append(content, verifBytes("junk.after", 9)...)
	ra := &verifC05RA{data: content}
	r := &Reader{contentReader: ra, prefixToOffset: map[[2]byte]uint64{pA: offA, pB: offB}}

	var q [64]byte
	exp := false
	switch verifChoice("q.prefix", 3) {
	case 0:
		q = mk(pA, "q")
		for i := range ha {
			exp = verifC05Or(exp, Hash(q) == ha[i])
		}
	case 1:
		q = mk(pB, "q")
		exp = Hash(q) == Hash(sb)
	default:
		q = mk(pC, "q")
	}
	got, err := r.Has(q)
	verifAssert(err == nil, "C05.has.dep: Reader.Has failed on a well-formed file")
	verifAssert(got == exp, "C05.has.dep: Reader.Has differs from (hash stored in the bucket of the signature's prefix)")
	if got {
		verifReach("present")
	} else {
		verifReach("absent")
	}
	verifReach("end")
}

var verifC05DepMetas = []map[string]string{
	nil,
	{},
	{"epoch": "123"},
	{"a": "", "root": "bafyrei-xyz", "": "v"},
}

// shapes: prefix index (into verifC05Prefixes) of each put signature
var verifC05Shapes = [][]int{
	0: {0, 0, 3},                // two under 0x0000, one under 0xffff
	1: {},                       // empty index
	2: {1},                      // single signature
	3: {1, 2, 1, 2, 1},          // 3 + 2 under the two byte orders of 1
	4: {3, 3, 3, 3},             // four under 0xffff
	5: {5, 4, 3, 2, 1, 0},       // one each under six prefixes, put in descending prefix order
	6: {4, 4, 4, 4, 4, 4, 4, 5}, // 7 + 1
	7: {2, 1, 2},                // arbitrary order candidates
}

// C05.file.dep — end to end, legacy format, on the in-memory file system: NewWriter, Put, Seal
// (real seal, getSortedPrefixes, createHeader, header rewrite), NewReader (readHeader) over the
// sealed file, Reader.Has.
func VerifC05FileDep() {
	path := verifTempPath("sig-exists-v1.index")
	w, err := NewWriter(path)
	verifAssert(err == nil, "C05.file.dep: NewWriter failed")
	var avail []int
	for i := range verifC05Shapes {
		if verifParam("shapes", 1)&(1<<i) != 0 {
			avail = append(avail, i)
		}
	}
	shapeIdx := avail[verifChoice("shape", len(avail))]
	shape := verifC05Shapes[shapeIdx]
	sigs := make([][64]byte, len(shape))
	for i, pi := range shape {
		var s [64]byte
		p := verifC05Prefixes[pi]
		s[0], s[1] = p[0], p[1]
		copy(s[2:8], verifBytes("s", 6))
		sigs[i] = s
		w.Put(s)
	}
	// concrete-hash extras (no forks): "extra"=1: prefix 0x0000 additionally receives hashes in
	// DESCENDING put order with one signature put TWICE, prefix 34 12 a pair in ascending order;
	// "big"=n: prefix 00 ff receives n further signatures (count / size arithmetic at 255..257, 65535..65537)
	var extra [][64]byte
	if verifParam("extra", 0) == 1 {
		for _, id := range []uint64{9, 4, 9, 2} {
			extra = append(extra, verifC05ConcSig(verifC05Prefixes[0], id))
		}
		extra = append(extra, verifC05ConcSig(verifC05Prefixes[7], 1), verifC05ConcSig(verifC05Prefixes[7], 7))
	}
	big := verifParam("big", 0)
	for i := 0; i < big; i++ {
		extra = append(extra, verifC05ConcSig(verifC05Prefixes[5], uint64(i^1)))
	}
	for _, s := range extra {
		w.Put(s)
	}
	if verifParam("ordered", 1) == 1 {
		for i := range sigs {
			for j := i + 1; j < len(sigs); j++ {
				if shape[i] == shape[j] {
					verifAssume(Hash(sigs[i]) < Hash(sigs[j]))
					break
				}
			}
		}
	}
	meta := verifC05DepMetas[verifChoice("meta", verifParam("metas", 1))]
	qset := []int{6}
	if big > 0 {
		qset = []int{5}
	}
	for _, pi := range shape {
		dup := false
		for _, x := range qset {
			dup = dup || x == pi
		}
		if !dup {
			qset = append(qset, pi)
		}
	}
	var q [64]byte
	if verifParam("query", 0) == 1 {
		p := verifC05Prefixes[qset[verifChoice("q.prefix", len(qset))]]
		q[0], q[1] = p[0], p[1]
		copy(q[2:8], verifBytes("q", 6))
	} else if len(sigs) > 0 {
		q = sigs[len(sigs)/2]
	}
	wHas := w.Has(q)

	size, err := w.Seal(meta)
	verifAssert(err == nil, "C05.file.dep: Seal failed")
	verifAssert(w.Close() == nil, "C05.file.dep: Close failed")
	_ = size

	var r *Reader
	if m := verifParam("mmap", 0); m == 1 || (m == 2 && shapeIdx%2 == 1) {
		r, err = Open(path) // the server's entry point: isEmptyFile + mmap.Open + NewReader
		verifAssert(err == nil, "C05.file.dep: Open failed on a file the writer sealed")
	} else {
		f, err := os.Open(path)
		verifAssert(err == nil, "C05.file.dep: open failed")
		r, err = NewReader(f)
		verifAssert(err == nil, "C05.file.dep: NewReader failed on a file the writer sealed")
	}
	for _, s := range sigs {
		ok, err := r.Has(s)
		verifAssert(err == nil, "C05.file.dep: Reader.Has failed")
		verifAssert(ok, "C05.file.dep: signature put before sealing is reported absent (false negative)")
		verifAssert(w.Has(s), "C05.file.dep: Writer.Has forgets a signature after Seal")
	}
	step := 1
	if len(extra) > 600 {
		step = 97 // sample a large bucket: every 97th signature, plus the last 3
	}
	for i, s := range extra {
		if i%step != 0 && i < len(extra)-3 {
			continue
		}
		ok, err := r.Has(s)
		verifAssert(err == nil, "C05.file.dep: Reader.Has failed (concrete-hash signature)")
		verifAssert(ok, "C05.file.dep: signature put before sealing is reported absent (false negative, concrete-hash signature)")
	}
	if len(extra) > 0 {
		for _, pi := range []int{0, 5, 7} {
			for _, id := range []uint64{1 << 40, 3, 1<<40 + 1} {
				s := verifC05ConcSig(verifC05Prefixes[pi], id)
				ok, err := r.Has(s)
				verifAssert(err == nil, "C05.file.dep: Reader.Has failed (absent concrete-hash signature)")
				verifAssert(ok == w.Has(s), "C05.file.dep: Writer.Has and the sealed file disagree (concrete-hash signature)")
				verifAssert(!ok || (pi == 5 && id == 3 && big > 3), "C05.file.dep: a hash that was never put is reported present")
			}
		}
	}
	exp := false
	for _, s := range append(append([][64]byte(nil), sigs...), extra...) {
		if s[0] == q[0] && s[1] == q[1] {
			exp = verifC05Or(exp, Hash(s) == Hash(q))
		}
	}
	got, err := r.Has(q)
	verifAssert(err == nil, "C05.file.dep: Reader.Has(q) failed")
	verifAssert(got == exp, "C05.file.dep: Reader.Has(q) differs from (a signature with q's prefix and q's hash was put)")
	verifAssert(got == wHas, "C05.file.dep: Writer.Has and the sealed file disagree")
	{
		var s [64]byte
		s[0], s[1] = 0xab, 0xcd
		ok, err := r.Has(s)
		verifAssert(err == nil && !ok, "C05.file.dep: unlisted prefix reports a signature / fails")
	}
	verifReach("end")
}
