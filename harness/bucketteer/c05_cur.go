//go:build verif

package bucketteer

// Obligations for the CURRENT file format (package bucketteer, version 2: fixed 65 536-entry
// prefix table).

import (
	"encoding/binary"
	"io"
	"os"

	"github.com/rpcpool/yellowstone-faithful/indexmeta"
)

// C05.prefix — (a) for every 2-byte prefix / every 16-bit bucket number the two conversions are
// mutually inverse (so the bucket a prefix is written to, the (prefix, offset) pair createHeader
// emits for it and the table slot readHeader / Reader.Has use are the same);
// (b) Writer.Put / Writer.Has: Has(q) iff a signature with q's prefix and q's hash was put.
func VerifC05Prefix() {
	p := [2]byte{verifU8("p0"), verifU8("p1")}
	verifAssert(uint16ToPrefix(prefixToUint16(p)) == p, "C05.prefix: uint16ToPrefix(prefixToUint16(p)) != p")
	u := verifU16("u")
	verifAssert(prefixToUint16(uint16ToPrefix(u)) == u, "C05.prefix: prefixToUint16(uint16ToPrefix(u)) != u")

	w := &Writer{prefixToHashes: new(prefixToHashes)}
	np := verifParam("prefixes", 4)
	k := verifParam("K", 2)
	sigs := make([][64]byte, k)
	for i := range sigs {
		sigs[i] = verifC05Sig("s", np)
		w.Put(sigs[i])
	}
	// the hash went into the bucket that the reader's selection (sig[0], sig[1]) designates
	for _, s := range sigs {
		b := w.prefixToHashes[prefixToUint16([2]byte{s[0], s[1]})]
		hit := false
		for _, h := range b {
			hit = verifC05Or(hit, h == Hash(s))
		}
		verifAssert(hit, "C05.prefix: put hash not in the bucket the reader would select")
	}
	q := verifC05Sig("q", np)
	exp := false
	for _, s := range sigs {
		if s[0] == q[0] && s[1] == q[1] {
			exp = verifC05Or(exp, Hash(s) == Hash(q))
		}
	}
	got := w.Has(q)
	verifAssert(got == exp, "C05.prefix: Writer.Has disagrees with (same prefix and same hash was put)")
	for _, s := range sigs {
		verifAssert(w.Has(s), "C05.prefix: Writer.Has false for a signature that was put")
	}
	verifReach("end")
}

// verifC05RA: array-backed io.ReaderAt (a second ReaderAt implementation besides *os.File)
type verifC05RA struct{ data []byte }

func (r *verifC05RA) ReadAt(p []byte, off int64) (int, error) {
	if off < 0 || off >= int64(len(r.data)) {
		return 0, io.EOF
	}
	n := copy(p, r.data[off:])
	if n < len(p) {
		return n, io.EOF
	}
	return n, nil
}

// verifC05Bucket serialises one bucket the way the format defines it: u32 LE count, then the
// hashes (u64 LE) in the eytzinger order produced by the real getCleanSet + sortWithCompare.
func verifC05Bucket(hashes []uint64) []byte {
	entries := getCleanSet(hashes)
	sortWithCompare(entries, verifC05Cmp(entries))
	out := make([]byte, 4+8*len(entries))
	binary.LittleEndian.PutUint32(out, uint32(len(entries)))
	for i, h := range entries {
		binary.LittleEndian.PutUint64(out[4+8*i:], h)
	}
	return out
}

// C05.has — the real Reader.Has (prefix selection, count, section reader, readUint64Le,
// searchEytzinger) over an array-backed content area holding junk, bucket A (n hashes), bucket B
// (1 hash) and trailing junk: Has(q) iff q's prefix has a bucket and q's hash is in THAT bucket;
// the bytes around the buckets are arbitrary, so the answer cannot depend on them.
func VerifC05Has() {
	minN := verifParam("minN", 0)
	n := minN + verifChoice("n", verifParam("N", 6)-minN+1)
	pad := []int{0, 5}[verifChoice("pad", 2)]
	pA, pB, pC := verifC05Prefixes[1], verifC05Prefixes[2], verifC05Prefixes[3]
	mk := func(p [2]byte, name string) [64]byte {
		var s [64]byte
		s[0], s[1] = p[0], p[1]
		copy(s[2:8], verifBytes(name, 6))
		return s
	}
	sa := make([][64]byte, n)
	ha := make([]uint64, n)
	for i := range sa {
		sa[i] = mk(pA, "a")
		ha[i] = Hash(sa[i])
	}
	if n > verifParam("perm", 2) {
		for i := 1; i < n; i++ {
			verifAssume(ha[i-1] < ha[i])
		}
	}
	sb := mk(pB, "b")
	content := verifBytes("junk.before", pad) // arbitrary bytes around the buckets: the answer must not depend on them
	bucketA := verifC05Bucket(append([]uint64(nil), ha...))
	bucketB := verifC05Bucket([]uint64{Hash(sb)})
	offA := uint64(len(content))
	content = append(content, bucketA...)
	offB := uint64(len(content))
	content = append(content, bucketB...)
	content = append(content, verifBytes("junk.after", 9)...)
	layout := newUint16LayoutPointer()
	layout[prefixToUint16(pA)] = offA
	layout[prefixToUint16(pB)] = offB
	ra := &verifC05RA{data: content}
	r := &Reader{contentReader: ra, prefixToOffset: layout}

	var q [64]byte
	exp := false
	switch verifChoice("q.prefix", 3) {
	case 0:
		q = mk(pA, "q")
		for i := range ha {
			exp = verifC05Or(exp, Hash(q) == ha[i])
		}
	case 1:
		q = mk(pB, "q")
		exp = Hash(q) == Hash(sb)
	default:
		q = mk(pC, "q")
	}
	got, err := r.Has(q)
	verifAssert(err == nil, "C05.has: Reader.Has failed on a well-formed file")
	verifAssert(got == exp, "C05.has: Reader.Has differs from (hash stored in the bucket of the signature's prefix)")
	if got {
		verifReach("present")
	} else {
		verifReach("absent")
	}
	verifReach("end")
}

// C05.file.cur — end to end on the in-memory file system: NewWriter, Put, Seal (real seal,
// createHeader, the bufio writer, the header rewrite), NewReader over the sealed file
// (readHeader), Reader.Has. Signatures are put with prefixes chosen from a shape table; their
// identity bytes are arbitrary.
func VerifC05File() {
	path := verifTempPath("sig-exists.index")
	w, err := NewWriter(path)
	verifAssert(err == nil, "C05.file: NewWriter failed")
	var avail []int
	for i := range verifC05Shapes {
		if verifParam("shapes", 1)&(1<<i) != 0 {
			avail = append(avail, i)
		}
	}
	shape := verifC05Shapes[avail[verifChoice("shape", len(avail))]]
	sigs := make([][64]byte, len(shape))
	for i, pi := range shape {
		var s [64]byte
		p := verifC05Prefixes[pi]
		s[0], s[1] = p[0], p[1]
		copy(s[2:8], verifBytes("s", 6))
		sigs[i] = s
		w.Put(s)
	}
	if verifParam("ordered", 1) == 1 {
		// same-prefix signatures are put in increasing hash order (no sort forks)
		for i := range sigs {
			for j := i + 1; j < len(sigs); j++ {
				if shape[i] == shape[j] {
					verifAssume(Hash(sigs[i]) < Hash(sigs[j]))
					break
				}
			}
		}
	}
	var meta indexmeta.Meta
	if verifParam("meta", 1) == 1 {
		verifAssert(meta.Add(verifBytes("mk", 2), verifBytes("mv", 3)) == nil, "C05.file: meta.Add failed")
	}
	// the query signature (prefix: one of the used prefixes or an unused one)
	qset := []int{7}
	for _, pi := range shape {
		dup := false
		for _, x := range qset {
			dup = dup || x == pi
		}
		if !dup {
			qset = append(qset, pi)
		}
	}
	var q [64]byte
	if verifParam("query", 0) == 1 {
		p := verifC05Prefixes[qset[verifChoice("q.prefix", len(qset))]]
		q[0], q[1] = p[0], p[1]
		copy(q[2:8], verifBytes("q", 6))
	} else if len(sigs) > 0 {
		q = sigs[len(sigs)/2] // no symbolic query: nothing forks after the puts
	}
	wHas := w.Has(q)

	size, err := w.Seal(meta)
	verifAssert(err == nil, "C05.file: Seal failed")
	verifAssert(w.Close() == nil, "C05.file: Close failed")
	_ = size

	f, err := os.Open(path)
	verifAssert(err == nil, "C05.file: open failed")
	r, err := NewReader(f)
	verifAssert(err == nil, "C05.file: NewReader failed on a file the writer sealed")
	for _, s := range sigs {
		ok, err := r.Has(s)
		verifAssert(err == nil, "C05.file: Reader.Has failed")
		verifAssert(ok, "C05.file: signature put before sealing is reported absent (false negative)")
	}
	exp := false
	for _, s := range sigs {
		if s[0] == q[0] && s[1] == q[1] {
			exp = verifC05Or(exp, Hash(s) == Hash(q))
		}
	}
	got, err := r.Has(q)
	verifAssert(err == nil, "C05.file: Reader.Has(q) failed")
	verifAssert(got == exp, "C05.file: Reader.Has(q) differs from (a signature with q's prefix and q's hash was put)")
	verifAssert(got == wHas, "C05.file: Writer.Has and the sealed file disagree")
	if m := r.Meta(); verifParam("meta", 1) == 1 {
		verifAssert(m != nil && len(m.KeyVals) == 1 && len(m.KeyVals[0].Key) == 2 && len(m.KeyVals[0].Value) == 3, "C05.file: metadata shape lost")
		same := true
		for i := range m.KeyVals[0].Key {
			same = verifC05And(same, m.KeyVals[0].Key[i] == meta.KeyVals[0].Key[i])
		}
		for i := range m.KeyVals[0].Value {
			same = verifC05And(same, m.KeyVals[0].Value[i] == meta.KeyVals[0].Value[i])
		}
		verifAssert(same, "C05.file: metadata bytes not preserved")
	} else {
		verifAssert(m != nil && len(m.KeyVals) == 0, "C05.file: metadata appeared from nowhere")
	}
	// every prefix without signatures is answered "absent" without error: spot-check one more
	for _, pi := range []int{6} {
		var s [64]byte
		s[0], s[1] = verifC05Prefixes[pi][0], verifC05Prefixes[pi][1]
		ok, err := r.Has(s)
		verifAssert(err == nil && !ok, "C05.file: empty bucket reports a signature / fails")
	}
	verifReach("end")
}

// shapes: prefix index (into verifC05Prefixes) of each put signature
var verifC05Shapes = [][]int{
	0: {0, 0, 3},          // two in the first bucket (0x0000), one in the last (0xffff)
	1: {},                 // empty index
	2: {1},                // single signature
	3: {1, 2, 1, 2, 1},    // 3 + 2 in the two byte orders of 1
	4: {3, 3, 3, 3},       // four in the last bucket
	5: {0, 1, 2, 3, 4, 5}, // one each in six buckets
	6: {4, 4, 4, 4, 4, 4, 4, 5}, // 7 + 1
	7: {2, 1, 2},          // 2 + 1, candidates for arbitrary put order
	8: {1, 0, 0, 0},       // one in bucket 0x0001 (LE), then three in its predecessor bucket 0x0000: more than the
	//                        (rewritten) initial capacity 2, so an append that grows past the capacity must not touch the neighbour
}
