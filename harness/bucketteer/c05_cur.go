//go:build verif

package bucketteer

// Obligations for the CURRENT file format (package bucketteer, version 2: fixed 65 536-entry
// prefix table).

import (
	"io"
	"math"
	"os"

	"github.com/rpcpool/yellowstone-faithful/indexmeta"
)

// C05.prefix — (a) for every 2-byte prefix / every 16-bit bucket number the two conversions are
// mutually inverse (so the bucket a prefix is written to, the (prefix, offset) pair createHeader
// emits for it and the table slot readHeader / Reader.Has use are the same);
// (b) Writer.Put / Writer.Has: Has(q) iff a signature with q's prefix and q's hash was put.
func VerifC05Prefix() {
	p := [2]byte{verifU8("p0"), verifU8("p1")}
	verifAssert(uint16ToPrefix(prefixToUint16(p)) == p, "C05.prefix: uint16ToPrefix(prefixToUint16(p)) != p")
	verifAssert(prefixToUint16(p) == verifC05LE(p), "C05.prefix: bucket number is not the little-endian value of the first two signature bytes (files written before would be misread)")
	u := verifU16("u")
	verifAssert(prefixToUint16(uint16ToPrefix(u)) == u, "C05.prefix: prefixToUint16(uint16ToPrefix(u)) != u")

	w := &Writer{prefixToHashes: new(prefixToHashes)}
	np := verifParam("prefixes", 4)
	k := verifParam("K", 2)
	sigs := make([][64]byte, k)
	for i := range sigs {
		sigs[i] = verifC05Sig("s", np)
		w.Put(sigs[i])
	}
	// the hash went into the bucket that the reader's selection (sig[0], sig[1]) designates
	for _, s := range sigs {
		b := w.prefixToHashes[verifC05LE([2]byte{s[0], s[1]})]
		hit := false
		for _, h := range b {
			hit = verifC05Or(hit, h == Hash(s))
		}
		verifAssert(hit, "C05.prefix: put hash not in the bucket the reader would select")
	}
	q := verifC05Sig("q", np)
	exp := false
	for _, s := range sigs {
		if s[0] == q[0] && s[1] == q[1] {
			exp = verifC05Or(exp, Hash(s) == Hash(q))
		}
	}
	got := w.Has(q)
	verifAssert(got == exp, "C05.prefix: Writer.Has disagrees with (same prefix and same hash was put)")
	for _, s := range sigs {
		verifAssert(w.Has(s), "C05.prefix: Writer.Has false for a signature that was put")
	}
	verifReach("end")
}

// verifC05LE: the bucket number of a prefix as the format defines it (first two signature bytes,
// little endian) — reference, independent of prefixToUint16.
func verifC05LE(p [2]byte) uint16 { return uint16(p[0]) | uint16(p[1])<<8 }

// verifC05EmptyLayout: offset table in which no prefix has a bucket.
func verifC05EmptyLayout() *bucketToOffset {
	l := new(bucketToOffset)
	for i := range l {
		l[i] = math.MaxUint64
	}
	return l
}

// verifC05OneBucketReader: a Reader whose content area is exactly one bucket, reachable under
// prefix p (used by the pipeline lemmas in c05_pipeline.go; the table is not filled with the
// "absent" marker there, which would cost 65 536 interpreted steps on each of thousands of paths).
func verifC05OneBucketReader(bucket []byte, p [2]byte) *Reader {
	l := new(bucketToOffset)
	l[verifC05LE(p)] = 0
	return &Reader{contentReader: &verifC05RA{data: bucket}, prefixToOffset: l}
}

// verifC05ReaderOver: a Reader over an arbitrary content ReaderAt with the given prefix -> offset
// entries (every other prefix has no bucket).
func verifC05ReaderOver(ra io.ReaderAt, offs map[[2]byte]uint64) *Reader {
	l := verifC05EmptyLayout()
	for p, o := range offs {
		l[verifC05LE(p)] = o
	}
	return &Reader{contentReader: ra, prefixToOffset: l}
}

// C05.has — the real Reader.Has (prefix selection, count, section reader, readUint64Le,
// searchEytzinger) over an array-backed content area holding junk, bucket A (n hashes), bucket B
// (1 hash) and trailing junk: Has(q) iff q's prefix has a bucket and q's hash is in THAT bucket;
// the bytes around the buckets are arbitrary, so the answer cannot depend on them.
func VerifC05Has() {
	minN := verifParam("minN", 0)
	n := minN + verifChoice("n", verifParam("N", 6)-minN+1)
	pad := []int{0, 5}[verifChoice("pad", 2)]
	pA, pB, pC := verifC05Prefixes[1], verifC05Prefixes[2], verifC05Prefixes[3]
	mk := func(p [2]byte, name string) [64]byte {
		var s [64]byte
		s[0], s[1] = p[0], p[1]
		copy(s[2:8], verifBytes(name, 6))
		return s
	}
	sa := make([][64]byte, n)
	ha := make([]uint64, n)
	for i := range sa {
		sa[i] = mk(pA, "a")
		ha[i] = Hash(sa[i])
	}
	for i := 1; i < n; i++ {
		verifAssume(ha[i-1] < ha[i]) // the bucket holds a clean set: strictly increasing
	}
	sb := mk(pB, "b")
	content := verifBytes("junk.before", pad) // arbitrary bytes around the buckets: the answer must not depend on them
	bucketA := verifC05RefBucket(ha)
	bucketB := verifC05RefBucket([]uint64{Hash(sb)})
	offA := uint64(len(content))
	content = append(content, bucketA...)
	offB := uint64(len(content))
	content = append(content, bucketB...)
	content = append(content, verifBytes("junk.after", 9)...)
	layout := verifC05EmptyLayout()
	layout[verifC05LE(pA)] = offA
	layout[verifC05LE(pB)] = offB
	ra := &verifC05RA{data: content}
	r := &Reader{contentReader: ra, prefixToOffset: layout}

	var q [64]byte
	exp := false
	switch verifChoice("q.prefix", 3) {
	case 0:
		q = mk(pA, "q")
		for i := range ha {
			exp = verifC05Or(exp, Hash(q) == ha[i])
		}
	case 1:
		q = mk(pB, "q")
		exp = Hash(q) == Hash(sb)
	default:
		q = mk(pC, "q")
	}
	got, err := r.Has(q)
	verifAssert(err == nil, "C05.has: Reader.Has failed on a well-formed file")
	verifAssert(got == exp, "C05.has: Reader.Has differs from (hash stored in the bucket of the signature's prefix)")
	if got {
		verifReach("present")
	} else {
		verifReach("absent")
	}
	verifReach("end")
}

// C05.file.cur — end to end on the in-memory file system: NewWriter, Put, Seal (real seal,
// createHeader, the bufio writer, the header rewrite), NewReader over the sealed file
// (readHeader), Reader.Has. Signatures are put with prefixes chosen from a shape table; their
// identity bytes are arbitrary.
func VerifC05File() {
	path := verifTempPath("sig-exists.index")
	w, err := NewWriter(path)
	verifAssert(err == nil, "C05.file: NewWriter failed")
	var avail []int
	for i := range verifC05Shapes {
		if verifParam("shapes", 1)&(1<<i) != 0 {
			avail = append(avail, i)
		}
	}
	shapeIdx := avail[verifChoice("shape", len(avail))]
	shape := verifC05Shapes[shapeIdx]
	sigs := make([][64]byte, len(shape))
	for i, pi := range shape {
		var s [64]byte
		p := verifC05Prefixes[pi]
		s[0], s[1] = p[0], p[1]
		copy(s[2:8], verifBytes("s", 6))
		sigs[i] = s
		w.Put(s)
	}
	// concrete-hash extras (no forks): "extra"=1: bucket 0x0000 additionally receives hashes in
	// DESCENDING put order with one signature put TWICE (a duplicate in the first bucket shifts
	// nothing in later buckets), bucket 0x1234 (bytes 34 12) receives a pair in ascending order;
	// "big"=n: bucket 0x00ff receives n further signatures (count / size arithmetic at 255..257, 65535..65537)
	var extra [][64]byte
	if verifParam("extra", 0) == 1 && shapeIdx == 9 {
		for _, id := range []uint64{9, 4, 9, 2} {
			extra = append(extra, verifC05ConcSig(verifC05Prefixes[0], id))
		}
		extra = append(extra, verifC05ConcSig(verifC05Prefixes[7], 1), verifC05ConcSig(verifC05Prefixes[7], 7))
	}
	big := verifParam("big", 0)
	for i := 0; i < big; i++ {
		extra = append(extra, verifC05ConcSig(verifC05Prefixes[5], uint64(i^1)))
	}
	for _, s := range extra {
		w.Put(s)
	}
	if verifParam("ordered", 1) == 1 {
		// same-prefix signatures are put in increasing hash order (no sort forks)
		for i := range sigs {
			for j := i + 1; j < len(sigs); j++ {
				if shape[i] == shape[j] {
					verifAssume(Hash(sigs[i]) < Hash(sigs[j]))
					break
				}
			}
		}
	}
	var meta indexmeta.Meta
	if verifParam("meta", 1) == 1 {
		verifAssert(meta.Add(verifBytes("mk", 2), verifBytes("mv", 3)) == nil, "C05.file: meta.Add failed")
	}
	if verifParam("meta", 1) == 2 {
		// the largest metadata the writer accepts: 255 pairs with 255-byte keys and values (a sealed
		// file with it must still be accepted by the reader's header-size bound)
		for i := 0; i < indexmeta.MaxNumKVs; i++ {
			k := make([]byte, indexmeta.MaxKeySize)
			v := make([]byte, indexmeta.MaxValueSize)
			for j := range k {
				k[j], v[j] = byte(i), byte(i+j)
			}
			verifAssert(meta.Add(k, v) == nil, "C05.file: meta.Add refused a pair within the documented limits")
		}
	}
	// the query signature (prefix: one of the used prefixes or an unused one)
	qset := []int{7}
	for _, pi := range shape {
		dup := false
		for _, x := range qset {
			dup = dup || x == pi
		}
		if !dup {
			qset = append(qset, pi)
		}
	}
	var q [64]byte
	if verifParam("query", 0) == 1 {
		p := verifC05Prefixes[qset[verifChoice("q.prefix", len(qset))]]
		q[0], q[1] = p[0], p[1]
		copy(q[2:8], verifBytes("q", 6))
	} else if len(sigs) > 0 {
		q = sigs[len(sigs)/2] // no symbolic query: nothing forks after the puts
	}
	wHas := w.Has(q)

	size, err := w.Seal(meta)
	verifAssert(err == nil, "C05.file: Seal failed")
	verifAssert(w.Close() == nil, "C05.file: Close failed")
	_ = size

	var r *Reader
	if m := verifParam("mmap", 0); m == 1 || (m == 2 && shapeIdx%2 == 1) {
		r, err = Open(path) // the server's entry point: isEmptyFile + mmap.Open + NewReader
		verifAssert(err == nil, "C05.file: Open failed on a file the writer sealed")
	} else {
		f, err := os.Open(path)
		verifAssert(err == nil, "C05.file: open failed")
		r, err = NewReader(f)
		verifAssert(err == nil, "C05.file: NewReader failed on a file the writer sealed")
	}
	for _, s := range sigs {
		ok, err := r.Has(s)
		verifAssert(err == nil, "C05.file: Reader.Has failed")
		verifAssert(ok, "C05.file: signature put before sealing is reported absent (false negative)")
		verifAssert(w.Has(s), "C05.file: Writer.Has forgets a signature after Seal")
	}
	step := 1
	if len(extra) > 600 {
		step = 97 // sample a large bucket: every 97th signature, plus the last 3
	}
	for i, s := range extra {
		if i%step != 0 && i < len(extra)-3 {
			continue
		}
		ok, err := r.Has(s)
		verifAssert(err == nil, "C05.file: Reader.Has failed (concrete-hash signature)")
		verifAssert(ok, "C05.file: signature put before sealing is reported absent (false negative, concrete-hash signature)")
	}
	if len(extra) > 0 {
		// concrete hashes that were never put: below, between and above the stored ones
		for _, pi := range []int{0, 5, 7} {
			for _, id := range []uint64{1 << 40, 3, 1<<40 + 1} {
				s := verifC05ConcSig(verifC05Prefixes[pi], id)
				ok, err := r.Has(s)
				verifAssert(err == nil, "C05.file: Reader.Has failed (absent concrete-hash signature)")
				verifAssert(ok == w.Has(s), "C05.file: Writer.Has and the sealed file disagree (concrete-hash signature)")
				verifAssert(!ok || (pi == 5 && id == 3 && big > 3), "C05.file: a hash that was never put is reported present")
			}
		}
	}
	exp := false
	for _, s := range append(append([][64]byte(nil), sigs...), extra...) {
		if s[0] == q[0] && s[1] == q[1] {
			exp = verifC05Or(exp, Hash(s) == Hash(q))
		}
	}
	got, err := r.Has(q)
	verifAssert(err == nil, "C05.file: Reader.Has(q) failed")
	verifAssert(got == exp, "C05.file: Reader.Has(q) differs from (a signature with q's prefix and q's hash was put)")
	verifAssert(got == wHas, "C05.file: Writer.Has and the sealed file disagree")
	if m := r.Meta(); verifParam("meta", 1) == 1 {
		verifAssert(m != nil && len(m.KeyVals) == 1 && len(m.KeyVals[0].Key) == 2 && len(m.KeyVals[0].Value) == 3, "C05.file: metadata shape lost")
		same := true
		for i := range m.KeyVals[0].Key {
			same = verifC05And(same, m.KeyVals[0].Key[i] == meta.KeyVals[0].Key[i])
		}
		for i := range m.KeyVals[0].Value {
			same = verifC05And(same, m.KeyVals[0].Value[i] == meta.KeyVals[0].Value[i])
		}
		verifAssert(same, "C05.file: metadata bytes not preserved")
	} else if verifParam("meta", 1) == 2 {
		verifAssert(m != nil && len(m.KeyVals) == indexmeta.MaxNumKVs, "C05.file: maximal metadata: number of pairs lost")
		last := m.KeyVals[indexmeta.MaxNumKVs-1]
		verifAssert(len(last.Key) == indexmeta.MaxKeySize && len(last.Value) == indexmeta.MaxValueSize && last.Key[7] == 254 && last.Value[254] == 252, "C05.file: maximal metadata: last pair not preserved")
	} else {
		verifAssert(m != nil && len(m.KeyVals) == 0, "C05.file: metadata appeared from nowhere")
	}
	// every prefix without signatures is answered "absent" without error: spot-check one more
	for _, pi := range []int{6} {
		var s [64]byte
		s[0], s[1] = verifC05Prefixes[pi][0], verifC05Prefixes[pi][1]
		ok, err := r.Has(s)
		verifAssert(err == nil && !ok, "C05.file: empty bucket reports a signature / fails")
	}
	verifReach("end")
}

// shapes: prefix index (into verifC05Prefixes) of each put signature
var verifC05Shapes = [][]int{
	0:  {0, 0, 3},                // two in the first bucket (0x0000), one in the last (0xffff)
	1:  {},                       // empty index
	2:  {1},                      // single signature
	3:  {1, 2, 1, 2, 1},          // 3 + 2 in the two byte orders of 1
	4:  {3, 3, 3, 3},             // four in the last bucket
	5:  {0, 1, 2, 3, 4, 5},       // one each in six buckets
	6:  {4, 4, 4, 4, 4, 4, 4, 5}, // 7 + 1
	7:  {2, 1, 2},                // 2 + 1, candidates for arbitrary put order
	9:  {1, 2, 2, 3, 3, 3},       // quick single path (with the concrete-hash extras): populations 1, 2, 3 in buckets 0x0001, 0x0100, 0xffff
	10: {3, 3, 3},                // three in the last bucket, candidates for arbitrary put order (13 order/tie patterns)
	8:  {1, 0, 0, 0},             // one in bucket 0x0001 (LE), then three in its predecessor bucket 0x0000: more than the
	//                        (rewritten) initial capacity 2, so an append that grows past the capacity must not touch the neighbour
}
