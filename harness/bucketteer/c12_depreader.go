//go:build verif

package bucketteer

import (
	"bytes"
	"encoding/binary"
)

// C12.bucketteer.dep — the DEPRECATED signature-existence format (deprecated/bucketteer, still
// opened by epoch.go for old files): NewReader (readHeaderSize/readHeader) and Reader.Has on a
// file of arbitrary bytes: error or answer; no panic, no allocation out of proportion.
// Layout: headerSize u32 | magic(8) version u64 numMeta u64 (string,string)* numPrefixes u64
// (prefix[2], offset u64)* | buckets: numHashes u32, hashes u64*.
// Symbolic: header size, version, bucket offsets, every content byte, the key hash.
// Structure-aware candidates: the magic (right / one byte off; it is printed with string()),
// the metadata count (0, or 2^40 followed by a string length the file cannot hold; metadata
// strings become Go strings, which are concrete in the engine), the prefix count (K, 0, K+1,
// 2^40: it is a map size hint), the 2-byte prefixes.

var verifC12DepSigHash uint64

// model of Hash (xxhash of the signature; the real one is renamed to verifOrig_Hash)
func Hash(sig [64]byte) uint64 { return verifC12DepSigHash }

func VerifC12BucketteerDep() {
	K := verifParam("prefixes", 1)
	C := verifParam("content", 12)
	limit := verifParam("alloc", 1<<20)
	verifAllocLimit(int64(limit))
	H := 8 + 8 + 8 + 8 + 10*K
	lens := []int{4 + H + C, 0, 3, 4, 4 + 16, 4 + H - 1}
	n := lens[verifChoice("len", verifParam("lens", len(lens)))]
	data := verifBytes("file", n)
	prefCands := [][2]byte{{0, 0}, {1, 0}, {0xff, 0xff}}
	if n >= 4 {
		hs := binary.LittleEndian.Uint32(data[:4])
		verifAssume(hs <= uint32(H+4) || hs > uint32(limit))
		// known defect: the header is allocated from the size field before anything is checked
		verifKnownFinding("C12-bucketteer-dep-header-alloc", hs > uint32(limit))
	}
	if n >= 4+8 {
		copy(data[4:12], _Magic[:])
		if verifChoice("magic", 2) == 1 {
			data[4+7] ^= 1
		}
	}
	metaShape := 0
	if n >= 4+24 {
		metaShape = verifChoice("meta", 2)
		if metaShape == 0 {
			binary.LittleEndian.PutUint64(data[4+16:], 0)
		} else {
			binary.LittleEndian.PutUint64(data[4+16:], 1<<40)
			if n >= 4+28 {
				binary.LittleEndian.PutUint32(data[4+24:], 0xfffffff0)
			}
		}
	}
	if n >= 4+32 && metaShape == 0 {
		// the prefix count is a map size hint (concretised by the engine): candidates
		npCands := []uint64{uint64(K), 1 << 40, 0, uint64(K + 1)}
		binary.LittleEndian.PutUint64(data[4+24:], npCands[verifChoice("numPrefixes", verifParam("npcands", len(npCands)))])
	}
	if n >= 4+H && metaShape == 0 {
		for k := 0; k < K; k++ {
			p := prefCands[verifChoice("prefix", verifParam("fileprefcands", len(prefCands)))]
			copy(data[4+32+10*k:], p[:])
		}
	}
	r, err := NewReader(bytes.NewReader(data))
	if err != nil {
		verifAssert(r == nil, "C12.bucketteer.dep: NewReader returned both a reader and an error")
		verifReach("open-error")
		verifReach("end")
		return
	}
	verifAssert(r != nil && r.prefixToOffset != nil && r.contentReader != nil, "C12.bucketteer.dep: NewReader returned an incomplete reader")
	_ = r.Meta()
	_ = r.GetMeta("k")
	var sig [64]byte
	p := prefCands[verifChoice("sigprefix", verifParam("prefcands", len(prefCands)))]
	sig[0], sig[1] = p[0], p[1]
	verifC12DepSigHash = verifU64("sighash")
	has, err := r.Has(sig)
	if err != nil {
		verifAssert(!has, "C12.bucketteer.dep: Has returned true together with an error")
		verifReach("has-error")
	} else {
		verifReach("has-answer")
	}
	verifAssert(r.Close() == nil, "C12.bucketteer.dep: Close failed")
	verifReach("end")
}
