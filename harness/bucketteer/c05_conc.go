//go:build verif

package bucketteer

// C05.conc — two lookups on ONE shared Reader running concurrently (the server shares an epoch's
// sig-exists reader between request handlers): both added signatures are reported present under
// every interleaving, and the lookups do not write shared state (happens-before race check).
func VerifC05Conc() {
	pA, pB := verifC05Prefixes[1], verifC05Prefixes[2]
	mk := func(p [2]byte, name string) [64]byte {
		var s [64]byte
		s[0], s[1] = p[0], p[1]
		copy(s[2:8], verifBytes(name, 6))
		return s
	}
	n := 1 + verifChoice("n", 2)
	sa := make([][64]byte, n)
	ha := make([]uint64, n)
	for i := range sa {
		sa[i] = mk(pA, "a")
		ha[i] = Hash(sa[i])
	}
	for i := 1; i < n; i++ {
		verifAssume(ha[i-1] < ha[i])
	}
	sb := mk(pB, "b")
	var content []byte
	bucketA := verifC05Bucket(append([]uint64(nil), ha...))
	bucketB := verifC05Bucket([]uint64{Hash(sb)})
	offA := uint64(len(content))
	content = append(content, bucketA...)
	offB := uint64(len(content))
	content = append(content, bucketB...)
	layout := newUint16LayoutPointer()
	layout[prefixToUint16(pA)] = offA
	layout[prefixToUint16(pB)] = offB
	r := &Reader{contentReader: &verifC05YieldRA{data: content}, prefixToOffset: layout}

	done := make(chan int, 2)
	var gotA, gotB bool
	var errA, errB error
	go func() { gotA, errA = r.Has(sa[n-1]); done <- 1 }()
	go func() { gotB, errB = r.Has(sb); done <- 2 }()
	<-done
	<-done
	verifAssert(errA == nil && errB == nil, "C05.conc: concurrent Reader.Has failed on a well-formed file")
	verifAssert(gotA && gotB, "C05.conc: a signature that was added is reported absent by a concurrent lookup (false negative)")
	verifReach("end")
}

// verifC05YieldRA: array-backed ReaderAt whose reads are scheduling points (as real I/O is), so that
// lookups interleave between a read and the decoding of what was read.
type verifC05YieldRA struct{ data []byte }

func (r *verifC05YieldRA) ReadAt(p []byte, off int64) (int, error) {
	verifYield()
	ra := verifC05RA{data: r.data}
	n, err := ra.ReadAt(p, off)
	verifYield()
	return n, err
}
