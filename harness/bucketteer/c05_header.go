//go:build verif

package bucketteer

// Header framing of the CURRENT format against an independent reference serialisation, for the
// metadata shapes the property quantifies over ("all metadata"). Only this file refers to
// createHeader / readHeader.

import (
	"bytes"
	"encoding/binary"
	"math"

	"github.com/rpcpool/yellowstone-faithful/indexmeta"
)

// verifC05MetaShapes: key/value LENGTHS of each pair (bytes are arbitrary). The first three are the
// quick set: no pairs at all; empty key and empty value next to non-empty ones; production-like.
var verifC05MetaShapes = [][][2]int{
	0: {},
	1: {{0, 3}, {2, 0}, {0, 0}},
	2: {{5, 8}, {4, 36}, {7, 7}},
	3: {{1, 1}},
	4: {{255, 255}},
	5: nil, // 255 pairs of (1, 0): filled in below
}

// verifC05RefHeader: REFERENCE layout of the header (written from the format description, not
// from the code): u32 LE size field | magic | u64 LE version | u8 pair count, per pair u8 key
// length, key, u8 value length, value | u64 LE number of prefixes | per prefix in increasing
// bucket order: the two prefix bytes (little endian bucket number), u64 LE offset.
func verifC05RefHeader(sizeField uint32, kvs []indexmeta.KV, offs *bucketToOffset) []byte {
	out := make([]byte, 0, 4+8+8+1+8+len(offs)*10)
	out = binary.LittleEndian.AppendUint32(out, sizeField)
	out = append(out, 'b', 'u', 'c', 'k', 'e', 't', 't', 'e')
	out = binary.LittleEndian.AppendUint64(out, 2)
	out = append(out, byte(len(kvs)))
	for _, kv := range kvs {
		out = append(out, byte(len(kv.Key)))
		out = append(out, kv.Key...)
		out = append(out, byte(len(kv.Value)))
		out = append(out, kv.Value...)
	}
	out = binary.LittleEndian.AppendUint64(out, uint64(len(offs)))
	for i := range offs {
		out = append(out, byte(i), byte(i>>8))
		out = binary.LittleEndian.AppendUint64(out, offs[i])
	}
	return out
}

// C05.header.cur — for each metadata shape (no pairs, empty keys / values, production-like,
// maximal lengths, maximal count), arbitrary metadata bytes, an arbitrary size field and arbitrary
// offsets at the boundary buckets:
//
//	(w) the real createHeader emits exactly the reference bytes;
//	(r) the real readHeader, given the reference bytes, returns exactly the offsets table, the
//	    metadata pairs and the position where the buckets start.
//
// Together: whatever metadata an index is sealed with, writer and reader agree on where the
// prefix table and the buckets are (a misframed header makes every lookup answer "absent").
func VerifC05Header() {
	var avail []int
	for i := range verifC05MetaShapes {
		if verifParam("metas", 7)&(1<<i) != 0 {
			avail = append(avail, i)
		}
	}
	mi := avail[verifChoice("meta", len(avail))]
	shape := verifC05MetaShapes[mi]
	if mi == 5 {
		for i := 0; i < indexmeta.MaxNumKVs; i++ {
			shape = append(shape, [2]int{1, 0})
		}
	}
	var meta indexmeta.Meta
	for _, l := range shape {
		verifAssert(meta.Add(verifBytes("k", l[0]), verifBytes("v", l[1])) == nil, "C05.header: meta.Add refused a pair within the documented limits")
	}
	var offs bucketToOffset
	for i := range offs {
		offs[i] = uint64(i) * 12
	}
	for _, b := range []int{0, 1, 255, 256, 257, math.MaxUint16 - 1, math.MaxUint16} {
		offs[b] = verifU64("off")
	}
	// the size field: 0 in the draft header seal writes first, the header length minus the field
	// itself in the final header
	sizeField := uint32(0)
	final := false
	ref := verifC05RefHeader(sizeField, meta.KeyVals, &offs)
	if f := verifParam("final", 1); f == 1 || (f == 2 && verifChoice("final", 2) == 1) {
		final = true
		sizeField = uint32(len(ref) - 4)
		ref = verifC05RefHeader(sizeField, meta.KeyVals, &offs)
	}

	// (w)
	got, err := createHeader(_Magic, Version, sizeField, meta, offs)
	verifAssert(err == nil, "C05.header: createHeader failed")
	verifAssert(len(got) == len(ref), "C05.header: header length differs from the reference layout (metadata block misframed?)")
	verifAssert(bytes.Equal(got, ref), "C05.header: header bytes differ from the reference layout")
	verifReach("written")

	if !final {
		// the draft only reserves the space: it must have the length of the final header, and is never read
		verifReach("end")
		return
	}

	// (r)
	rOffs, rMeta, start, err := readHeader(&verifC05RA{data: append(append([]byte(nil), ref...), 0xEE, 0xEE)})
	verifAssert(err == nil, "C05.header: readHeader refuses a well-formed header")
	verifAssert(start == int64(len(ref)), "C05.header: buckets are expected at a position different from the end of the header")
	verifAssert(rOffs != nil && *rOffs == offs, "C05.header: offsets table read back differs from the one written")
	verifAssert(rMeta != nil && len(rMeta.KeyVals) == len(meta.KeyVals), "C05.header: number of metadata pairs lost")
	same := true
	for i, kv := range meta.KeyVals {
		g := rMeta.KeyVals[i]
		verifAssert(len(g.Key) == len(kv.Key) && len(g.Value) == len(kv.Value), "C05.header: metadata pair lengths lost")
		same = verifC05And(same, bytes.Equal(g.Key, kv.Key))
		same = verifC05And(same, bytes.Equal(g.Value, kv.Value))
	}
	verifAssert(same, "C05.header: metadata bytes not preserved")
	verifReach("end")
}
