//go:build verif

package bucketteer

// Lemmas about the in-memory bucket pipeline of seal (getCleanSet, sortWithCompare/eytzinger),
// shared by the current and the legacy package (same unexported helper names in both). Only
// this file refers to those helpers.

import "encoding/binary"

// verifC05Bucket serialises one bucket from an arbitrary multiset of hashes with the REAL
// getCleanSet + sortWithCompare (u32 LE count, then u64 LE hashes in the order they produce).
func verifC05Bucket(hashes []uint64) []byte {
	entries := getCleanSet(hashes)
	sortWithCompare(entries, verifC05Cmp(entries))
	out := make([]byte, 4+8*len(entries))
	binary.LittleEndian.PutUint32(out, uint32(len(entries)))
	for i, h := range entries {
		binary.LittleEndian.PutUint64(out[4+8*i:], h)
	}
	return out
}

// C05.clean — getCleanSet returns a strictly increasing slice holding exactly the values of the
// input multiset (arbitrary order, duplicates allowed).
func VerifC05Clean() {
	n := verifChoice("n", verifParam("N", 4)+1)
	in := verifC05Hashes(n, false)
	orig := append([]uint64(nil), in...)
	out := getCleanSet(in)
	verifAssert(len(out) <= n && (n == 0 || len(out) >= 1), "C05.clean: output length out of range")
	for i := 1; i < len(out); i++ {
		verifAssert(out[i-1] < out[i], "C05.clean: output not strictly increasing")
	}
	for _, x := range orig { // no input value is lost
		hit := false
		for _, y := range out {
			hit = verifC05Or(hit, x == y)
		}
		verifAssert(hit, "C05.clean: an input hash is missing from the clean set (false negative)")
	}
	for _, y := range out { // nothing is invented
		hit := false
		for _, x := range orig {
			hit = verifC05Or(hit, x == y)
		}
		verifAssert(hit, "C05.clean: clean set holds a value that was never added")
	}
	verifReach("end")
}

// verifC05Pops: bucket populations for the concrete-key mode: every n in 0..N plus the
// 2^k-1, 2^k, 2^k+1 boundaries up to big.
func verifC05Pops(N, big int) []int {
	var out []int
	for n := 0; n <= N; n++ {
		out = append(out, n)
	}
	for k := 64; k <= big; k *= 2 {
		for _, n := range []int{k - 1, k, k + 1} {
			if n > N {
				out = append(out, n)
			}
		}
	}
	return out
}

// verifC05ConcreteKeys: n distinct concrete hashes 5, 8, 11, ... fed in the order (1,0,3,2,...)
// plus one duplicate, so that the real dedup and both sorts have work to do but nothing forks.
func verifC05ConcreteKeys(n int) []uint64 {
	h := make([]uint64, 0, n+1)
	for i := 0; i < n; i++ {
		j := i ^ 1
		if j >= n {
			j = i
		}
		h = append(h, uint64(3*j+5))
	}
	if n > 0 {
		h = append(h, h[n/2])
	}
	return h
}

// C05.search.* — the in-memory bucket pipeline of seal (getCleanSet, sortWithCompare with the
// three-way comparator, eytzinger) followed by the REAL Reader.Has (count, section reader,
// readUint64Le, the eytzinger descent) on the serialised bucket: for EVERY signature q of the
// bucket's prefix, Has(q) iff Hash(q) is one of the added hashes. Hash(q) is an unconstrained
// 64-bit value x, so "every added hash is found" is the x == h[i] instance.
// mode 0: the hashes are symbolic (n <= perm: arbitrary order with duplicates; larger n: assumed
// strictly increasing). mode 1: concrete hashes, population n up to hundreds; the code under
// test only compares hashes, so x symbolic covers each of the 2n+1 order positions of x.
func VerifC05Search() {
	var h []uint64
	if verifParam("conc", 0) == 1 {
		pops := verifC05Pops(verifParam("N", 16), verifParam("big", 0))
		h = verifC05ConcreteKeys(pops[verifChoice("n", len(pops))])
	} else {
		minN := verifParam("minN", 0)
		n := minN + verifChoice("n", verifParam("N", 8)-minN+1)
		h = verifC05Hashes(n, n > verifParam("perm", 3))
	}
	orig := append([]uint64(nil), h...)
	p := verifC05Prefixes[6]
	r := verifC05OneBucketReader(verifC05Bucket(h), p)
	var q [64]byte
	q[0], q[1] = p[0], p[1]
	copy(q[2:8], verifBytes("q", 6))
	x := Hash(q)
	in := false
	for _, y := range orig {
		in = verifC05Or(in, x == y)
	}
	got, err := r.Has(q)
	verifAssert(err == nil, "C05.search: Reader.Has failed on a well-formed bucket")
	if got {
		verifAssert(in, "C05.search: a hash that was never added is reported present")
		verifReach("found")
	} else {
		verifAssert(!in, "C05.search: an added hash is not found in its own bucket (false negative)")
		verifReach("notfound")
	}
	verifReach("end")
}
