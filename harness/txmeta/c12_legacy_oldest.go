//go:build verif

package parse_legacy_transaction_status_meta_b7b4aa5d4d34ebf3fd338a64f4f2a5257b047bb4

import "encoding/binary"

// C12.txmeta.oldest — the generated bincode parser of legacy transaction-status metadata
// (BincodeDeserializeTransactionStatusMeta, tried by solanatxmetaparsers.ParseAnyTransactionStatusMeta
// on every metadata blob that is not valid protobuf) over arbitrary bytes: error or value, no
// panic, allocation proportional to the input.
// Layout: Result (u32 variant, Err carries a TransactionError enum tree), fee u64,
// pre_balances vec<u64> (u64 length), post_balances vec<u64>, [latest only] option<vec<InnerInstructions>>.
// Symbolic: every byte. The first vector's length field is concretised by make(): it is
// restricted to [0,2] or above limit/8.
func VerifC12TxMetaLegacy() {
	limit := verifParam("alloc", 1<<20)
	verifAllocLimit(int64(limit))
	T := verifParam("tail", 9) // bytes after the first vector length
	// Result: Ok (variant 0, unit) | arbitrary variant index followed by arbitrary bytes
	var pre []byte
	if verifChoice("result", 2) == 0 {
		pre = []byte{0, 0, 0, 0}
	} else {
		pre = verifBytes("result", verifParam("resultBytes", 8))
	}
	lens := []int{len(pre) + 8 + 8 + T, 0, 3, len(pre) + 7, len(pre) + 8 + 7}
	n := lens[verifChoice("len", verifParam("lens", len(lens)))]
	data := append(append([]byte{}, pre...), verifBytes("rest", 8+8+T)...)
	if n < len(data) {
		data = data[:n]
	}
	if len(data) >= len(pre)+16 && len(pre) == 4 && pre[0] == 0 {
		l := binary.LittleEndian.Uint64(data[len(pre)+8:])
		verifAssume(l <= 2 || l > uint64(limit/8))
		// known defect: vectors are allocated from their length field (<= 2^31-1 elements)
		verifKnownFinding("C12-txmeta-legacy-vector-alloc", l > uint64(limit/8) && l <= 1<<31-1)
		if l <= 2 && len(data) >= len(pre)+16+int(l)*8+8 {
			l2 := binary.LittleEndian.Uint64(data[len(pre)+16+int(l)*8:])
			verifAssume(l2 <= 1 || l2 > 1<<31-1)
		}
	} else if len(pre) != 4 {
		// arbitrary Result bytes: the vector lengths sit at data-dependent positions
		verifAssume(verifC12NoVec(data))
	}
	obj, err := BincodeDeserializeTransactionStatusMeta(data)
	if err != nil {
		verifReach("parse-error")
	} else {
		verifAssert(obj.Status != nil, "C12.txmeta.oldest: parsed metadata without a status")
		verifAssert(8*(len(obj.PreBalances)+len(obj.PostBalances)) <= len(data), "C12.txmeta.oldest: more balances than the input holds")
		verifReach("parse-ok")
	}
	verifReach("end")
}

// verifC12NoVec: every aligned-or-not u64 in the input that could serve as a vector length is
// either tiny or above the sequence limit (so make() sizes stay concrete-small).
func verifC12NoVec(data []byte) bool {
	bad := uint64(0) // branch-free accumulation
	for i := 4; i+8 <= len(data); i++ {
		l := binary.LittleEndian.Uint64(data[i:])
		bad |= verifIteU64(l <= 1, 0, 1) & verifIteU64(l > 1<<31-1, 0, 1)
	}
	return bad == 0
}
