//go:build verif

package parse_legacy_transaction_status_meta_ce598c5c98e7384c104fe7f5121e32c2c5a2d2eb

import "encoding/binary"

// C12.txmeta.legacy — the generated bincode parser of legacy transaction-status metadata
// (BincodeDeserializeTransactionStatusMeta, tried by solanatxmetaparsers.ParseAnyTransactionStatusMeta
// on every metadata blob that is not valid protobuf) over arbitrary bytes: error or value, no
// panic, allocation proportional to the input.
// Layout: Result (u32 variant, Err carries a TransactionError enum tree), fee u64,
// pre_balances vec<u64> (u64 length), post_balances vec<u64>, [latest only] option<vec<InnerInstructions>>.
// Symbolic: every byte (see the restriction on length-field candidates below).
func VerifC12TxMetaLegacy() {
	limit := verifParam("alloc", 1<<20)
	verifAllocLimit(int64(limit))
	T := verifParam("tail", 9) // bytes after the first vector length
	// Result: Ok (variant 0, unit) | arbitrary variant index followed by arbitrary bytes
	var pre []byte
	if verifChoice("result", 2) == 0 {
		pre = []byte{0, 0, 0, 0}
	} else {
		pre = verifBytes("result", verifParam("resultBytes", 8))
	}
	lens := []int{len(pre) + 8 + 8 + T, 0, 3, len(pre) + 7, len(pre) + 8 + 7}
	n := lens[verifChoice("len", verifParam("lens", len(lens)))]
	data := append(append([]byte{}, pre...), verifBytes("rest", 8+8+T)...)
	if n < len(data) {
		data = data[:n]
	}
	// Vector length fields sit at data-dependent positions and are concretised by make():
	// every 8-byte window that can serve as one is either tiny (<= 2) or larger than the
	// allocation limit. Known defect: a length in (limit, 2^31-1] is allocated before any
	// element is read.
	from := 4
	if len(pre) == 4 {
		from = len(pre) + 8 // Result::Ok and the fee come first
	}
	small, huge := verifC12Windows(data, from, uint64(limit))
	verifAssume(small)
	verifKnownFinding("C12-txmeta-legacy-vector-alloc", huge)
	obj, err := BincodeDeserializeTransactionStatusMeta(data)
	if err != nil {
		verifReach("parse-error")
	} else {
		verifAssert(obj.Status != nil, "C12.txmeta.legacy: parsed metadata without a status")
		verifAssert(8*(len(obj.PreBalances)+len(obj.PostBalances)) <= len(data), "C12.txmeta.legacy: more balances than the input holds")
		verifReach("parse-ok")
	}
	verifReach("end")
}

// verifC12Windows: small = every 8-byte window from position from on is <= 2 or > limit;
// huge = some window lies in (limit, 2^31-1] (a sequence length bincode accepts).
func verifC12Windows(data []byte, from int, limit uint64) (bool, bool) {
	bad, huge := uint64(0), uint64(0) // branch-free accumulation
	for i := from; i+8 <= len(data); i++ {
		l := binary.LittleEndian.Uint64(data[i:])
		bad |= verifIteU64(l <= 2, 0, 1) & verifIteU64(l > limit, 0, 1)
		huge |= verifIteU64(l > limit, 1, 0) & verifIteU64(l <= 1<<31-1, 1, 0)
	}
	return bad == 0, huge != 0
}
