//go:build verif

package rangecache

import (
	"bytes"
	"context"
	"errors"
	"io"
)

// c17Remote is the model of the remote file: `size` arbitrary bytes. fetch is the model of the
// remoteFetcher callback (split-car-fetcher/remote-file.go: remoteReadAt = HTTP range request +
// io.ReadFull): it either fills ALL of p with the remote bytes at off and returns (len(p), nil),
// or fails and returns (0, err) having filled nothing; a request that is not inside the file
// can only fail (the server has no such bytes, io.ReadFull reports io.ErrUnexpectedEOF).
// Whether a call fails is arbitrary (one nondeterministic boolean per call) when failures are
// enabled.
type c17Remote struct {
	size     int64
	data     []byte
	mayFail  bool
	kinds    int
	calls    int
	fails    int
	outside  int // calls asking for bytes outside the file
	lastFail bool
}

var c17ErrRemote = errors.New("c17: remote fetch failed")

func (m *c17Remote) fetch(p []byte, off int64) (int, error) {
	m.calls++
	m.lastFail = false
	if off < 0 || off > m.size || int64(len(p)) > m.size-off {
		m.outside++
		m.fails++
		m.lastFail = true
		return 0, io.ErrUnexpectedEOF
	}
	if m.mayFail {
		// a failing fetch may report any error, in particular the ones io.ReadFull produces when the
		// HTTP body is empty (io.EOF) or ends early (io.ErrUnexpectedEOF). kinds = number of
		// outcomes explored per fetch: 2 = success / io.EOF, 4 = all.
		kinds := m.kinds
		if kinds < 2 {
			kinds = 2
		}
		if k := verifChoice("fetch_outcome", kinds); k != 0 {
			m.fails++
			m.lastFail = true
			return 0, []error{nil, io.EOF, c17ErrRemote, io.ErrUnexpectedEOF}[k]
		}
	}
	o := verifConcInt(int(off))
	copy(p, m.data[o:o+len(p)])
	return len(p), nil
}

func c17New(size int, mayFail bool) (*RangeCache, *c17Remote) {
	m := &c17Remote{size: int64(size), data: verifBytes("remote", size), mayFail: mayFail, kinds: verifParam("fail_kinds", 2)}
	rc := NewRangeCache(int64(size), "c17", m.fetch)
	return rc, m
}

// c17RangeByIndex enumerates the valid ranges [a,b) of a file of the given size:
// 0 <= a <= b <= size, (size+1)(size+2)/2 of them (empty ranges included).
func c17RangeByIndex(size, idx int) (int64, int64) {
	for a := 0; a <= size; a++ {
		n := size - a + 1
		if idx < n {
			return int64(a), int64(a + idx)
		}
		idx -= n
	}
	panic("c17RangeByIndex: index out of range")
}

func c17NumRanges(size int) int { return (size + 1) * (size + 2) / 2 }

// c17CheckGet is the oracle for one GetRange(start, ln) that returned (got, err) while the
// remote was called calls1-calls0 times: refused when the range is not inside the file, else
// exactly the remote bytes, or an error exactly when the fetch made for this read failed.
func c17CheckGet(m *c17Remote, id string, start, ln int64, got []byte, err error, failsBefore int) {
	valid := start >= 0 && start <= m.size && ln >= 0 && ln <= m.size-start
	if !valid {
		verifAssert(err != nil, id+": a read that is not inside the file was not refused")
		verifAssert(got == nil, id+": a refused read returned data")
		return
	}
	failed := m.fails > failsBefore
	if failed {
		verifAssert(err != nil, id+": the remote fetch failed but the read returned no error")
		verifAssert(got == nil, id+": a failed read returned data")
		return
	}
	verifAssert(err == nil, id+": read inside the file failed although no remote fetch failed")
	verifAssert(int64(len(got)) == ln, id+": returned length differs from the requested length")
	s := verifConcInt(int(start))
	verifAssert(bytes.Equal(got, m.data[s:s+len(got)]), id+": returned bytes differ from the remote bytes at that range")
}

// c17Args picks the (start, ln) arguments of one operation: either one of the valid ranges of
// the file (concrete, one path each) or ANY pair of 64-bit values that is not a range inside the
// file (symbolic: negative start or length, past the end, start+ln overflowing int64).
func c17Args(m *c17Remote, size int) (start, ln int64, valid bool) {
	mode := verifChoice("args", c17NumRanges(size)+1)
	if mode == 0 {
		start, ln = verifI64("start"), verifI64("ln")
		verifAssume(!(start >= 0 && start <= m.size && ln >= 0 && ln <= m.size-start))
		return start, ln, false
	}
	a, b := c17RangeByIndex(size, mode-1)
	return a, b - a, true
}


// c17SeedPublic brings the cache into a state with up to maxK entries using only the public API:
// SetRange of arbitrary valid ranges with the remote bytes (black box: no reference to the
// representation). Nested pairs collapse as setRange decides.
func c17SeedPublic(rc *RangeCache, m *c17Remote, size, maxK int) {
	k := verifChoice("entries", maxK+1)
	for i := 0; i < k; i++ {
		a, b := c17RangeByIndex(size, verifChoice("range", c17NumRanges(size)))
		v := make([]byte, b-a)
		copy(v, m.data[a:b])
		rc.SetRange(context.Background(), a, b-a, v)
	}
}

// c17Probe is the black-box form of the invariant: with remote failures switched off, a read of
// EVERY valid range of the file returns exactly the remote bytes (whatever is cached - a stale,
// padded, foreign or failed-fetch entry would be served to one of these reads).
func c17Probe(rc *RangeCache, m *c17Remote, size int, id string) {
	m.mayFail = false
	verifMapOrderNondet(false) // an exact-range read finds a bad entry in any iteration order
	for idx := 0; idx < c17NumRanges(size); idx++ {
		a, b := c17RangeByIndex(size, idx)
		got, err := rc.GetRange(context.Background(), a, b-a)
		verifAssert(err == nil, id+": probe: a read inside the file failed although the remote works")
		verifAssert(int64(len(got)) == b-a, id+": probe: returned length differs from the requested length")
		verifAssert(bytes.Equal(got, m.data[a:b]), id+": probe: a later read is served bytes that differ from the remote (bad cache entry)")
	}
}

// c17Held is a buffer a caller got from an earlier read and keeps using: it wrote its own data
// over it (every byte xor 0xA5) and expects to find that data there for ever.
type c17Held struct {
	buf []byte
	a   int64
}

func c17Hold(held []c17Held, got []byte, a int64) []c17Held {
	for i := range got {
		got[i] ^= 0xA5
	}
	return append(held, c17Held{got, a})
}

func c17CheckHeld(m *c17Remote, held []c17Held, id string) {
	for _, h := range held {
		want := make([]byte, len(h.buf))
		for i := range want {
			want[i] = m.data[int(h.a)+i] ^ 0xA5
		}
		verifAssert(bytes.Equal(h.buf, want), id+": a buffer returned by an earlier read was overwritten by a later operation")
	}
}
