//go:build verif

package rangecache

import (
	"context"
	"time"
)

// C17.conc — R goroutines read concurrently through one cache (optionally while another
// goroutine runs the expiry), every interleaving at synchronisation granularity, with the
// happens-before race detector on. Pre-state: empty cache or one arbitrary valid entry. Each
// reader reads an arbitrary valid range (so: equal, overlapping, nested, adjacent, disjoint
// requests; hits and concurrent misses); the fetch a miss makes fails or succeeds arbitrarily.
// Every reader gets the remote bytes of its range, or an error and then a remote fetch failed;
// as many reads fail as fetches failed (a failed fetch is not served to anybody else); the
// invariant holds at the end; nobody deadlocks.
func VerifC17Conc() {
	const id = "C17.conc"
	size := verifParam("size", 2)
	R := verifParam("readers", 2)
	expirer := verifParam("expirer", 0)
	rc, m := c17New(size, verifParam("fail", 1) == 1)
	ctx := context.Background()
	c17SeedPublic(rc, m, size, verifParam("entries", 1))
	nr := c17NumRanges(size)

	type res struct {
		a, ln int64
		got   []byte
		err   error
	}
	results := make([]res, R)
	prev := 0
	for i := 0; i < R; i++ {
		// readers are interchangeable: choose their ranges in non-decreasing enumeration order
		idx := prev + verifChoice("read", nr-prev)
		prev = idx
		a, b := c17RangeByIndex(size, idx)
		results[i].a, results[i].ln = a, b-a
	}
	verifMapOrderNondet(verifParam("map_order", 1) == 1)
	// one completion channel per goroutine (independent operations: fewer equivalent schedules)
	done := make([]chan int, R+2)
	for i := range done {
		done[i] = make(chan int, 1)
	}
	for i := 0; i < R; i++ {
		i := i
		go func() {
			r := &results[i]
			r.got, r.err = rc.GetRange(ctx, r.a, r.ln)
			for j := range r.got {
				r.got[j] ^= 0xA5 // the caller owns the returned buffer
			}
			for j := range r.got {
				r.got[j] ^= 0xA5
			}
			done[i] <- i
		}()
	}
	wait := []int{}
	for i := 0; i < R; i++ {
		wait = append(wait, i)
	}
	if expirer == 1 {
		wait = append(wait, R)
		go func() {
			rc.DeleteOldEntries(ctx, time.Minute)
			done[R] <- R
		}()
	}
	if verifParam("setter", 0) == 1 {
		// a goroutine stores an arbitrary valid range (with the remote bytes) through SetRange
		a, b := c17RangeByIndex(size, verifChoice("set", nr))
		value := make([]byte, b-a)
		copy(value, m.data[a:b])
		wait = append(wait, R+1)
		go func() {
			rc.SetRange(ctx, a, b-a, value)
			done[R+1] <- R + 1
		}()
	}
	for _, i := range wait {
		<-done[i]
	}
	verifMapOrderNondet(false)
	errs := 0
	for i := 0; i < R; i++ {
		r := results[i]
		if r.err != nil {
			errs++
			verifAssert(r.got == nil, id+": a failed read returned data")
			continue
		}
		// fails "before" = all fails: a nil error must come with the right bytes
		c17CheckGet(m, id, r.a, r.ln, r.got, r.err, m.fails)
	}
	verifAssert(errs == m.fails, id+": number of failed reads differs from the number of failed remote fetches")
	// the cache is still usable (no lock left held) and whatever it holds now reads right:
	// every range of the file, remote working (black-box invariant)
	c17Probe(rc, m, size, id)
	verifReach("end")
}
