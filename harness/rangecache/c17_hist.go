//go:build verif

package rangecache

import (
	"context"
	"time"
)

// C17.hist — every history of H operations from the empty cache. Each operation is one of
//   - GetRange of any valid range of the file (the fetch it may cause fails or succeeds, arbitrary),
//   - GetRange that is not inside the file: one byte past the end, negative start, negative length,
//   - SetRange of any valid range with the remote bytes (the caller does not touch the slice afterwards),
//   - DeleteOldEntries (the age of every entry is arbitrary: any subset of the entries expires).
//
// After every read the returned buffer is overwritten by the caller (a returned buffer must not
// be the cache's own storage, else the next read of that range returns the caller's scribbles).
// Every read is checked against the remote bytes and the invariant is checked after every step.
func VerifC17Hist() {
	const id = "C17.hist"
	size := verifParam("size", 3)
	H := verifParam("ops", 3)
	withSet := verifParam("with_set", 1)
	rc, m := c17New(size, verifParam("fail", 1) == 1)
	ctx := context.Background()
	verifMapOrderNondet(true)
	nr := c17NumRanges(size)

	for step := 0; step < H; step++ {
		verifMapOrderNondet(true)
		nops := nr + 2
		if withSet == 1 {
			nops += nr
		}
		op := verifChoice("op", nops)
		switch {
		case op < nr: // read of a valid range
			a, b := c17RangeByIndex(size, op)
			fails0 := m.fails
			before := c17Keys(rc)
			verifMapOrderNondet(true)
			got, err := rc.GetRange(ctx, a, b-a)
			c17CheckGet(m, id, a, b-a, got, err, fails0)
			if err != nil {
				c17SameKeys(rc, before, id+": a failed read changed the set of cached ranges")
			}
			for i := range got {
				got[i] ^= 0xA5 // the caller reuses its buffer
			}
		case op == nr: // read that is not inside the file (arbitrary 64-bit arguments: see C17.step; here three shapes)
			bad := [][2]int64{{m.size, 1}, {-1, 1}, {1, -1}}[verifChoice("bad", 3)]
			start, ln := bad[0], bad[1]
			before := c17Keys(rc)
			verifMapOrderNondet(true)
			got, err := rc.GetRange(ctx, start, ln)
			c17CheckGet(m, id, start, ln, got, err, m.fails)
			c17SameKeys(rc, before, id+": a refused read changed the set of cached ranges")
		case op == nr+1: // expiry
			before := c17Keys(rc)
			verifMapOrderNondet(true)
			rc.DeleteOldEntries(ctx, time.Minute)
			c17SubsetKeys(rc, before, id+": DeleteOldEntries added a cached range")
		default: // SetRange of a valid range with the remote bytes
			a, b := c17RangeByIndex(size, op-nr-2)
			value := make([]byte, b-a)
			copy(value, m.data[a:b])
			rc.SetRange(ctx, a, b-a, value)
		}
		c17Invariant(rc, m, id)
	}
	verifReach("end")
}

// C17.closed — use after Close (adjacent to the property: HTTPSingleFileRemoteReaderAt.Close
// closes the cache while the reader object stays reachable). After Close an operation must not
// crash the process: a read returns the remote bytes or an error.
func VerifC17Closed() {
	const id = "C17.closed"
	size := verifParam("size", 3)
	rc, m := c17New(size, true)
	ctx := context.Background()
	c17SeedSet(rc, m, size, 1)
	verifMapOrderNondet(true)
	rc.Close()
	op := verifChoice("op", 3)
	// known finding: Close sets the map to nil; every later store into it (the miss path of
	// GetRange, SetRange) panics with "assignment to entry in nil map"
	verifKnownFinding("C17-use-after-close", op != 2)
	switch op {
	case 0:
		start, ln, _ := c17Args(m, size)
		fails0 := m.fails
		got, err := rc.GetRange(ctx, start, ln)
		if err == nil {
			c17CheckGet(m, id, start, ln, got, err, fails0)
		}
	case 1:
		a, b := c17RangeByIndex(size, verifChoice("range", c17NumRanges(size)))
		value := make([]byte, b-a)
		copy(value, m.data[a:b])
		rc.SetRange(ctx, a, b-a, value)
	case 2:
		rc.DeleteOldEntries(ctx, time.Minute)
	}
	verifReach("end")
}
