//go:build verif

package rangecache

import (
	"context"
	"time"
)

// C17.hist — every history of H operations from the empty cache. Each operation is one of
//   - GetRange of any valid range of the file (the fetch it may cause fails or succeeds, arbitrary),
//   - GetRange that is not inside the file: one byte past the end, negative start, negative length,
//   - SetRange of any valid range with the remote bytes (the caller does not touch the slice afterwards),
//   - DeleteOldEntries (the age of every entry is arbitrary: any subset of the entries expires).
//
// After every read the caller keeps the returned buffer and writes its own data over it: the
// buffer must not be the cache's storage (else a later read returns the caller's data) and must
// never be written again by the cache (all held buffers are re-checked after every step).
// Every read is checked against the remote bytes. Black box: only the public API is used; at
// the end EVERY range of the file is read with the remote working and must give the remote bytes.
func VerifC17Hist() {
	const id = "C17.hist"
	size := verifParam("size", 3)
	H := verifParam("ops", 3)
	withSet := verifParam("with_set", 1)
	rc, m := c17New(size, verifParam("fail", 1) == 1)
	ctx := context.Background()
	nr := c17NumRanges(size)
	var held []c17Held

	for step := 0; step < H; step++ {
		verifMapOrderNondet(true)
		nops := nr + 2
		if withSet == 1 {
			nops += nr
		}
		op := verifChoice("op", nops)
		switch {
		case op < nr: // read of a valid range
			a, b := c17RangeByIndex(size, op)
			fails0 := m.fails
			got, err := rc.GetRange(ctx, a, b-a)
			c17CheckGet(m, id, a, b-a, got, err, fails0)
			if err == nil {
				// the caller keeps the buffer and writes its own data over it
				held = c17Hold(held, got, a)
			}
		case op == nr: // read that is not inside the file (arbitrary 64-bit arguments: see C17.step; here three shapes)
			bad := [][2]int64{{m.size, 1}, {-1, 1}, {1, -1}}[verifChoice("bad", 3)]
			start, ln := bad[0], bad[1]
			got, err := rc.GetRange(ctx, start, ln)
			c17CheckGet(m, id, start, ln, got, err, m.fails)
		case op == nr+1: // expiry
			rc.DeleteOldEntries(ctx, time.Minute)
		default: // SetRange of a valid range with the remote bytes
			a, b := c17RangeByIndex(size, op-nr-2)
			value := make([]byte, b-a)
			copy(value, m.data[a:b])
			rc.SetRange(ctx, a, b-a, value)
		}
		verifMapOrderNondet(false)
		c17CheckHeld(m, held, id)
	}
	// black-box invariant: whatever the history left in the cache, every range now reads right
	// (a cached failed fetch, a padded or misplaced entry would be served to one of these reads)
	c17Probe(rc, m, size, id)
	c17CheckHeld(m, held, id)
	verifReach("end")
}
