//go:build verif

package rangecache

import (
	"bytes"
	"context"
	"time"
)

// White-box helpers (they name the representation: rc.cache, Range, RangeCacheEntry):
// used only by the inductive-step lemmas C17.step / C17.step3.

// c17Seed puts an entry satisfying the representation invariant directly into the cache map.
func c17Seed(rc *RangeCache, m *c17Remote, a, b int64) {
	v := make([]byte, b-a)
	copy(v, m.data[a:b])
	// (the occupiedSpace counter is not part of the property and is left alone: unsigned wrap-around)
	rc.cache[Range{a, b}] = RangeCacheEntry{Value: v, LastRead: time.Now()}
}

// c17Invariant: every cached range lies inside the file and its value is exactly the remote
// bytes at that range.
func c17Invariant(rc *RangeCache, m *c17Remote, id string) {
	verifMapOrderNondet(false)
	for r, e := range rc.cache {
		inFile := r[0] >= 0 && r[0] <= r[1] && r[1] <= m.size
		verifAssert(inFile, id+": a cached range is not inside the file")
		verifAssert(int64(len(e.Value)) == r[1]-r[0], id+": cached value length differs from its range")
		a := verifConcInt(int(r[0]))
		verifAssert(bytes.Equal(e.Value, m.data[a:a+len(e.Value)]), id+": cached value differs from the remote bytes at its range")
	}
}

type c17Key struct{ a, b int64 }

func c17Keys(rc *RangeCache) []c17Key {
	verifMapOrderNondet(false)
	var ks []c17Key
	for r := range rc.cache {
		ks = append(ks, c17Key{r[0], r[1]})
	}
	return ks
}

// c17SameKeys: the cache holds exactly the ranges in `before`.
func c17SameKeys(rc *RangeCache, before []c17Key, label string) {
	verifAssert(len(rc.cache) == len(before), label)
	for _, k := range before {
		_, ok := rc.cache[Range{k.a, k.b}]
		verifAssert(ok, label)
	}
}

// c17SubsetKeys: every cached range was already cached in `before`.
func c17SubsetKeys(rc *RangeCache, before []c17Key, label string) {
	verifMapOrderNondet(false)
	for r := range rc.cache {
		found := false
		for _, k := range before {
			if k.a == r[0] && k.b == r[1] {
				found = true
			}
		}
		verifAssert(found, label)
	}
}

// c17SeedSet seeds 0..maxK distinct entries at arbitrary valid ranges (any mutual position:
// disjoint, adjacent, overlapping, nested, empty). Entries are chosen in strictly increasing
// enumeration order so that each set of ranges is built once.
func c17SeedSet(rc *RangeCache, m *c17Remote, size, maxK int) {
	k := verifChoice("entries", maxK+1)
	prev := -1
	for i := 0; i < k; i++ {
		left := c17NumRanges(size) - prev - 1
		verifAssume(left > 0)
		idx := prev + 1 + verifChoice("range", left)
		prev = idx
		a, b := c17RangeByIndex(size, idx)
		c17Seed(rc, m, a, b)
	}
}

// C17.step — inductive step. Pre-state: a cache with 0..K entries at arbitrary valid ranges
// satisfying the representation invariant (each value = the remote bytes at its range). One
// operation with arbitrary arguments. Post: result as the property demands, the invariant still
// holds, a refused or failed read leaves the set of cached ranges unchanged.
func VerifC17Step() {
	const id = "C17.step"
	size := verifParam("size", 4)
	rc, m := c17New(size, true)
	ctx := context.Background()
	c17SeedSet(rc, m, size, verifParam("entries", 2))
	before := c17Keys(rc)
	verifMapOrderNondet(true)

	op := verifParam("op", -1)
	if op < 0 {
		op = verifChoice("op", 3)
	}
	switch op {
	case 0: // GetRange
		start, ln, _ := c17Args(m, size)
		fails0 := m.fails
		got, err := rc.GetRange(ctx, start, ln)
		c17CheckGet(m, id, start, ln, got, err, fails0)
		if err != nil {
			c17SameKeys(rc, before, id+": a refused or failed read changed the set of cached ranges")
		}
		verifReach("end-get")
	case 1: // SetRange
		// Transparency does not say which SetRange calls are accepted, only that whatever is
		// stored is right: the checks are the invariant afterwards and a read-back.
		start, ln, valid := c17Args(m, size)
		if valid {
			// value length: right, one more, one less
			L := int(ln) + []int{0, 1, -1}[verifChoice("vlen", 3)]
			verifAssume(L >= 0)
			value := make([]byte, L)
			if L == int(ln) {
				// precondition of SetRange (caller's duty): the value is the remote content
				copy(value, m.data[start:start+ln])
			} else {
				// a value of the wrong length cannot be the content of that range: junk
				copy(value, verifBytes("junk", L))
			}
			rc.SetRange(ctx, start, ln, value)
			fails0 := m.fails
			got, err := rc.GetRange(ctx, start, ln)
			c17CheckGet(m, id, start, ln, got, err, fails0)
			verifReach("end-set-valid")
			break
		}
		L := verifChoice("vlen", 3)
		value := make([]byte, L)
		copy(value, verifBytes("junk", L))
		rc.SetRange(ctx, start, ln, value)
		verifReach("end-set-outside")
	case 2: // expiry with an arbitrary maximum age; the age of every entry is arbitrary
		maxAge := time.Duration(verifI64("max_age"))
		rc.DeleteOldEntries(ctx, maxAge)
		c17SubsetKeys(rc, before, id+": DeleteOldEntries added a cached range")
		verifReach("end-expire")
	}
	c17Invariant(rc, m, id)
	verifReach("end")
}

// C17.ctx — the same step with a CANCELLED context (the ctx.Err() exits of getRangeFromCache,
// setRange and DeleteOldEntries, which no production caller takes: ReadAt passes
// context.Background, only the GC passes the caller's context). An operation may now fail, but
// what it returns without error is still exactly the remote bytes, nothing wrong is stored, no
// lock is left held, and the next read with a live context is right.
func VerifC17Ctx() {
	const id = "C17.ctx"
	size := verifParam("size", 3)
	rc, m := c17New(size, true)
	c17SeedSet(rc, m, size, verifParam("entries", 2))
	verifMapOrderNondet(true)
	ctx, cancel := context.WithCancel(context.Background())
	cancel()

	start, ln, valid := c17Args(m, size)
	switch verifChoice("op", 3) {
	case 0:
		got, err := rc.GetRange(ctx, start, ln)
		if !valid {
			verifAssert(err != nil && got == nil, id+": a read that is not inside the file was not refused")
		} else if err == nil {
			verifAssert(int64(len(got)) == ln, id+": returned length differs from the requested length")
			verifAssert(bytes.Equal(got, m.data[start:start+ln]), id+": returned bytes differ from the remote bytes at that range")
		} else {
			verifAssert(got == nil, id+": a failed read returned data")
		}
	case 1:
		if valid {
			value := make([]byte, ln)
			copy(value, m.data[start:start+ln])
			rc.SetRange(ctx, start, ln, value)
		} else {
			rc.SetRange(ctx, start, ln, verifBytes("junk", verifChoice("vlen", 3)))
		}
	case 2:
		rc.DeleteOldEntries(ctx, time.Duration(verifI64("max_age")))
	}
	c17Invariant(rc, m, id)
	if valid {
		verifMapOrderNondet(true)
		fails0 := m.fails
		got, err := rc.GetRange(context.Background(), start, ln)
		c17CheckGet(m, id, start, ln, got, err, fails0)
	}
	verifReach("end")
}
