//go:build verif

package rangecache

import (
	"bytes"
	"context"
	"errors"
	"io"
	"time"
)

// c17Remote is the model of the remote file: `size` arbitrary bytes. fetch is the model of the
// remoteFetcher callback (split-car-fetcher/remote-file.go: remoteReadAt = HTTP range request +
// io.ReadFull): it either fills ALL of p with the remote bytes at off and returns (len(p), nil),
// or fails and returns (0, err) having filled nothing; a request that is not inside the file
// can only fail (the server has no such bytes, io.ReadFull reports io.ErrUnexpectedEOF).
// Whether a call fails is arbitrary (one nondeterministic boolean per call) when failures are
// enabled.
type c17Remote struct {
	size     int64
	data     []byte
	mayFail  bool
	calls    int
	fails    int
	outside  int // calls asking for bytes outside the file
	lastFail bool
}

var c17ErrRemote = errors.New("c17: remote fetch failed")

func (m *c17Remote) fetch(p []byte, off int64) (int, error) {
	m.calls++
	m.lastFail = false
	if off < 0 || off > m.size || int64(len(p)) > m.size-off {
		m.outside++
		m.fails++
		m.lastFail = true
		return 0, io.ErrUnexpectedEOF
	}
	if m.mayFail {
		// a failing fetch may report any error, in particular the ones io.ReadFull produces when the
		// HTTP body is empty (io.EOF) or ends early (io.ErrUnexpectedEOF)
		if k := verifChoice("fetch_outcome", 4); k != 0 {
			m.fails++
			m.lastFail = true
			return 0, []error{nil, c17ErrRemote, io.EOF, io.ErrUnexpectedEOF}[k]
		}
	}
	o := verifConcInt(int(off))
	copy(p, m.data[o:o+len(p)])
	return len(p), nil
}

func c17New(size int, mayFail bool) (*RangeCache, *c17Remote) {
	m := &c17Remote{size: int64(size), data: verifBytes("remote", size), mayFail: mayFail}
	rc := NewRangeCache(int64(size), "c17", m.fetch)
	return rc, m
}

// c17RangeByIndex enumerates the valid ranges [a,b) of a file of the given size:
// 0 <= a <= b <= size, (size+1)(size+2)/2 of them (empty ranges included).
func c17RangeByIndex(size, idx int) (int64, int64) {
	for a := 0; a <= size; a++ {
		n := size - a + 1
		if idx < n {
			return int64(a), int64(a + idx)
		}
		idx -= n
	}
	panic("c17RangeByIndex: index out of range")
}

func c17NumRanges(size int) int { return (size + 1) * (size + 2) / 2 }

// c17Seed puts an entry satisfying the representation invariant directly into the cache map.
func c17Seed(rc *RangeCache, m *c17Remote, a, b int64) {
	v := make([]byte, b-a)
	copy(v, m.data[a:b])
	if old, ok := rc.cache[Range{a, b}]; ok {
		rc.occupiedSpace -= uint64(len(old.Value))
	}
	rc.cache[Range{a, b}] = RangeCacheEntry{Value: v, LastRead: time.Now()}
	rc.occupiedSpace += uint64(len(v))
}

// c17Invariant: every cached range lies inside the file and its value is exactly the remote
// bytes at that range.
func c17Invariant(rc *RangeCache, m *c17Remote, id string) {
	verifMapOrderNondet(false)
	for r, e := range rc.cache {
		inFile := r[0] >= 0 && r[0] <= r[1] && r[1] <= m.size
		verifAssert(inFile, id+": a cached range is not inside the file")
		verifAssert(int64(len(e.Value)) == r[1]-r[0], id+": cached value length differs from its range")
		a := verifConcInt(int(r[0]))
		verifAssert(bytes.Equal(e.Value, m.data[a:a+len(e.Value)]), id+": cached value differs from the remote bytes at its range")
	}
}

type c17Key struct{ a, b int64 }

func c17Keys(rc *RangeCache) []c17Key {
	verifMapOrderNondet(false)
	var ks []c17Key
	for r := range rc.cache {
		ks = append(ks, c17Key{r[0], r[1]})
	}
	return ks
}

// c17SameKeys: the cache holds exactly the ranges in `before`.
func c17SameKeys(rc *RangeCache, before []c17Key, label string) {
	verifAssert(len(rc.cache) == len(before), label)
	for _, k := range before {
		_, ok := rc.cache[Range{k.a, k.b}]
		verifAssert(ok, label)
	}
}

// c17SubsetKeys: every cached range was already cached in `before`.
func c17SubsetKeys(rc *RangeCache, before []c17Key, label string) {
	verifMapOrderNondet(false)
	for r := range rc.cache {
		found := false
		for _, k := range before {
			if k.a == r[0] && k.b == r[1] {
				found = true
			}
		}
		verifAssert(found, label)
	}
}

// c17CheckGet is the oracle for one GetRange(start, ln) that returned (got, err) while the
// remote was called calls1-calls0 times: refused when the range is not inside the file, else
// exactly the remote bytes, or an error exactly when the fetch made for this read failed.
func c17CheckGet(m *c17Remote, id string, start, ln int64, got []byte, err error, failsBefore int) {
	valid := start >= 0 && start <= m.size && ln >= 0 && ln <= m.size-start
	if !valid {
		verifAssert(err != nil, id+": a read that is not inside the file was not refused")
		verifAssert(got == nil, id+": a refused read returned data")
		return
	}
	failed := m.fails > failsBefore
	if failed {
		verifAssert(err != nil, id+": the remote fetch failed but the read returned no error")
		verifAssert(got == nil, id+": a failed read returned data")
		return
	}
	verifAssert(err == nil, id+": read inside the file failed although no remote fetch failed")
	verifAssert(int64(len(got)) == ln, id+": returned length differs from the requested length")
	s := verifConcInt(int(start))
	verifAssert(bytes.Equal(got, m.data[s:s+len(got)]), id+": returned bytes differ from the remote bytes at that range")
}

// c17Args picks the (start, ln) arguments of one operation: either one of the valid ranges of
// the file (concrete, one path each) or ANY pair of 64-bit values that is not a range inside the
// file (symbolic: negative start or length, past the end, start+ln overflowing int64).
func c17Args(m *c17Remote, size int) (start, ln int64, valid bool) {
	mode := verifChoice("args", c17NumRanges(size)+1)
	if mode == 0 {
		start, ln = verifI64("start"), verifI64("ln")
		verifAssume(!(start >= 0 && start <= m.size && ln >= 0 && ln <= m.size-start))
		return start, ln, false
	}
	a, b := c17RangeByIndex(size, mode-1)
	return a, b - a, true
}

// c17SeedSet seeds 0..maxK distinct entries at arbitrary valid ranges (any mutual position:
// disjoint, adjacent, overlapping, nested, empty). Entries are chosen in strictly increasing
// enumeration order so that each set of ranges is built once.
func c17SeedSet(rc *RangeCache, m *c17Remote, size, maxK int) {
	k := verifChoice("entries", maxK+1)
	prev := -1
	for i := 0; i < k; i++ {
		left := c17NumRanges(size) - prev - 1
		verifAssume(left > 0)
		idx := prev + 1 + verifChoice("range", left)
		prev = idx
		a, b := c17RangeByIndex(size, idx)
		c17Seed(rc, m, a, b)
	}
}

// C17.step — inductive step. Pre-state: a cache with 0..K entries at arbitrary valid ranges
// satisfying the representation invariant (each value = the remote bytes at its range). One
// operation with arbitrary arguments. Post: result as the property demands, the invariant still
// holds, a refused or failed read leaves the set of cached ranges unchanged.
func VerifC17Step() {
	const id = "C17.step"
	size := verifParam("size", 4)
	rc, m := c17New(size, true)
	ctx := context.Background()
	c17SeedSet(rc, m, size, verifParam("entries", 2))
	before := c17Keys(rc)
	verifMapOrderNondet(true)

	op := verifParam("op", -1)
	if op < 0 {
		op = verifChoice("op", 3)
	}
	switch op {
	case 0: // GetRange
		start, ln, _ := c17Args(m, size)
		fails0 := m.fails
		got, err := rc.GetRange(ctx, start, ln)
		c17CheckGet(m, id, start, ln, got, err, fails0)
		if err != nil {
			c17SameKeys(rc, before, id+": a refused or failed read changed the set of cached ranges")
		}
		verifReach("end-get")
	case 1: // SetRange
		// Transparency does not say which SetRange calls are accepted, only that whatever is
		// stored is right: the checks are the invariant afterwards and a read-back.
		start, ln, valid := c17Args(m, size)
		if valid {
			// value length: right, one more, one less
			L := int(ln) + []int{0, 1, -1}[verifChoice("vlen", 3)]
			verifAssume(L >= 0)
			value := make([]byte, L)
			if L == int(ln) {
				// precondition of SetRange (caller's duty): the value is the remote content
				copy(value, m.data[start:start+ln])
			} else {
				// a value of the wrong length cannot be the content of that range: junk
				copy(value, verifBytes("junk", L))
			}
			rc.SetRange(ctx, start, ln, value)
			fails0 := m.fails
			got, err := rc.GetRange(ctx, start, ln)
			c17CheckGet(m, id, start, ln, got, err, fails0)
			verifReach("end-set-valid")
			break
		}
		L := verifChoice("vlen", 3)
		value := make([]byte, L)
		copy(value, verifBytes("junk", L))
		rc.SetRange(ctx, start, ln, value)
		verifReach("end-set-outside")
	case 2: // expiry with an arbitrary maximum age; the age of every entry is arbitrary
		maxAge := time.Duration(verifI64("max_age"))
		rc.DeleteOldEntries(ctx, maxAge)
		c17SubsetKeys(rc, before, id+": DeleteOldEntries added a cached range")
		verifReach("end-expire")
	}
	c17Invariant(rc, m, id)
	verifReach("end")
}
