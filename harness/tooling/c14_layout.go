//go:build verif

package tooling

import "bytes"

// VerifC14Layout — the layout of the schema comment (ledger.ipldsch) at the property's own
// bounds: n frames, fan-out F; frame 0 links frames 1..F, the last of them (the next "hub") links
// the following F frames, and so on:
//
//	{index 0, next [1 2 3 4 5]} {1} {2} {3} {4} {index 5, next [6 7 8 9]} {6} {7} {8} {9}     (n = 10, F = 5)
//
// Frame contents and indices are concrete (index = position, as the writer numbers them; data
// bytes pairwise distinct so that any misplaced, lost or repeated frame changes the result), the
// recorded checksum is any 64-bit value. Frames carry 1..2 bytes, or 3/32/61 bytes (up to 32 frames, payloads up to
// ~1 KB: bytes.Buffer growth and re-allocation are executed). Variants: links of every list in reverse order; the
// frames numbered against the link order (index n-1-k at position k).
func VerifC14Layout() {
	maxN := verifParam("N", 24)
	maxF := verifParam("F", 10)
	n := 1 + verifChoice("frames", maxN)
	f := 1 + verifChoice("fanout", maxF)
	c14Concrete = true
	c14RevLinks = verifChoice("reverseLinks", 2) == 1
	backwards := verifChoice("reverseIndices", 2) == 1
	// frame sizes: 1..2 bytes, or (fan-outs 1, 4 and the largest only) 3 / 32 / 61 bytes so that the
	// reassembly buffer outgrows its initial capacity several times
	big := (f == 1 || f == 4 || f == maxF) && n <= verifParam("bigMaxN", 32) && verifChoice("bigFrames", verifParam("big", 2)) == 1
	lens := func(k int) int { return 1 + k%2 }
	if big {
		lens = func(k int) int { return 3 + 29*(k%3) }
	}

	parent := make([]int, n)
	hub := 0
	inHub := 0
	for k := 1; k < n; k++ {
		parent[k] = hub
		inHub++
		if inHub == f {
			hub = k
			inHub = 0
		}
	}
	rank := make([]int, n)
	for k := range rank {
		if backwards {
			rank[k] = n - 1 - k
		} else {
			rank[k] = k
		}
	}
	p := c14BuildPayload(n, parent, rank, 0, lens)
	for k := 0; k < n; k++ { // distinct contents for up to 60 frames
		for j := range p.data[k] {
			p.data[k][j] = byte(4*k + 2*j + 1)
			if big {
				p.data[k][j] = byte(67*k + 3*j + 1)
			}
			p.frames[k].Data[j] = p.data[k][j]
		}
	}
	p.orig = p.orig[:0]
	for r := 0; r < n; r++ {
		for k := 0; k < n; k++ {
			if rank[k] == r {
				p.orig = append(p.orig, p.data[k]...)
			}
		}
	}
	h := verifInt("hash")
	p.setMeta(n, true, h)
	st := &c14Store{missing: -1}
	st.add(p)
	got, err := LoadDataFromDataFrames(p.frames[0], st.get)
	isCrc := uint64(h) == c14Crc(p.orig)
	isFnv := uint64(h) == c14Fnv(p.orig)
	if err == nil {
		verifAssert(verifIteU64(isCrc, 1, 0)|verifIteU64(isFnv, 1, 0) != 0, "C14.layout: payload accepted although the recorded checksum is neither the CRC64 nor the FNV-1a of the original payload")
		verifAssert(bytes.Equal(got, p.orig), "C14.layout: reassembled bytes differ from the original payload")
	} else {
		verifAssert(!isCrc, "C14.layout: well-formed payload with CRC64 checksum rejected")
		verifAssert(!isFnv, "C14.layout: well-formed payload with legacy FNV-1a checksum rejected")
	}
	verifReach("end")
}
