//go:build verif

package tooling

import "bytes"

// VerifC14Box — the far side of the property's quantification box: "whatever the frame count
// (1..60), the fan-out (1..10) ... payloads 0..200 KiB". C14.load/C14.layout enumerate small
// payloads exhaustively; this obligation walks the large ones, one well-formed payload per
// configuration, so that any cap on link depth, frame count, list length, frame size or payload
// size that a valid payload can exceed (or any cost that explodes with them) is seen:
//
//	grid   every (n, F) with n = gridFrom..60 frames and fan-out F = 1..10 in the hub-chain layout
//	       of the schema comment: link depth ceil((n-1)/F) takes every value 0..59, list length
//	       every value 1..10; for F <= 3 (the deep chains) also with links and indices reversed
//	star   fan-outs beyond the writer's: the head links all n-1 frames directly (list length up to 59)
//	size   payloads of exactly `bytes` bytes (200 KiB) in 1 frame, in 60 frames of equal size with
//	       F = 5 and F = 1, and in 60 frames where one frame carries almost everything
//	empty  0-byte payloads in 1..3 frames
//
// total = n on every frame; the recorded checksum is exactly the CRC64-ISO or (alternating) the
// legacy FNV-1a of the payload, so the only acceptable outcome is success with the original bytes.
func VerifC14Box() {
	maxN := verifParam("maxN", 60)
	maxF := verifParam("F", 10)
	from := verifParam("gridFrom", 13)
	var n, f int
	reversed := false
	lens := func(k int) int { return 1 + k%2 }
	label := ""
	switch verifChoice("family", 4) {
	case 0:
		label = "grid"
		n = from + verifChoice("frames", maxN-from+1)
		f = 1 + verifChoice("fanout", maxF)
		if f <= verifParam("revMaxF", 3) {
			reversed = verifChoice("reversed", 2) == 1
		}
	case 1:
		label = "star"
		n = 12 + verifChoice("frames", maxN-11)
		f = n
		reversed = n%2 == 1
	case 2:
		label = "size"
		total := verifParam("bytes", 204800)
		switch verifChoice("split", 4) {
		case 0:
			n, f = 1, 1
			lens = func(k int) int { return total }
		case 1:
			n, f = maxN, 5
		case 2:
			n, f = maxN, 1
		case 3:
			n, f = maxN, 10
			lens = func(k int) int {
				if k == 7 {
					return total - (maxN - 1)
				}
				return 1
			}
		}
		if n > 1 && f != 10 {
			per := total / n
			lens = func(k int) int {
				if k == n-1 {
					return total - per*(n-1)
				}
				return per
			}
		}
	case 3:
		label = "empty"
		n = 1 + verifChoice("frames", 3)
		f = 1 + verifChoice("fanout", 2)
		lens = func(k int) int { return 0 }
	}
	p := c14HubChain(n, f, reversed, 0, lens, (n+f)%2 == 1)
	st := &c14Store{missing: -1}
	st.add(p)
	got, err := LoadDataFromDataFrames(p.frames[0], st.get)
	verifAssert(err == nil, "C14.box: well-formed payload rejected")
	verifAssert(bytes.Equal(got, p.orig), "C14.box: reassembled bytes differ from the original payload")
	verifReach(label)
	verifReach("end")
}
