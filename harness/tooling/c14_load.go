//go:build verif

package tooling

import "bytes"

// VerifC14Load — well-formed payloads: every tree shape, every assignment of indices to tree
// positions, symbolic index values and data, total = n, hash symbolic.
func VerifC14Load() {
	maxN := verifParam("N", 4)
	minN := verifParam("minN", 1)
	n := minN + verifChoice("frames", maxN-minN+1)
	shift := verifChoice("lenShift", verifParam("shifts", 1)) + 1
	c14Concrete = n > verifParam("symN", 4)
	p := c14NewPayload(n, 0, c14Lens(shift), c14Perm)
	st := &c14Store{missing: -1}
	st.add(p)

	mode := verifChoice("meta", verifParam("modes", 3))
	switch mode {
	case 0: // current writer: total and checksum on every frame
		h := verifInt("hash")
		if verifParam("fixedHash", 0) == 1 {
			h = int(c14Crc(p.orig)) // the value the current writer records
		}
		p.setMeta(n, true, h)
		got, err := LoadDataFromDataFrames(p.frames[0], st.get)
		isCrc := uint64(h) == c14Crc(p.orig)
		isFnv := uint64(h) == c14Fnv(p.orig)
		if err == nil {
			verifAssert(verifIteU64(isCrc, 1, 0)|verifIteU64(isFnv, 1, 0) != 0, "C14.load: payload accepted although the recorded checksum is neither the CRC64 nor the FNV-1a of the original payload")
			verifAssert(bytes.Equal(got, p.orig), "C14.load: reassembled bytes differ from the original payload")
		} else {
			verifAssert(!isCrc, "C14.load: well-formed payload with CRC64 checksum rejected")
			verifAssert(!isFnv, "C14.load: well-formed payload with legacy FNV-1a checksum rejected")
		}
	case 1: // total but no checksum
		p.setMeta(n, false, 0)
		got, err := LoadDataFromDataFrames(p.frames[0], st.get)
		verifAssert(err == nil, "C14.load: well-formed payload without checksum rejected")
		verifAssert(bytes.Equal(got, p.orig), "C14.load: reassembled bytes differ from the original payload (no checksum)")
	case 2: // legacy: neither total nor checksum (single frame objects; the chain is still followed)
		if n == 1 {
			p.frames[0].Index = nil
		}
		got, err := LoadDataFromDataFrames(p.frames[0], st.get)
		verifAssert(err == nil, "C14.load: payload without total/checksum rejected")
		verifAssert(bytes.Equal(got, p.orig), "C14.load: reassembled bytes differ from the original payload (no total)")
	}
	verifReach("end")
}
