//go:build verif

package tooling

// VerifC14Alter — the "altered frame" fault with the checksum taken exactly (no no-collision
// hypothesis for the CRC): a well-formed payload of n frames whose recorded checksum is the
// CRC64-ISO of the original bytes, as the current writer records it (total = n on every frame).
// One byte of one frame is altered by an arbitrary non-zero XOR mask (every single bit flip and
// every multi-bit change inside one byte). The frame count is unchanged, so only the checksum can
// notice. Claim: LoadDataFromDataFrames reports an error - CRC64 separates any two payloads that
// differ in one byte - unless the altered bytes' legacy FNV-1a happens to equal the recorded CRC64
// (VerifyHash accepts either function; that coincidence is the stated hypothesis).
func VerifC14Alter() {
	maxN := verifParam("N", 3)
	n := 1 + verifChoice("frames", maxN)
	c14Concrete = false
	p := c14NewPayload(n, 0, c14Lens(verifParam("shift", 1)), c14PermEnds)
	total := 0
	for k := 0; k < n; k++ {
		total += len(p.data[k])
	}
	verifAssume(total > 0)
	h := c14Crc(p.orig)
	p.setMeta(n, true, int(h))

	// the altered byte: position pos of the original payload = byte j of the frame of rank r
	pos := verifChoice("alteredByte", total)
	mask := verifU8("xorMask")
	verifAssume(mask != 0)
	byRank := make([]int, n)
	for k := 0; k < n; k++ {
		byRank[p.rank[k]] = k
	}
	altered := append([]byte{}, p.orig...)
	altered[pos] ^= mask
	off := 0
	for r := 0; r < n; r++ {
		k := byRank[r]
		if pos >= off && pos < off+len(p.data[k]) {
			p.frames[k].Data[pos-off] ^= mask
		}
		off += len(p.data[k])
	}
	// hypothesis: no coincidence with the legacy checksum function
	verifAssume(c14Fnv(altered) != h)

	st := &c14Store{missing: -1}
	st.add(p)
	_, err := LoadDataFromDataFrames(p.frames[0], st.get)
	verifAssert(err != nil, "C14.alter: a payload with one altered byte and an intact CRC64 record was accepted")
	verifReach("end")
}
