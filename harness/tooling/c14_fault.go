//go:build verif

package tooling

import (
	"bytes"

	cidlink "github.com/ipld/go-ipld-prime/linking/cid"
	"github.com/rpcpool/yellowstone-faithful/ipld/ipldbindcode"
)

// VerifC14Fault — exactly one fault injected into a well-formed payload (total = n on every
// frame; checksum h on every frame, or no checksum at all to exercise the count check alone):
//
//	0  a linked frame is absent from the store (the getter fails for its CID)
//	1  the link to a frame is removed from its parent's list (the frame and the frames below it
//	   are no longer reachable), the total still says n
//	2  the CID of a frame is listed once more (in its own parent's list or in the list of any
//	   frame outside its sub-tree; at the front or at the end of that list)
//	3  the link to one frame is replaced by the CID of a frame of another payload (own index,
//	   total, checksum and data); only for payloads with a checksum, nothing else can notice it
//
// Oracle (the property, literally): the call either reports an error or
// returns exactly the original payload. X is what a reassembly can put together from the frames
// that are reachable after the fault (every frame as often as it is linked, in index order). The
// checksum's strength is outside the claim: h is any 64-bit value other than the CRC64 / FNV-1a
// of X, unless X happens to equal the original bytes (e.g. the lost frame was empty).
func VerifC14Fault() {
	maxN := verifParam("N", 4)
	n := 2 + verifChoice("frames", maxN-1)
	fault := verifChoice("fault", 4)
	hasHash := fault == 3 || verifChoice("checksum", 2) == 0
	h := 0
	if hasHash {
		h = verifInt("hash")
	}
	c14Concrete = n > verifParam("symN", 4)
	p := c14NewPayload(n, 0, c14Lens(1), c14PermEnds)
	p.setMeta(n, hasHash, h)
	st := &c14Store{missing: -1}
	st.add(p)

	d := 1 + verifChoice("victim", n-1)
	inSub := make([]bool, n) // sub-tree of d (pre-order: descendants have larger numbers)
	inSub[d] = true
	for k := d + 1; k < n; k++ {
		inSub[k] = inSub[p.parent[k]]
	}
	mult := make([]int, n) // how often frame k is reachable after the fault
	for k := range mult {
		mult[k] = 1
	}
	var fData []byte
	fIdx := 0
	foreign := false

	switch fault {
	case 0:
		st.missing = d - 1 // table slot of frame d
		for k := range mult {
			if inSub[k] {
				mult[k] = 0
			}
		}
	case 1:
		links, _ := p.frames[p.parent[d]].GetNext()
		var kept ipldbindcode.List__Link
		for i := range links {
			if !links[i].(cidlink.Link).Cid.Equals(p.cids[d]) {
				kept = append(kept, links[i])
			}
		}
		verifAssert(len(kept) == len(links)-1, "C14.fault: harness: victim link not found")
		np := &kept
		p.frames[p.parent[d]].Next = &np
		for k := range mult {
			if inSub[k] {
				mult[k] = 0
			}
		}
	case 2:
		var cand []int
		for k := 0; k < n; k++ {
			if !inSub[k] {
				cand = append(cand, k)
			}
		}
		q := cand[verifChoice("dupParent", len(cand))]
		var next ipldbindcode.List__Link
		if old, ok := p.frames[q].GetNext(); ok {
			next = append(next, old...)
		}
		if verifChoice("dupFront", 2) == 1 {
			next = append(ipldbindcode.List__Link{cidlink.Link{Cid: p.cids[d]}}, next...)
		} else {
			next = append(next, cidlink.Link{Cid: p.cids[d]})
		}
		np := &next
		p.frames[q].Next = &np
		for k := range mult {
			if inSub[k] {
				mult[k] = 2
			}
		}
	case 3:
		foreign = true
		fIdx = verifInt("foreignIndex")
		for k := 0; k < n; k++ {
			if !inSub[k] {
				verifAssume(fIdx != p.idx[k]) // equal indices: the order is up to sort.Slice (not stable)
			}
		}
		fData = verifBytes("foreignData", (d+2)%3)
		if c14Concrete {
			for j := range fData {
				fData[j] = byte(0xE1 + 0x0D*j)
			}
		}
		ff := &ipldbindcode.DataFrame{Kind: 6, Data: ipldbindcode.Buffer(append([]byte{}, fData...))}
		ff.Index = c14pp(fIdx)
		ff.Total = c14pp(verifInt("foreignTotal"))
		ff.Hash = c14pp(verifInt("foreignHash"))
		fCid := c14Cid(40)
		st.cids = append(st.cids, fCid)
		st.frames = append(st.frames, ff)
		links, _ := p.frames[p.parent[d]].GetNext()
		replaced := false
		for i := range links {
			if links[i].(cidlink.Link).Cid.Equals(p.cids[d]) {
				links[i] = cidlink.Link{Cid: fCid}
				replaced = true
			}
		}
		verifAssert(replaced, "C14.fault: harness: victim link not found")
		for k := range mult {
			if inSub[k] {
				mult[k] = 0
			}
		}
	}

	// X: the reachable frames in index order
	byRank := make([]int, n)
	for k := 0; k < n; k++ {
		byRank[p.rank[k]] = k
	}
	var x []byte
	placed := !foreign
	for r := 0; r < n; r++ {
		k := byRank[r]
		if mult[k] == 0 {
			continue
		}
		if !placed && fIdx < p.idx[k] {
			x = append(x, fData...)
			placed = true
		}
		for m := 0; m < mult[k]; m++ {
			x = append(x, p.data[k]...)
		}
	}
	if !placed {
		x = append(x, fData...)
	}
	if hasHash {
		// branch-free: no fork on the hypothesis
		noColl := verifIteU64(uint64(h) == c14Crc(x), 1, 0)|verifIteU64(uint64(h) == c14Fnv(x), 1, 0) == 0
		if len(x) != len(p.orig) {
			verifAssume(noColl)
		} else {
			verifAssume(verifIteU64(bytes.Equal(x, p.orig), 1, 0)|verifIteU64(noColl, 1, 0) != 0)
		}
	}

	got, err := LoadDataFromDataFrames(p.frames[0], st.get)
	if err == nil {
		if hasHash {
			verifAssert(bytes.Equal(got, p.orig), "C14.fault: faulty payload accepted and bytes other than the original payload returned")
		} else {
			verifAssert(bytes.Equal(got, p.orig), "C14.fault(count only): faulty payload without checksum accepted and bytes other than the original payload returned")
		}
	}
	verifReach(c14FaultNames[fault])
	verifReach("end")
}

var c14FaultNames = []string{"missing", "unlinked", "duplicate", "foreign"}
