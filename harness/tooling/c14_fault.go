//go:build verif

package tooling

import (
	"bytes"

	cidlink "github.com/ipld/go-ipld-prime/linking/cid"
	"github.com/rpcpool/yellowstone-faithful/ipld/ipldbindcode"
)

// VerifC14Fault — exactly one fault injected into a well-formed payload that carries the frame
// count and the checksum (total = n on every frame, checksum = any 64-bit value h):
//
//	0  a linked frame is absent from the store (the getter fails for its CID)
//	1  the recorded total differs from the number of linked frames (a frame dropped from / added
//	   to the links without the total following)
//	2  the CID of a frame is listed once more (in its own parent's list or in the list of any
//	   frame outside its sub-tree; at the front or at the end of that list)
//	3  the link to one frame is replaced by the CID of a frame of another payload (own index,
//	   total, checksum and data)
//
// Faults 0..2 must be reported as an error whatever h is. Fault 3 on an inner frame loses the
// frames below it (count check); on a leaf the count is unchanged and the verdict is the
// checksum's: the call succeeds only if h is the CRC64 or the FNV-1a of the bytes actually assembled
// (foreign frame at the place its own index gives it), and then exactly those bytes are returned.
func VerifC14Fault() {
	maxN := verifParam("N", 4)
	n := 2 + verifChoice("frames", maxN-1)
	fault := verifChoice("fault", 4)
	h := verifInt("hash")
	p := c14NewPayload(n, 0, c14Lens(1), c14PermEnds)
	st := &c14Store{missing: -1}
	st.add(p)
	switch fault {
	case 0:
		p.setMeta(n, true, h)
		st.missing = verifChoice("missing", n-1)
		got, err := LoadDataFromDataFrames(p.frames[0], st.get)
		verifAssert(err != nil, "C14.fault: a frame is missing from the store but reassembly succeeded")
		verifAssert(got == nil, "C14.fault: bytes returned together with an error (missing frame)")
	case 1:
		total := verifInt("total")
		verifAssume(total != n)
		p.setMeta(total, true, h)
		got, err := LoadDataFromDataFrames(p.frames[0], st.get)
		verifAssert(err != nil, "C14.fault: number of linked frames differs from the recorded total but reassembly succeeded")
		verifAssert(got == nil, "C14.fault: bytes returned together with an error (count)")
	case 2:
		p.setMeta(n, true, h)
		d := 1 + verifChoice("dup", n-1)
		inSub := make([]bool, n) // sub-tree of d (pre-order: descendants have larger numbers)
		inSub[d] = true
		for k := d + 1; k < n; k++ {
			inSub[k] = inSub[p.parent[k]]
		}
		var cand []int
		for k := 0; k < n; k++ {
			if !inSub[k] {
				cand = append(cand, k)
			}
		}
		q := cand[verifChoice("dupParent", len(cand))]
		var next ipldbindcode.List__Link
		if old, ok := p.frames[q].GetNext(); ok {
			next = append(next, old...)
		}
		if verifChoice("dupFront", 2) == 1 {
			next = append(ipldbindcode.List__Link{cidlink.Link{Cid: p.cids[d]}}, next...)
		} else {
			next = append(next, cidlink.Link{Cid: p.cids[d]})
		}
		np := &next
		p.frames[q].Next = &np
		got, err := LoadDataFromDataFrames(p.frames[0], st.get)
		verifAssert(err != nil, "C14.fault: a frame is linked twice but reassembly succeeded")
		verifAssert(got == nil, "C14.fault: bytes returned together with an error (duplicate)")
	case 3:
		p.setMeta(n, true, h)
		d := 1 + verifChoice("victim", n-1)
		fIdx := verifInt("foreignIndex")
		for k := 0; k < n; k++ {
			if k != d {
				verifAssume(fIdx != p.idx[k]) // equal indices: the order is up to sort.Slice (not stable)
			}
		}
		fData := verifBytes("foreignData", (d+2)%3)
		ff := &ipldbindcode.DataFrame{Kind: 6, Data: ipldbindcode.Buffer(append([]byte{}, fData...))}
		ff.Index = c14pp(fIdx)
		ff.Total = c14pp(verifInt("foreignTotal"))
		ff.Hash = c14pp(verifInt("foreignHash"))
		fCid := c14Cid(40)
		st.cids = append(st.cids, fCid)
		st.frames = append(st.frames, ff)
		links, _ := p.frames[p.parent[d]].GetNext()
		replaced := false
		for i := range links {
			if links[i].(cidlink.Link).Cid.Equals(p.cids[d]) {
				links[i] = cidlink.Link{Cid: fCid}
				replaced = true
			}
		}
		verifAssert(replaced, "C14.fault: harness: victim link not found")
		leaf := true
		for k := d + 1; k < n; k++ {
			if p.parent[k] == d {
				leaf = false
			}
		}
		got, err := LoadDataFromDataFrames(p.frames[0], st.get)
		if !leaf {
			verifAssert(err != nil, "C14.fault: frames below a replaced frame are lost but reassembly succeeded")
			verifAssert(got == nil, "C14.fault: bytes returned together with an error (foreign inner frame)")
			break
		}
		// the bytes a correct reassembly puts together: frames in index order
		byRank := make([]int, n)
		for k := 0; k < n; k++ {
			byRank[p.rank[k]] = k
		}
		var mixed []byte
		placed := false
		for r := 0; r < n; r++ {
			k := byRank[r]
			if k == d {
				continue
			}
			if !placed && fIdx < p.idx[k] {
				mixed = append(mixed, fData...)
				placed = true
			}
			mixed = append(mixed, p.data[k]...)
		}
		if !placed {
			mixed = append(mixed, fData...)
		}
		isCrc := uint64(h) == c14Crc(mixed)
		isFnv := uint64(h) == c14Fnv(mixed)
		if err == nil {
			verifAssert(verifIteU64(isCrc, 1, 0)|verifIteU64(isFnv, 1, 0) != 0, "C14.fault: payload with a foreign frame accepted although the recorded checksum matches neither CRC64 nor FNV-1a of the assembled bytes")
			verifAssert(bytes.Equal(got, mixed), "C14.fault: returned bytes are not the checked bytes")
		} else {
			verifAssert(got == nil, "C14.fault: bytes returned together with an error (foreign leaf)")
		}
	}
	verifReach("end")
}
