//go:build verif

package blocktimeindex

// C13.blocktime.lib — slot-to-blocktime index, library path (FromBytes / FromReader / FromFile
// all end in unmarshalBinary over the bytes that are there): a buffer holding only the first T
// bytes of a complete index either fails to decode or answers every slot like the complete one.
// (The server path, which reads an exact number of bytes first, is C13.blocktime.server.)

func VerifC13BlocktimeLib() {
	capacity := uint64(verifParam("capacity", 3))
	if big := verifParam("bigcapacity", 0); big > 0 && verifChoice("capacity", 2) == 1 {
		// a capacity whose low-order byte is zero (a cut inside the capacity field leaves 0)
		capacity = uint64(big)
	}
	epochs := []uint64{0, 1, 700}
	epoch := epochs[verifChoice("epoch", verifParam("epochs", 2))]
	start := epoch * 432000
	idx := NewIndexer(start, start+431999, capacity)
	vals := make([]int64, capacity)
	for i := range vals {
		if i < 3 || i >= len(vals)-3 {
			vals[i] = int64(verifU32("blocktime"))
		} else {
			vals[i] = int64(1600000000 + 7*i) // inner slots of a large index: concrete
		}
		verifAssert(idx.Set(start+uint64(i), vals[i]) == nil, "C13.blocktime.lib: Set failed")
	}
	img, err := idx.MarshalBinary()
	verifAssert(err == nil, "C13.blocktime.lib: MarshalBinary failed")
	N := len(img)
	verifAssert(N == 14+32+4*int(capacity), "C13.blocktime.lib: unexpected image size")

	full, err := FromBytes(img)
	verifAssert(err == nil, "C13.blocktime.lib: the complete index does not decode")
	for i := range vals {
		got, err := full.Get(start + uint64(i))
		verifAssert(err == nil && got == vals[i], "C13.blocktime.lib: the complete index answers a slot with another value")
	}

	T := verifChoice("T", N) // 0..N-1 bytes present
	// known finding S14: a cut inside the last 4-byte value decodes without error
	verifKnownFinding("C13-blocktime-short-last-value", T > N-4)
	cut, err := FromBytes(img[:T])
	if err != nil {
		verifAssert(cut == nil, "C13.blocktime.lib: FromBytes returned both an index and an error")
		verifReach("decode-error")
		verifReach("end")
		return
	}
	verifAssert(cut.Epoch() == epoch, "C13.blocktime.lib: shortened index decodes with another epoch")
	for i := range vals {
		got, err := cut.Get(start + uint64(i))
		if err == nil {
			verifAssert(got == vals[i], "C13.blocktime.lib: shortened index answers a slot with a different block time")
		}
	}
	verifReach("decode-ok")
	verifReach("end")
}
