//go:build verif

package blocktimeindex

import (
	"bytes"

	"github.com/rpcpool/yellowstone-faithful/slottools"
)

// C01.blocktime.range — arithmetic lemma over the real CalcEpochLimits / CalcEpochForSlot /
// Set / Get range test: for every epoch whose slots fit 64 bits and every slot, the slot is
// accepted by the epoch's index exactly when it belongs to the epoch, and then its cell
// slot-start lies inside the DefaultCapacityForEpoch cells NewForEpoch allocates.
func VerifC01BlocktimeRange() {
	epoch := verifU64("epoch")
	verifAssume(epoch <= (1<<64-1)/slottools.EpochLen-1)
	start, end := slottools.CalcEpochLimits(epoch)
	verifAssert(start == epoch*432000 && end-start == 431999, "C01.blocktime: epoch limits are not [432000e, 432000e+431999]")
	verifAssert(slottools.EpochForSlot(start) == epoch, "C01.blocktime: start slot is not in its epoch")
	verifAssert(slottools.EpochForSlot(end) == epoch, "C01.blocktime: end slot is not in its epoch (NewIndexer would panic)")
	slot := verifU64("slot")
	in := slottools.CalcEpochForSlot(slot) == epoch
	// the index header only (no cells): the range test of Set/Get is what is decided here
	idx := &Index{start: start, end: end, epoch: epoch, capacity: DefaultCapacityForEpoch}
	accepted := !(slot < idx.start || slot > idx.end) // the guard of Set and Get
	verifAssert(accepted == in, "C01.blocktime: Set/Get accept a slot iff it is in the epoch")
	if accepted {
		verifAssert(slot-idx.start < DefaultCapacityForEpoch, "C01.blocktime: cell index outside the allocated cells")
	}
	verifReach("end")
}

// C01.blocktime.cells — the real NewForEpoch (432 000 cells), Set and Get: a block time set for
// a slot (first, second, an inner and the last slot of the epoch) is returned for that slot and
// does not disturb another slot; slots outside the epoch are refused by both.
func VerifC01BlocktimeCells() {
	epochs := []uint64{0, 1, 700, 42_000_000_000_000}
	epoch := epochs[verifChoice("epoch", len(epochs))]
	idx := NewForEpoch(epoch)
	verifAssert(idx.Epoch() == epoch, "C01.blocktime: index is for another epoch")
	ds := []uint64{0, 1, 215_999, 431_998, 431_999}
	d := ds[verifChoice("slotInEpoch", len(ds))]
	d2 := ds[verifChoice("otherSlot", len(ds))]
	slot := epoch*432000 + d
	slot2 := epoch*432000 + d2
	bt, bt2 := verifI64("blocktime"), verifI64("blocktime2")
	verifAssert(idx.Set(slot2, bt2) == nil, "C01.blocktime: Set refused a slot of the epoch")
	verifAssert(idx.Set(slot, bt) == nil, "C01.blocktime: Set refused a slot of the epoch")
	got, err := idx.Get(slot)
	verifAssert(err == nil && got == bt, "C01.blocktime: Get does not return the block time that was Set")
	if d2 != d {
		got2, err := idx.Get(slot2)
		verifAssert(err == nil && got2 == bt2, "C01.blocktime: Set of one slot disturbed another slot")
	}
	verifAssert(idx.Set(epoch*432000+432000, bt) != nil, "C01.blocktime: Set accepted the first slot of the next epoch")
	_, err = idx.Get(epoch*432000 + 432000)
	verifAssert(err != nil, "C01.blocktime: Get accepted the first slot of the next epoch")
	if epoch > 0 {
		verifAssert(idx.Set(epoch*432000-1, bt) != nil, "C01.blocktime: Set accepted the last slot of the previous epoch")
	}
	verifReach("end")
}

// C01.blocktime.file — the real marshalBinary / WriteTo / unmarshalBinary on an index with a
// small capacity (the per-cell loop is the same code for 432 000 cells): block times in
// [0, 2^32) round-trip through the file for every cell; a block time outside that range makes
// WriteTo fail (index generation reports the error instead of writing a wrong value).
func VerifC01BlocktimeFile() {
	n := uint64(verifParam("cells", 3))
	epoch := uint64(700)
	start, _ := slottools.CalcEpochLimits(epoch)
	idx := NewIndexer(start, start+n-1, n)
	bts := make([]int64, n)
	allFit := true
	for i := range bts {
		bts[i] = verifI64("blocktime")
		verifAssert(idx.Set(start+uint64(i), bts[i]) == nil, "C01.blocktime: Set refused a slot of the index")
		allFit = allFit && bts[i] >= 0 && bts[i] <= 0xFFFFFFFF
	}
	var buf bytes.Buffer
	nw, err := idx.WriteTo(&buf)
	if err != nil {
		verifAssert(!allFit, "C01.blocktime: WriteTo fails although every block time fits 32 bits")
		verifReach("end")
		return
	}
	verifAssert(allFit, "C01.blocktime: WriteTo reports success although a block time does not fit 32 bits")
	verifAssert(nw == int64(buf.Len()) && buf.Len() == len(magic)+32+4*int(n), "C01.blocktime: written size is not header + 4 bytes per cell")
	back, err := FromBytes(buf.Bytes())
	verifAssert(err == nil && back != nil, "C01.blocktime: the written index does not load")
	verifAssert(back.start == idx.start && back.end == idx.end && back.epoch == epoch && back.capacity == n, "C01.blocktime: header fields do not round-trip")
	for i := range bts {
		got, err := back.Get(start + uint64(i))
		verifAssert(err == nil && got == bts[i], "C01.blocktime: block time read from the file differs from the one set")
	}
	verifReach("end")
}

// C01.blocktime.full — the block-time file at its real size: the real NewForEpoch (432 000 cells),
// Set, WriteTo (marshalBinary over all cells) and FromBytes (unmarshalBinary over all cells): block
// times set for the first, second, an inner and the last slot of the epoch are read back from the
// file for exactly those slots, untouched slots read 0, and the file has the documented size.
func VerifC01BlocktimeFull() {
	epoch := uint64(700)
	idx := NewForEpoch(epoch)
	start := epoch * 432000
	ds := []uint64{0, 1, 215_999, 431_999}
	bts := make([]int64, len(ds))
	for i, d := range ds {
		bts[i] = verifI64("blocktime")
		verifAssume(bts[i] >= 0)
		verifAssume(bts[i] <= 0xFFFFFFFF)
		verifAssert(idx.Set(start+d, bts[i]) == nil, "C01.blocktime.full: Set refused a slot of the epoch")
	}
	var buf bytes.Buffer
	n, err := idx.WriteTo(&buf)
	verifAssert(err == nil, "C01.blocktime.full: WriteTo failed although every block time fits 32 bits")
	verifAssert(n == int64(buf.Len()) && buf.Len() == DefaultIndexByteSize, "C01.blocktime.full: file size is not header + 4 bytes per slot of the epoch")
	back, err := FromBytes(buf.Bytes())
	verifAssert(err == nil && back != nil, "C01.blocktime.full: the written file does not load")
	verifAssert(back.Epoch() == epoch, "C01.blocktime.full: epoch does not round-trip")
	for i, d := range ds {
		got, err := back.Get(start + d)
		verifAssert(err == nil && got == bts[i], "C01.blocktime.full: block time read from the file differs from the one set")
	}
	for _, d := range []uint64{2, 215_998, 216_000, 431_998} {
		got, err := back.Get(start + d)
		verifAssert(err == nil && got == 0, "C01.blocktime.full: a slot without block reads a non-zero block time")
	}
	_, err = back.Get(start + 432_000)
	verifAssert(err != nil, "C01.blocktime.full: the loaded index accepts a slot of the next epoch")
	verifReach("end")
}
