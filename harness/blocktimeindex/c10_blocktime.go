//go:build verif

package blocktimeindex

import "github.com/rpcpool/yellowstone-faithful/slottools"

// VerifC10Blocktime — identity of the slot-to-blocktime index (it carries an epoch, no root CID,
// no kind besides its magic):
//  (a) an index built for epoch e (NewForEpoch's computation: CalcEpochLimits + NewIndexer, with a
//      small capacity instead of 432 000 cells) written with MarshalBinary and read with FromBytes
//      reports Epoch() == e, and its slot range is read back unchanged;
//  (b) FromBytes accepts a header only if its start slot, end slot and epoch field agree, so the
//      epoch the loader compares (Epoch()) is the epoch of the slots the index answers for.
func VerifC10Blocktime() {
	cells := uint64(verifParam("cells", 3))
	e := verifU64("epoch")
	verifAssume(e <= (1<<64-1)/432000-1) // epochs whose slots fit in 64 bits
	start, end := slottools.CalcEpochLimits(e)
	idx := NewIndexer(start, end, cells)
	verifAssert(idx.Epoch() == e, "C10.blocktime: builder records another epoch than requested")
	buf, err := idx.MarshalBinary()
	verifAssert(err == nil, "C10.blocktime: MarshalBinary")
	got, err := FromBytes(buf)
	verifAssert(err == nil, "C10.blocktime: FromBytes refuses what MarshalBinary wrote")
	verifAssert(got.Epoch() == e, "C10.blocktime: epoch not read back unchanged")
	verifAssert(got.start == start, "C10.blocktime: start slot not read back unchanged")
	verifAssert(got.end == end, "C10.blocktime: end slot not read back unchanged")
	verifReach("roundtrip")

	// (b) arbitrary header fields
	s2, e2, ep2 := verifU64("start"), verifU64("end"), verifU64("epochField")
	raw := append([]byte{}, magic...)
	raw = append(raw, slottools.Uint64ToLEBytes(s2)...)
	raw = append(raw, slottools.Uint64ToLEBytes(e2)...)
	raw = append(raw, slottools.Uint64ToLEBytes(ep2)...)
	raw = append(raw, slottools.Uint64ToLEBytes(0)...)
	got2, err := FromBytes(raw)
	if err == nil {
		verifAssert(got2.Epoch() == ep2, "C10.blocktime: Epoch() is not the recorded epoch field")
		verifAssert(s2/432000 == ep2, "C10.blocktime: accepted although the start slot is not in the recorded epoch")
		verifAssert(e2/432000 == ep2, "C10.blocktime: accepted although the end slot is not in the recorded epoch")
		verifReach("accepted")
	} else {
		consistent := verifIteU64(s2/432000 == ep2, 1, 0) + verifIteU64(e2/432000 == ep2, 1, 0)
		verifAssert(consistent != 2, "C10.blocktime: a consistent header is refused")
		verifReach("refused")
	}
	verifReach("end")
}
