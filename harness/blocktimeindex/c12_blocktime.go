//go:build verif

package blocktimeindex

import (
	"bytes"
	"encoding/binary"
)

// C12.blocktime — blocktimeindex.FromBytes (unmarshalBinary) over arbitrary bytes and Index.Get
// on whatever it returns: error or a value, no panic, allocation proportional to the input.
// Layout: magic(14) start(8) end(8) epoch(8) capacity(8) capacity*4 bytes of block times.
// Every byte is symbolic; the capacity field is concretised by the allocation, so it is
// restricted to [0,K+2] or above the allocation limit.
func VerifC12Blocktime() {
	K := verifParam("K", 2)
	full := len(magic) + 32 + 4*K
	lens := []int{full, 0, 5, len(magic), len(magic) + 8, len(magic) + 31, len(magic) + 32, full - 1}
	n := lens[verifChoice("len", verifParam("lens", len(lens)))]
	limit := verifParam("alloc", 1<<16)
	verifAllocLimit(int64(limit))
	data := verifBytes("file", n)
	if n > len(magic)+24 {
		// unmarshalBinary accepts a short read of the capacity field (missing bytes are zero)
		var cb [8]byte
		copy(cb[:], data[len(magic)+24:])
		capField := binary.LittleEndian.Uint64(cb[:])
		verifAssume(capField <= uint64(K+2) || capField > uint64(limit/8))
		magicOK := string(magic) == "blocktimeindex" && verifC12MagicOK(data)
		// known defect: the capacity field is used for make() before any consistency check
		verifKnownFinding("C12-blocktime-capacity", magicOK && capField > uint64(limit/8))
	}
	idx, err := FromBytes(data)
	if err != nil {
		verifAssert(idx == nil, "C12.blocktime: FromBytes returned both an index and an error")
		verifReach("decode-error")
		verifReach("end")
		return
	}
	verifAssert(idx != nil && uint64(len(idx.values)) == idx.capacity, "C12.blocktime: values do not match the capacity")
	// proportionality only: unmarshalBinary tolerates a short final read (truncation is C13's subject)
	verifAssert(len(magic)+24+4*len(idx.values) < n+4, "C12.blocktime: decoded more block times than the input holds")
	_ = idx.Epoch()
	// querying: a slot inside [start,end] must have a stored value
	slot := verifU64("slot")
	// known defect: capacity is not checked against end-start+1
	verifKnownFinding("C12-blocktime-get-range", slot >= idx.start && slot <= idx.end && slot-idx.start >= idx.capacity)
	t, err := idx.Get(slot)
	if err != nil {
		verifAssert(t == 0 && (slot < idx.start || slot > idx.end || slot-idx.start >= idx.capacity), "C12.blocktime: Get failed for a slot that is inside the declared range and has a stored value")
		verifReach("get-error")
	} else {
		verifAssert(t >= 0 && t <= 1<<32-1, "C12.blocktime: stored block time outside uint32")
		verifReach("get-ok")
	}
	verifReach("decode-ok")
	verifReach("end")
}

func verifC12MagicOK(data []byte) bool {
	return bytes.Equal(data[:len(magic)], magic) // engine intrinsic: one symbolic term, no forks
}
