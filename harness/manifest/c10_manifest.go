//go:build verif

package manifest

import (
	"os"

	"github.com/ipfs/go-cid"
	"github.com/rpcpool/yellowstone-faithful/indexmeta"
)

func c10RootBytes(i int) []byte {
	b := []byte{0x01, 0x71, 0x12, 0x20}
	for j := 0; j < 32; j++ {
		b = append(b, byte(0xA0+0x10*i+j%7))
	}
	return b
}

var c10Networks = []string{"mainnet", "testnet", "devnet"}

// VerifC10Manifest — identity metadata of a gsfa index (kept in the manifest header): what the
// index builder records (cmd-x-index-gsfa.go: AddUint64(epoch), AddCid(rootCid), AddString(network),
// NewManifest(path, meta)) is what the loader reads (NewGsfaReader: NewManifest(path, Meta{}), then
// Meta().GetUint64 / GetCid / GetString), with 0..2 content tuples appended in between; the
// format version read back is the writer's; re-opening with other metadata does not alter the
// recorded identity; writeHeader/readHeader agree for every version value.
func VerifC10Manifest() {
	epoch := verifU64("epoch")
	ri := verifChoice("root", verifParam("roots", 2))
	ni := verifChoice("network", len(c10Networks))
	root, err := cid.Cast(c10RootBytes(ri))
	verifAssert(err == nil, "C10.manifest: harness CID")

	var meta indexmeta.Meta
	verifAssert(meta.AddUint64(indexmeta.MetadataKey_Epoch, epoch) == nil, "C10.manifest: AddUint64")
	verifAssert(meta.AddCid(indexmeta.MetadataKey_RootCid, root) == nil, "C10.manifest: AddCid")
	verifAssert(meta.AddString(indexmeta.MetadataKey_Network, c10Networks[ni]) == nil, "C10.manifest: AddString")

	path := verifTempPath("manifest")
	w, err := NewManifest(path, meta)
	verifAssert(err == nil, "C10.manifest: creating a manifest fails")
	nt := verifChoice("tuples", verifParam("maxtuples", 2)+1)
	var ks, vs [2]uint64
	for i := 0; i < nt; i++ {
		ks[i], vs[i] = verifU64("k"), verifU64("v")
		verifAssert(w.Put(ks[i], vs[i]) == nil, "C10.manifest: Put")
	}
	verifAssert(w.Close() == nil, "C10.manifest: Close")

	// a second writer session (resume) passing different metadata must not re-label the index
	if verifChoice("resume", 2) == 1 {
		var other indexmeta.Meta
		other.AddUint64(indexmeta.MetadataKey_Epoch, epoch+1)
		w2, err := NewManifest(path, other)
		verifAssert(err == nil, "C10.manifest: re-open for writing")
		verifAssert(w2.Close() == nil, "C10.manifest: Close")
	}

	r, err := NewManifest(path, indexmeta.Meta{})
	verifAssert(err == nil, "C10.manifest: the reader refuses the manifest the writer produced")
	verifAssert(r.Version() == _Version, "C10.manifest: version not read back")
	m := r.Meta()
	e, ok := m.GetUint64(indexmeta.MetadataKey_Epoch)
	verifAssert(ok, "C10.manifest: epoch entry lost")
	verifAssert(e == epoch, "C10.manifest: epoch not read back unchanged")
	c, ok := m.GetCid(indexmeta.MetadataKey_RootCid)
	verifAssert(ok && c.Equals(root), "C10.manifest: root CID not read back unchanged")
	s, ok := m.GetString(indexmeta.MetadataKey_Network)
	verifAssert(ok && s == c10Networks[ni], "C10.manifest: network not read back unchanged")
	vals, err := r.ReadAll()
	verifAssert(err == nil && len(vals) == nt, "C10.manifest: content tuples lost behind the metadata")
	for i := 0; i < nt; i++ {
		verifAssert(vals[i][0] == ks[i], "C10.manifest: tuple key changed")
		verifAssert(vals[i][1] == vs[i], "C10.manifest: tuple value changed")
	}
	verifReach("roundtrip")

	// header codec for an arbitrary version value
	p2 := verifTempPath("hdr")
	f, err := os.Create(p2)
	verifAssert(err == nil, "C10.manifest: create")
	ver := verifU64("version")
	verifAssert(writeHeader(f, meta, ver) == nil, "C10.manifest: writeHeader")
	h, err := readHeader(f)
	verifAssert(err == nil, "C10.manifest: readHeader fails on writeHeader's output")
	verifAssert(h.Version() == ver, "C10.manifest: header version not read back")
	if ver >= 2 {
		hm := h.Meta()
		e2, ok := hm.GetUint64(indexmeta.MetadataKey_Epoch)
		verifAssert(ok, "C10.manifest: header epoch lost")
		verifAssert(e2 == epoch, "C10.manifest: header epoch changed")
		c2, ok := hm.GetCid(indexmeta.MetadataKey_RootCid)
		verifAssert(ok && c2.Equals(root), "C10.manifest: header root CID changed")
	}
	verifReach("end")
}
