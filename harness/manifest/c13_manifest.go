//go:build verif

package manifest

import (
	"bytes"

	"github.com/rpcpool/yellowstone-faithful/indexmeta"
)

// C13.gsfa.manifest — gsfa manifest (magic, version, metadata, 16-byte tuples): a manifest written
// by the real NewManifest/Put, cut at EVERY byte offset T and re-opened with the real NewManifest
// the way NewGsfaReader does (empty default metadata): NewManifest fails, or the manifest carries
// the version and metadata of the complete file and ReadAll fails or returns the complete tuples.
//
// The tuple area has no length field: a cut exactly at a tuple boundary is a well-formed shorter
// manifest and cannot be told from the complete one; for those T the claim is only that the
// tuples present are returned unchanged (production manifests hold no tuples at all).

func VerifC13Manifest() {
	tuples := verifChoice("tuples", verifParam("maxTuples", 2)+1)
	var meta indexmeta.Meta
	meta.Add([]byte("epoch"), verifBytes("epoch", 8))
	if verifChoice("kvs", 2) == 1 {
		meta.Add([]byte("k"), verifBytes("v", 0)) // a zero-length value at the end of the metadata
	}
	path := verifTempPath("manifest")
	m, err := NewManifest(path, meta)
	verifAssert(err == nil, "C13.gsfa.manifest: NewManifest failed")
	want := make([][2]uint64, tuples)
	for i := range want {
		want[i] = [2]uint64{verifU64("key"), verifU64("value")}
		verifAssert(m.Put(want[i][0], want[i][1]) == nil, "C13.gsfa.manifest: Put failed")
	}
	verifAssert(m.Close() == nil, "C13.gsfa.manifest: Close failed")
	raw := verifMemFileBytes(path)
	N := len(raw)
	metaBytes := meta.Bytes()
	hdr := 8 + 8 + len(metaBytes) // magic, version, metadata
	verifAssert(N == hdr+16*tuples, "C13.gsfa.manifest: unexpected file size")

	full, err := NewManifest(path, indexmeta.Meta{})
	verifAssert(err == nil, "C13.gsfa.manifest: the complete manifest does not open")
	fm := full.Meta()
	verifAssert(bytes.Equal(fm.Bytes(), metaBytes) && full.Version() == 5, "C13.gsfa.manifest: the complete manifest opens with other metadata")
	all, err := full.ReadAll()
	verifAssert(err == nil && len(all) == tuples, "C13.gsfa.manifest: the complete manifest does not return its tuples")

	T := verifChoice("T", N) // the first T bytes are present, 0 <= T < N
	// known finding: an empty file is silently re-initialised (fresh header, empty metadata)
	// NewManifest is a create-or-open API (the writer relies on "missing or empty => initialise"),
	// so a 0-byte file is not a truncation case for it; the reader entry point NewGsfaReader, which
	// must refuse an empty manifest (fix C13-manifest-empty-reinit), is covered by C13.gsfa.
	verifAssume(T != 0)
	cutPath := verifTempPath("manifest.cut")
	verifMemFile(cutPath, raw[:T])
	cut, err := NewManifest(cutPath, indexmeta.Meta{})
	if err != nil {
		verifAssert(cut == nil, "C13.gsfa.manifest: NewManifest returned both a manifest and an error")
		verifReach("open-error")
		verifReach("end")
		return
	}
	cm := cut.Meta()
	verifAssert(cut.Version() == full.Version() && bytes.Equal(cm.Bytes(), metaBytes), "C13.gsfa.manifest: truncated manifest opens with different metadata")
	got, err := cut.ReadAll()
	if err != nil {
		verifReach("read-error")
		verifReach("end")
		return
	}
	verifAssert(T >= hdr && (T-hdr)%16 == 0, "C13.gsfa.manifest: a manifest cut inside a tuple or its header opens and reads without error")
	verifAssert(len(got) == (T-hdr)/16, "C13.gsfa.manifest: wrong number of tuples")
	for i := range got {
		verifAssert(got[i] == want[i], "C13.gsfa.manifest: truncated manifest returns a different tuple")
	}
	verifReach("tuple-boundary")
	verifReach("end")
}
