//go:build verif

package manifest

import (
	"github.com/rpcpool/yellowstone-faithful/indexmeta"
)

// C12.manifest — gsfa manifest: NewManifest (readHeader over os.File, binary.Read,
// Meta.UnmarshalWithDecoder over bufio.Reader), ContentSizeBytes, ReadAll (readAllContent) on a
// file of arbitrary bytes: error or values; no panic; allocation proportional to the file.
// Layout: magic(8) version u64 metadata (count, (len,key,len,value)*) (key u64, value u64)*.
// Every byte symbolic. Metadata length bytes are concretised and the metadata area is not
// delimited (a large pair count makes the decoder run into the content), so two shapes are
// explored: (A) pair count <= 1 with restricted length bytes and arbitrary content, (B) any pair
// count on a short file whose bytes after the version are in {0,1,255}, (C) a well-formed
// header with 254 / 255 minimal metadata pairs (the format limit) and 16 arbitrary content bytes.
func VerifC12Manifest() {
	C := verifParam("content", 17) // bytes after the metadata
	P := verifParam("small", 5)    // shape B: bytes after the version
	verifAllocLimit(int64(verifParam("alloc", 16384)))
	var data []byte
	var n int
	shape := verifChoice("shape", 3)
	if shape == 2 {
		// shape C: a well-formed version-5 header whose metadata sits at the format limit:
		// 254 or 255 minimal pairs (empty key, empty value), then 16 arbitrary content bytes.
		// readHeader re-serialises the decoded metadata (Meta.Bytes panics on a marshal error).
		count := 254 + verifChoice("count", 2)
		data = append(data, _MAGIC[:]...)
		data = append(data, 5, 0, 0, 0, 0, 0, 0, 0)
		data = append(data, byte(count))
		data = append(data, make([]byte, 2*count)...)
		data = append(data, verifBytes("content", 16)...)
		n = len(data)
	} else if shape == 0 {
		// shape A: at most one metadata pair announced, its two length bytes restricted;
		// everything else (magic, version, keys, values, content) arbitrary
		lens := []int{16 + 1 + C, 5, 8, 15, 16, 17, 16 + 3 + C}
		n = lens[verifChoice("len", verifParam("lens", len(lens)))]
		data = verifBytes("file", n)
		if n > 16 {
			verifAssume(data[16] <= 1)
		}
		for i := 17; i < n && i < 17+4; i++ {
			verifAssume(data[i] <= 2 || data[i] >= 254)
		}
	} else {
		// shape B: any number of pairs announced, P restricted bytes after the version
		n = 16 + 1 + verifChoice("len", P)
		data = verifBytes("file", n)
		for i := 16; i < n; i++ {
			verifAssume(data[i] <= 1 || data[i] == 255)
		}
	}
	path := verifTempPath("manifest")
	verifMemFile(path, data)
	man, err := NewManifest(path, indexmeta.Meta{})
	if err != nil {
		verifAssert(shape != 2, "C12.manifest: a well-formed manifest with 254/255 metadata pairs was rejected")
		verifAssert(man == nil, "C12.manifest: NewManifest returned both a manifest and an error")
		verifReach("open-error")
		verifReach("end")
		return
	}
	verifAssert(man != nil && man.header != nil && man.Version() == _Version, "C12.manifest: NewManifest accepted a file without a version-5 header")
	cs, err := man.ContentSizeBytes()
	verifAssert(shape != 2 || (err == nil && cs == 16), "C12.manifest: content of a manifest with maximal metadata is not the 16 bytes after it")
	verifAssert(err == nil && cs >= 0 && cs%16 == 0 && cs <= int64(n), "C12.manifest: content size is negative, unaligned or larger than the file")
	vals, err := man.ReadAll()
	if err != nil {
		verifReach("read-error")
	} else {
		verifAssert(int64(len(vals))*16 == cs, "C12.manifest: ReadAll did not return content size / 16 tuples")
		verifReach("read-ok")
	}
	_ = man.Meta()
	verifAssert(man.Close() == nil, "C12.manifest: Close failed")
	verifReach("end")
}
