//go:build verif

package manifest

import (
	"github.com/rpcpool/yellowstone-faithful/indexmeta"
)

// C12.manifest — gsfa manifest: NewManifest (readHeader over os.File, binary.Read,
// Meta.UnmarshalWithDecoder over bufio.Reader), ContentSizeBytes, ReadAll (readAllContent) on a
// file of arbitrary bytes: error or values; no panic; allocation proportional to the file.
// Layout: magic(8) version u64 metadata (count, (len,key,len,value)*) (key u64, value u64)*.
// Every byte symbolic; the bytes of the metadata area are restricted to [0,2] ∪ [254,255]
// because metadata length bytes are concretised.
func VerifC12Manifest() {
	M := verifParam("meta", 3)    // bytes of metadata area
	C := verifParam("content", 17) // bytes after it
	lens := []int{16 + M + C, 5, 8, 15, 16, 17, 16 + M}
	n := lens[verifChoice("len", verifParam("lens", len(lens)))]
	verifAllocLimit(int64(verifParam("alloc", 16384)))
	data := verifBytes("file", n)
	for i := 16; i < n && i < 16+M; i++ {
		verifAssume(data[i] <= 2 || data[i] >= 254)
	}
	path := verifTempPath("manifest")
	verifMemFile(path, data)
	man, err := NewManifest(path, indexmeta.Meta{})
	if err != nil {
		verifAssert(man == nil, "C12.manifest: NewManifest returned both a manifest and an error")
		verifReach("open-error")
		verifReach("end")
		return
	}
	verifAssert(man != nil && man.header != nil && man.Version() == _Version, "C12.manifest: NewManifest accepted a file without a version-5 header")
	cs, err := man.ContentSizeBytes()
	verifAssert(err == nil && cs >= 0 && cs%16 == 0 && cs <= int64(n), "C12.manifest: content size is negative, unaligned or larger than the file")
	vals, err := man.ReadAll()
	if err != nil {
		verifReach("read-error")
	} else {
		verifAssert(int64(len(vals))*16 == cs, "C12.manifest: ReadAll did not return content size / 16 tuples")
		verifReach("read-ok")
	}
	_ = man.Meta()
	verifAssert(man.Close() == nil, "C12.manifest: Close failed")
	verifReach("end")
}
