//go:build verif

package iplddecoders

import (
	"errors"
	"io"

	"github.com/fxamacker/cbor/v2"
	"github.com/ipfs/go-cid"
	"github.com/rpcpool/yellowstone-faithful/ipld/ipldbindcode"
)

// C12.cbor — the fast IPLD node decoders (ipldbindcode/cbor.go UnmarshalCBOR of the seven node
// kinds, reached through iplddecoders.DecodeAny/GetKind) on a CBOR document of arbitrary shape:
// error or node, no panic.
//
// Cut: fxamacker/cbor's decoder (reflection) is replaced by a shape model: Decode(&arr) fails, or
// yields a generic array in which every position holds a valid value except one position that
// holds a value of ANY dynamic type (nil, uint64, int64, []byte of length 0..2, string, bool,
// float64, map, cbor.Tag with any number and content of any type, list of 0..2 such values),
// or the array is cut to any shorter length / extended by one element.
// Cut: cid.CidFromBytes (library) accepts or rejects any non-empty input.

var (
	c12Arr     []interface{}
	c12DecFail bool
)

func c12Model_cborNewDecoder(r io.Reader) *cbor.Decoder { return new(cbor.Decoder) }

func c12Model_cborDecode(d *cbor.Decoder, v interface{}) error {
	if c12DecFail {
		return errors.New("cbor: decode error (model)")
	}
	if !ipldbindcode.VerifC12SetArray(v, c12Arr) {
		verifFail("C12.cbor: the CBOR decode target is not *_array")
	}
	return nil
}

func c12Model_cidFromBytes(data []byte) (int, cid.Cid, error) {
	if len(data) == 0 || verifChoice("cidFromBytes", 2) == 0 {
		return 0, cid.Undef, errors.New("invalid cid (model)")
	}
	return len(data), cid.Cid{}, nil
}

// c12Any returns a value of any dynamic type; nested values up to depth, lists up to maxList.
func c12Any(depth int, maxList int) interface{} {
	n := 10
	if depth == 0 {
		n = 8
	}
	switch verifChoice("type", n) {
	case 0:
		return nil
	case 1:
		return verifU64("u")
	case 2:
		return verifI64("i")
	case 3:
		return verifBytes("bytes", verifChoice("blen", 3))
	case 4:
		return "str"
	case 5:
		return true
	case 6:
		return float64(1.5)
	case 7:
		return map[interface{}]interface{}{}
	case 8:
		return cbor.Tag{Number: verifU64("tag"), Content: c12Any(depth-1, 1)}
	default:
		l := make([]interface{}, verifChoice("llen", maxList+1))
		for i := range l {
			l[i] = c12Any(depth-1, 1)
		}
		return l
	}
}

func c12Link() interface{} { return cbor.Tag{Number: 42, Content: append([]byte{0}, verifBytes("cid", 2)...)} }
func c12Links() interface{} {
	l := make([]interface{}, verifChoice("links", 2))
	for i := range l {
		l[i] = c12Link()
	}
	return l
}
func c12Frame() []interface{} {
	return []interface{}{uint64(KindDataFrame), verifU64("hash"), nil, int64(3), verifBytes("data", 1), c12Links()}
}

// c12Valid returns a well-formed generic array for the node kind.
func c12Valid(kind Kind) []interface{} {
	switch kind {
	case KindTransaction:
		return []interface{}{uint64(kind), c12Frame(), c12Frame(), verifU64("slot"), nil}
	case KindEntry:
		return []interface{}{uint64(kind), verifU64("numHashes"), verifBytes("hash", 2), c12Links()}
	case KindBlock:
		return []interface{}{uint64(kind), verifU64("slot"), []interface{}{[]interface{}{verifU64("e"), int64(-1)}}, c12Links(),
			[]interface{}{verifU64("parent"), verifU64("blocktime"), nil}, c12Link()}
	case KindSubset:
		return []interface{}{uint64(kind), verifU64("first"), verifU64("last"), c12Links()}
	case KindEpoch:
		return []interface{}{uint64(kind), verifU64("epoch"), c12Links()}
	case KindRewards:
		return []interface{}{uint64(kind), verifU64("slot"), c12Frame()}
	default:
		return c12Frame()
	}
}

func c12IsList(v interface{}) bool  { _, ok := v.([]interface{}); return ok }
func c12IsBytes(v interface{}) bool { _, ok := v.([]byte); return ok }

// c12EmptyLink: v is a list containing (or is itself) a tag whose content is an empty byte string
func c12EmptyLink(v interface{}) bool {
	if t, ok := v.(cbor.Tag); ok {
		b, ok := t.Content.([]byte)
		return ok && len(b) == 0
	}
	if l, ok := v.([]interface{}); ok {
		for _, e := range l {
			if t, ok := e.(cbor.Tag); ok && c12EmptyLink(t) {
				return true
			}
		}
	}
	return false
}

func VerifC12Cbor() {
	kind := Kind(verifChoice("kind", 7))
	raw := []byte{0x80, byte(kind)}
	arr := c12Valid(kind)
	full := len(arr)
	p := -1
	nested := kind == KindTransaction || kind == KindRewards
	modes := 4
	if nested {
		modes = 5
	}
	switch verifChoice("mode", modes) {
	case 0: // decoder error
		c12DecFail = true
	case 1: // the well-formed array itself and any shorter length
		arr = arr[:verifChoice("cut", full+1)]
	case 2: // one extra element
		arr = append(arr, c12Any(0, 0))
	case 3: // one position holds a value of any type
		p = verifChoice("pos", full)
		depth := verifParam("depth", 2)
		arr[p] = c12Any(depth, verifParam("maxlist", 2))
	case 4: // Transaction / Rewards: one position of a NESTED data frame holds a value of any type, or the frame is cut
		fpos := []int{1, 2}
		if kind == KindRewards {
			fpos = []int{2}
		}
		fp := fpos[verifChoice("frame", len(fpos))]
		frame := arr[fp].([]interface{})
		if q := verifChoice("fpos", len(frame)+1); q == len(frame) {
			arr[fp] = frame[:verifChoice("fcut", len(frame))]
		} else {
			frame[q] = c12Any(1, 1)
			// link list of the nested frame (element 5): same known defect as at top level
			verifKnownFinding("C12-cbor-empty-link", q == 5 && c12EmptyLink(frame[q]))
		}
	}
	c12Arr = arr
	if p >= 0 {
		v := arr[p]
		// known defects: unchecked type assertions and rawBytes[1:] on an empty byte string
		unchecked := (kind == KindBlock && p == 4 && !c12IsList(v)) ||
			(kind == KindRewards && p == 2 && !c12IsList(v)) ||
			(kind == KindTransaction && (p == 1 || p == 2) && !c12IsList(v)) ||
			(kind == KindEntry && p == 2 && !c12IsBytes(v))
		verifKnownFinding("C12-cbor-unchecked-assert", unchecked)
		linkPos := (kind == KindEpoch && p == 2) || (kind == KindSubset && p == 3) || (kind == KindBlock && (p == 3 || p == 5)) ||
			(kind == KindEntry && p == 3) || (kind == KindDataFrame && p == 5)
		verifKnownFinding("C12-cbor-empty-link", linkPos && c12EmptyLink(v))
	}
	node, err := DecodeAny(raw)
	if err != nil {
		verifAssert(node == nil || c12IsNilPtr(node), "C12.cbor: DecodeAny returned a node together with an error")
		verifReach("decode-error")
	} else {
		verifAssert(node != nil, "C12.cbor: DecodeAny returned nil without an error")
		verifReach("decode-ok")
	}
	verifReach("end")
}

func c12IsNilPtr(n interface{}) bool {
	switch x := n.(type) {
	case *ipldbindcode.Transaction:
		return x == nil
	case *ipldbindcode.Entry:
		return x == nil
	case *ipldbindcode.Block:
		return x == nil
	case *ipldbindcode.Subset:
		return x == nil
	case *ipldbindcode.Epoch:
		return x == nil
	case *ipldbindcode.Rewards:
		return x == nil
	case *ipldbindcode.DataFrame:
		return x == nil
	}
	return false
}

// C12.cbor.kind — GetKind / DecodeAny on raw bytes of every length 0..3 with arbitrary content:
// the kind byte is read only when present, unknown kinds are rejected.
func VerifC12CborKind() {
	c12DecFail = true
	raw := verifBytes("raw", verifChoice("len", 4))
	k, err := GetKind(raw)
	if len(raw) < 2 {
		verifAssert(err != nil && k == Kind(-1), "C12.cbor.kind: GetKind accepted fewer than 2 bytes")
	} else {
		verifAssert(err == nil && k == Kind(raw[1]), "C12.cbor.kind: GetKind is not the second byte")
	}
	node, err := DecodeAny(raw)
	verifAssert(err != nil && (node == nil || c12IsNilPtr(node)), "C12.cbor.kind: DecodeAny succeeded although the CBOR decoder failed")
	verifReach("end")
}
