//go:build verif

package iplddecoders

// C11 harness, part 1: everything that is derived from the ledger schema.
//
//   - c11ParseSchema: reads ledger.ipldsch (the text the repository embeds) into a table
//     (struct name, field order, type, list-of, optional, nullable) at check time;
//   - c11Gen: generates an arbitrary schema-conforming typed value V (a generic tree) from the
//     table: integers are symbolic, byte strings have symbolic content, links are distinct
//     concrete CIDs, optional/nullable fields and list lengths are case-split;
//   - c11ToAny / c11ToCBOR: the schema-driven reference *encoder* for the tuple representation:
//     V -> the value tree fxamacker/cbor hands to the fast decoders, and V -> DAG-CBOR bytes.
//
// Nothing in this file knows the seven Go structs; part 2 (c11_tuple.go) maps them onto the tree.

import (
	"strings"

	"github.com/fxamacker/cbor/v2"
)

// ---------------------------------------------------------------------------
// schema table

type c11Field struct {
	name     string
	typ      string // Int | Link | name of a bytes typedef | name of a struct
	list     bool   // [ typ ]
	optional bool
	nullable bool
}

type c11Struct struct {
	name   string
	fields []c11Field
}

type c11Schema struct {
	structs map[string]*c11Struct
	bytes   map[string]bool
	order   []string
}

func c11ParseSchema(text string) *c11Schema {
	s := &c11Schema{structs: map[string]*c11Struct{}, bytes: map[string]bool{}}
	var cur *c11Struct
	for _, line := range strings.Split(text, "\n") {
		if i := strings.Index(line, "#"); i >= 0 {
			line = line[:i]
		}
		for _, p := range []string{"[", "]", "{", "}"} {
			line = strings.ReplaceAll(line, p, " "+p+" ")
		}
		toks := strings.Fields(line)
		if len(toks) == 0 {
			continue
		}
		switch {
		case toks[0] == "type":
			if cur != nil || len(toks) < 3 {
				verifFail("C11.schema: type declaration inside a struct or truncated")
				return s
			}
			switch toks[2] {
			case "struct":
				if len(toks) != 4 || toks[3] != "{" {
					verifFail("C11.schema: unsupported struct header")
				}
				cur = &c11Struct{name: toks[1]}
				s.structs[toks[1]] = cur
				s.order = append(s.order, toks[1])
			case "bytes":
				if len(toks) != 3 {
					verifFail("C11.schema: unsupported bytes typedef")
				}
				s.bytes[toks[1]] = true
			default:
				verifFail("C11.schema: type kind not modelled by the harness: " + toks[2])
			}
		case toks[0] == "}":
			if cur == nil || len(toks) != 3 || toks[1] != "representation" || toks[2] != "tuple" {
				verifFail("C11.schema: struct without 'representation tuple'")
			}
			cur = nil
		default:
			if cur == nil {
				verifFail("C11.schema: field outside a struct")
				return s
			}
			f := c11Field{name: toks[0]}
			rest := toks[1:]
			for len(rest) > 0 && (rest[0] == "nullable" || rest[0] == "optional") {
				if rest[0] == "nullable" {
					f.nullable = true
				} else {
					f.optional = true
				}
				rest = rest[1:]
			}
			switch {
			case len(rest) == 1:
				f.typ = rest[0]
			case len(rest) == 3 && rest[0] == "[" && rest[2] == "]":
				f.typ, f.list = rest[1], true
			default:
				verifFail("C11.schema: unsupported field type in " + cur.name + "." + f.name)
			}
			cur.fields = append(cur.fields, f)
		}
	}
	if cur != nil {
		verifFail("C11.schema: unterminated struct")
	}
	// every referenced type must be known
	for _, st := range s.structs {
		for _, f := range st.fields {
			if f.typ != "Int" && f.typ != "Link" && !s.bytes[f.typ] && s.structs[f.typ] == nil {
				verifFail("C11.schema: unknown type " + f.typ)
			}
		}
	}
	return s
}

// ---------------------------------------------------------------------------
// generic typed values

const (
	c11Present = 0
	c11Null    = 1
	c11Absent  = 2
)

type c11Val struct {
	kind  byte   // 'i' int, 'b' bytes, 'l' link, 'L' list, 's' struct
	typ   string // struct name for 's'
	state int    // struct fields: c11Present / c11Null / c11Absent
	neg   bool   // int: encoded as a CBOR negative integer (fxamacker: int64), else unsigned (uint64)
	u     uint64 // int: the value, two's complement
	b     []byte // bytes: content; link: 0x00 multibase byte followed by the binary CID
	elems []*c11Val
}

// c11KindOf maps a struct name to the kind number the code under test gives it (Kind.String()).
func c11KindOf(name string) (Kind, bool) {
	for k := KindTransaction; k <= KindDataFrame; k++ {
		if k.String() == name {
			return k, true
		}
	}
	return -1, false
}

// c11Cid returns the i-th concrete link payload (multibase 0x00 + binary CID). Eight CID shapes
// rotate: CIDv1 dag-cbor sha2-256; CIDv1 raw sha2-256; CIDv0; CIDv1 dag-cbor sha2-512 (64-byte
// digest); CIDv1 raw identity multihash with a 5-byte digest; CIDv1 raw identity multihash with
// an empty digest; CIDv1 dag-json (two-byte codec varint 0x0129) blake2b-256 (two-byte multihash
// code varint 0xb220); CIDv1 with the one-byte codec 0x70 (dag-pb) sha2-256. Digests are
// distinct per i.
func c11Cid(i int) []byte {
	var b []byte
	n := 32
	switch i % 8 {
	case 0:
		b = []byte{0x00, 0x01, 0x71, 0x12, 0x20}
	case 1:
		b = []byte{0x00, 0x01, 0x55, 0x12, 0x20}
	case 2:
		b = []byte{0x00, 0x12, 0x20}
	case 3:
		b, n = []byte{0x00, 0x01, 0x71, 0x13, 0x40}, 64
	case 4:
		b, n = []byte{0x00, 0x01, 0x55, 0x00, 0x05}, 5
	case 5:
		b, n = []byte{0x00, 0x01, 0x55, 0x00, 0x00}, 0
	case 6:
		b = []byte{0x00, 0x01, 0xa9, 0x02, 0xa0, 0xe4, 0x02, 0x20}
	default:
		b = []byte{0x00, 0x01, 0x70, 0x12, 0x20}
	}
	for j := 0; j < n; j++ {
		b = append(b, byte(0x31+11*i+j))
	}
	return b
}

type c11Gen struct {
	sch      *c11Schema
	intPat   int   // dynamic types of the non-kind integers, see int()
	lens     []int // list lengths that are case-split
	nestPat  int   // number of shape patterns of nested structs (0 = nested structs are fully case-split)
	nInt     int
	nLink    int
	nBytes   int
	kindMiss uint64 // number of kind fields whose value is not the kind number of their struct
	topKind  *c11Val
	ints     []*c11Int // integers in generation order; dynamic types and values are drawn by finish()
	csum     int       // digest of the shape decisions (picks the integer pattern when it is not case-split)
	side     int       // 0: nested structs by pattern; 1 / 2: the first / second nested struct is fully case-split
	nNested  int
	fixTop   bool // the top-level kind field is not arbitrary but the kind number of the struct
}

type c11Int struct {
	v      *c11Val
	path   string
	isKind bool
	kind   Kind // isKind: the kind number of the enclosing struct
}

// choice is verifChoice, remembered in the shape digest.
func (g *c11Gen) choice(name string, n int) int {
	r := verifChoice(name, n)
	g.csum = g.csum*7 + r + 1
	return r
}

// int allocates an arbitrary integer; finish() draws its dynamic type and value.
func (g *c11Gen) int(path string, isKind bool, k Kind) *c11Val {
	v := &c11Val{kind: 'i'}
	g.ints = append(g.ints, &c11Int{v: v, path: path, isKind: isKind, kind: k})
	return v
}

// finish draws the integers. Dynamic type as delivered by fxamacker/cbor: uint64 for a CBOR
// unsigned integer (any value), int64 for a CBOR negative integer (value < 0).
// Pattern 0 all unsigned, 1 all negative, 2 even positions negative, 3 odd positions negative
// (kind fields are unsigned in patterns 0..3); 4: kind fields negative, the rest unsigned;
// 5 (thorough tier of the small structs): every non-kind integer is case-split on its own.
// derive: the pattern is not case-split but a function of the shape decisions (quick tier).
func (g *c11Gen) finish(npat int, derive bool) {
	if derive {
		if npat > 5 {
			npat = 5
		}
		d := g.csum
		if d < 0 {
			d = -d
		}
		g.intPat = d % npat
	} else {
		g.intPat = verifChoice("intpat", npat)
	}
	n := 0
	for _, it := range g.ints {
		neg := false
		if it.isKind {
			neg = g.intPat == 4
		} else {
			switch g.intPat {
			case 1:
				neg = true
			case 2:
				neg = n%2 == 0
			case 3:
				neg = n%2 == 1
			case 5:
				neg = verifChoice("neg:"+it.path, 2) == 1
			}
			n++
		}
		if it.isKind && g.fixTop && it.v == g.topKind {
			// byte-level obligations: the top-level kind is the right one (one concrete head byte)
			it.v.u = uint64(it.kind)
			continue
		}
		it.v.neg = neg
		if neg {
			i := verifI64(it.path)
			verifAssume(i < 0)
			it.v.u = uint64(i)
		} else {
			it.v.u = verifU64(it.path)
		}
		if it.isKind {
			g.kindMiss += verifIteU64(it.v.u == uint64(it.kind), 0, 1)
		}
	}
}

var c11ByteLens = []int{2, 0, 1, 3}

func (g *c11Gen) value(f c11Field, full bool, pat int, nl *int, path string) *c11Val {
	if f.list {
		var n int
		if full {
			n = g.lens[g.choice("len:"+path, len(g.lens))]
		} else {
			n = g.lens[(pat/3+*nl)%len(g.lens)]
			*nl++
		}
		v := &c11Val{kind: 'L', elems: []*c11Val{}}
		el := f
		el.list = false
		for i := 0; i < n; i++ {
			v.elems = append(v.elems, g.value(el, false, pat, nl, path+"[]"))
		}
		return v
	}
	switch {
	case f.typ == "Int":
		return g.int(path, false, -1)
	case f.typ == "Link":
		if g.nLink == 0 {
			// the rotation of CID shapes starts at a shape-dependent position
			d := g.csum
			if d < 0 {
				d = -d
			}
			g.nLink = 8 + d%8
		}
		v := &c11Val{kind: 'l', b: c11Cid(g.nLink)}
		g.nLink++
		return v
	case g.sch.bytes[f.typ]:
		n := c11ByteLens[g.nBytes%len(c11ByteLens)]
		g.nBytes++
		return &c11Val{kind: 'b', b: verifBytes(path, n)}
	}
	// nested struct
	g.nNested++
	return g.strct(f.typ, g.side != 0 && g.side == g.nNested, path)
}

// strct generates a value of a struct type in tuple representation: every field present, or
// null (nullable fields), or omitted (optional fields of the trailing run of optional fields
// only, and only together with all later ones). full (the top-level struct; every struct when
// nestPat == 0): each such decision and each list length is a verifChoice of its own;
// otherwise one verifChoice picks one of nestPat patterns for the whole nested struct.
func (g *c11Gen) strct(name string, full bool, path string) *c11Val {
	st := g.sch.structs[name]
	if g.nestPat == 0 {
		full = true
	}
	decisions := false
	for _, f := range st.fields {
		if f.list || f.nullable || f.optional {
			decisions = true
		}
	}
	pat := 0
	if !full && decisions {
		pat = g.choice("pat:"+path, g.nestPat)
	}
	v := &c11Val{kind: 's', typ: name, elems: make([]*c11Val, len(st.fields))}
	// presence decisions, last field first (omission is only possible at the tail)
	states := make([]int, len(st.fields))
	trailing := true
	no := 0
	for i := len(st.fields) - 1; i >= 0; i-- {
		f := st.fields[i]
		opts := []int{c11Present}
		if f.nullable {
			opts = append(opts, c11Null)
		}
		if f.optional && trailing {
			opts = append(opts, c11Absent)
		}
		pick := c11Present
		if len(opts) > 1 {
			if full {
				pick = opts[g.choice("st:"+path+"."+f.name, len(opts))]
			} else {
				pick = opts[(pat+no)%len(opts)]
				no++
			}
		}
		states[i] = pick
		if pick != c11Absent {
			trailing = false
		}
	}
	nl := 0
	for i, f := range st.fields {
		fp := path + "." + f.name
		if states[i] != c11Present {
			v.elems[i] = &c11Val{state: states[i]}
			continue
		}
		if i == 0 && f.name == "kind" && f.typ == "Int" && !f.list {
			k, ok := c11KindOf(name)
			if !ok {
				verifFail("C11.schema: struct with a kind field that the code has no Kind for: " + name)
			}
			kv := g.int(fp, true, k)
			if g.topKind == nil {
				g.topKind = kv
			}
			v.elems[i] = kv
			continue
		}
		v.elems[i] = g.value(f, full, pat, &nl, fp)
	}
	return v
}

// ---------------------------------------------------------------------------
// reference encoder, tuple representation

// c11ToAny: V -> what fxamacker/cbor's Decode(&[]any) produces for the DAG-CBOR encoding of V
// (unsigned -> uint64, negative -> int64, byte string -> []byte, array -> []interface{},
// tag 42 -> cbor.Tag{42, []byte}, null -> nil). Fresh containers on every call.
func c11ToAny(v *c11Val) interface{} {
	switch v.kind {
	case 'i':
		if v.neg {
			return int64(v.u)
		}
		return v.u
	case 'b':
		return append([]byte{}, v.b...)
	case 'l':
		return cbor.Tag{Number: 42, Content: append([]byte{}, v.b...)}
	case 'L':
		out := []interface{}{}
		for _, e := range v.elems {
			out = append(out, c11ToAny(e))
		}
		return out
	case 's':
		out := []interface{}{}
		for _, e := range v.elems {
			switch {
			case e.kind == 0 && e.state == c11Absent:
				return out
			case e.kind == 0 && e.state == c11Null:
				out = append(out, nil)
			default:
				out = append(out, c11ToAny(e))
			}
		}
		return out
	}
	verifFail("C11: c11ToAny on an empty value")
	return nil
}

// c11Canon: also under symgo every integer head is minimal (canonical DAG-CBOR), at the price of
// a five-way case split on the magnitude of every integer (byte-level obligations of small structs).
var c11Canon bool

func c11Head(out []byte, major byte, n uint64, minimal bool) []byte {
	m := major << 5
	if minimal {
		switch {
		case n < 24:
			return append(out, m|byte(n))
		case n < 1<<8:
			return append(out, m|24, byte(n))
		case n < 1<<16:
			return append(out, m|25, byte(n>>8), byte(n))
		case n < 1<<32:
			return append(out, m|26, byte(n>>24), byte(n>>16), byte(n>>8), byte(n))
		}
	}
	return append(out, m|27, byte(n>>56), byte(n>>48), byte(n>>40), byte(n>>32), byte(n>>24), byte(n>>16), byte(n>>8), byte(n))
}

// c11ToCBOR: V -> DAG-CBOR bytes. Natively (concrete values) every head is minimal, i.e. the
// bytes are canonical DAG-CBOR. Under symgo the integer *values* are symbolic and a
// value-dependent width would fork five ways per integer, so integers are written in the 8-byte
// form (well-formed CBOR of the same value; the byte-level decoder is cut there anyway) except
// the top-level kind, whose width decides what GetKind/DecodeAny read at raw[1].
func c11ToCBOR(out []byte, v *c11Val, top *c11Val) []byte {
	switch v.kind {
	case 'i':
		major, n := byte(0), v.u
		if v.neg {
			major, n = 1, ^v.u
		}
		minimal := !verifSymbolic() || c11Canon
		if v == top && n < 24 { // forks under symgo
			minimal = true
		}
		return c11Head(out, major, n, minimal)
	case 'b':
		out = c11Head(out, 2, uint64(len(v.b)), true)
		return append(out, v.b...)
	case 'l':
		out = c11Head(out, 6, 42, true)
		out = c11Head(out, 2, uint64(len(v.b)), true)
		return append(out, v.b...)
	case 'L':
		out = c11Head(out, 4, uint64(len(v.elems)), true)
		for _, e := range v.elems {
			out = c11ToCBOR(out, e, top)
		}
		return out
	case 's':
		n := 0
		for _, e := range v.elems {
			if e.kind == 0 && e.state == c11Absent {
				break
			}
			n++
		}
		out = c11Head(out, 4, uint64(n), true)
		for _, e := range v.elems[:n] {
			if e.kind == 0 {
				out = append(out, 0xf6)
			} else {
				out = c11ToCBOR(out, e, top)
			}
		}
		return out
	}
	verifFail("C11: c11ToCBOR on an empty value")
	return out
}
