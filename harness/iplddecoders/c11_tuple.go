//go:build verif

package iplddecoders

// C11 harness, part 2: the cut of the byte-level CBOR decoder, the mapping of the seven Go
// structs onto the generic tree of part 1, the comparison and the obligations.

import (
	"bytes"
	"errors"
	"io"
	"strings"

	"github.com/fxamacker/cbor/v2"
	"github.com/ipld/go-ipld-prime"
	"github.com/ipld/go-ipld-prime/codec/dagcbor"
	"github.com/ipld/go-ipld-prime/datamodel"
	cidlink "github.com/ipld/go-ipld-prime/linking/cid"
	"github.com/rpcpool/yellowstone-faithful/ipld/ipldbindcode"
)

// verifC11SchemaText returns the schema text the repository embeds. Under symgo the function is
// an intrinsic (engine/symgo/ext_C11.go) that reads ledger.ipldsch from the checked tree,
// because go:embed data does not exist in SSA.
func verifC11SchemaText() string { return ipldbindcode.VerifC11Schema() }

// ---------------------------------------------------------------------------
// cut: fxamacker/cbor. (*T).UnmarshalCBOR does
//     dec := cbor.NewDecoder(bytes.NewReader(data)); var arr _array; dec.Decode(&arr)
// The model checks that the decoder was handed exactly the node bytes and delivers the value
// tree of the current node (c11ToAny). It is used under symgo only; natively the real
// fxamacker decoder runs on the bytes of c11ToCBOR (translator validation compares the two).

var (
	c11Cur    *c11Val
	c11Raw    []byte
	c11Reader io.Reader
	c11Label  = "C11"
)

func c11Model_cborNewDecoder(r io.Reader) *cbor.Decoder {
	c11Reader = r
	return new(cbor.Decoder)
}

func c11Model_cborDecode(d *cbor.Decoder, v interface{}) error {
	br, ok := c11Reader.(*bytes.Reader)
	if !ok {
		verifFail(c11Label + ": the CBOR decoder was not created over a bytes.Reader")
		return nil
	}
	buf := make([]byte, br.Len())
	n, _ := br.Read(buf)
	verifAssert(n == len(c11Raw) && bytes.Equal(buf, c11Raw), c11Label+": the bytes handed to the CBOR decoder are not the node bytes")
	if !ipldbindcode.VerifC11SetArray(v, c11ToAny(c11Cur).([]interface{})) {
		verifFail(c11Label + ": the CBOR decode target is not *_array")
	}
	return nil
}

// c11Model_cborUnmarshal: the same cut for cbor.Unmarshal(data, &arr), should the decoders be
// rewritten to use the one-shot API (same result on a single well-formed data item).
func c11Model_cborUnmarshal(data []byte, v interface{}) error {
	verifAssert(len(data) == len(c11Raw) && bytes.Equal(data, c11Raw), c11Label+": the bytes handed to the CBOR decoder are not the node bytes")
	if !ipldbindcode.VerifC11SetArray(v, c11ToAny(c11Cur).([]interface{})) {
		verifFail(c11Label + ": the CBOR decode target is not *_array")
	}
	return nil
}

// ---------------------------------------------------------------------------
// Go structs -> generic tree (field order = schema order). Optional fields are read through
// the accessors the server uses (Has*/Get*): "has a value" or not; null and omitted are not
// distinguished at that level (the fast decoder stores both as a nil pointer).

func c11PInt(i int) *c11Val                   { return &c11Val{kind: 'i', u: uint64(i)} }
func c11PBytes(b []byte) *c11Val              { return &c11Val{kind: 'b', b: b} }
func c11PNone() *c11Val                       { return &c11Val{state: c11Null} }
func c11PS(name string, f ...*c11Val) *c11Val { return &c11Val{kind: 's', typ: name, elems: f} }

func c11PLink(l datamodel.Link) *c11Val {
	cl, ok := l.(cidlink.Link)
	if !ok {
		verifFail(c11Label + ": decoded link is not a cidlink.Link")
		return &c11Val{kind: 'l'}
	}
	return &c11Val{kind: 'l', b: append([]byte{0}, []byte(cl.Cid.KeyString())...)}
}

func c11PLinks(ls ipldbindcode.List__Link) *c11Val {
	v := &c11Val{kind: 'L', elems: []*c11Val{}}
	for _, l := range ls {
		v.elems = append(v.elems, c11PLink(l))
	}
	return v
}

func c11PDataFrame(x *ipldbindcode.DataFrame) *c11Val {
	hash, index, total, next := c11PNone(), c11PNone(), c11PNone(), c11PNone()
	h, ok := x.GetHash()
	verifAssert(ok == x.HasHash(), c11Label+": DataFrame.HasHash and GetHash disagree")
	if ok {
		hash = c11PInt(int(h))
	}
	i, ok := x.GetIndex()
	verifAssert(ok == x.HasIndex(), c11Label+": DataFrame.HasIndex and GetIndex disagree")
	if ok {
		index = c11PInt(i)
	}
	t, ok := x.GetTotal()
	verifAssert(ok == x.HasTotal(), c11Label+": DataFrame.HasTotal and GetTotal disagree")
	if ok {
		total = c11PInt(t)
	}
	n, ok := x.GetNext()
	verifAssert((ok && len(n) > 0) == x.HasNext(), c11Label+": DataFrame.HasNext and GetNext disagree")
	if ok {
		next = c11PLinks(n)
	}
	return c11PS("DataFrame", c11PInt(x.Kind), hash, index, total, c11PBytes(x.Bytes()), next)
}

func c11PEpoch(x *ipldbindcode.Epoch) *c11Val {
	return c11PS("Epoch", c11PInt(x.Kind), c11PInt(x.Epoch), c11PLinks(x.Subsets))
}

func c11PSubset(x *ipldbindcode.Subset) *c11Val {
	return c11PS("Subset", c11PInt(x.Kind), c11PInt(x.First), c11PInt(x.Last), c11PLinks(x.Blocks))
}

func c11PBlock(x *ipldbindcode.Block) *c11Val {
	shr := &c11Val{kind: 'L', elems: []*c11Val{}}
	for _, s := range x.Shredding {
		shr.elems = append(shr.elems, c11PS("Shredding", c11PInt(s.EntryEndIdx), c11PInt(s.ShredEndIdx)))
	}
	bh := c11PNone()
	h, ok := x.Meta.GetBlockHeight()
	h2, ok2 := x.GetBlockHeight()
	verifAssert(ok == x.Meta.HasBlockHeight() && ok == ok2, c11Label+": the block-height accessors disagree on presence")
	if ok {
		verifAssert(h == h2, c11Label+": Block.GetBlockHeight and SlotMeta.GetBlockHeight disagree")
		bh = c11PInt(int(h))
	}
	meta := c11PS("SlotMeta", c11PInt(x.Meta.Parent_slot), c11PInt(x.Meta.Blocktime), bh)
	return c11PS("Block", c11PInt(x.Kind), c11PInt(x.Slot), shr, c11PLinks(x.Entries), meta, c11PLink(x.Rewards))
}

func c11PRewards(x *ipldbindcode.Rewards) *c11Val {
	return c11PS("Rewards", c11PInt(x.Kind), c11PInt(x.Slot), c11PDataFrame(&x.Data))
}

func c11PEntry(x *ipldbindcode.Entry) *c11Val {
	return c11PS("Entry", c11PInt(x.Kind), c11PInt(x.NumHashes), c11PBytes(x.Hash), c11PLinks(x.Transactions))
}

func c11PTransaction(x *ipldbindcode.Transaction) *c11Val {
	idx := c11PNone()
	i, ok := x.GetPositionIndex()
	verifAssert(ok == x.HasIndex(), c11Label+": Transaction.HasIndex and GetPositionIndex disagree")
	if ok {
		idx = c11PInt(i)
	}
	return c11PS("Transaction", c11PInt(x.Kind), c11PDataFrame(&x.Data), c11PDataFrame(&x.Metadata), c11PInt(x.Slot), idx)
}

// c11Decode runs one decoder and maps its result. fast: the public entry point the server and
// the indexers call (iplddecoders.Decode<T>). classic (native runs only): the schema-driven
// reference, ipld.Unmarshal with dag-cbor and the bindnode prototype of the embedded schema,
// followed by the kind check (what _Decode<T>Classic does, without referring to it).
func c11Decode(k Kind, raw []byte, classic bool) (v *c11Val, err error, nilResult bool) {
	switch k {
	case KindTransaction:
		var x *ipldbindcode.Transaction
		if classic {
			x = &ipldbindcode.Transaction{}
			if _, err = ipld.Unmarshal(raw, dagcbor.Decode, x, ipldbindcode.Prototypes.Transaction.Type()); err == nil && x.Kind != int(k) {
				err = errors.New("classic: wrong kind")
			}
		} else {
			x, err = DecodeTransaction(raw)
		}
		if err != nil || x == nil {
			return nil, err, x == nil || classic
		}
		return c11PTransaction(x), nil, false
	case KindEntry:
		var x *ipldbindcode.Entry
		if classic {
			x = &ipldbindcode.Entry{}
			if _, err = ipld.Unmarshal(raw, dagcbor.Decode, x, ipldbindcode.Prototypes.Entry.Type()); err == nil && x.Kind != int(k) {
				err = errors.New("classic: wrong kind")
			}
		} else {
			x, err = DecodeEntry(raw)
		}
		if err != nil || x == nil {
			return nil, err, x == nil || classic
		}
		return c11PEntry(x), nil, false
	case KindBlock:
		var x *ipldbindcode.Block
		if classic {
			x = &ipldbindcode.Block{}
			if _, err = ipld.Unmarshal(raw, dagcbor.Decode, x, ipldbindcode.Prototypes.Block.Type()); err == nil && x.Kind != int(k) {
				err = errors.New("classic: wrong kind")
			}
		} else {
			x, err = DecodeBlock(raw)
		}
		if err != nil || x == nil {
			return nil, err, x == nil || classic
		}
		return c11PBlock(x), nil, false
	case KindSubset:
		var x *ipldbindcode.Subset
		if classic {
			x = &ipldbindcode.Subset{}
			if _, err = ipld.Unmarshal(raw, dagcbor.Decode, x, ipldbindcode.Prototypes.Subset.Type()); err == nil && x.Kind != int(k) {
				err = errors.New("classic: wrong kind")
			}
		} else {
			x, err = DecodeSubset(raw)
		}
		if err != nil || x == nil {
			return nil, err, x == nil || classic
		}
		return c11PSubset(x), nil, false
	case KindEpoch:
		var x *ipldbindcode.Epoch
		if classic {
			x = &ipldbindcode.Epoch{}
			if _, err = ipld.Unmarshal(raw, dagcbor.Decode, x, ipldbindcode.Prototypes.Epoch.Type()); err == nil && x.Kind != int(k) {
				err = errors.New("classic: wrong kind")
			}
		} else {
			x, err = DecodeEpoch(raw)
		}
		if err != nil || x == nil {
			return nil, err, x == nil || classic
		}
		return c11PEpoch(x), nil, false
	case KindRewards:
		var x *ipldbindcode.Rewards
		if classic {
			x = &ipldbindcode.Rewards{}
			if _, err = ipld.Unmarshal(raw, dagcbor.Decode, x, ipldbindcode.Prototypes.Rewards.Type()); err == nil && x.Kind != int(k) {
				err = errors.New("classic: wrong kind")
			}
		} else {
			x, err = DecodeRewards(raw)
		}
		if err != nil || x == nil {
			return nil, err, x == nil || classic
		}
		return c11PRewards(x), nil, false
	case KindDataFrame:
		var x *ipldbindcode.DataFrame
		if classic {
			x = &ipldbindcode.DataFrame{}
			if _, err = ipld.Unmarshal(raw, dagcbor.Decode, x, ipldbindcode.Prototypes.DataFrame.Type()); err == nil && x.Kind != int(k) {
				err = errors.New("classic: wrong kind")
			}
		} else {
			x, err = DecodeDataFrame(raw)
		}
		if err != nil || x == nil {
			return nil, err, x == nil || classic
		}
		return c11PDataFrame(x), nil, false
	}
	verifFail(c11Label + ": no decoder for this kind")
	return nil, nil, true
}

// c11PAny maps the result of DecodeAny; the second result is the kind of the Go type.
func c11PAny(a interface{}) (*c11Val, Kind) {
	switch x := a.(type) {
	case *ipldbindcode.Transaction:
		if x != nil {
			return c11PTransaction(x), KindTransaction
		}
	case *ipldbindcode.Entry:
		if x != nil {
			return c11PEntry(x), KindEntry
		}
	case *ipldbindcode.Block:
		if x != nil {
			return c11PBlock(x), KindBlock
		}
	case *ipldbindcode.Subset:
		if x != nil {
			return c11PSubset(x), KindSubset
		}
	case *ipldbindcode.Epoch:
		if x != nil {
			return c11PEpoch(x), KindEpoch
		}
	case *ipldbindcode.Rewards:
		if x != nil {
			return c11PRewards(x), KindRewards
		}
	case *ipldbindcode.DataFrame:
		if x != nil {
			return c11PDataFrame(x), KindDataFrame
		}
	}
	return nil, -1
}

// ---------------------------------------------------------------------------
// comparison of the generated value (want) with a decoded one (got), driven by the schema table

func c11Cmp(sch *c11Schema, want, got *c11Val, path string) {
	if want.kind != got.kind {
		verifFail(c11Label + ": value of the wrong sort at " + path)
		return
	}
	switch want.kind {
	case 'i':
		verifAssert(want.u == got.u, c11Label+": integer differs at "+path)
	case 'b':
		verifAssert(len(want.b) == len(got.b) && bytes.Equal(want.b, got.b), c11Label+": bytes differ at "+path)
	case 'l':
		verifAssert(bytes.Equal(want.b, got.b), c11Label+": link differs at "+path)
	case 'L':
		verifAssert(len(want.elems) == len(got.elems), c11Label+": list length differs at "+path)
		for i := 0; i < len(want.elems) && i < len(got.elems); i++ {
			c11Cmp(sch, want.elems[i], got.elems[i], path+"[]")
		}
	case 's':
		st := sch.structs[want.typ]
		if got.typ != want.typ || len(got.elems) != len(st.fields) {
			verifFail(c11Label + ": the harness mapping of " + want.typ + " does not have the schema's fields")
			return
		}
		for i, f := range st.fields {
			w, g := want.elems[i], got.elems[i]
			wantHas := w.kind != 0
			if wantHas && f.list && (f.optional || f.nullable) && len(w.elems) == 0 {
				// accessor level: an optional list that is present but empty reads as "no value"
				// (GetNext; the schema-driven decoder stores a nil list as well)
				wantHas = false
			}
			gotHas := g.kind != 0
			if !f.optional && !f.nullable && !gotHas {
				verifFail(c11Label + ": required field without a value at " + path + "." + f.name)
				continue
			}
			verifAssert(wantHas == gotHas, c11Label+": presence of the optional field differs at "+path+"."+f.name)
			if wantHas && gotHas {
				c11Cmp(sch, w, g, path+"."+f.name)
			}
		}
	}
}

var c11AllLens = []int{1, 0, 2, 3, 33}

func c11Setup() (Kind, *c11Schema, *c11Gen, *c11Val) {
	tp := verifParam("T", int(KindEpoch))
	if tp < 0 {
		// one obligation for all seven kinds (case split)
		tp = verifChoice("kind", int(KindDataFrame)+1)
	}
	t := Kind(tp)
	name := t.String()
	c11Label = "C11." + strings.ToLower(name)
	if verifParam("BYTES", 0) == 1 {
		c11Label = "C11.bytes." + strings.ToLower(name)
	}
	sch := c11ParseSchema(verifC11SchemaText())
	if sch.structs[name] == nil {
		verifFail(c11Label + ": the schema has no struct " + name)
	}
	g := &c11Gen{sch: sch, nestPat: verifParam("NEST", 6)}
	g.lens = c11AllLens[:verifParam("NLENS", len(c11AllLens))]
	if verifParam("SIDE", 0) != 0 {
		// one of the first two nested structs is fully case-split, the other ones by pattern
		g.side = 1 + g.choice("side", 2)
	}
	g.fixTop = verifParam("BYTES", 0) == 1
	// CANON 1: canonical integer heads also under symgo; 2: for the structs without nested structs
	// and optional fields only (Epoch, Entry)
	c11Canon = verifParam("CANON", 0) == 1 || (verifParam("CANON", 0) == 2 && (t == KindEpoch || t == KindEntry))
	v := g.strct(name, true, name)
	// INTMODE 0: the integer pattern is case-split (INTPATS patterns for every shape);
	// INTMODE 1: it is a function of the shape decisions (every pattern occurs, not with every shape)
	g.finish(verifParam("INTPATS", 5), verifParam("INTMODE", 0) == 1)
	c11Cur = v
	c11Raw = c11ToCBOR(nil, v, g.topKind)
	return t, sch, g, v
}

// VerifC11Node — one obligation per node kind T (tier parameter T = the kind number).
//
// For every value V of struct T that conforms to ledger.ipldsch in tuple representation (within
// the bounds), encoded by the schema-driven reference encoder:
//   - Decode<T> accepts iff every kind field (top level and nested DataFrames) carries the
//     kind number of its struct, and returns a nil node with the error otherwise;
//   - on acceptance kind, every field, every link (target and order), every byte string and
//     the result of every Has*/Get* accessor equal V;
//   - DecodeAny on the same bytes returns a *T with the same content;
//   - the six decoders of the other kinds reject the node.
//
// Native runs (translator validation, replay) additionally decode the same bytes with the real
// fxamacker decoder and with the schema-driven bindnode decoder (_Decode<T>Classic) and
// compare both with V.
func VerifC11Node() {
	t, sch, g, v := c11Setup()
	label := c11Label
	name := t.String()
	raw := c11Raw

	got, err, nilResult := c11Decode(t, raw, false)
	accept := g.kindMiss == 0
	verifAssert(accept == (err == nil), label+": the fast decoder must accept exactly the nodes whose kind fields carry their struct's kind")
	if err != nil {
		verifAssert(nilResult, label+": an error is returned together with a node")
		verifObserve("reject")
		verifReach("end")
		return
	}
	if nilResult || got == nil {
		verifFail(label + ": nil node without an error")
		return
	}
	c11Cmp(sch, v, got, name)

	a, aerr := DecodeAny(raw)
	verifAssert(aerr == nil, label+": DecodeAny rejects a node its own decoder accepts")
	if aerr == nil {
		av, ak := c11PAny(a)
		verifAssert(ak == t, label+": DecodeAny returns a node of another Go type")
		if ak == t && av != nil {
			c11Cmp(sch, v, av, "DecodeAny:"+name)
		}
	}

	for k := KindTransaction; k <= KindDataFrame; k++ {
		if k == t {
			continue
		}
		_, err2, nil2 := c11Decode(k, raw, false)
		verifAssert(err2 != nil && nil2, label+": a node of this kind is accepted by the decoder of kind "+k.String())
	}

	if !verifSymbolic() {
		cv, cerr, _ := c11Decode(t, raw, true)
		if cerr != nil || cv == nil {
			verifFail(label + ": the schema-driven decoder rejects the bytes of the reference encoder")
			return
		}
		c11Cmp(sch, v, cv, "classic:"+name)
	}
	verifObserve("accept")
	verifReach("end")
}

// VerifC11Kinds — the kind helpers of iplddecoders that the CAR tools use to select nodes by
// kind: for an arbitrary KindSlice ks (length 0..N, arbitrary values) and arbitrary kinds,
// ks.Has(k) holds iff some element equals k, ks.HasAny(k1, k2) iff Has(k1) or Has(k2) (and
// HasAny() of nothing is false); Kind.String names the seven kinds of the ledger schema
// pairwise differently, matches the struct names of ledger.ipldsch, and never names another
// value like one of them. GetKind returns the second byte of any input of length >= 2 and an
// error below that.
func VerifC11Kinds() {
	label := "C11.kinds"
	n := verifChoice("len", verifParam("N", 3)+1)
	ks := KindSlice{}
	for i := 0; i < n; i++ {
		ks = append(ks, Kind(verifInt("ks")))
	}
	k1, k2 := Kind(verifInt("k1")), Kind(verifInt("k2"))
	cnt := func(k Kind) uint64 {
		c := uint64(0)
		for _, e := range ks {
			c += verifIteU64(e == k, 1, 0)
		}
		return c
	}
	c1, c2 := cnt(k1), cnt(k2)
	verifAssert(ks.Has(k1) == (c1 != 0), label+": KindSlice.Has differs from membership")
	verifAssert(ks.HasAny(k1, k2) == (c1+c2 != 0), label+": KindSlice.HasAny differs from membership of either kind")
	verifAssert(!ks.HasAny(), label+": KindSlice.HasAny() of no kinds is true")

	sch := c11ParseSchema(verifC11SchemaText())
	seen := map[string]bool{}
	for k := KindTransaction; k <= KindDataFrame; k++ {
		name := k.String()
		verifAssert(!seen[name], label+": two kinds share the name "+name)
		seen[name] = true
		st := sch.structs[name]
		verifAssert(st != nil && len(st.fields) > 0 && st.fields[0].name == "kind", label+": no struct with a kind field in ledger.ipldsch is named "+name)
	}
	for _, k := range []Kind{-1, 7, 8, 255, 256 + KindEpoch} {
		verifAssert(!seen[k.String()], label+": a value outside the seven kinds is named like one of them")
	}

	rl := verifChoice("rawlen", 5)
	raw := verifBytes("raw", rl)
	gk, err := GetKind(raw)
	if rl < 2 {
		verifAssert(err != nil, label+": GetKind accepts an input shorter than two bytes")
	} else {
		verifAssert(err == nil && gk == Kind(raw[1]), label+": GetKind is not the second byte")
	}
	verifReach("end")
}
