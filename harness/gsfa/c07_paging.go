//go:build verif

package gsfa

import (
	"context"

	"github.com/gagliardetto/solana-go"
)

// ---------------------------------------------------------------------------
// C07.iter — GetBeforeUntil/iterBeforeUntil return exactly the reference slice of the history:
// start just after `before` (or at the newest entry), end with `until` inclusive (or at the
// oldest entry), cut to `limit`; epochs without the address are skipped.
func VerifC07Iter() {
	w := verifC07Build(1, verifParam("max_epochs", 3), verifParam("max_entries", 2), verifParam("all_splits", 0))
	N := len(w.hist)

	// before: absent, or the signature of history entry b (1..N); only byte 0 is symbolic
	var before, until *solana.Signature
	start := uint64(0) // index of the first entry of the reference run
	if verifChoice("before", 2) == 1 {
		b := verifU8("before_id")
		verifAssume(b >= 1 && int(b) <= N)
		s := verifC07Sig(0)
		s[0] = b
		s[63] = b ^ 0x5A
		before = &s
		start = uint64(b)
	}
	end := uint64(N) // exclusive end of the reference run before the limit cut
	if verifChoice("until", 2) == 1 {
		u := verifU8("until_id")
		// any history entry (older than, equal to or newer than `before`) or, with id N+1, a signature
		// that is not in the history; the run ends with `until` only if `until` lies in the run after
		// `before`, otherwise at the oldest entry
		verifAssume(u >= 1 && int(u) <= N+1)
		s := verifC07Sig(0)
		s[0] = u
		s[63] = u ^ 0x5A
		until = &s
		inRun := verifIteU64(uint64(u) > start, verifIteU64(int(u) <= N, 1, 0), 0)
		end = verifIteU64(inRun != 0, uint64(u), uint64(N))
	}
	limit := verifInt("limit")
	verifAssume(limit >= -1 && limit <= 1<<31)

	m, err := verifC07Multi(w.readers).GetBeforeUntil(context.Background(), verifC07Pk, limit, before, until, w.fetcher("C07.iter"))
	verifAssert(err == nil, "C07.iter: GetBeforeUntil failed (an epoch without the address must be skipped)")
	got := w.flatten(m, "C07.iter")

	// reference (branch-free): count = min(limit, end-start), entries start+1, start+2, ...
	avail := end - start
	lim := verifIteU64(limit > 0, uint64(limit), 0)
	want := verifIteU64(avail < lim, avail, lim)
	verifAssert(uint64(len(got)) == want, "C07.iter: wrong number of entries (before/until/limit slice)")
	for i, e := range got {
		verifAssert(uint64(e.id) == start+uint64(i)+1, "C07.iter: entry is not the next one of the newest-first history after `before`")
	}
	verifReach("end")
}
