//go:build verif

package gsfa

// C06.real — the batch-size boundary at the REAL thresholds (itemsPerBatch 1000, 256 parked
// buffers, 100 000 accumulator keys, channel capacity 50: no overlay rewrite of a threshold).
// One address receives n transactions, n in {1, 999, 1000, 1001, 1999, 2000, 2001} (thorough:
// also 3000), a second address takes part in every 400th transaction; then Close. The real
// NewGsfaReader/Get must return all n entries of the address, each once, newest first, under
// every interleaving of the flusher (which receives 0, 1, 2 or 3 full batches of 1000 entries).

import (
	"github.com/gagliardetto/solana-go"
	"github.com/rpcpool/yellowstone-faithful/gsfa/linkedlog"
)

func VerifC06Real() {
	counts := []int{1, 999, 1000, 1001, 1999, 2000, 2001}
	if verifParam("big", 0) == 1 {
		counts = append(counts, 3000)
	}
	n := counts[verifChoice("count", len(counts))]
	dir := verifTempPath("gsfa-real")
	w := c06NewWriter(dir, 50, verifParam("eager", 1) == 1)
	keys := []solana.PublicKey{c06Key(0), c06Key(1)}
	pushed := make([][]linkedlog.OffsetAndSizeAndSlot, 2)
	symAt := n - 1 // the newest transaction has a symbolic location
	for i := 0; i < n; i++ {
		off := uint64(i + 1)
		if i == symAt {
			off = verifU64("offset")
			verifAssume(off < 1<<14)
		}
		size, slot := uint64(i%97+1), uint64(1000+i/3) // slots never a multiple of 500 times > 100 000 keys: no periodic flush
		hasMeta, isSuccess, isVote := i%4 == 0 || i%4 == 3, i%4 == 1 || i%4 == 3, i%4 == 2 || i%4 == 3
		pks := solana.PublicKeySlice{keys[0]}
		withB := i%400 == 7
		if withB {
			pks = append(pks, keys[1])
		}
		verifAssert(w.Push(off, size, slot, pks, hasMeta, isSuccess, isVote) == nil, "C06.real: Push failed")
		e := linkedlog.OffsetAndSizeAndSlot{Offset: off, Size: size, Slot: slot}
		e.Flags = linkedlog.NewBitmapFromValues(hasMeta, isSuccess, isVote)
		pushed[0] = append(pushed[0], e)
		if withB {
			pushed[1] = append(pushed[1], e)
		}
	}
	verifAssert(w.Close() == nil, "C06.real: Close failed")
	r := c06NewReader(dir)
	c06CheckGet(r, keys[0], c06Reversed(pushed[0]), "C06.real")
	c06CheckGet(r, keys[1], c06Reversed(pushed[1]), "C06.real")
	verifReach("end")
}

// C06.real-cold — the periodic partial flush at the REAL cold limit (100 pending entries) and the
// real batch size; only the number of accumulated addresses that arms it is shrunk (100 000 -> 1
// by the overlay rewrite). Address A has 99, 100 or 101 pending entries, address B one, when a
// transaction of a slot divisible by 500 arrives: A is written and removed (99) or stays
// accumulated (100, 101); afterwards both addresses receive more transactions; Close. Every
// entry must come back, once, newest first.
func VerifC06RealCold() {
	verifC06AccumLimit = 1
	pending := 99 + verifChoice("pending", 3)
	dir := verifTempPath("gsfa-real-cold")
	w := c06NewWriter(dir, 50, verifParam("eager", 1) == 1)
	keys := []solana.PublicKey{c06Key(0), c06Key(1)}
	pushed := make([][]linkedlog.OffsetAndSizeAndSlot, 2)
	total := pending + 4
	for i := 0; i < total; i++ {
		off := uint64(i + 1)
		if i == pending {
			off = verifU64("offset")
			verifAssume(off < 1<<14)
		}
		size, slot := uint64(i%97+1), uint64(1001+i)
		set := 1 // A
		switch {
		case i == pending-1:
			set = 3 // A and B: B has one pending entry
		case i == pending:
			slot = 432000 + 500*uint64(pending) // the transaction that arms the partial flush
		case i == pending+2:
			set = 2 // B only
		}
		hasMeta, isSuccess, isVote := i%4 == 0 || i%4 == 3, i%4 == 1 || i%4 == 3, i%4 == 2 || i%4 == 3
		var pks solana.PublicKeySlice
		for k := 0; k < 2; k++ {
			if set&(1<<uint(k)) != 0 {
				pks = append(pks, keys[k])
			}
		}
		verifAssert(w.Push(off, size, slot, pks, hasMeta, isSuccess, isVote) == nil, "C06.real-cold: Push failed")
		e := linkedlog.OffsetAndSizeAndSlot{Offset: off, Size: size, Slot: slot}
		e.Flags = linkedlog.NewBitmapFromValues(hasMeta, isSuccess, isVote)
		for k := 0; k < 2; k++ {
			if set&(1<<uint(k)) != 0 {
				pushed[k] = append(pushed[k], e)
			}
		}
	}
	verifAssert(w.Close() == nil, "C06.real-cold: Close failed")
	r := c06NewReader(dir)
	c06CheckGet(r, keys[0], c06Reversed(pushed[0]), "C06.real-cold")
	c06CheckGet(r, keys[1], c06Reversed(pushed[1]), "C06.real-cold")
	verifReach("end")
}
