//go:build verif

package gsfa

import (
	"bytes"
	"context"
	"errors"

	"github.com/gagliardetto/solana-go"
	"github.com/ipfs/go-cid"
	"github.com/rpcpool/yellowstone-faithful/compactindexsized"
	"github.com/rpcpool/yellowstone-faithful/gsfa/linkedlog"
	"github.com/rpcpool/yellowstone-faithful/indexes"
	"github.com/rpcpool/yellowstone-faithful/indexmeta"
	"github.com/rpcpool/yellowstone-faithful/ipld/ipldbindcode"
)

// C03.gsfa — getSignaturesForAddress never lists transactions of another address.
//
// World: 1..K epochs (readers newest first). Every epoch has a REAL linked log (real LinkedLog.Put on
// memfs, real ReadWithSize) holding the histories of two addresses A and B, and a REAL
// PubkeyToOffsetAndSize_Reader opened by the real OpenWithReader_PubkeyToOffsetAndSize over a real
// index header. The only cut is compactindexsized.DB.Lookup: the keyless-index model characterised by
// C03.lookup (inserted key -> its value; absent key -> ErrNotFound or the value of any stored entry).
// The fetcher is a table location -> transaction; every transaction knows which address it mentions.

type verifC03GTx struct {
	owner byte // 'A' or 'B'
	epoch uint64
	tx    *ipldbindcode.Transaction
}

type verifC03GKV struct{ key, val []byte }

type verifC03GIndex struct {
	entries []verifC03GKV
	memo    map[string]int
}

var (
	verifC03GIdx   = map[uint64]*verifC03GIndex{} // by epoch (metadata of the index file)
	verifC03GByOff = map[uint64]*verifC03GTx{}
	verifC03GByTx  = map[*ipldbindcode.Transaction]*verifC03GTx{}
)

type verifC03GReaderAt struct{ r *bytes.Reader }

func (v verifC03GReaderAt) ReadAt(p []byte, off int64) (int, error) { return v.r.ReadAt(p, off) }
func (v verifC03GReaderAt) Close() error                            { return nil }

func verifC03GLookup(db *compactindexsized.DB, key []byte) ([]byte, error) {
	eb, _ := db.Header.Metadata.Get(indexmeta.MetadataKey_Epoch)
	ix := verifC03GIdx[indexes.BtoUint64(eb)]
	if ix == nil {
		return nil, errors.New("verif model: unknown index")
	}
	hit, seen := ix.memo[string(key)]
	if !seen {
		hit = -2
		for i, e := range ix.entries {
			if bytes.Equal(e.key, key) {
				hit = i
			}
		}
		if hit == -2 {
			k := verifChoice("lookup", len(ix.entries)+1)
			hit = k
			if k == len(ix.entries) {
				hit = -1
			} else {
				// absent address, equal 24-bit hash: the index answers with another address's head
				verifKnownFinding("C03-S2-gsfa-address-unchecked", true)
			}
		}
		ix.memo[string(key)] = hit
	}
	if hit < 0 {
		return nil, compactindexsized.ErrNotFound
	}
	return append([]byte{}, ix.entries[hit].val...), nil
}

var (
	verifC03GA = solana.PublicKey{0xA1, 1, 2, 3}
	verifC03GB = solana.PublicKey{0xB2, 9, 8, 7}
	verifC03GX = solana.PublicKey{0xC3, 5, 5, 5} // never indexed
)

func verifC03GSig(id int) (s solana.Signature) {
	s[0], s[1], s[63] = byte(id), 0x3C, byte(id)^0xC3
	return
}

func verifC03GCid() cid.Cid {
	raw := make([]byte, 36)
	raw[0], raw[1], raw[2], raw[3] = 0x01, 0x71, 0x12, 0x20
	raw[5] = 0x77
	c, err := cid.Cast(raw)
	if err != nil {
		panic(err)
	}
	return c
}

// verifC03GBuild: shapes per epoch: 0 = A only (2 entries in two linked records), 1 = B only (1 entry),
// 2 = A (2 entries, two records) and B (1 entry), 3 = A (1 entry) and B (2 entries, one record).
func verifC03GBuild(K int) (readers []*GsfaReader, countA, countB int) {
	compactindexsized.VerifLookup = verifC03GLookup
	nums := []uint64{9, 7, 4}
	names := []string{"c03-ll-a", "c03-ll-b", "c03-ll-c"}
	id := 0
	for k := 0; k < K; k++ {
		epochNum := nums[k]
		shape := verifChoice("shape", 4)
		ll, err := linkedlog.NewLinkedLog(verifTempPath(names[k]))
		verifAssert(err == nil, "C03.gsfa setup: NewLinkedLog")
		heads := map[solana.PublicKey]indexes.OffsetAndSize{}
		put := func(pk solana.PublicKey, owner byte, n int) {
			vals := make([]*linkedlog.OffsetAndSizeAndSlot, n)
			for i := 0; i < n; i++ {
				id++
				t := &verifC03GTx{owner: owner, epoch: epochNum, tx: &ipldbindcode.Transaction{Kind: 0,
					Data: ipldbindcode.DataFrame{Data: append([]byte{1}, func() []byte { s := verifC03GSig(id); return s[:] }()...)}}}
				verifC03GByOff[uint64(100+id)] = t
				verifC03GByTx[t.tx] = t
				vals[i] = &linkedlog.OffsetAndSizeAndSlot{Offset: uint64(100 + id), Size: 1, Slot: epochNum*432000 + uint64(id)}
			}
			_, err := ll.Put(
				func(p solana.PublicKey) (indexes.OffsetAndSize, error) { return heads[p], nil },
				func(p solana.PublicKey, off uint64, ln uint32) error {
					heads[p] = indexes.OffsetAndSize{Offset: off, Size: uint64(ln)}
					return nil
				},
				linkedlog.KeyToOffsetAndSizeAndBlocktime{Key: pk, Values: vals},
			)
			verifAssert(err == nil, "C03.gsfa setup: LinkedLog.Put")
		}
		switch shape {
		case 0:
			put(verifC03GA, 'A', 1)
			put(verifC03GA, 'A', 1)
			countA += 2
		case 1:
			put(verifC03GB, 'B', 1)
			countB++
		case 2:
			put(verifC03GA, 'A', 1)
			put(verifC03GB, 'B', 1)
			put(verifC03GA, 'A', 1)
			countA += 2
			countB++
		case 3:
			put(verifC03GB, 'B', 2)
			put(verifC03GA, 'A', 1)
			countA++
			countB += 2
		}
		verifAssert(ll.Flush() == nil, "C03.gsfa setup: Flush")
		ix := &verifC03GIndex{memo: map[string]int{}}
		for _, pk := range []solana.PublicKey{verifC03GA, verifC03GB} {
			if h, ok := heads[pk]; ok {
				ix.entries = append(ix.entries, verifC03GKV{append([]byte{}, pk[:]...), h.Bytes()})
			}
		}
		verifC03GIdx[epochNum] = ix
		meta := &indexmeta.Meta{}
		meta.Add(indexmeta.MetadataKey_Epoch, indexes.Uint64tob(epochNum))
		meta.Add(indexmeta.MetadataKey_RootCid, verifC03GCid().Bytes())
		meta.Add(indexmeta.MetadataKey_Network, []byte(indexes.NetworkMainnet))
		meta.Add(indexmeta.MetadataKey_Kind, indexes.Kind_PubkeyToOffsetAndSize)
		h := &compactindexsized.Header{ValueSize: indexes.IndexValueSize_PubkeyToOffsetAndSize, NumBuckets: 1, Metadata: meta}
		offsets, err := indexes.OpenWithReader_PubkeyToOffsetAndSize(verifC03GReaderAt{bytes.NewReader(append(h.Bytes(), make([]byte, 16)...))})
		verifAssert(err == nil, "C03.gsfa setup: pubkey-to-offset-and-size index does not open")
		en := epochNum
		readers = append(readers, &GsfaReader{epoch: &en, offsets: offsets, ll: ll})
	}
	return
}

func VerifC03Gsfa() {
	K := verifParam("min_epochs", 1) + verifChoice("epochs", verifParam("max_epochs", 2)-verifParam("min_epochs", 1)+1)
	readers, countA, countB := verifC03GBuild(K)
	multi, err := NewGsfaReaderMultiepoch(readers)
	verifAssert(err == nil, "C03.gsfa setup: NewGsfaReaderMultiepoch")
	pks := []solana.PublicKey{verifC03GA, verifC03GB, verifC03GX}
	owners := []byte{'A', 'B', 'X'}
	counts := []int{countA, countB, 0}
	ctx := context.Background()
	// Request history: param "rounds" consecutive queries (independent address and API choice) on the same
	// readers; whatever a query leaves behind must not leak another address's history into the next one.
	for round := 0; round < verifParam("rounds", 1); round++ {
		qi := verifChoice("address", 3)
		pk, owner := pks[qi], owners[qi]
		fetcher := func(epochNum uint64, loc linkedlog.OffsetAndSizeAndSlot) (*ipldbindcode.Transaction, error) {
			t := verifC03GByOff[loc.Offset]
			verifAssert(t != nil, "C03.gsfa: fetcher called with a location that was never indexed")
			verifAssert(t.epoch == epochNum, "C03.gsfa: fetcher called with the wrong epoch for a location")
			return t.tx, nil
		}
		check := func(m EpochToTransactionObjects, complete bool) {
			n := 0
			for _, l := range m {
				for _, tx := range l {
					t := verifC03GByTx[tx]
					verifAssert(t != nil, "C03.gsfa: result holds a transaction the fetcher never returned")
					verifAssert(t.owner == owner, "C03.gsfa: listed transaction does not mention the requested address")
					n++
				}
			}
			if complete {
				verifAssert(n == counts[qi], "C03.gsfa: number of listed transactions differs from the address's history")
			}
		}
		switch verifChoice("api", 4) {
		case 0: // what handleGetSignaturesForAddress calls
			m, err := multi.GetBeforeUntil(ctx, pk, 100, nil, nil, fetcher)
			verifAssert(err == nil, "C03.gsfa: GetBeforeUntil failed (an epoch without the address must be skipped)")
			check(m, true)
		case 1:
			m, err := multi.Get(ctx, pk, 100, fetcher)
			if err == nil {
				check(m, true)
			} else {
				verifAssert(m == nil, "C03.gsfa: Get returned both an error and transactions")
			}
		case 3: // what the gRPC StreamTransactions account filter calls (whole slot range)
			m, err := multi.GetBeforeUntilSlot(ctx, pk, 100, 20*432000, 0, fetcher)
			verifAssert(err == nil, "C03.gsfa: GetBeforeUntilSlot failed (an epoch without the address must be skipped)")
			check(m, true)
		case 2: // single-epoch reader
			locs, err := readers[0].GetBeforeUntil(ctx, pk, 100, nil, nil, func(loc linkedlog.OffsetAndSizeAndSlot) (solana.Signature, error) {
				return solana.Signature{}, nil
			})
			if err != nil {
				verifAssert(len(locs) == 0, "C03.gsfa: single-epoch GetBeforeUntil returned both an error and locations")
			}
			for _, loc := range locs {
				t := verifC03GByOff[loc.Offset]
				verifAssert(t != nil && t.owner == owner, "C03.gsfa: single-epoch reader lists a location of another address")
			}
		}
	}
	verifReach("end")
}
