//go:build verif

package gsfa

import (
	"context"
	"errors"

	"github.com/gagliardetto/solana-go"
	"github.com/rpcpool/yellowstone-faithful/compactindexsized"
	"github.com/rpcpool/yellowstone-faithful/gsfa/linkedlog"
	"github.com/rpcpool/yellowstone-faithful/gsfa/manifest"
	"github.com/rpcpool/yellowstone-faithful/indexes"
	"github.com/rpcpool/yellowstone-faithful/indexmeta"
	"github.com/rpcpool/yellowstone-faithful/ipld/ipldbindcode"
)

// C13.gsfa.multi — the path getSignaturesForAddress takes on the server: one GsfaReader per epoch
// (real NewGsfaReader), newest epoch first, combined by the real NewGsfaReaderMultiepoch and read
// with GetBeforeUntil (JSON-RPC) / GetBeforeUntilSlot (gRPC). Two epochs hold transactions of
// address A (epoch 8: two linked records of one entry; epoch 7: one record of two entries); ONE
// file of ONE epoch directory is cut at every byte offset.
// Oracle (independent reference): the answer is the newest-first list of A's transactions
// truncated to the limit, grouped by epoch - or an error (at open or at query). Never a shorter
// list, never an epoch silently skipped.
//
// Shares the cuts and image helpers of c13_gsfa.go; the transaction fetcher (the CAR) is a table.

type verifC13Tx struct {
	epoch uint64
	loc   linkedlog.OffsetAndSizeAndSlot
	tx    *ipldbindcode.Transaction
}

func verifC13Sig(id uint64) solana.Signature {
	var s solana.Signature
	s[0], s[1], s[63] = byte(id), 0xA5, byte(id*3+1)
	return s
}

// verifC13BuildEpochDir writes a gsfa directory for one epoch: address A gets the records given by
// countsA (oldest first), address B one record of one entry. Returns A's transactions newest first.
func verifC13BuildEpochDir(dir string, epoch uint64, countsA []int, hA, hB uint64, idBase uint64) []*verifC13Tx {
	pkA, pkB := verifC13Pk(1), verifC13Pk(2)
	ll, err := linkedlog.NewLinkedLog(dir + "/linked-log")
	verifAssert(err == nil, "C13.gsfa.multi: NewLinkedLog failed")
	heads := map[solana.PublicKey]indexes.OffsetAndSize{}
	id := idBase
	var txsA []*verifC13Tx
	put := func(pk solana.PublicKey, n int) {
		vals := make([]*linkedlog.OffsetAndSizeAndSlot, n)
		for i := range vals {
			id++
			vals[i] = &linkedlog.OffsetAndSizeAndSlot{Offset: 100 + id, Size: 9, Slot: epoch*432000 + id}
			if pk == pkA {
				sig := verifC13Sig(id)
				t := &verifC13Tx{epoch: epoch, loc: *vals[i], tx: &ipldbindcode.Transaction{Slot: int(vals[i].Slot),
					Data: ipldbindcode.DataFrame{Data: append([]byte{1}, sig[:]...)}}}
				txsA = append([]*verifC13Tx{t}, txsA...) // newest first
			}
		}
		_, err := ll.Put(
			func(p solana.PublicKey) (indexes.OffsetAndSize, error) { return heads[p], nil },
			func(p solana.PublicKey, off uint64, ln uint32) error {
				heads[p] = indexes.OffsetAndSize{Offset: off, Size: uint64(ln)}
				return nil
			},
			linkedlog.KeyToOffsetAndSizeAndBlocktime{Key: pk, Values: vals},
		)
		verifAssert(err == nil, "C13.gsfa.multi: LinkedLog.Put failed")
	}
	for i, c := range countsA {
		put(pkA, c)
		if i == 0 {
			put(pkB, 1)
		}
	}
	verifAssert(ll.Close() == nil, "C13.gsfa.multi: LinkedLog.Close failed")
	var meta indexmeta.Meta
	meta.AddUint64(indexmeta.MetadataKey_Epoch, epoch)
	man, err := manifest.NewManifest(dir+"/manifest", meta)
	verifAssert(err == nil && man.Close() == nil, "C13.gsfa.multi: NewManifest failed")
	verifMemFile(dir+"/"+string(indexes.Kind_PubkeyToOffsetAndSize)+".index", verifC13IndexImageH(epoch, hA, hB, heads[pkA], heads[pkB]))
	return txsA
}

// verifC13IndexImageH: as verifC13IndexImage (c13_gsfa.go) with given hashes and epoch.
func verifC13IndexImageH(epoch uint64, hA, hB uint64, headA, headB indexes.OffsetAndSize) []byte {
	meta := &indexmeta.Meta{}
	meta.Add(indexmeta.MetadataKey_Epoch, indexes.Uint64tob(epoch))
	meta.Add(indexmeta.MetadataKey_RootCid, verifC13RootCid().Bytes())
	meta.Add(indexmeta.MetadataKey_Network, []byte(indexes.NetworkMainnet))
	meta.Add(indexmeta.MetadataKey_Kind, indexes.Kind_PubkeyToOffsetAndSize)
	h := &compactindexsized.Header{ValueSize: indexes.IndexValueSize_PubkeyToOffsetAndSize, NumBuckets: 1, Metadata: meta}
	img := h.Bytes()
	const mask = uint64(1)<<24 - 1
	var hb [16]byte
	bh := compactindexsized.BucketHeader{HashDomain: 3, NumEntries: 2, HashLen: 3, FileOffset: uint64(len(img) + 16)}
	bh.Store(&hb)
	img = append(img, hb[:]...)
	entry := func(hash uint64, v indexes.OffsetAndSize) {
		var e [3]byte
		verifC13Put3(e[:], hash&mask)
		img = append(img, e[:]...)
		img = append(img, v.Bytes()...)
	}
	entry(hB, headB) // eytzinger order of two sorted entries: [larger, smaller]
	entry(hA, headA)
	return img
}

func VerifC13GsfaMulti() {
	compactindexsized.VerifEntryHash = func(prefix uint32, key []byte) uint64 { return verifC13Hash[key[0]] }
	compactindexsized.VerifBucketHash = func(key []byte) uint { return 0 }
	const mask = uint64(1)<<24 - 1
	hA, hB := verifU64("hashA"), verifU64("hashB")
	verifAssume(hA&mask < hB&mask)
	verifC13Hash[1], verifC13Hash[2] = hA, hB
	pkA := verifC13Pk(1)

	epochs := []uint64{8, 7} // newest first, the order the server hands the readers over
	dirs := []string{"/memfs/c13-multi-8", "/memfs/c13-multi-7"}
	counts := [][]int{{1, 1}, {2}}
	var all []*verifC13Tx // reference: A's transactions, newest first across epochs
	for i := range epochs {
		all = append(all, verifC13BuildEpochDir(dirs[i], epochs[i], counts[i], hA, hB, uint64(10*i))...)
	}
	fetcher := func(epoch uint64, loc linkedlog.OffsetAndSizeAndSlot) (*ipldbindcode.Transaction, error) {
		for _, t := range all {
			if t.epoch == epoch && t.loc == loc {
				return t.tx, nil
			}
		}
		return nil, errors.New("verif: no transaction at this location")
	}
	names := []string{"/" + string(indexes.Kind_PubkeyToOffsetAndSize) + ".index", "/linked-log", "/manifest"}

	limits := []int{10, 3, 1}
	limit := limits[verifChoice("limit", verifParam("limits", 1))]
	api := verifChoice("api", verifParam("apis", 1)) // 0 GetBeforeUntil, 1 GetBeforeUntilSlot
	ctx := context.Background()
	query := func(rs []*GsfaReader) (EpochToTransactionObjects, error) {
		multi, err := NewGsfaReaderMultiepoch(rs)
		verifAssert(err == nil, "C13.gsfa.multi: NewGsfaReaderMultiepoch failed")
		if api == 0 {
			return multi.GetBeforeUntil(ctx, pkA, limit, nil, nil, fetcher)
		}
		return multi.GetBeforeUntilSlot(ctx, pkA, limit, 9*432000, 0, fetcher)
	}
	// reference answer
	check := func(got EpochToTransactionObjects, label string) {
		n := len(all)
		if n > limit {
			n = limit
		}
		verifAssert(got.Count() == n, label+": wrong number of transactions")
		pos := map[uint64]int{}
		for i := 0; i < n; i++ {
			e := all[i].epoch
			ok := pos[e] < len(got[e]) && got[e][pos[e]] == all[i].tx
			verifAssert(ok, label+": transactions differ from the newest-first reference list")
			pos[e]++
		}
	}
	open := func(paths []string) ([]*GsfaReader, error) {
		var rs []*GsfaReader
		for i, d := range paths {
			r, err := NewGsfaReader(d)
			if err != nil {
				return nil, err
			}
			r.SetEpoch(epochs[i])
			rs = append(rs, r)
		}
		return rs, nil
	}
	full, err := open(dirs)
	verifAssert(err == nil, "C13.gsfa.multi: the complete directories do not open")
	want, err := query(full)
	verifAssert(err == nil, "C13.gsfa.multi: the complete directories do not answer")
	check(want, "C13.gsfa.multi: complete directories")

	// cut one file of one epoch
	ce := verifChoice("cut_epoch", verifParam("cutEpochs", 2))
	sel := verifChoice("file", 3)
	raw := verifMemFileBytes(dirs[ce] + names[sel])
	T := verifChoice("T", len(raw))
	cutDir := "/memfs/c13-multi-cut"
	for i, nme := range names {
		b := verifMemFileBytes(dirs[ce] + nme)
		if i == sel {
			b = b[:T]
		}
		verifMemFile(cutDir+nme, b)
	}
	paths := []string{dirs[0], dirs[1]}
	paths[ce] = cutDir
	rs, err := open(paths)
	if err != nil {
		verifReach("open-error")
		verifReach("end")
		return
	}
	got, err := query(rs)
	if err != nil {
		verifAssert(!errors.Is(err, compactindexsized.ErrNotFound), "C13.gsfa.multi: a truncated epoch is reported as 'not found'")
		verifReach("query-error")
	} else {
		check(got, "C13.gsfa.multi: truncated directory")
		verifReach("query-same")
	}
	verifReach("end")
}
