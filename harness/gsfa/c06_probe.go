//go:build verif

package gsfa

import (
	"github.com/gagliardetto/solana-go"
	"github.com/rpcpool/yellowstone-faithful/gsfa/linkedlog"
	"github.com/tidwall/hashmap"
)

func VerifC06Probe() {
	m := hashmap.New[solana.PublicKey, [2]uint64](8)
	var a, b solana.PublicKey
	a[0] = 1
	b[0] = 2
	m.Set(a, [2]uint64{1, 2})
	m.Set(b, [2]uint64{3, 4})
	v, ok := m.Get(a)
	verifAssert(ok && v[0] == 1, "probe: get")
	ks := solana.PublicKeySlice(m.Keys())
	ks.Sort()
	verifAssert(len(ks) == 2 && ks[0] == a, "probe: keys")
	m2 := hashmap.New[solana.PublicKey, []*linkedlog.OffsetAndSizeAndSlot](8)
	m2.Set(a, nil)
	r := newRollingRankOfTopPerformers(10)
	r.Incr(a, 1)
	verifAssert(r.has(a) && !r.has(b), "probe: rank")
	verifReach("end")
}
