//go:build verif

package gsfa

// Shared parts of the C06 harnesses of package gsfa: the models of the callees that are cut
// (compactindexsized = exact key/value table, manifest) and the construction of writer and
// reader around them.

import (
	"bytes"
	"context"
	"errors"
	"os"
	"sync"
	"sync/atomic"
	"time"

	"github.com/gagliardetto/solana-go"
	"github.com/ipfs/go-cid"
	"github.com/rpcpool/yellowstone-faithful/compactindexsized"
	"github.com/rpcpool/yellowstone-faithful/gsfa/linkedlog"
	"github.com/rpcpool/yellowstone-faithful/gsfa/manifest"
	"github.com/rpcpool/yellowstone-faithful/indexes"
	"github.com/rpcpool/yellowstone-faithful/indexmeta"
)

// ---------------------------------------------------------------------------------------------
// cut: compactindexsized.Builder / DB as an exact table (C04 decides the real index).
// Seal fails if a key was inserted twice ("Index generation will fail if the same key is
// inserted twice"), Lookup before Seal finds nothing.

var (
	c06IdxKeys   [][]byte
	c06IdxVals   [][]byte
	c06IdxSealed bool
	c06IdxFile   string // name of the file the index was sealed into
	c06NotFound  = errors.New("not found (index table model)")
)

func c06Model_BuilderInsert(b *compactindexsized.Builder, key []byte, value []byte) error {
	if len(value) != indexes.IndexValueSize_PubkeyToOffsetAndSize {
		return errors.New("index table model: value has not the declared size")
	}
	c06IdxKeys = append(c06IdxKeys, append([]byte{}, key...))
	c06IdxVals = append(c06IdxVals, append([]byte{}, value...))
	return nil
}

func c06SameKey(a, b []byte) bool {
	if len(a) != len(b) {
		return false
	}
	for i := range a {
		if a[i] != b[i] {
			return false
		}
	}
	return true
}

func c06Model_BuilderSeal(b *compactindexsized.Builder, ctx context.Context, f *os.File) error {
	for i := range c06IdxKeys {
		for j := 0; j < i; j++ {
			if c06SameKey(c06IdxKeys[i], c06IdxKeys[j]) {
				return errors.New("index table model: the same key was inserted twice")
			}
		}
	}
	c06IdxSealed = true
	if f != nil {
		c06IdxFile = f.Name()
	}
	return nil
}

func c06Model_BuilderClose(b *compactindexsized.Builder) error { return nil }

func c06Model_DBLookup(db *compactindexsized.DB, key []byte) ([]byte, error) {
	if c06IdxSealed {
		for i := range c06IdxKeys {
			if c06SameKey(c06IdxKeys[i], key) {
				return append([]byte{}, c06IdxVals[i]...), nil
			}
		}
	}
	return nil, c06NotFound
}

func c06Model_IsNotFound(err error) bool { return errors.Is(err, c06NotFound) }

func c06Model_ManifestClose(m *manifest.Manifest) error { return nil }

// ---------------------------------------------------------------------------------------------
// solana-go is not a source root (its package initialisation is not interpretable); the three
// methods the writer uses are re-stated here (sort.Sort by bytes.Compare = any sorting algorithm).

func c06Model_PKSort(slice solana.PublicKeySlice) {
	for i := 1; i < len(slice); i++ {
		for j := i; j > 0 && bytes.Compare(slice[j][:], slice[j-1][:]) < 0; j-- {
			slice[j], slice[j-1] = slice[j-1], slice[j]
		}
	}
}

func c06Model_PKDedupe(slice solana.PublicKeySlice) solana.PublicKeySlice {
	c06Model_PKSort(slice)
	deduped := make(solana.PublicKeySlice, 0)
	for i := 0; i < len(slice); i++ {
		if i == 0 || slice[i] != slice[i-1] {
			deduped = append(deduped, slice[i])
		}
	}
	return deduped
}

func c06Model_PKBytes(p solana.PublicKey) []byte { return []byte(p[:]) }

// ---------------------------------------------------------------------------------------------
// thresholds of gsfa-write.go, turned into variables by overlay rewrites (see the registry):
//   const itemsPerBatch = 1000                  -> var itemsPerBatch = 1000
//   howManyBuffersToFlushConcurrently := 256    -> := verifC06Parked
//   a.accum.Len() > 100_000                     -> a.accum.Len() > verifC06AccumLimit
//   time.After(1 * time.Second)                 -> verifC06Timer(a.exiting, a.fullBufferWriterChan)
//   len(values) < 100   (C06.partial only)      -> len(values) < verifC06ColdLimit
//   make(chan ..., 50)                          -> make(chan ..., verifC06ChanCap)
//   int(1_000_000) (hashmap capacities)         -> int(8)   (optional, interpreter speed only)

var (
	verifC06Parked     = 256
	verifC06AccumLimit = 100_000
	verifC06ColdLimit  = 100 // "cold" addresses: fewer pending entries than this are written by the periodic partial flush
)

// verifC06Timer is an engine intrinsic under symgo (ext_C06.go); natively a short timer.
func verifC06Timer(exiting *atomic.Bool, ch chan linkedlog.KeyToOffsetAndSizeAndBlocktime) <-chan time.Time {
	return time.After(5 * time.Millisecond)
}

// verifC06QuietMutex is an engine intrinsic (ext_C06.go): Lock/Unlock of mu are not scheduling
// points. Used for GsfaWriter.mu (only the pushing goroutine ever takes it) to keep the schedule
// space small; natively a no-op.
func verifC06QuietMutex(mu *sync.Mutex) {}

// verifC06RunOthers is an engine intrinsic (ext_C06.go): the caller waits until every other
// goroutine is blocked; natively a short sleep.
func verifC06RunOthers() { time.Sleep(2 * time.Millisecond) }

// ---------------------------------------------------------------------------------------------

// c06InitOS: package os is not a source root, so its sentinel os.ErrNotExist has no value under
// symgo; NewGsfaWriter compares against it. It is given the not-exist error of the file model.
func c06InitOS() {
	verifC06MkDir("/memfs")
	if os.ErrNotExist == nil {
		_, err := os.Stat("/memfs/c06-no-such-file")
		os.ErrNotExist = err
	}
}

// verifC06MkDir is an engine intrinsic (ext_C06.go): registers a directory of the file model
// (which knows files only) and makes os.Stat / os.MkdirAll directory-aware, so that the real
// gsfa.isDir runs; natively the directory is created.
func verifC06MkDir(path string) { os.MkdirAll(path, 0o755) }

// cuts: manifest and creation / opening of the pubkey index (metadata and file format are
// C10 / C04); the table model of c06_common.go stands behind Builder and DB.
func c06Model_NewManifest(filename string, meta indexmeta.Meta) (*manifest.Manifest, error) {
	// like the real one: a missing manifest file is created with a header
	if _, err := os.Stat(filename); err != nil {
		if err := os.WriteFile(filename, []byte("gsfamnfs-header-model"), 0o644); err != nil {
			return nil, err
		}
	}
	return &manifest.Manifest{}, nil
}

func c06Model_NewIndexWriter(epoch uint64, rootCid cid.Cid, network indexes.Network, tmpDir string) (*indexes.PubkeyToOffsetAndSize_Writer, error) {
	return &indexes.PubkeyToOffsetAndSize_Writer{}, nil
}

func c06Model_OpenIndexReader(reader indexes.ReaderAtCloser) (*indexes.PubkeyToOffsetAndSize_Reader, error) {
	f, ok := reader.(*os.File)
	if !ok || !c06IdxSealed || f.Name() != c06IdxFile {
		return nil, errors.New("index table model: this is not the file the index was sealed into")
	}
	return &indexes.PubkeyToOffsetAndSize_Reader{}, nil
}

func c06Model_IndexReaderClose(r *indexes.PubkeyToOffsetAndSize_Reader) error { return nil }

// c06NewWriter: the real NewGsfaWriter on a fresh directory (cuts above), with the capacity of
// the hand-over channel set through the overlay rewrite of its literal. GsfaWriter.mu is declared
// goroutine-local; with eager the flusher runs its prologue before the caller continues.
var verifC06ChanCap = 50

func c06NewWriter(dir string, chanCap int, eager bool) *GsfaWriter {
	c06InitOS()
	verifC06ChanCap = chanCap
	w, err := NewGsfaWriter(dir, indexmeta.Meta{}, 7, cid.Cid{}, indexes.NetworkMainnet, dir+"-tmp")
	verifAssert(err == nil && w != nil, "C06: NewGsfaWriter failed")
	verifC06QuietMutex(&w.mu)
	if eager {
		// eager (quick tiers, the *-deep obligations, the sequential C06.chain*): the flusher runs
		// its prologue (no shared effect: it reads exiting, which is still false, and blocks in its
		// select) before the first Push. All later timings are still explored; the thorough tiers
		// of C06.flusher / C06.accum / C06.partial do not apply this reduction.
		verifC06RunOthers()
	}
	return w
}

// c06NewReader: the real NewGsfaReader on the directory the writer produced.
func c06NewReader(dir string) *GsfaReader {
	r, err := NewGsfaReader(dir)
	verifAssert(err == nil && r != nil, "C06: NewGsfaReader cannot open the directory that NewGsfaWriter/Close produced")
	return r
}

func c06Key(i int) solana.PublicKey {
	var pk solana.PublicKey
	// not sorted like their numbering, and equal in the first byte
	pk[0] = 9
	pk[1] = byte(200 - 7*i)
	pk[31] = byte(i + 1)
	return pk
}

// c06CheckGet: reading key pk returns exactly want (already newest first).
func c06CheckGet(r *GsfaReader, pk solana.PublicKey, want []linkedlog.OffsetAndSizeAndSlot, tag string) {
	got, err := r.Get(context.Background(), pk, 1_000_000)
	if len(want) == 0 {
		verifAssert(err != nil && len(got) == 0, tag+": an address that was never indexed is found")
		return
	}
	verifAssert(err == nil, tag+": Get fails for an indexed address")
	verifAssert(len(got) == len(want), tag+": Get returns a different number of transactions than were indexed for the address (lost or duplicated)")
	for i := range got {
		verifAssert(got[i] == want[i], tag+": Get returns a wrong location/slot/flags or not in newest-first order")
	}
}

// c06SymEntry: offset and flags symbolic (offset < 2^bits), size = a concrete serial number
// that makes every entry of a history distinct; slot symbolic (< 2^bits) if symSlot, else a
// concrete value derived from the serial number.
var c06Serial uint64

func c06SymEntry(bits uint, symSlot bool) *linkedlog.OffsetAndSizeAndSlot {
	o, f := verifU64("offset"), verifU8("flags")
	verifAssume(o < 1<<bits) // one assume per field: `&&` on symbolic operands would fork
	c06Serial++
	l := (c06Serial * 37) % 128
	if symSlot {
		l = verifU64("slot")
		verifAssume(l < 1<<bits)
	}
	return &linkedlog.OffsetAndSizeAndSlot{Offset: o, Size: c06Serial, Slot: l, Flags: linkedlog.Bitmap(f)}
}

func c06Reversed(in []linkedlog.OffsetAndSizeAndSlot) []linkedlog.OffsetAndSizeAndSlot {
	out := make([]linkedlog.OffsetAndSizeAndSlot, len(in))
	for i := range in {
		out[len(in)-1-i] = in[i]
	}
	return out
}

