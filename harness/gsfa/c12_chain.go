//go:build verif

package gsfa

import (
	"context"
	"errors"

	"github.com/gagliardetto/solana-go"
	"github.com/rpcpool/yellowstone-faithful/gsfa/linkedlog"
	"github.com/rpcpool/yellowstone-faithful/indexes"
)

// C12.gsfa.chain — GsfaReader.Get / GetBeforeUntil on an address-index log and a head pointer
// that come from a third party: the walk over the "previous record" pointers returns entries or
// an error; it does not panic and it does not loop forever: the number of records it reads is
// bounded by the number of records the log can hold.
//
// The log holds two records (0 or 1 entry each, entry bytes symbolic) whose previous-pointers
// and the head pointer are structure-aware candidates: none, record 0, record 1, record 0 with
// a wrong size, beyond the end of the file. Real code: GsfaReader.Get/GetBeforeUntil,
// LinkedLog.ReadWithSize, the entry decoders, OffsetAndSize.FromBytes.
// Cut: PubkeyToOffsetAndSize_Reader.Get (the compact index, C12.cidx.*) returns the head pointer;
// zstd = identity. Termination monitor: an overlay rewrite calls verifC12Lap(...) before every
// ReadWithSize of the two walks (see verifC12Lap).

var (
	verifC12Head    *indexes.OffsetAndSize
	verifC12Laps    int
	verifC12MaxLaps int
)

func c12Model_pubkeyGet(r *indexes.PubkeyToOffsetAndSize_Reader, pk solana.PublicKey) (*indexes.OffsetAndSize, error) {
	if verifC12Head == nil {
		return nil, errors.New("not found (model)")
	}
	h := *verifC12Head
	return &h, nil
}

// verifC12Lap is called (overlay rewrite) at the top of every lap of the two walks with the
// pointer about to be read and the number of entries collected so far. The only other loop
// state is the monotone flag reachedBefore (it flips at most once), so a third lap in the same
// (pointer, collected) state proves that two laps started in the same full state: the walk is
// deterministic and will never end.
func verifC12Lap(off, size uint64, collected int) {
	verifC12Laps++
	n := 0
	for _, v := range verifC12Visited {
		if v == [3]uint64{off, size, uint64(collected)} {
			n++
		}
	}
	verifC12Visited = append(verifC12Visited, [3]uint64{off, size, uint64(collected)})
	// known defect (C12-gsfa-chain-cycle): cyclic previous-pointers are followed forever
	verifKnownFinding("C12-gsfa-chain-cycle", n >= 2)
	verifAssert(n < 2, "C12.gsfa.chain: the walk is in the same state (record pointer, entries collected) for the third time: previous-pointers form a cycle and the loop never ends")
	verifAssert(verifC12Laps <= verifC12MaxLaps, "C12.gsfa.chain: more laps than pointer/progress states exist")
}

var verifC12Visited [][3]uint64

func VerifC12GsfaChain() {
	// record i: uvarint(payload length) | entries | previous pointer (6+3 bytes)
	var recOff, recLen [2]uint64
	var ptrPos [2]int
	var file []byte
	var nEntries [2]int
	for i := 0; i < 2; i++ {
		nEntries[i] = verifChoice("entries", 2+i) // record 0: 0..1 entries, record 1: 0..2
		recOff[i] = uint64(len(file))
		body := verifBytes("entry", 4*nEntries[i])
		for _, b := range body[:len(body)] {
			verifAssume(b < 0x80) // single-byte uvarints (long ones are C12.linkedlog.varint)
		}
		file = append(file, byte(len(body)+9))
		file = append(file, body...)
		ptrPos[i] = len(file)
		file = append(file, make([]byte, 9)...)
		recLen[i] = uint64(len(file)) - recOff[i]
	}
	type ptr struct{ off, size uint64 }
	cands := []ptr{{0, 0}, {recOff[0], recLen[0]}, {recOff[1], recLen[1]}, {recOff[0], recLen[0] + 1}, {uint64(len(file)) + 1, 10}}
	var nxt [2]int
	for i := 0; i < 2; i++ {
		nxt[i] = verifChoice("prev", len(cands))
		c := cands[nxt[i]]
		copy(file[ptrPos[i]:], indexes.OffsetAndSize{Offset: c.off, Size: c.size}.Bytes())
	}
	hd := verifChoice("head", len(cands))
	verifC12Head = &indexes.OffsetAndSize{Offset: cands[hd].off, Size: cands[hd].size}

	dir := verifTempPath("gsfa")
	verifMemFile(dir+"/linked-log", file)
	ll, err := linkedlog.NewLinkedLog(dir + "/linked-log")
	verifAssert(err == nil, "C12.gsfa.chain: NewLinkedLog failed")
	rd := &GsfaReader{offsets: &indexes.PubkeyToOffsetAndSize_Reader{}, ll: ll}

	verifC12Laps = 0
	verifC12Visited = nil
	verifC12MaxLaps = 64
	var pk solana.PublicKey
	pk[0] = 1
	limit := 1 + 2*verifChoice("limit", 2) // 1 or 3
	if verifChoice("api", 2) == 0 {
		out, err := rd.Get(context.Background(), pk, limit)
		if err != nil {
			verifAssert(out == nil, "C12.gsfa.chain: Get returned entries together with an error")
			verifReach("get-error")
		} else {
			verifAssert(len(out) <= limit, "C12.gsfa.chain: Get returned more entries than the limit")
			verifReach("get-ok")
		}
	} else {
		var before *solana.Signature
		if verifChoice("before", 2) == 1 {
			before = &solana.Signature{0xee} // a signature no entry has
		}
		fetch := func(e linkedlog.OffsetAndSizeAndSlot) (solana.Signature, error) {
			var s solana.Signature
			s[0] = byte(e.Offset) // < 0x80
			s[1] = 1
			return s, nil
		}
		out, err := rd.GetBeforeUntil(context.Background(), pk, limit, before, nil, fetch)
		if err != nil {
			verifAssert(out == nil, "C12.gsfa.chain: GetBeforeUntil returned entries together with an error")
			verifReach("gbu-error")
		} else {
			verifAssert(len(out) <= limit, "C12.gsfa.chain: GetBeforeUntil returned more entries than the limit")
			verifReach("gbu-ok")
		}
	}
	verifReach("end")
}
