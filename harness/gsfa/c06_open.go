//go:build verif

package gsfa

// C06.open — the public life cycle of an index directory: the real NewGsfaWriter (directory
// check, field initialisation, linked-log file, start of the flusher goroutine), real Push,
// real Close (head pointers, SealWithFilename of the pubkey index, closing of the files), then
// the real NewGsfaReader on the same directory (opens the pubkey index and the linked log by
// name) and the real Get. What the writer leaves in the directory must be what the reader
// opens: every pushed entry of every address comes back, each once, newest first; an address
// that was never pushed is not found.

import (
	"github.com/gagliardetto/solana-go"
	"github.com/ipfs/go-cid"
	"github.com/rpcpool/yellowstone-faithful/gsfa/linkedlog"
	"github.com/rpcpool/yellowstone-faithful/indexes"
	"github.com/rpcpool/yellowstone-faithful/indexmeta"
)

func VerifC06Open() {
	c06InitOS()
	dir := verifTempPath("gsfa-open")
	if verifChoice("dir", 2) == 1 {
		verifC06MkDir(dir) // the directory exists already
	}
	w, err := NewGsfaWriter(dir, indexmeta.Meta{}, 7, cid.Cid{}, indexes.NetworkMainnet, verifTempPath("gsfa-open-tmp"))
	verifAssert(err == nil && w != nil, "C06.open: NewGsfaWriter failed")
	verifC06QuietMutex(&w.mu)
	if verifParam("eager", 0) == 1 {
		verifC06RunOthers()
	}

	nAddr := 2
	n := 1 + verifChoice("pushes", verifParam("pushes", 3))
	keys := []solana.PublicKey{c06Key(0), c06Key(1)}
	pushed := make([][]linkedlog.OffsetAndSizeAndSlot, nAddr)
	for i := 0; i < n; i++ {
		set := 1 + verifChoice("addresses", 3)
		off := verifU64("offset")
		verifAssume(off < 1<<7)
		size, slot := uint64(i+1), uint64(1000+i)
		// one flag per push in turn, then all three: every flag is both set and clear within two
		// pushes and no two flags are correlated
		hasMeta, isSuccess, isVote := i%4 == 0 || i%4 == 3, i%4 == 1 || i%4 == 3, i%4 == 2 || i%4 == 3
		if i == 0 && verifParam("symflags", 1) == 1 {
			// the first transaction carries arbitrary flags
			hasMeta, isSuccess, isVote = verifBool("hasMeta"), verifBool("isSuccess"), verifBool("isVote")
		}
		var pks solana.PublicKeySlice
		for k := 0; k < nAddr; k++ {
			if set&(1<<uint(k)) != 0 {
				pks = append(pks, keys[k])
			}
		}
		verifAssert(w.Push(off, size, slot, pks, hasMeta, isSuccess, isVote) == nil, "C06.open: Push failed")
		e := linkedlog.OffsetAndSizeAndSlot{Offset: off, Size: size, Slot: slot}
		e.Flags = linkedlog.NewBitmapFromValues(hasMeta, isSuccess, isVote)
		for k := 0; k < nAddr; k++ {
			if set&(1<<uint(k)) != 0 {
				pushed[k] = append(pushed[k], e)
			}
		}
	}
	verifAssert(w.Close() == nil, "C06.open: Close failed")

	r, err := NewGsfaReader(dir)
	if err != nil {
		verifTrace("NewGsfaReader", err.Error())
	}
	verifAssert(err == nil && r != nil, "C06.open: NewGsfaReader cannot open the directory that NewGsfaWriter/Close produced")
	for k := 0; k < nAddr; k++ {
		c06CheckGet(r, keys[k], c06Reversed(pushed[k]), "C06.open")
	}
	c06CheckGet(r, c06Key(7), nil, "C06.open")
	verifAssert(r.Close() == nil, "C06.open: closing the reader failed")
	// a directory that does not exist cannot be opened for reading
	r2, err := NewGsfaReader(verifTempPath("gsfa-absent"))
	verifAssert(err != nil && r2 == nil, "C06.open: NewGsfaReader opens a directory that does not exist")
	verifReach("end")
}
