//go:build verif

package gsfa

import (
	"context"

	"github.com/gagliardetto/solana-go"
	"github.com/rpcpool/yellowstone-faithful/gsfa/linkedlog"
)

// ---------------------------------------------------------------------------
// C07.single — the single-epoch reader (*GsfaReader).GetBeforeUntil (gsfa-read.go, same paging
// contract on one epoch's list; it returns locations instead of transactions).
func VerifC07Single() {
	w := verifC07Build(1, 1, verifParam("max_entries", 4), 1)
	N := len(w.hist)
	verifAssume(N >= 1) // an address that is not indexed is reported as an error by this reader
	var before, until *solana.Signature
	start := uint64(0)
	if verifChoice("before", 2) == 1 {
		b := verifU8("before_id")
		verifAssume(b >= 1 && int(b) <= N)
		s := verifC07Sig(0)
		s[0] = b
		s[63] = b ^ 0x5A
		before = &s
		start = uint64(b)
	}
	end := uint64(N)
	if verifChoice("until", 2) == 1 {
		u := verifU8("until_id")
		// any history entry (older than, equal to or newer than `before`) or, with id N+1, a signature
		// that is not in the history; the run ends with `until` only if `until` lies in the run after
		// `before`, otherwise at the oldest entry
		verifAssume(u >= 1 && int(u) <= N+1)
		s := verifC07Sig(0)
		s[0] = u
		s[63] = u ^ 0x5A
		until = &s
		inRun := verifIteU64(uint64(u) > start, verifIteU64(int(u) <= N, 1, 0), 0)
		end = verifIteU64(inRun != 0, uint64(u), uint64(N))
	}
	limit := verifInt("limit")
	verifAssume(limit >= -1 && limit <= 1<<31)
	locs, err := w.readers[0].GetBeforeUntil(context.Background(), verifC07Pk, limit, before, until,
		func(loc linkedlog.OffsetAndSizeAndSlot) (solana.Signature, error) {
			e := w.byOff[loc.Offset]
			verifAssert(e != nil, "C07.single: fetcher called with a location that was never indexed")
			return verifC07Sig(e.id), nil
		})
	verifAssert(err == nil, "C07.single: GetBeforeUntil failed")
	avail := end - start
	lim := verifIteU64(limit > 0, uint64(limit), 0)
	want := verifIteU64(avail < lim, avail, lim)
	verifAssert(uint64(len(locs)) == want, "C07.single: wrong number of entries (before/until/limit slice)")
	for i, loc := range locs {
		verifAssert(loc.Offset == 100+start+uint64(i)+1, "C07.single: entry is not the next one of the newest-first history after `before`")
	}
	verifReach("end")
}
